"""
audit.py - proof audit (DESIGN §6): the registered theorems of a property must build from the files on disk,
contain no sorry/axiom/native_decide/..., and depend on no axiom beyond propext, Classical.choice, Quot.sound.
"""
import os, re, json, time
from core import LEAN, run, lake_build

ACCEPTED_AXIOMS = {"propext", "Classical.choice", "Quot.sound"}
FORBIDDEN = re.compile(r"\bsorry\b|\badmit\b|^\s*axiom\s|native_decide|bv_decide|implemented_by|\bunsafe\s|maxHeartbeats\s+0\b")


def registry():
    with open(os.path.join(LEAN, "theorems.json")) as f:
        return json.load(f)


def strip_comments(src):
    # remove /- ... -/ (nested) and -- ... comments
    res, i, depth = [], 0, 0
    while i < len(src):
        if src.startswith("/-", i):
            depth += 1; i += 2; continue
        if depth and src.startswith("-/", i):
            depth -= 1; i += 2; continue
        if depth:
            if src[i] == "\n":
                res.append("\n")
            i += 1; continue
        if src.startswith("--", i):
            while i < len(src) and src[i] != "\n":
                i += 1
            continue
        res.append(src[i]); i += 1
    return "".join(res)


def project_files():
    """the .lean files of the build: everything reachable by imports from the three roots"""
    seen, todo = set(), ["Prtpy", "PrtpyProofs", "Driver"]
    while todo:
        m = todo.pop()
        if m in seen:
            continue
        path = os.path.join(LEAN, *m.split(".")) + ".lean"
        if not os.path.exists(path):
            continue
        seen.add(m)
        for line in strip_comments(open(path).read()).splitlines():
            mm = re.match(r"\s*import\s+((?:Prtpy|PrtpyProofs)[\w.]*)", line)
            if mm:
                todo.append(mm.group(1))
    return sorted(os.path.join(LEAN, *m.split(".")) + ".lean" for m in seen)


def grep_forbidden():
    hits = []
    for p in project_files():
        for ln, line in enumerate(strip_comments(open(p).read()).splitlines(), 1):
            if FORBIDDEN.search(line):
                hits.append(f"{os.path.relpath(p, LEAN)}:{ln}: {line.strip()[:120]}")
    return hits


def leanchecker():
    """thorough tier: re-check every compiled proof module with the toolchain's independent checker (cached per build)"""
    mods = [m for m in re.findall(r"^import (PrtpyProofs\.\S+)", open(os.path.join(LEAN, "PrtpyProofs.lean")).read(), flags=re.M)]
    lib = os.path.join(LEAN, ".lake", "build", "lib", "lean", "PrtpyProofs")
    stamp = sorted((f, os.path.getmtime(os.path.join(lib, f))) for f in os.listdir(lib) if f.endswith(".olean")) if os.path.isdir(lib) else []
    cache = os.path.join(LEAN, ".lake", "audit", "leanchecker.json")
    try:
        c = json.load(open(cache))
        if c["stamp"] == [list(x) for x in stamp]:
            return c["ok"], c["log"]
    except Exception:      # noqa
        pass
    rc, o = run(["lake", "env", "leanchecker", *mods], cwd=LEAN)
    os.makedirs(os.path.dirname(cache), exist_ok=True)
    json.dump({"stamp": stamp, "ok": rc == 0, "log": o[-2000:]}, open(cache, "w"))
    return rc == 0, o[-2000:]


def audit(pid, tier="quick"):
    """-> dict(obligations, discharged, theorems=[{name,kind,axioms,ok,why}], stated_not_proven, build_ok, log, wall_s)"""
    t0 = time.time()
    reg = registry().get(pid, [])
    proved = [t for t in reg if t["kind"] in ("full", "partial", "refutation", "lemma")]
    stated = [t["name"] for t in reg if t["kind"] == "stated-only"]
    res = {"theorems": [], "stated_not_proven": stated, "obligations": len(proved), "discharged": 0,
           "build_ok": True, "log": "", "forbidden_hits": []}
    rc, o, _ = lake_build(("Prtpy", "PrtpyProofs", "prtpy_model"))
    if rc != 0:
        res["build_ok"] = False
        res["log"] = o[-4000:]
    hits = grep_forbidden()
    res["forbidden_hits"] = hits
    if tier == "thorough" and rc == 0:
        ok_lc, log_lc = leanchecker()
        res["leanchecker"] = "ok" if ok_lc else "FAILED: " + log_lc[-500:]
        if not ok_lc:
            hits = hits + ["leanchecker rejected the compiled proof modules"]
    # axioms
    axioms = {}
    if proved and rc == 0:
        d = os.path.join(LEAN, ".lake", "audit")
        os.makedirs(d, exist_ok=True)
        fn = os.path.join(d, f"Audit_{pid}_{os.getpid()}.lean")       # per process: concurrent runs of the same check must not share it
        with open(fn, "w") as f:
            f.write("import PrtpyProofs\n" + "".join(f"#print axioms {t['name']}\n" for t in proved))
        rc2, o2 = run(["lake", "env", "lean", fn], cwd=LEAN)
        try:
            os.remove(fn)
        except OSError:
            pass
        res["log"] += o2[-4000:] if rc2 != 0 else ""
        for m in re.finditer(r"'(\S+)' depends on axioms: \[([^\]]*)\]", o2.replace("\n", " ")):
            axioms[m.group(1)] = [a.strip() for a in m.group(2).split(",") if a.strip()]
        for m in re.finditer(r"'(\S+)' does not depend on any axioms", o2):
            axioms[m.group(1)] = []
    for t in proved:
        ax = axioms.get(t["name"])
        ok = ax is not None and set(ax) <= ACCEPTED_AXIOMS and not hits and rc == 0
        why = None
        if ax is None:
            why = "theorem missing from the build"
        elif not set(ax) <= ACCEPTED_AXIOMS:
            why = "depends on " + ", ".join(sorted(set(ax) - ACCEPTED_AXIOMS))
        elif hits:
            why = "forbidden construct in sources: " + hits[0]
        res["theorems"].append({"name": t["name"], "kind": t["kind"], "axioms": ax, "ok": ok,
                                **({"why": why} if why else {}), **({"missing": t["missing"]} if "missing" in t else {})})
        res["discharged"] += 1 if ok else 0
    res["wall_s"] = round(time.time() - t0, 2)
    return res
