#!/usr/bin/env python3
"""seed_all.py [tier] - re-run every seeded change under /verif/seeded against the checks recorded in its meta.json
(harness/seed_test.py does the work) and print which are caught.  Not part of any registered check; a regression test
of the machinery itself (about 40 s per change; SEED_JOBS changes run at a time, default 4)."""
import os, sys, json, glob, subprocess
VERIF = os.path.dirname(os.path.dirname(os.path.abspath(__file__)))
tier = sys.argv[1] if len(sys.argv) > 1 else "quick"
from concurrent.futures import ThreadPoolExecutor
jobs = int(os.environ.get("SEED_JOBS", "4"))


def one(d):
    sid = os.path.basename(d)
    meta = json.load(open(os.path.join(d, "meta.json")))
    checks = sorted({k.split(":")[0] for k, r in meta.get("checks", {}).items() if r.get("violation_lines")}) or [meta["property"]]
    env = dict(os.environ, VERIF_TIER=tier, SEED_SUITE="0")
    p = subprocess.run(["/venv/bin/python", os.path.join(VERIF, "harness", "seed_test.py"), sid, *checks], env=env,
                       stdout=subprocess.PIPE, stderr=subprocess.STDOUT, text=True)
    lines = [l for l in p.stdout.splitlines() if l.startswith(sid)]
    ok = any("VIOLATION" in l for l in lines)
    print(sid, "caught" if ok else "MISSED", "|", "; ".join(l[len(sid) + 1:][:90] for l in lines), flush=True)
    return None if ok else sid


with ThreadPoolExecutor(jobs) as ex:
    missed = [m for m in ex.map(one, sorted(glob.glob(os.path.join(VERIF, "seeded", "*")))) if m]
print(f"{len(missed)} missed: {missed}")
sys.exit(1 if missed else 0)
