#!/usr/bin/env python3
"""mk_state.py - regenerates section 0 of DESIGN.md (between the markers) from lean/theorems.json and the text below."""
import json, os, re
VERIF = os.path.dirname(os.path.dirname(os.path.abspath(__file__)))

INTRO = '''
*What exists.*  `lean/Prtpy/` holds import-free executable models of every code path the 20 properties anchor in
(`Basic`, `Bins`, `Objectives`, `Heap`, `Spec`, `Model/{Simple,KK,CKKF,CG,DP,SNP,RNP,SNPTrace,CBLDM,BinCompletion,BCTrace,ILP,Validate}`);
`lean/Driver.lean` is the line-protocol executable the harness talks to; `lean/PrtpyProofs/` holds the proofs
(one file per topic, all imported by `PrtpyProofs.lean`); `lean/theorems.json` registers, per property, the theorems
the audit must find in the build with axioms ⊆ {propext, Classical.choice, Quot.sound}.  `harness/` is the Python side:
`run_check.py Cxx --tier quick|thorough` = proof audit + correspondence (model vs `/repo` working tree) + certified
evaluation of the implementation's outputs by verified Lean checkers/oracles + verdict + evidence.  All 20 properties
are claimed in MANIFEST.json (C15 at level `other`, the rest at level `proof`).

*Differences from the round-0 plan.*

* Proved although planned as stretch / stated-only: `cg_optimal` (all 16 switch combinations × 5 objectives, with an
  explicit fuel bound), `cbldm_optimal`, `ckkF_optimal` (both managers; `ckkGen_last_optimal` for the generator's last yield),
  `bc_optimal` (bin completion's search is optimal: Martello–Toth dominance formalised as `SDom`, completeness of
  `find_bin_completions`, soundness of both prunes), validity of CKK / SNP / RNP (k ≤ 5), `heap_refines_pure`,
  all of C17's formulation theorems, all textbook equalities of C14, naturality for CG and CBLDM, scaling for multifit,
  and the sharp approximation constants 4/3 − 1/(3k) for LPT and for Karmarkar–Karp (`LPT43`, `KK43`), 2/3·(OPT−1) and
  3/4·OPT − 4 for the covering algorithms (`Cover23`, `Cover34`: parametrised staircase weightings found by the provers).
* LPT's exact max-min ratio (3k−1)/(4k−2) (Csirik–Kellerer–Woeginger) is proved **for every k** (`MaxMin5.greedy_maxmin`; the "mixed case" that
  `MaxMin3` / `MaxMin4` left open for k ≥ 5 is closed by a heavy-bin weighting, `mixed_all`): C08 is PARTIAL only for multifit's constant.
* Still only certified in part (verified oracle on every run): multifit's 1.22 — proved: 5/4 for every k, 1.22 itself for k ≤ 11 and, for every k, when
  no item lies strictly between 0.22·k/(k−1)·OPT and 0.26·OPT, 11/9 for k ≤ 11, 16/13 for k ≤ 16 and the constant (5k−2)/(4k−1) < 5/4 for every k (`MultiFit122`, `MultiFit122B`, `MultiFit122C`); C09's absolute ⌊1.7·OPT⌋ — proved:
  1.7·OPT + 0.6 for first fit, best fit and every any-fit rule, the absolute bound for OPT ≤ 3, for OPT ≡ 0, 3, 6, 9 (mod 10) and whenever at most OPT−3 items
  exceed half the bin size, and in most of the remaining cases when the output has no bin holding a single item of size in (5B/12, B/2] (`FF17Abs`, `FF17AbsB`, `FF17AbsC`); FFD's 11/9 — proved: 3/2 absolute, 5/4·OPT + 1, 11/9 outside one size range of the last bin's first item, and the
  reduction of that range to one statement about normal forms (`FFD119Gap`, `FFD119GapB`, `FFD119GapC`; note there: the reduction is stated for every any-fit rule on a sorted list, for which 11/9 may be false — worst-fit-decreasing — so the last step needs a first-fit / best-fit-specific invariant); anything about CBC; CPython set order;
  interpreter-level state (C15).  Items in progress are listed per property below as `partial`.
* One more known finding: **KF5** (C11): with `use_heuristic_3=True` and `MinimizeLargestSum`, when heuristic 3 fires on
  the first branch the first solution is not the LPT partition (`[1,1,2]`, 3 bins: sums `[0,2,2]` instead of `[1,1,2]`);
  its largest sum equals LPT's.  This is Korf's heuristic 3 working as documented, but the property text ("complete
  greedy's first solution is the greedy (LPT) one") does not allow for it, so it is recorded as a finding rather than
  silently read away; the check still reports a first solution that differs from LPT in any other configuration, or
  whose objective value differs from LPT's.
* A second defect found by a proof attempt (after F10): **F11** — complete Karmarkar–Karp returned different sum vectors
  through the sums-only and the contents-keeping manager, and for list and dict input (section 9).  Repaired in /repo;
  `Prtpy.ckk` (Model/KK.lean) is the code before the repair (kept for the refutations and because the generator shares its
  step function), `Prtpy.ckkF` (Model/CKKF.lean) the code after it; snp and rnp call `ckkF` for their two-way splits.
* The correspondence for the searches is at the level of the search, not only of the answer: bin completion (the sequence
  of `find_bin_completions` calls against `BC.binCompletionT`, `binCompletionT_fst`), complete Karmarkar–Karp (every popped
  heap against `ckkFT`, `ckkFT_fst`), snp and rnp (every call of the two-way solver / bounded generator against `snpT`,
  `rnpFT`; `snpT_fst`, `rnpFT_fst`); complete greedy and CBLDM at every interruption point under a counting clock (C11).
* Four more repairs: **F12** (objectives negated numpy unsigned sums with wrap-around: C20, and dp in C07); **F13** (`partition()` / `pack()` handed numpy
  items to the algorithms as numpy scalars, whose sums wrap around in the array's own type: multifit returned 5 bins for `numbins=2` on a uint8 array, dp / cg /
  snp / rnp non-optimal partitions, bin completion overfull bins, ilp `OverflowError` on unsigned arrays — the former known finding KF7; arrays are now
  normalised at the adaptor); **F14** (ilp with copies other than 1 returned infeasible or sub-optimal answers as optimal on 1–2 % of small inputs: CBC's
  preprocessing, now switched off; earlier rounds had classified these as "solver faults" and not counted them — that allowance is gone) — section 9.
  **F15** ends the known finding KF4: bin completion computed on the item *names* (`TypeError` for a dict with string names); the search now runs on the
  values and the names are put back.  Known findings left: KF1 (rnp with 6 or more bins) and KF5.
  Seven input presentations (`array_valueof`, `uarray`, `narrow`): arrays of 8-, 16-, 32- and 64-bit signed and unsigned types.
* The harness side of the correspondence runs the implementation calls in a pool of forked worker processes
  (`engine.impl_map`); C15's histories run in the main interpreter.
* The output types of `prtpy/outputtypes.py` are part of the model, not of the harness: every driver request carries
  `out=<type>` and the model answers with `Prtpy.Out.<type>` of its bins-array (theorems `BinsOps.outputs_from_partition`
  and friends); the harness only substitutes item names for ids.
* No source hooks: `MANIFEST.hooks.source_commits` is empty.

*Theorems registered per property* (generated from `lean/theorems.json`; `partial` entries say what is missing):
'''


def main():
    reg = json.load(open(os.path.join(VERIF, "lean", "theorems.json")))
    out = [INTRO]
    for pid in sorted(reg):
        ts = reg[pid]
        full = [t["name"].replace("Prtpy.", "") for t in ts if t["kind"] == "full"]
        part = [(t["kind"], t["name"].replace("Prtpy.", ""), t.get("missing", "")) for t in ts if t["kind"] != "full"]
        out.append(f"* **{pid}** ({len(ts)} theorems): " + ", ".join(f"`{n}`" for n in full))
        for kd, n, m in part:
            out.append(f"  * {kd} `{n}` — {m}")
    txt = "\n".join(out) + "\n"
    p = os.path.join(VERIF, "DESIGN.md")
    s = open(p).read()
    if "@@STATE@@" in s:
        s = s.replace("@@STATE@@", "<!-- state:begin -->\n" + txt + "<!-- state:end -->")
    else:
        s = re.sub(r"<!-- state:begin -->.*?<!-- state:end -->", lambda m: "<!-- state:begin -->\n" + txt + "<!-- state:end -->", s, flags=re.S)
    # section 13: seeded changes
    import glob
    rows = ["| id | breaks | change | needs, in order to manifest | caught by (quick tier unless said) |", "|---|---|---|---|---|"]
    for f in sorted(glob.glob(os.path.join(VERIF, "seeded", "*", "meta.json"))):
        m = json.load(open(f))
        sid = os.path.basename(os.path.dirname(f))
        caught = []
        for key, r in sorted(m.get("checks", {}).items()):
            c, tier = key.split(":")
            if r.get("violation_lines"):
                kind = r.get("replay_kind") or ""
                what = (r.get("replay_summary") or {}).get("kind") or ""
                caught.append(f"{c}{'' if tier == 'quick' else ' (' + tier + ')'}: {kind}{' / ' + str(what) if what else ''}")
            else:
                caught.append(f"{c}{'' if tier == 'quick' else ' (' + tier + ')'}: **missed**")
        rows.append(f"| {sid} | {m.get('property','')} | {m.get('change','')} | {m.get('needs_to_manifest','')} | {'; '.join(caught)} |")
    sec = "\n".join(rows) + "\n"
    if "<!-- seeded:begin -->" in s:
        s = re.sub(r"<!-- seeded:begin -->.*?<!-- seeded:end -->", lambda m_: "<!-- seeded:begin -->\n" + sec + "<!-- seeded:end -->", s, flags=re.S)
    open(p, "w").write(s)
    print("DESIGN.md sections 0 and 13 regenerated")


if __name__ == "__main__":
    main()
