"""
gen.py - seeded generators and bounded-exhaustive scopes.  Every random choice comes from the one
`random.Random` passed in, so a run replays exactly from VERIF_SEED.
"""
import itertools, random


def multisets(values, max_len, min_len=1):
    for n in range(min_len, max_len + 1):
        for c in itertools.combinations_with_replacement(values, n):
            yield list(c)


def orders(ms, limit=None):
    """distinct arrival orders of a multiset"""
    seen = set()
    for p in itertools.permutations(ms):
        if p not in seen:
            seen.add(p)
            yield list(p)
            if limit and len(seen) >= limit:
                return


def rand_vals(rng, n, flavour=None, B=None):
    """a list of n values from a mixture that forces ties, zeros, duplicates, one dominant item, ..."""
    flavour = flavour or rng.choice(["tiny", "small", "mid", "zeros", "dominant", "equal", "wide", "dups", "bigclose"])
    if flavour == "tiny":
        return [rng.randint(1, 3) for _ in range(n)]
    if flavour == "small":
        return [rng.randint(1, 9) for _ in range(n)]
    if flavour == "mid":
        return [rng.randint(1, 40) for _ in range(n)]
    if flavour == "zeros":
        return [rng.choice([0, 0, rng.randint(1, 9), rng.randint(1, 30)]) for _ in range(n)]
    if flavour == "dominant":
        v = [rng.randint(1, 9) for _ in range(n)]
        v[rng.randrange(n)] = rng.randint(30, 120)
        return v
    if flavour == "equal":
        x = rng.randint(0, 12)
        return [x] * n
    if flavour == "wide":
        return [rng.randint(1, 10 ** rng.randint(1, 6)) for _ in range(n)]
    if flavour == "bigclose":
        # large values that are nearly but not exactly tied (relative differences far below 1e-9 .. 1e-5):
        # exact comparisons must not be replaced by tolerant ones
        base = 10 ** rng.randint(6, 12)
        return [rng.choice([1, 1, 2, 3]) * base + rng.randint(0, 9) for _ in range(n)]
    if flavour == "dups":
        pool = [rng.randint(1, 50) for _ in range(max(1, n // 3))]
        return [rng.choice(pool) for _ in range(n)]
    raise ValueError(flavour)


def rand_pack_vals(rng, n, B):
    """values in 0..B for packing, with exact fills and threshold values forced"""
    special = sorted({B, B // 2, B // 3, -(-B // 3), max(B // 2 - 1, 0), B // 2 + 1, 1, B - 1} & set(range(0, B + 1)))
    res = []
    for _ in range(n):
        r = rng.random()
        if r < 0.35 and special:
            res.append(rng.choice(special))
        elif r < 0.45:
            res.append(0)
        else:
            res.append(rng.randint(1, B) if B >= 1 else 0)
    return res


def big_pack_case(rng, nmax=10):
    """bin size >= 10^9 with items that miss an exact fill by 1: a tolerant comparison would overfill or misjudge a bin"""
    B = rng.choice([10 ** 9, 2 ** 31, 10 ** 12, 2 ** 40])
    parts = []
    for _ in range(rng.randint(1, max(1, nmax // 2))):
        a = rng.randint(1, B - 1) if rng.random() < 0.5 else B // 2
        parts += [a, B - a + rng.choice([-1, 0, 0, 1, 1])]
    parts = [min(max(x, 0), B) for x in parts][:nmax]
    rng.shuffle(parts)
    return B, parts


def hard_bc_case(rng, Bs=(10, 12, 20, 30), nmin=6, nmax=11, tries=60):
    """an input on which best-fit-decreasing does not meet the lower bound, so bin-completion's branching search runs;
    few distinct values, so completions contain values that also occur among the remaining items"""
    import math
    for _ in range(tries):
        B = rng.choice(Bs)
        n = rng.randint(nmin, nmax)
        if rng.random() < 0.5:
            pool = [rng.randint(max(1, B // 6), B) for _ in range(rng.randint(2, 4))]
            vals = [rng.choice(pool) for _ in range(n)]
        else:       # all kinds of values (exact complements of the largest item among them)
            vals = [rng.randint(1, B) for _ in range(n)]
        bins = []
        for x in sorted(vals, reverse=True):
            fit = [b for b in bins if sum(b) + x <= B]
            if fit:
                max(fit, key=sum).append(x)
            else:
                bins.append([x])
        if len(bins) > math.ceil(sum(vals) / B):
            return B, vals
    return B, vals


def hard_bc_family(rng, count=12, tries=400):
    """several inputs with ONE bin size and values from ONE small pool, on each of which best-fit-decreasing misses the lower bound:
    the same completions recur from call to call (state about completions that survives a call is then visible in a later one)"""
    import math
    B = rng.choice([10, 12, 20, 30])
    pool = sorted({rng.randint(max(1, B // 6), B) for _ in range(rng.randint(4, 6))})
    res = []
    for _ in range(tries):
        vals = [rng.choice(pool) for _ in range(rng.randint(6, 11))]
        if _bfd_count(vals, B) > math.ceil(sum(vals) / B) and vals not in res:
            res.append(vals)
            if len(res) >= count:
                break
    return B, res


def _bfd_count(vals, B):
    bins = []
    for x in sorted(vals, reverse=True):
        fit = [b for b in bins if sum(b) + x <= B]
        if fit:
            max(fit, key=sum).append(x)
        else:
            bins.append([x])
    return len(bins)


def hard_bc_pair(rng, tries=400):
    """one item list and two different bin sizes such that bin-completion's branching search runs for both
    (state keyed on the items alone would leak from one call to the other)"""
    import math
    for _ in range(tries):
        B, vals = hard_bc_case(rng)
        others = [b for b in range(max(vals), B + 8) if b != B and _bfd_count(vals, b) > math.ceil(sum(vals) / b)]
        if others:
            return vals, B, rng.choice(others)
    return vals, B, B + 1


def planted_packing(rng, nbins, B, max_per_bin=5):
    """items that fit exactly into nbins full bins (OPT = nbins when all bins are full)"""
    vals = []
    for _ in range(nbins):
        left = B
        parts = []
        for j in range(rng.randint(1, max_per_bin) - 1):
            if left <= 1:
                break
            x = rng.randint(1, left - 1)
            parts.append(x)
            left -= x
        parts.append(left)
        vals += parts
    rng.shuffle(vals)
    return vals


def rand_cover_vals(rng, n, B):
    special = [x for x in {B, B // 2, B // 3, -(-B // 3), -(-B // 2), B // 2 - 1, B // 3 - 1, B + 1, 2 * B, 1} if x >= 1]
    res = []
    for _ in range(n):
        r = rng.random()
        if r < 0.35:
            res.append(rng.choice(special))
        elif r < 0.5:
            res.append(rng.randint(1, max(1, B // 3)))
        else:
            res.append(rng.randint(1, B + 2))
    return res


def big_cover_case(rng, nmax=10):
    """bin size >= 10^9 with bins that miss the bin size by one (a tolerant comparison would report them as covered)"""
    B = rng.choice([2 * 10 ** 9, 4 * 10 ** 9, 10 ** 12, 2 ** 40])
    vals = []
    for _ in range(rng.randint(1, max(1, nmax // 2))):
        a = rng.randint(1, B - 1) if rng.random() < 0.5 else B // 2
        vals += [a, B - a + rng.choice([-1, -1, 0, 1])]
    vals = [max(1, x) for x in vals][:nmax]
    if rng.random() < 0.3:
        vals += [rng.randint(1, 9) for _ in range(rng.randint(1, 3))]
    rng.shuffle(vals)
    return B, vals


def rand_k(rng, n):
    return rng.choice([1, 2, 2, 3, 3, 4, 5, n, n + 1, 7])
