#!/usr/bin/env python3
"""
seed_test.py <seed-id> [checks...]  -- run checks against a seeded change kept under /verif/seeded/<seed-id>/.

Creates a scratch git worktree of /repo under /tmp, applies seeded/<id>/patch.diff there, confirms the demonstration
(fails with the change, passes without) and the repository's test suite (stable baseline still passes), then runs the
given checks (default: the check of the property the change is meant to break) with PRTPY_REPO pointing at the scratch
tree and evidence/replays redirected to a scratch directory; records the outcome in seeded/<id>/meta.json and removes
the worktree.  (Equivalent to `git -C /repo apply`, run, `git -C /repo checkout -- .`, without disturbing /repo.)
"""
import sys, os, json, subprocess, tempfile, shutil, time
VERIF = os.path.dirname(os.path.dirname(os.path.abspath(__file__)))


def sh(cmd, **kw):
    p = subprocess.run(cmd, shell=isinstance(cmd, str), stdout=subprocess.PIPE, stderr=subprocess.STDOUT, text=True, **kw)
    return p.returncode, p.stdout


def main():
    sid = sys.argv[1]
    d = os.path.join(VERIF, "seeded", sid)
    meta_p = os.path.join(d, "meta.json")
    meta = json.load(open(meta_p)) if os.path.exists(meta_p) else {}
    checks = sys.argv[2:] or [meta.get("property", sid.split("-")[0])]
    tier = os.environ.get("VERIF_TIER", "quick")
    wt = tempfile.mkdtemp(prefix="seed_", dir="/tmp")
    os.rmdir(wt)
    out = tempfile.mkdtemp(prefix="seedout_", dir="/tmp")
    try:
        rc, o = sh(["git", "-C", "/repo", "worktree", "add", "-q", "--detach", wt, "HEAD"])
        assert rc == 0, o
        env = dict(os.environ, PYTHONPATH=wt)
        demo = os.path.join(d, "demo.py")
        rc0, _ = sh(["/venv/bin/python", demo], env=env, cwd=out)
        rc, o = sh(["git", "-C", wt, "apply", os.path.join(d, "patch.diff")])
        if rc != 0:     # /repo has moved on since the change was written (later fix: commits): three-way merge on the recorded blobs
            rc, o = sh(["git", "-C", wt, "apply", "-3", os.path.join(d, "patch.diff")])
            sh(["git", "-C", wt, "reset", "-q"])
        assert rc == 0, "patch does not apply: " + o
        rc1, o1 = sh(["/venv/bin/python", demo], env=env, cwd=out)
        ver = {"demo_passes_without_change": rc0 == 0, "demo_fails_with_change": rc1 != 0, "demo_output_with_change": o1[-600:]}
        if os.environ.get("SEED_SUITE", "1") == "1":
            rc, o = sh(["/venv/bin/python", os.path.join(VERIF, "harness", "run_suite.py"), wt])
            ver["suite"] = o.strip().splitlines()[-1] if o.strip() else "?"
        if "suite" not in ver and "suite" in meta.get("verified", {}):
            ver["suite"] = meta["verified"]["suite"]       # (suite not re-run this time: keep the recorded result)
        meta["verified"] = ver
        res = meta.setdefault("checks", {})
        for c in checks:
            t0 = time.time()
            env2 = dict(os.environ, PRTPY_REPO=wt, VERIF_OUT_DIR=out, VERIF_TIER=tier)
            rc, o = sh(["/venv/bin/python", os.path.join(VERIF, "harness", "run_check.py"), c, "--tier", tier], env=env2, cwd=VERIF)
            viol = [l for l in o.splitlines() if l.startswith("VIOLATION")]
            entry = {"tier": tier, "exit": rc, "violation_lines": viol[:3], "wall_s": round(time.time() - t0, 1)}
            if viol:
                rp = viol[0].split("replay=")[1].split()[0]
                try:
                    r = json.load(open(os.path.join(out, rp)))
                    entry["replay_kind"] = r.get("kind_of_replay")
                    entry["replay_summary"] = {k: r.get(k) for k in ("alg", "kind", "case", "fmt", "expected") if k in r}
                except Exception as e:      # noqa
                    entry["replay_error"] = str(e)
            res[f"{c}:{tier}"] = entry
            print(sid, c, tier, "exit", rc, viol[:1], (entry.get("replay_summary") or {}).get("kind"))
        if os.environ.get("SEED_NO_META") != "1":        # (a soak with other seeds must not overwrite the recorded results)
            json.dump(meta, open(meta_p, "w"), indent=1, default=str)
    finally:
        sh(["git", "-C", "/repo", "worktree", "remove", "--force", wt])
        shutil.rmtree(out, ignore_errors=True)


if __name__ == "__main__":
    main()
