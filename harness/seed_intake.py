#!/usr/bin/env python3
"""
seed_intake.py <source-dir> <property> <round> "<change>" "<needs>"  -- take a seeded change delivered by a sub-agent
(patch.diff, demo.py, notes.md in <source-dir>) into /verif/seeded/<property>-<n>/ with the next free number, write its
meta.json and run harness/seed_test.py on it (confirmation of the demonstration and the suite, then the property's check).
Prints the new id.  A change whose confirmation fails is left in place with "verified" saying so; remove it by hand.
"""
import sys, os, json, shutil, subprocess, re
VERIF = os.path.dirname(os.path.dirname(os.path.abspath(__file__)))


def main():
    src, prop, rnd, change, needs = sys.argv[1:6]
    nums = [int(m.group(1)) for d in os.listdir(os.path.join(VERIF, "seeded")) if (m := re.fullmatch(prop + r"-(\d+)", d))]
    sid = f"{prop}-{max(nums, default=0) + 1}"
    dst = os.path.join(VERIF, "seeded", sid)
    os.makedirs(dst)
    for f in ("patch.diff", "demo.py", "notes.md"):
        if os.path.exists(os.path.join(src, f)):
            shutil.copy(os.path.join(src, f), os.path.join(dst, f))
    meta = {"property": prop, "change": change, "needs_to_manifest": needs, "round": int(rnd),
            "author": "independent sub-agent given only the property text and a scratch worktree (no access to /verif)",
            "how_verified": "harness/seed_test.py: scratch worktree of /repo, patch applied, repository suite (42 stable tests, harness/run_suite.py) still passes, demo.py fails with the change and passes without; then the registered check run with PRTPY_REPO pointing at the scratch tree"}
    json.dump(meta, open(os.path.join(dst, "meta.json"), "w"), indent=1)
    print(sid, flush=True)
    subprocess.run(["/venv/bin/python", os.path.join(VERIF, "harness", "seed_test.py"), sid, *sys.argv[6:]])


if __name__ == "__main__":
    main()
