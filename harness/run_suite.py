#!/usr/bin/env python3
"""
run_suite.py <tree>  -- run the repository's pinned test suite (the command of /root/.vp/BASELINE.json) in <tree>
and say whether every test of the stable baseline (42 tests) still passes there.  Last line: SUITE-OK <n>/<n> or
SUITE-BROKEN <failed ids>.  Exit 0 / 1.  Used to confirm that a seeded change leaves the existing suite green.
"""
import sys, os, json, subprocess, tempfile
import xml.etree.ElementTree as ET


def main():
    tree = os.path.abspath(sys.argv[1])
    base = json.load(open("/root/.vp/BASELINE.json"))
    want = set(base["stable_pass"])
    fd, xml = tempfile.mkstemp(suffix=".xml", prefix="suite_")
    os.close(fd)
    env = dict(os.environ, PYTHONPATH=tree)
    cmd = ["/venv/bin/python", "-m", "pytest", "-ra", "-q", "-p", "no:cacheprovider", "--timeout=900",
           "--continue-on-collection-errors", "--junitxml=" + xml]
    subprocess.run(cmd, cwd=tree, env=env, stdout=subprocess.DEVNULL, stderr=subprocess.DEVNULL)
    passed = set()
    try:
        for tc in ET.parse(xml).getroot().iter("testcase"):
            bad = any(ch.tag in ("failure", "error", "skipped") for ch in tc)
            if not bad:
                passed.add(tc.get("classname", "") + "::" + tc.get("name", ""))
    finally:
        os.unlink(xml)
    missing = sorted(want - passed)
    if missing:
        print("SUITE-BROKEN " + " ".join(missing))
        return 1
    print("SUITE-OK %d/%d" % (len(want), len(want)))
    return 0


if __name__ == "__main__":
    sys.exit(main())
