"""
judges.py - certified evaluation: turn an implementation answer into a request for a *verified* Lean checker /
oracle (Prtpy/Spec.lean; correctness theorems in PrtpyProofs/Checkers.lean, Oracle.lean) plus a predicate on
the checker's answer.  A judge returns a list of (request line | None, predicate(answer) -> None | message | (kind, message)).
"""
from core import *


def _items_line(case):
    return f_items(case["vals"])


def _bins_line(case, names, bins):
    """bins of names -> 'id:val,...|...' (an invented/duplicated name gets a fresh id, so the checker rejects it)"""
    ids_bins, extra = ids_of(bins, names)
    vals = case["vals"]

    def val(i):
        if i < len(vals):
            return vals[i]
        x = extra[i]
        x = num(x)
        return x if isinstance(x, int) and x >= 0 else 0
    return "|".join("[" + ",".join(f"{i}:{val(i)}" for i in b) + "]" for b in ids_bins) if ids_bins else "~"


def _is_err(got):
    return isinstance(got, dict) and "error" in got


def _is_none(got):
    return isinstance(got, dict) and "none" in got


def _sums_ok(sums):
    return all(isinstance(s, int) and s >= 0 for s in sums)


def expect_true(msg):
    return lambda a: None if a is True else msg


def judge_partition(case, fmt, ot, got, names, model_ans, allow_fewer=False, allow_none=False):
    """C01: the returned bins are a true partition of the input into k bins (verified checker `checkPartition`)"""
    if ot not in ("PartitionAndSumsTuple", "PartitionAndSums"):
        return []
    k = case["p"]["k"]
    if _is_err(got):
        return [(None, lambda a: ("exception:" + got["error"], "raised " + got["error"] + " on an input of the quantifier"))]
    if _is_none(got):
        return [] if allow_none else [(None, lambda a: ("missing-result", "a call that ran to completion returned no result"))]
    if not _sums_ok(got["sums"]):
        return [(None, lambda a: ("bad-sums", f"non-integral or negative sums {got['sums']}"))]
    kk = k
    pre = []
    if allow_fewer:
        kk = len(got["bins"])
        if kk > k:
            pre = [(None, lambda a: ("too-many-bins", f"{kk} bins returned, {k} requested"))]
    line = f"check_partition k={kk} items={_items_line(case)} sums={f_nats(got['sums'])} bins={_bins_line(case, names, got['bins'])}"
    return pre + [(line, expect_true("not a partition of the input into the requested number of bins "
                                     "(checkPartition = false: an item lost, duplicated or invented, wrong bin count, or sums inconsistent)"))]


def judge_packing(case, fmt, ot, got, names, model_ans, drop_zeros=False):
    """C03: feasible packing of exactly the input items (verified checker `checkPacking`)"""
    if ot not in ("PartitionAndSumsTuple", "PartitionAndSums"):
        return []
    B = case["p"]["B"]
    oversize = any(v > B for v in case["vals"])
    if oversize:
        if _is_err(got) and got["error"] == "ValueError":
            return []
        return [(None, lambda a: ("oversize-accepted", "an item exceeds the bin size but no ValueError was raised"))]
    if _is_err(got):
        return [(None, lambda a: ("exception:" + got["error"], "raised " + got["error"] + " on a feasible input"))]
    if _is_none(got) or not isinstance(got, dict) or "sums" not in got:
        return [(None, lambda a: ("missing-result", f"no packing was returned: {got!r}"))]
    if not _sums_ok(got["sums"]):
        return [(None, lambda a: ("bad-sums", f"non-integral or negative sums {got['sums']}"))]
    c = case
    nm = names
    if drop_zeros:
        keep = [i for i, v in enumerate(case["vals"]) if v != 0]
        c = dict(case, vals=[case["vals"][i] for i in keep])
        nm = [names[i] for i in keep]
        # zero-valued items may be omitted or kept: drop the ones that were kept from the answer as well
        got = dict(got, bins=[[x for x in b if not (isinstance(num(x), int) and fmt in ("list", "array") and num(x) == 0)] for b in got["bins"]])
    line = f"check_packing B={B} items={_items_line(c)} sums={f_nats(got['sums'])} bins={_bins_line(c, nm, got['bins'])}"
    return [(line, expect_true("not a feasible packing of exactly the input items (checkPacking = false: an item lost, "
                               "duplicated or invented, a bin above the bin size, an empty bin, or sums inconsistent)"))]


def judge_cover(case, fmt, ot, got, names, model_ans):
    """C05: valid cover wasting less than one bin (verified checker `checkCover`)"""
    if ot not in ("PartitionAndSumsTuple", "PartitionAndSums"):
        return []
    B = case["p"]["B"]
    if _is_err(got):
        return [(None, lambda a: ("exception:" + got["error"], "raised " + got["error"]))]
    if _is_none(got) or not isinstance(got, dict) or "sums" not in got:
        return [(None, lambda a: ("missing-result", f"no cover was returned: {got!r}"))]
    if not _sums_ok(got["sums"]):
        return [(None, lambda a: ("bad-sums", f"non-integral or negative sums {got['sums']}"))]
    line = f"check_cover B={B} items={_items_line(case)} sums={f_nats(got['sums'])} bins={_bins_line(case, names, got['bins'])}"
    return [(line, expect_true("not a valid cover (checkCover = false: a bin below the bin size, an item used twice or "
                               "invented, sums inconsistent, or the unused items total at least one bin size)"))]


def sums_of(got, ot):
    if isinstance(got, dict) and "sums" in got:
        return got["sums"]
    if ot in ("Sums", "SortedSums") and isinstance(got, list):
        return got
    return None


def judge_optimal(objname):
    """C02: the objective value of the returned sums equals the optimum over all partitions (verified oracle `optValue`)"""
    def judge(case, fmt, ot, got, names, model_ans):
        sums = sums_of(got, ot)
        if sums is None:
            if _is_none(got):
                return [(None, lambda a: ("missing-result", "a call that ran to completion returned no result"))]
            if _is_err(got):
                return [(None, lambda a: ("exception:" + got["error"], "raised " + got["error"]))]
            return []
        o = objname(case)
        if not _sums_ok(sums) or sum(sums) != sum(case["vals"]) or len(sums) != case["p"]["k"]:
            return [(None, lambda a: ("bad-sums", f"sums {sums} are not the sums of a partition of the input"))]
        from algs import obj_value
        mine = obj_value(o, sums)
        line = f"opt_partition obj={o} k={case['p']['k']} vals={f_nats(case['vals'])}"
        return [(line, lambda a: None if a == mine else ("suboptimal", f"objective {o}: returned value {mine}, optimum {a}"))]
    return judge
