#!/usr/bin/env python3
"""mk_manifest.py - regenerates /verif/MANIFEST.json from the table below (kept in one place so it stays valid)."""
import json, os
VERIF = os.path.dirname(os.path.dirname(os.path.abspath(__file__)))

TB = ("Trusted base: Lean 4.33 kernel (axioms propext, Classical.choice, Quot.sound only; audited per run with #print axioms; "
      "no sorry / native_decide / own axioms); the compiled driver of the same definitions; the correspondence check "
      "(hand-written model vs /repo working tree, sampled beyond the stated exhaustive scopes); CPython/numpy facts listed in DESIGN section 6.")

# id -> (category, technique, text, note)
CHECKS = {
 "C01": ("proof", "Lean 4 theorems (*_isPartition, cg_result, multifit_bins_le) + model/code correspondence + verified checker",
         "Validity theorems for greedy, round-robin, multifit, KK, complete greedy (every switch/objective/cut), CBLDM, DP replay; SNP conditional on CKK validity (partial); "
         "RNP/ILP/CKK covered by the verified checker checkPartition on every implementation output. Strict correspondence of every model with the code on every run.", TB),
 "C02": ("proof", "Lean 4 theorem dp_optimal (verified oracle) + correspondence + certified evaluation of every exact algorithm against the oracle",
         "DP optimality proved for every objective (dp_optimal, optValue_spec); the DP model is the verified oracle against which CG (16 switch combinations), CKK, SNP, RNP outputs are certified. "
         "Optimality theorems for CG/CKK/SNP/RNP are stated-only (PARTIAL).", TB),
 "C03": ("proof", "Lean 4 theorems ff/ffd/bf/bfd_isPacking + correspondence + verified checker for bin-completion",
         "Feasibility and completeness proved for the four fit heuristics in every arrival order; bin-completion modelled faithfully (strict correspondence on list input) and certified by the verified checkPacking (PARTIAL).", TB),
 "C04": ("proof", "Lean 4 theorems packing_lower_bound, optBins_spec (verified oracle) + correspondence + certified evaluation",
         "PARTIAL: the lower bound and the minimum-bin oracle are proved; bin-completion's search is modelled faithfully and every implementation answer is compared with the verified optimum; optimality of the search itself is stated-only.", TB),
 "C05": ("proof", "Lean 4 theorems coverDecreasing/twoThirds/threeQuarters_isCover + correspondence + verified checker",
         "Full: each covering algorithm's model is proved to return a valid cover wasting less than one bin, for all inputs; strict correspondence with the code.", TB),
 "C06": ("proof", "Lean 4 consistency theorems (sums = map binSum lists; output projections) + correspondence across all output types",
         "Every output type of prtpy.out is compared with the projection of the model's single Bins result, and the statement itself is evaluated on the implementation for every sums-only output type.", TB),
 "C07": ("proof", "Lean 4 naturality / validity theorems + correspondence across the five input formats",
         "Each case is presented as list, numpy array, dict (string and integer names) and names+valueof; named results are judged by the verified checkers; known finding KF4 (bin_completion computes on names).", TB),
 "C08": ("proof", "Lean 4 theorems greedy_gap, kk_gap, roundrobin_gap/monotone/cards, Graham 2-1/k (partial) + verified DP oracle for the sharp ratios",
         "PARTIAL: the gap bounds and round-robin structure are proved in full; for the ratios the weaker constants 2-1/k, additive min bound and 2*OPT are proved; the sharp constants are only searched for counter-examples with the verified oracle.", TB),
 "C09": ("proof", "Lean 4 theorems ff/bf(±decreasing)_anyfit, anyfit_lt_two_opt (partial) + verified optBins oracle",
         "Any-fit invariant proved in full for all four heuristics in every arrival order; bin-count bound proved with factor 2 (PARTIAL); sharp 1.7 and 11/9 constants searched with the verified oracle.", TB),
 "C10": ("proof", "Lean 4 theorems cover_le_opt, *_half_coverable + verified optCover oracle",
         "ALG <= OPT and OPT <= 2 ALG + 1 proved for all three (this is the full bound for the decreasing heuristic; PARTIAL for 2/3 and 3/4); sharp constants searched with the verified oracle.", TB),
 "C13": ("proof", "Lean 4 theorems lb_admissible, lb_sorted_flag, genTree_eq, lexPerms_*, allCombSums_* + correspondence on direct calls",
         "Admissibility of the three lower bounds and independence of the sorted flag proved for all sum vectors and remaining totals; the in/ex tree is proved equal to the filter of all sub-lists; "
         "all_combinations of the sums manager proved sound, complete and duplicate-free (contents manager: correspondence and direct evaluation, PARTIAL).", TB),
 "C20": ("proof", "Lean 4 theorems value_eq_doc, value_perm, value_sorted_fast, weighted_def + correspondence on direct calls",
         "Full: each objective's value equals its documented function for every sum vector, is order-independent, and the sorted fast path agrees whenever the sums are sorted; strict correspondence of value_to_minimize on lists, tuples and arrays.", TB),
 "C11": ("proof", "Lean 4 theorems cg_cut_safe, cg_cut_monotone, cg_cut_eventually, cg_optimal, cbldm_isPartition/card/optimal, ckkGen_valid/strict + correspondence at EVERY cut under a counting clock",
         "Safety of interruption and monotonicity proved for every configuration and every clock reading; optimality without limit proved (cg_optimal, cbldm_optimal); CKK generator validity and strict improvement proved "
         "(its last yield being optimal is certified against the verified oracle; theorem in progress). Every cut of every run of the scope is executed on the real code with a deterministic clock and compared strictly with the model. Known finding KF5 (heuristic 3).", TB),
 "C14": ("proof", "Lean 4 theorems *_eq_spec, greedy_is_lpt_run, lpt_runs_same_sums, bestfit_runs_same_sums (models = textbook specifications) + correspondence + independent transcription",
         "Full: round-robin, first-fit (+decreasing), the three covers are proved equal to direct textbook specifications (bins equal); greedy and best-fit are proved to be LPT / best-fit runs and all such runs have the same multiset of sums.", TB),
 "C15": ("other", "definitional purity of the Lean model + bins-manager frame theorems (unwritten_unchanged, args_unmodified) + refinement testing over call histories",
         "The model is a total function, so purity is definitional there; the heap-level frame theorems show an array changes only through operations applied to it. For the code the property is decided by "
         "history-quantified differential runs (random call sequences in one interpreter vs the model and vs fresh processes; deep comparison of every argument). Interpreter-level state cannot be exhibited by the model: PARTIAL.", TB),
 "C16": ("proof", "Lean 4 refinement theorem heap_refines_pure (reference-level heap model with aliasing refines the pure bins model under the hand-over discipline) + op_consistent, sortAsc_sorted_perm, copy_independent, args_unmodified + correspondence on operation sequences",
         "Full: for every finite disciplined operation sequence the heap model (numpy views, shared inner lists) agrees with the immutable specification on every live array; every array stays consistent; copies are independent in both directions. "
         "The heap model is compared with the real managers on every array (live or handed over) after every operation of bounded-exhaustive and random sequences.", TB),
 "C17": ("proof", "Lean 4 theorems about the ILP formulation (rows_iff_feasible, objective_is_documented, decode_copies, result_order, unit_weights_wlog, solver_answer_spec) + capture of the model handed to the solver + certification against the brute-force optimum",
         "The formulation handed to the MIP solver is modelled as data and proved to say exactly what the property states (copies, ascending weighted sums, caller constraints, documented objective); the read-back is proved to place each item copies[i] times "
         "in the right bins and order. On every run the constraint system actually given to CBC is captured (wrapping mip.Model.optimize) and compared row by row with the Lean formulation, and CBC's answer is certified against the Lean brute-force optimum. The solver itself is trusted.", TB),
 "C18": ("proof", "Lean 4 theorems *_perm_sums, *_scale, isOptimal_perm/scale/zeros, optValue_* + metamorphic evaluation + agreement of exact solvers",
         "Permutation invariance and scaling proved for every heuristic (multifit in exact rationals); the specification optimum is proved invariant under permutation and zero items and linear under scaling, hence so is every algorithm with an optimality theorem "
         "(DP, complete greedy, CBLDM); CKK/SNP/RNP/ILP by certified evaluation (PARTIAL). Exact solvers are compared with each other on 11-16 items.", TB),
 "C19": ("proof", "Lean 4 theorems ff/bf(±decreasing)_error_iff, bc_error_iff, decision-table model of cbldm's validation + correspondence on the malformed stream",
         "Full for the packers: the model returns ValueError iff some item exceeds the bin size, whatever its position or multiplicity (format independence by naturality); cbldm's validation and the sums-only manager's refusal are modelled as decision logic and compared on every single-invalid-argument combination.", TB),
 "C12": ("proof", "Lean 4 theorems cbldm_isPartition, cbldm_card, optBalanced_spec (verified oracle) + correspondence",
         "Validity and the cardinality bound proved for every input, bound and interruption point; optimality certified against the verified balanced oracle (optimality theorem stated-only: PARTIAL).", TB),
}

NOT_YET = {k: 'check under construction in this session (suite not yet registered); see DESIGN.md section 8' for k in []}


def main():
    checks = []
    for pid, (cat, tech, text, note) in sorted(CHECKS.items()):
        checks.append({
            "property_id": pid,
            "quick_cmd": f"/venv/bin/python harness/run_check.py {pid} --tier quick",
            "thorough_cmd": f"/venv/bin/python harness/run_check.py {pid} --tier thorough",
            "evidence_file": f"evidence/{pid}.json",
            "replay_cmd_template": f"/venv/bin/python harness/run_check.py {pid} --replay {{path}}",
            "engine": "lean-proof+correspondence",
            "level_claimed": {"category": cat, "text": text, "design_ref": f"DESIGN.md section 8, {pid}"},
            "level_note": note,
            "technique": tech,
        })
    m = {
        "version": 1,
        "setup_cmd": "cd lean && lake build Prtpy PrtpyProofs prtpy_model",
        "hooks": {"guard": "PRTPY_VERIF", "enable": "no source hooks are needed (clocks and the MIP model are intercepted from the harness); the guard is unused",
                  "baseline_off_cmd": "cd /repo && /venv/bin/python -m pytest -ra -q -p no:cacheprovider --timeout=900 --continue-on-collection-errors",
                  "source_commits": [], "add_only": True},
        "engines": [{"name": "lean-proof+correspondence", "path": "harness/run_check.py",
                     "serves_properties": sorted(CHECKS),
                     "kind_free_text": "Lean 4 theorems about hand-written executable models (lean/), audited on every run; the models' compiled driver "
                                       "is compared with the real prtpy from /repo's working tree on generated inputs; verified Lean checkers/oracles judge the implementation's outputs"}],
        "checks": checks,
        "not_applicable": [{"property_id": k, "reason": v} for k, v in sorted(NOT_YET.items())],
        "notes": "See DESIGN.md. fix: commits F1-F9 in /repo are recorded in known_findings.json (status fixed); known findings KF1 (rnp >= 6 bins) and KF4 (bin_completion on named items).",
    }
    with open(os.path.join(VERIF, "MANIFEST.json"), "w") as f:
        json.dump(m, f, indent=1)
    print("wrote MANIFEST.json with", len(checks), "checks;", len(NOT_YET), "not claimed")


if __name__ == "__main__":
    main()
