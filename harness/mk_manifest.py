#!/usr/bin/env python3
"""mk_manifest.py - regenerates /verif/MANIFEST.json from the table below (kept in one place so it stays valid)."""
import json, os
VERIF = os.path.dirname(os.path.dirname(os.path.abspath(__file__)))

TB = ("Trusted base: Lean 4.33 kernel (axioms propext, Classical.choice, Quot.sound only; audited per run with #print axioms; "
      "no sorry / native_decide / own axioms); the compiled driver of the same definitions; the correspondence check "
      "(hand-written model vs /repo working tree, sampled beyond the stated exhaustive scopes); CPython/numpy facts listed in DESIGN section 6.")

# id -> (category, technique, text, note)
CHECKS = {
 "C01": ("proof", "Lean 4 theorems (*_isPartition for every partitioner incl. CKK/SNP/RNP, cg_result, cg_some_of_no_limit, multifit_bins_le, termination theorems) + model/code correspondence + verified checker",
         "Full: every partitioner's model is proved to return a partition of the input into k bins (multifit: at most k), complete greedy never returns None without a limit, the searches terminate with explicit fuel; RNP for k <= 5 (after fix F10; k >= 6 is known finding KF1); ILP read-back proved, solver trusted. Strict correspondence of every model with the code on every run; every implementation output also judged by the verified checker checkPartition.", TB),
 "C02": ("proof", "Lean 4 optimality theorems (dp_optimal, cg_optimal for all 16 switch combinations x 5 objectives, ckkF_optimal, snp_optimal', rnpF_optimal, ILP unit_weights_wlog) + correspondence (answers, and the search traces of CKK, SNP, RNP: ckkFT_fst, snpT_fst, rnpFT_fst) + certified evaluation against the verified DP oracle",
         "Full for DP, complete greedy, CKK (both managers), SNP and RNP (k <= 5, after F10 - the defect was found by the proof attempt); ILP: the formulation's optimum is proved to be the true optimum, the MIP solver is trusted and certified per run. Every exact algorithm's output is additionally compared with the verified oracle on every run.", TB),
 "C03": ("proof", "Lean 4 theorems ff/ffd/bf/bfd_isPacking, bc_isPacking, BCNamed.bcNamed_isPacking + correspondence + verified checker",
         "Full: feasibility, completeness and non-empty bins proved for the four fit heuristics in every arrival order and for bin completion (list input and, since fix F15, named items: BC.binCompletionNamed, BCNamed.bcNamed_isPacking; zero-valued items dropped). Strict correspondence incl. bin sizes up to 2^40 and dyadic fractions; the helpers of bin completion's search are compared directly.", TB),
 "C04": ("proof", "Lean 4 theorems bc_optimal (bin completion = optBins), BCNamed.bcNamed_optimal (named items) + packing_lower_bound, bc_le_bfd, isDom_sound + verified oracle optBins + correspondence incl. direct calls of the search helpers and the trace of the search (binCompletionT_fst)",
         "Full for list input and, since fix F15, for named items (the search runs on the values: BCNamed.bcNamed_values, bcNamed_optimal): the model of bin completion's search is proved to return an optimal packing (Martello-Toth dominance formalised; explicit fuel bound), never more bins than BFD; every implementation answer is compared with the verified minimum for Partition, Sums and BinCount; the sequence of find_bin_completions calls the implementation makes is compared with the model's trace.", TB),
 "C05": ("proof", "Lean 4 theorems coverDecreasing/twoThirds/threeQuarters_isCover + correspondence + verified checker",
         "Full: each covering algorithm's model is proved to return a valid cover wasting less than one bin, for all inputs; strict correspondence with the code.", TB),
 "C06": ("proof", "Lean 4 theorems (consistency of every algorithm's result, outputs_from_partition, *_sums_values, snp/rnpF_sums_manager_independent, ckkF_sums_manager_independent; refutation ckk_sums_manager_dependent of the code before fix F11) + model-side output projection + correspondence across all output types",
         "Reported sums = totals of the reported bins is part of every validity theorem; every output type is a proved function of the bins (the model projects it); the sums-only manager's run returns the same sum vector as the contents manager's run for every algorithm (for complete Karmarkar-Karp this was false on the pinned tree - found by the proof attempt, repaired by fix F11, proved for the repaired code). Every case is run once per output type of prtpy.out and the statement itself is evaluated on the implementation.", TB),
 "C07": ("proof", "Lean 4 naturality theorems (alg (map f) = mapItems f . alg) for 15 algorithms, injective-renaming naturality and list-vs-named equality of the sum vector (ckkF_list_dict_sums, snp_list_dict_sums, rnpF_list_dict_sums) for CKK/SNP/RNP + validity theorems generic in the value function + correspondence across the six input formats and numpy arrays of narrow / unsigned integer types",
         "Full for the fold-shaped algorithms, KK, CG, CBLDM, DP (any renaming, so repeated values in list input are covered); for CKK and SNP full as well (equivariance under injective renamings + equality of the whole sum vector with the run on the bare values; for CKK after fix F11, the statement was false before); for RNP (k <= 5) by RNPDict.rnpF_list_dict_sums; each case is presented as list, numpy array, dict (string and integer names) and names+valueof and compared strictly with the model; numpy arrays of 8- / 16- / 32- / 64-bit signed and unsigned integers give the sums of the plain list (after fix F13: arrays are normalised at the adaptor; before it multifit, dp, cg, snp, rnp, bin_completion wrapped around and ilp failed); bin_completion on named items: since fix F15 (the search runs on the values, the names are put back; formerly known finding KF4) modelled by BC.binCompletionNamed and compared strictly like every other algorithm.", TB),
 "C08": ("proof", "Lean 4 theorems greedy_four_thirds (Graham), kk_four_thirds, greedy/kk/roundrobin_gap, roundrobin_monotone/cards, multifit_ratio_five_fourths, MaxMin5.greedy_maxmin (LPT's exact max-min ratio (3k-1)/(4k-2) for every k) + verified DP oracle for the remaining sharp ratio",
         "Gap bounds and round-robin structure full; 4/3 - 1/(3k) proved in full for LPT and for Karmarkar-Karp; LPT's exact max-min ratio (3k-1)/(4k-2) (Csirik-Kellerer-Woeginger) proved in full for every k (MaxMin5.greedy_maxmin); PARTIAL only for multifit: proved <= (5/4 + 2^-it) OPT for every k, 1.22 + 2^-it for k <= 11 and for every k when no item lies strictly between 0.22 k/(k-1) OPT and 0.26 OPT (MultiFit122, MultiFit122B, MultiFit122C); the remaining case is searched for counter-examples with the verified oracle on every run.", TB),
 "C09": ("proof", "Lean 4 theorems ff/bf(±decreasing)_anyfit, FF17Abs.ff/bf/gen_seventeen_tenths_plus_6 (<= 1.7 OPT + 0.6), ff/bf_seventeen_tenths_abs_partial, ffd/bfd_three_halves, ffd/bfd_five_fourths, FFD119Gap reduction + verified optBins oracle",
         "Any-fit invariant proved in full for all four heuristics in every arrival order; PARTIAL bounds: FF, BF <= 1.7 OPT + 0.6 for every input, the absolute floor(1.7 OPT) for OPT <= 3, OPT = 0, 3, 6, 9 mod 10 and whenever at most OPT-3 items exceed half the bin size (FF17Abs); FFD, BFD <= 3/2 OPT (absolute) and <= 5/4 OPT + 1, 11/9 OPT + 8/9 outside one range of the size of the last bin's first item, and that range reduced to one statement about normal forms (FFD119Gap); what is not proved of the absolute 1.7 and the 11/9 bounds is searched with the verified oracle on every run.", TB),
 "C10": ("proof", "Lean 4 theorems cover_le_opt, coverDecreasing_half, twoThirds_two_thirds, threeQuarters_three_quarters + verified optCover oracle",
         "Full: ALG <= OPT for all three; (OPT-1)/2 for the decreasing heuristic, 2/3 (OPT-1) for two-thirds (2 OPT <= 3 ALG + 1) and 3/4 OPT - 4 for three-quarters (3 OPT <= 4 ALG + 9) are proved for all inputs by weighting-function arguments; every run also compares with the verified oracle optCover.", TB),
 "C13": ("proof", "Lean 4 theorems lb_admissible, lb_sorted_flag, genTree_eq, lexPerms_*, allCombSums_*, allCombContents_* + correspondence on direct calls",
         "Full: admissibility of the three lower bounds and independence of the sorted flag; the in/ex tree equals the filter of all sub-lists; all_combinations of both managers sound, complete and duplicate-free (distinctness on the manager's canonical form, DESIGN section 10).", TB),
 "C20": ("proof", "Lean 4 theorems value_eq_doc, value_perm, value_sorted_fast, weighted_def + correspondence on direct calls",
         "Full: each objective's value equals its documented function for every sum vector, is order-independent, and the sorted fast path agrees whenever the sums are sorted; strict correspondence of value_to_minimize on lists, tuples and arrays.", TB),
 "C11": ("proof", "Lean 4 theorems cg_cut_safe/monotone/eventually, cg_first_solution_lpt/_h3, cg_optimal, cbldm_cut_safe/monotone/eventually, cbldm_optimal, ckkGen_valid/strict/last_optimal + correspondence at EVERY cut under a counting clock",
         "Full: safety of interruption, monotonicity in the limit, first solution = LPT (heuristic 3 off; with it the same largest sum: known finding KF5) and optimality without limit are proved for every configuration; CKK generator validity, strict improvement and optimal last yield proved. Every cut of every run of the scope is executed on the real code (list and named input) with a deterministic clock and compared strictly with the model.", TB),
 "C14": ("proof", "Lean 4 theorems *_eq_spec, greedy_is_lpt_run, lpt_runs_same_sums, bestfit_runs_same_sums (models = textbook specifications) + correspondence + independent transcription",
         "Full: round-robin, first-fit (+decreasing), the three covers are proved equal to direct textbook specifications (bins equal); greedy and best-fit are proved to be LPT / best-fit runs and all such runs have the same multiset of sums.", TB),
 "C15": ("other", "definitional purity of the Lean model + bins-manager frame theorems (unwritten_unchanged, args_unmodified) + refinement testing over call histories",
         "The model is a total function, so purity is definitional there; the heap-level frame theorems show an array changes only through operations applied to it. For the code the property is decided by "
         "history-quantified differential runs (random call sequences in one interpreter vs the model and vs fresh processes; deep comparison of every argument). Interpreter-level state cannot be exhibited by the model: PARTIAL.", TB),
 "C16": ("proof", "Lean 4 refinement theorem heap_refines_pure (reference-level heap model with aliasing refines the pure bins model under the hand-over discipline) + op_consistent, sortAsc_sorted_perm, copy_independent, args_unmodified + correspondence on operation sequences",
         "Full: for every finite disciplined operation sequence the heap model (numpy views, shared inner lists) agrees with the immutable specification on every live array; every array stays consistent; copies are independent in both directions. "
         "The heap model is compared with the real managers on every array (live or handed over) after every operation of bounded-exhaustive and random sequences.", TB),
 "C17": ("proof", "Lean 4 theorems about the ILP formulation (rows_iff_feasible, objective_is_documented, decode_copies, result_order, unit_weights_wlog, solver_answer_spec) + capture of the model handed to the solver + certification against the brute-force optimum",
         "The formulation handed to the MIP solver is modelled as data and proved to say exactly what the property states (copies, ascending weighted sums, caller constraints, documented objective); the read-back is proved to place each item copies[i] times "
         "in the right bins and order. On every run the constraint system actually given to CBC is captured (wrapping mip.Model.optimize) and compared row by row with the Lean formulation, and CBC's answer is certified against the Lean brute-force optimum, with no allowance for solver faults: a wrong answer with status OPTIMAL is a violation (fix F14 switched CBC's preprocessing off, which produced such answers on 1-2 % of the calls with copies other than 1; the solver's parameters are part of the captured formulation). The solver itself is trusted.", TB),
 "C18": ("proof", "Lean 4 theorems *_perm_sums, *_scale, isOptimal_perm/scale/zeros, cg/dp/cbldm_value_perm/scale/zeros, cg_value_config_independent + optimality theorems + metamorphic evaluation + agreement of exact solvers",
         "Full: permutation invariance and scaling proved for every heuristic (multifit in exact rationals); the specification optimum is invariant under permutation and zero items and linear under scaling, hence so is every algorithm with an optimality theorem (DP, complete greedy, CKK, SNP, RNP, CBLDM); ILP by certification. Exact solvers are compared with each other on 11-16 items.", TB),
 "C19": ("proof", "Lean 4 theorems ff/bf(±decreasing)_error_iff, bc_error_iff, decision-table model of cbldm's validation + correspondence on the malformed stream",
         "Full for the packers: the model returns ValueError iff some item exceeds the bin size, whatever its position or multiplicity (format independence by naturality); cbldm's validation and the sums-only manager's refusal are modelled as decision logic and compared on every single-invalid-argument combination.", TB),
 "C12": ("proof", "Lean 4 theorems cbldm_isPartition, cbldm_card, cbldm_some, cbldm_optimal + verified balanced oracle + correspondence",
         "Full: validity, the cardinality bound (also when interrupted), existence of a result and optimality under the bound are proved for every input and bound; certified against the verified oracle optBalanced on every run.", TB),
}

NOT_YET = {k: 'check under construction in this session (suite not yet registered); see DESIGN.md section 8' for k in []}


def main():
    checks = []
    for pid, (cat, tech, text, note) in sorted(CHECKS.items()):
        checks.append({
            "property_id": pid,
            "quick_cmd": f"/venv/bin/python harness/run_check.py {pid} --tier quick",
            "thorough_cmd": f"/venv/bin/python harness/run_check.py {pid} --tier thorough",
            "evidence_file": f"evidence/{pid}.json",
            "replay_cmd_template": f"/venv/bin/python harness/run_check.py {pid} --replay {{path}}",
            "engine": "lean-proof+correspondence",
            "level_claimed": {"category": cat, "text": text, "design_ref": f"DESIGN.md section 8, {pid}"},
            "level_note": note,
            "technique": tech,
        })
    m = {
        "version": 1,
        "setup_cmd": "cd lean && lake build Prtpy PrtpyProofs prtpy_model",
        "hooks": {"guard": "PRTPY_VERIF", "enable": "no source hooks are needed (clocks and the MIP model are intercepted from the harness); the guard is unused",
                  "baseline_off_cmd": "cd /repo && /venv/bin/python -m pytest -ra -q -p no:cacheprovider --timeout=900 --continue-on-collection-errors",
                  "source_commits": [], "add_only": True},
        "engines": [{"name": "lean-proof+correspondence", "path": "harness/run_check.py",
                     "serves_properties": sorted(CHECKS),
                     "kind_free_text": "Lean 4 theorems about hand-written executable models (lean/), audited on every run; the models' compiled driver "
                                       "is compared with the real prtpy from /repo's working tree on generated inputs; verified Lean checkers/oracles judge the implementation's outputs"}],
        "checks": checks,
        "not_applicable": [{"property_id": k, "reason": v} for k, v in sorted(NOT_YET.items())],
        "notes": "See DESIGN.md. fix: commits F1-F15 in /repo are recorded in known_findings.json (status fixed; F13 ended KF7, F15 ended KF4); known findings KF1 (rnp >= 6 bins) and KF5 (complete greedy's heuristic 3 and the first solution).",
    }
    with open(os.path.join(VERIF, "MANIFEST.json"), "w") as f:
        json.dump(m, f, indent=1)
    print("wrote MANIFEST.json with", len(checks), "checks;", len(NOT_YET), "not claimed")


if __name__ == "__main__":
    main()
