"""
core.py - shared infrastructure of the prtpy verification harness.

* imports the real prtpy from /repo's *working tree* (never from a cache or a copy)
* builds and talks to the Lean model driver (lean/.lake/build/bin/prtpy_model)
* presents one logical case in every input format / output type and canonicalises the answers
"""
import os, sys, json, subprocess, time, hashlib, random, warnings, math, itertools, logging

VERIF = os.path.dirname(os.path.dirname(os.path.abspath(__file__)))
REPO = os.environ.get("PRTPY_REPO", "/repo")
LEAN = os.path.join(VERIF, "lean")
DRIVER = os.path.join(LEAN, ".lake", "build", "bin", "prtpy_model")

warnings.filterwarnings("ignore")
logging.disable(logging.CRITICAL)

# ---------------------------------------------------------------- the implementation
sys.path.insert(0, REPO)
for m in [m for m in sys.modules if m == "prtpy" or m.startswith("prtpy.")]:
    del sys.modules[m]
import numpy as np
import prtpy
assert os.path.realpath(prtpy.__file__).startswith(os.path.realpath(REPO) + os.sep), \
    f"prtpy imported from {prtpy.__file__}, not from {REPO}"
prt, out, obj = prtpy.partitioning, prtpy.out, prtpy.obj


def mod(name):
    """the module object behind e.g. 'prtpy.partitioning.complete_greedy' (prtpy.partitioning is a class)"""
    import importlib
    return sys.modules.get(name) or importlib.import_module(name)


# ---------------------------------------------------------------- the model driver
class InfraError(Exception):
    pass


def run(cmd, **kw):
    env = dict(os.environ)
    p = subprocess.run(cmd, stdout=subprocess.PIPE, stderr=subprocess.STDOUT, text=True, env=env, **kw)
    out_ = "\n".join(l for l in p.stdout.splitlines() if "conda.cli.condarc" not in l)
    return p.returncode, out_


_built = {}


def lake_build(targets=("prtpy_model",)):
    """build the given lake targets from the files on disk; cached per process"""
    key = tuple(targets)
    if key in _built:
        return _built[key]
    t0 = time.time()
    rc, o = run(["lake", "build", *targets], cwd=LEAN)
    _built[key] = (rc, o, time.time() - t0)
    return _built[key]


def ensure_driver():
    rc, o, _ = lake_build(("prtpy_model",))
    if rc != 0 or not os.path.exists(DRIVER):
        raise InfraError("driver does not build:\n" + o[-3000:])


def _big_stack():
    # the model's structurally recursive list functions are not tail recursive; give the driver a deep stack
    import resource
    try:
        resource.setrlimit(resource.RLIMIT_STACK, (resource.RLIM_INFINITY, resource.RLIM_INFINITY))
    except Exception:
        pass


def model_query(lines, chunk=20000, timeout=3600):
    """send request lines to the model driver, return the parsed JSON answers (same order)"""
    ensure_driver()
    lines = list(lines)
    if not lines:
        return []
    answers = []
    chunks = [lines[i:i + chunk] for i in range(0, len(lines), chunk)]

    def one(ch):
        p = subprocess.run([DRIVER], input="\n".join(ch) + "\n", stdout=subprocess.PIPE,
                           stderr=subprocess.PIPE, text=True, timeout=timeout, preexec_fn=_big_stack)
        if p.returncode != 0:
            raise InfraError(f"driver exited {p.returncode}: {p.stderr[-2000:]}")
        res = p.stdout.splitlines()
        if len(res) != len(ch):
            raise InfraError(f"driver answered {len(res)} lines for {len(ch)} requests: {p.stderr[-2000:]}")
        return [json.loads(r) for r in res]

    if len(chunks) == 1:
        return one(chunks[0])
    from concurrent.futures import ThreadPoolExecutor
    with ThreadPoolExecutor(max_workers=min(16, len(chunks))) as ex:
        for r in ex.map(one, chunks):
            answers.extend(r)
    return answers


# ---------------------------------------------------------------- request syntax
def f_items(vals, ids=None):
    ids = range(len(vals)) if ids is None else ids
    return "[" + ",".join(f"{i}:{v}" for i, v in zip(ids, vals)) + "]"


def ids_for(fmt, vals, names):
    """id of each item as the model sees it.
    dict / names+valueof input: the rank of the item's name (algorithms that sort or compare names - the
    contents manager's all_combinations - then agree with the model).
    list / array input: the name *is* the value, so equal values are indistinguishable to the code; the model
    is given id = value, which makes them indistinguishable there too."""
    n = len(vals)
    if fmt in ("list", "array", "uarray", "narrow", "f16"):
        return list(vals)
    order = sorted(range(n), key=lambda i: names[i])
    ids = [0] * n
    for r, i in enumerate(order):
        ids[i] = r
    return ids


def f_nats(l):
    return "[" + ",".join(str(int(x)) for x in l) + "]"


def f_bins(bins):
    """bins: list of lists of ids"""
    return "|".join(f_nats(b) for b in bins) if bins else "~"


# ---------------------------------------------------------------- input formats
FORMATS = ["list", "array", "dict_str", "dict_int", "names_valueof", "array_valueof"]


def names_for(fmt, vals, rng):
    """distinct names for the items of a case in the given format (list/array: names are the values)"""
    n = len(vals)
    if fmt in ("list", "array", "uarray", "narrow", "f16"):
        return list(vals)
    if fmt in ("dict_str", "names_valueof"):
        # arbitrary distinct strings whose order is unrelated to the values
        perm = list(range(n)); rng.shuffle(perm)
        res = [f"{chr(97 + (p * 7) % 26)}{p}" for p in perm]
        if n and rng.random() < 0.3:
            res[rng.randrange(n)] = ""          # the empty string is a name like any other (and it is falsy)
        return res
    if fmt in ("dict_int", "array_valueof"):
        # distinct integers that overlap with the range of the values but are unrelated to them
        top = min(max(list(vals) + [0]) + n + 3, 10 ** 6)
        res = rng.sample(range(0, top), n)
        if n and 0 not in res and rng.random() < 0.5:
            res[rng.randrange(n)] = 0           # the name 0 is falsy: `if item:` style tests on names are wrong
        return res
    raise ValueError(fmt)


def present(fmt, vals, names):
    """-> (items argument, valueof argument or None)"""
    if fmt == "list":
        return list(vals), None
    if fmt == "array":
        # signed integers, wide or 32-bit (the 32-bit type only when the library's own integer arithmetic on the values - sums, doubled
        # sums - cannot wrap in it: with narrow items numpy itself wraps 2*sum(items); that is outside "sums are exact", DESIGN section 10)
        dts = [np.int64, np.int64] + ([np.int32] if 8 * (sum(vals) + max(list(vals) + [0])) < 2 ** 31 else [])
        return np.array(vals, dtype=dts[int(sha([list(vals), "dtype"]), 16) % len(dts)]), None
    if fmt == "uarray":
        # unsigned integers (used only where named explicitly: fixes F12 and F13 were found here)
        dts = [np.uint64] + ([np.uint32] if 8 * (sum(vals) + max(list(vals) + [0])) < 2 ** 31 else [])
        return np.array(vals, dtype=dts[int(sha([list(vals), "dtype"]), 16) % len(dts)]), None
    if fmt == "narrow":
        # integers of a NARROW numpy type (8 or 16 bits, signed or unsigned): every value fits the type, sums of values need not.  Used only
        # where named explicitly (streams "narrow-array"); fix F13 was found here (multifit, dp, cg, snp, rnp, bin_completion added the items' own scalars)
        mx = max(list(vals) + [0])
        dts = [dt for dt, top in ((np.int8, 127), (np.uint8, 255), (np.int16, 32767), (np.uint16, 65535)) if mx <= top][:2] or [np.int64]
        return np.array(vals, dtype=dts[int(sha([list(vals), "narrow"]), 16) % len(dts)]), None
    if fmt == "f16":
        # half-precision floats holding integers they represent exactly (multiples of 32 up to 65504): the values fit, their sums overflow to inf
        a16 = np.array(vals, dtype=np.float16)
        return (a16 if all(float(x) == v for x, v in zip(a16, vals)) else np.array(vals, dtype=np.float64)), None
    if fmt == "array_valueof":
        # names+valueof with the names (integers unrelated to the values) in a numpy array
        # ... and the VALUES as 64-bit numpy scalars (since fix F13 an array of items reaches the algorithms as plain Python numbers; a value
        # function backed by a numpy array is the remaining way for numpy scalars to get there)
        d = {int(nm): (np.int64(v) if isinstance(v, int) and 0 <= v < 2 ** 62 else v) for nm, v in zip(names, vals)}
        return np.array(names, dtype=np.int64), (lambda x, d=d: d[int(x)])
    if fmt in ("dict_str", "dict_int"):
        return {nm: v for nm, v in zip(names, vals)}, None
    if fmt == "names_valueof":
        d = {nm: v for nm, v in zip(names, vals)}
        return list(names), d.__getitem__
    raise ValueError(fmt)


# ---------------------------------------------------------------- output types
OUTTYPES = ["Sums", "SortedSums", "LargestSum", "SmallestSum", "ExtremeSums", "Difference", "BinCount",
            "Partition", "PartitionAndSumsTuple", "PartitionAndSums"]
SUMS_ONLY = OUTTYPES[:7]


def num(x):
    """canonical number: ints stay ints, integral floats become ints, everything else is kept (and will mismatch)"""
    if isinstance(x, (bool, np.bool_)):
        return bool(x)
    if isinstance(x, (int, np.integer)):
        return int(x)
    if isinstance(x, (float, np.floating)):
        x = float(x)
        if math.isinf(x):
            return "inf" if x > 0 else "-inf"
        if x == int(x):
            return int(x)
        return x
    return x


def name_c(x):
    if isinstance(x, (np.integer,)):
        return int(x)
    if isinstance(x, (np.floating,)):
        return num(x)
    return x


def _has_inf(res, outtype):
    try:
        if outtype == "PartitionAndSums":
            res = (res.sums, res.lists)
        flat = []
        def walk(x, d=0):
            if isinstance(x, (list, tuple, np.ndarray)) and d < 3:
                for y in x:
                    walk(y, d + 1)
            else:
                flat.append(x)
        walk(res)
        return any(isinstance(x, (float, np.floating)) and math.isinf(x) for x in flat)
    except Exception:
        return False


def canon_impl(res, outtype):
    """canonical form of what prtpy returned for the given output type"""
    if res is None:
        return {"none": True}
    if _has_inf(res, outtype):
        return {"none": True}       # CBLDM's explicit no-solution-yet placeholder ([0, inf], [0, inf]) (DESIGN §10)
    if outtype in ("Sums", "SortedSums"):
        return [num(x) for x in res]
    if outtype in ("LargestSum", "SmallestSum", "Difference", "BinCount"):
        return num(res)
    if outtype == "ExtremeSums":
        return [num(res[0]), num(res[1])]
    if outtype == "Partition":
        return [[name_c(x) for x in b] for b in res]
    if outtype == "PartitionAndSumsTuple":
        return {"sums": [num(x) for x in res[0]], "bins": [[name_c(x) for x in b] for b in res[1]]}
    if outtype == "PartitionAndSums":
        return {"sums": [num(x) for x in res.sums], "bins": [[name_c(x) for x in b] for b in res.lists]}
    raise ValueError(outtype)


def project_model(ans, outtype, names):
    """what the model's single (sums, bins-of-ids) answer looks like through the given output type,
    with the ids replaced by the names of the chosen format"""
    if not isinstance(ans, dict):
        return ans                      # already projected by the model (Prtpy.Out): a number or a list of sums
    if "error" in ans or "none" in ans or "bad" in ans:
        return ans
    if "partition" in ans:              # already projected: substitute the names
        return [[names[i] for i in b] for b in ans["partition"]]
    sums = ans["sums"]
    if not sums and outtype in ("LargestSum", "SmallestSum", "ExtremeSums", "Difference"):
        return {"error": "ValueError"}       # max()/min() of an empty sequence (a cover with no bins)
    if outtype == "Sums":
        return list(sums)
    if outtype == "SortedSums":
        return sorted(sums)
    if outtype == "LargestSum":
        return max(sums)
    if outtype == "SmallestSum":
        return min(sums)
    if outtype == "ExtremeSums":
        return [min(sums), max(sums)]
    if outtype == "Difference":
        return max(sums) - min(sums)
    if outtype == "BinCount":
        return len(sums)
    bins = [[names[i] for i in b] for b in ans["bins"]]      # names: id -> name
    if outtype == "Partition":
        return bins
    return {"sums": list(sums), "bins": bins}


def exc_name(e):
    for cls in (ValueError, IndexError, NotImplementedError, TypeError, KeyError, ZeroDivisionError, AttributeError,
                RecursionError):
        if isinstance(e, cls):
            return cls.__name__
    return type(e).__name__


def ids_of(bins, names, vals=None):
    """map a returned partition (lists of names) back to ids; an invented or duplicated name gets a fresh id
    (>= len(names)) so that the verified checker rejects it. Returns (bins of ids, extra id->value)."""
    pool = {}
    for i, nm in enumerate(names):
        pool.setdefault(_key(nm), []).append(i)
    extra = {}
    nxt = len(names)
    res = []
    for b in bins:
        r = []
        for x in b:
            k = _key(x)
            if pool.get(k):
                r.append(pool[k].pop(0))
            else:
                extra[nxt] = x
                r.append(nxt)
                nxt += 1
        res.append(r)
    return res, extra


def _key(x):
    x = name_c(x)
    if isinstance(x, float) and x == int(x):
        return int(x)
    return x


# ---------------------------------------------------------------- the check's own stdout
_VERDICT_OUT = [None]


def protect_stdout():
    """everything the library (or a worker process) prints goes to stderr; only the check's verdict lines reach stdout"""
    sys.stdout.flush()
    _VERDICT_OUT[0] = os.fdopen(os.dup(1), "w")
    os.dup2(2, 1)


def verdict_print(line):
    o = _VERDICT_OUT[0]
    if o is None:
        print(line)
        sys.stdout.flush()
    else:
        o.write(line + "\n")
        o.flush()


# ---------------------------------------------------------------- misc
def sha(obj_):
    return hashlib.sha1(json.dumps(obj_, sort_keys=True, default=str).encode()).hexdigest()[:12]


def seed_from_env():
    try:
        return int(os.environ.get("VERIF_SEED", "0"))
    except ValueError:
        return 0
