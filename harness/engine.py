"""
engine.py - the per-property check: correspondence (model vs implementation), certified evaluation of the
implementation's outputs with the verified Lean checkers/oracles, proof audit, verdict protocol, evidence.
"""
import os, sys, json, time, random, collections
from core import *
from algs import ALGS
import audit as audit_mod


def J_is_err(x):
    return isinstance(x, dict) and "error" in x


TRUSTED_BASE = [
    "Lean 4.33 kernel; axioms propext, Classical.choice, Quot.sound only (audited per run with #print axioms)",
    "Lean compiler/runtime for the driver executable (compiled code of the definitions the theorems are about)",
    "the correspondence check itself (Python harness, generators, canonicalisation): sampled beyond the stated exhaustive scopes",
    "CPython 3.12 / numpy semantics as used: float64 exact for integers < 2^53, exact comparison of integer quotients, "
    "stability of sorted(), heapq order, itertools.permutations order",
]


_POOL = None


class _CallTimeout(BaseException):
    """raised by the SIGALRM handler; a BaseException so that no `except Exception` (in the library or in call_impl) swallows it"""


def _alarm(signum, frame):
    raise _CallTimeout()


CALL_TIMEOUT_S = int(os.environ.get("VERIF_CALL_TIMEOUT", "300"))


def _impl_one(t):
    """one implementation call, with a wall-clock limit (a call that does not return is reported as error:Timeout,
    which no model answer equals)"""
    import signal
    case, fmt, ot, names = t
    old = signal.signal(signal.SIGALRM, _alarm)
    signal.alarm(CALL_TIMEOUT_S)
    try:
        r = ALGS[case["alg"]].call_impl(case, fmt, ot, names)
        if isinstance(r, dict) and r.get("error") == "MemoryError":
            import gc
            gc.collect()
            return {"error": "Timeout"}      # the address-space limit of the worker (see below): a resource limit, not an answer
        return r
    except _CallTimeout:
        return {"error": "Timeout"}
    except MemoryError:
        # the worker's address-space limit (set in _worker_init): a call that needs many gigabytes is a call that does not finish
        # within the resources of a check - reported like a timeout (never judged, never an alarm)
        import gc
        gc.collect()
        return {"error": "Timeout"}
    finally:
        signal.alarm(0)
        signal.signal(signal.SIGALRM, old)


WORKER_MEM_BYTES = int(os.environ.get("VERIF_WORKER_MEM_GB", "6")) * 2 ** 30


def _worker_init():
    """every worker process may use at most WORKER_MEM_BYTES more address space than it has at start: without a limit one
    exponential call can take all the memory of the machine, the kernel kills a worker, and multiprocessing then waits for ever"""
    import resource
    try:
        with open("/proc/self/statm") as f:
            now = int(f.read().split()[0]) * os.sysconf("SC_PAGE_SIZE")
        resource.setrlimit(resource.RLIMIT_AS, (now + WORKER_MEM_BYTES, resource.RLIM_INFINITY))
    except Exception:      # noqa
        pass


def timed(thunk, limit=None):
    """run a direct call of the implementation under the same wall-clock limit as impl_map's calls"""
    import signal
    old = signal.signal(signal.SIGALRM, _alarm)
    signal.alarm(limit or CALL_TIMEOUT_S)
    try:
        return thunk()
    except _CallTimeout:
        return {"error": "Timeout"}
    finally:
        signal.alarm(0)
        signal.signal(signal.SIGALRM, old)


def _impl_chunk(ts):
    return [_impl_one(t) for t in ts]


def _isolated(t):
    """one implementation call in a process of its own (used after a worker process died): a call that kills its process -
    the MIP solver aborting on an allocation failure, the kernel's OOM killer - is reported like a timeout (never judged)"""
    import multiprocessing as mp
    ctx = mp.get_context("fork")
    rd, wr = ctx.Pipe(duplex=False)

    def child():
        _worker_init()
        try:
            wr.send(_impl_one(t))
        finally:
            wr.close()
    p = ctx.Process(target=child)
    p.start()
    wr.close()
    res = {"error": "Timeout"}
    try:
        if rd.poll(CALL_TIMEOUT_S + 60):
            res = rd.recv()
    except Exception:      # noqa   (EOF: the child died before answering)
        pass
    p.join(5)
    if p.is_alive():
        p.kill(); p.join()
    return res


WORKER_CRASHES = [0]


def impl_map(tasks, serial_below=200):
    """run the real prtpy on every task (case, fmt, outtype, names); worker processes are forked from this
    interpreter, so they run the same /repo working tree.  A worker that dies (killed by the kernel, aborted by the MIP
    solver's C++ runtime) breaks the pool; the calls without an answer are then re-run one per process, and the one that
    kills its process is reported as error:Timeout."""
    global _POOL
    tasks = list(tasks)
    if len(tasks) < serial_below or os.environ.get("VERIF_SERIAL"):
        return [_impl_one(t) for t in tasks]
    import multiprocessing as mp
    from concurrent.futures import ProcessPoolExecutor, as_completed
    from concurrent.futures.process import BrokenProcessPool
    if _POOL is None:
        _POOL = ProcessPoolExecutor(max_workers=min(16, os.cpu_count() or 1), mp_context=mp.get_context("fork"), initializer=_worker_init)
    cs = max(1, min(16, len(tasks) // 64))
    results = [None] * len(tasks)
    done = [False] * len(tasks)
    futs = {}
    try:
        for i in range(0, len(tasks), cs):
            futs[_POOL.submit(_impl_chunk, tasks[i:i + cs])] = i
        for f in as_completed(futs):
            i = futs[f]
            for j, r in enumerate(f.result()):
                results[i + j] = r; done[i + j] = True
    except BrokenProcessPool:
        WORKER_CRASHES[0] += 1
        try:
            _POOL.shutdown(wait=False, cancel_futures=True)
        except Exception:      # noqa
            pass
        _POOL = None
        for f, i in futs.items():       # keep what did finish
            if f.done() and not f.cancelled() and f.exception() is None:
                for j, r in enumerate(f.result()):
                    results[i + j] = r; done[i + j] = True
        rest = [i for i in range(len(tasks)) if not done[i]]
        from concurrent.futures import ThreadPoolExecutor
        with ThreadPoolExecutor(8) as tp:
            for i, r in zip(rest, tp.map(lambda i_: _isolated(tasks[i_]), rest)):
                results[i] = r
    return results


class Check:
    def __init__(self, pid, tier=None, seed=None, level="proof"):
        self.pid = pid
        self.tier = tier or os.environ.get("VERIF_TIER", "quick")
        self.seed = seed_from_env() if seed is None else seed
        self.rng = random.Random(f"{pid}-{self.seed}")
        self.level = level
        self.t0 = time.time()
        self.stats = collections.defaultdict(lambda: collections.Counter())
        self.evaluations = 0
        self.corr_cases = 0
        self.distinct = set()
        self.nontrivial = set()
        self.samples = []
        self.disagreements = []      # model != implementation
        self.failures = []           # the implementation fails the property (judged by verified checkers)
        self.known_hits = collections.OrderedDict()
        self.solver_faults = 0
        self.call_timeouts = 0
        self.float_divergences = 0
        self.exhaustive_scopes = []
        self.notes = []
        self.assumptions = []
        self.kf = json.load(open(os.path.join(VERIF, "known_findings.json")))
        self.rule = ("cases come from the bounded-exhaustive scopes and the seeded structured random streams named in "
                     "per_stream; a case is distinct by (algorithm, parameters, values) and non-trivial when it has "
                     "at least 2 items and its answer is an error or has at least 2 non-empty bins or differs from "
                     "the input order")

    # ------------------------------------------------------------ bookkeeping
    def quick(self):
        return self.tier != "thorough"

    def n(self, quick, thorough):
        return quick if self.quick() else thorough

    def _count(self, stream, case, ans):
        key = (case["alg"], json.dumps(case["p"], sort_keys=True, default=str), tuple(case["vals"]))
        self.distinct.add(key)
        nt = False
        if len(case["vals"]) >= 2:
            if isinstance(ans, dict) and ("error" in ans or "none" in ans):
                nt = True
            elif isinstance(ans, dict) and "bins" in ans:
                nt = sum(1 for b in ans["bins"] if b) >= 2 or [i for b in ans["bins"] for i in b] != list(range(len(case["vals"])))
            else:
                nt = True
        if nt:
            self.nontrivial.add(key)
        self.stats[stream]["cases"] += 1
        self.stats[stream][f"n={min(len(case['vals']), 20)}"] += 1
        if isinstance(ans, dict) and "error" in ans:
            self.stats[stream]["error:" + ans["error"]] += 1
        if isinstance(ans, dict) and "none" in ans:
            self.stats[stream]["none"] += 1

    def sample(self, s):
        """keep the first two cases and a reservoir sample of six more (so that the evidence shows typical, not only the smallest, cases)"""
        self._seen_samples = getattr(self, "_seen_samples", 0) + 1
        if len(self.samples) < 8:
            self.samples.append(s)
            return
        if not hasattr(self, "_srng"):
            self._srng = random.Random(f"samples-{self.pid}-{self.seed}")
        j = self._srng.randrange(self._seen_samples)
        if j < 6:
            self.samples[2 + j] = s

    # ------------------------------------------------------------ known findings
    def match_known(self, alg, case, fmt, kind):
        for k in self.kf:
            if k.get("status") != "known" or self.pid not in k["properties"]:
                continue
            kinds = k["kind"] if isinstance(k["kind"], list) else [k["kind"]]
            algs_ = k["algorithm"] if isinstance(k["algorithm"], list) else [k["algorithm"]]
            if alg not in algs_ or not any(kind.startswith(kk_) for kk_ in kinds):
                continue
            pr = k.get("predicate", {})
            p = case["p"]
            if "numbins_min" in pr and not p.get("k", 0) >= pr["numbins_min"]:
                continue
            if "numbins" in pr and p.get("k") != pr["numbins"]:
                continue
            if "formats" in pr and fmt not in pr["formats"]:
                continue
            if any(p.get(key) != want for key, want in pr.get("params", {}).items()):
                continue
            if "obj_prefixes" in pr and not any(str(p.get("obj", "")).startswith(x) for x in pr["obj_prefixes"]):
                continue
            if pr.get("model_answers") is not None:
                # the finding only covers inputs on which the model of the current code gives this answer
                # (KF1: the model answers NotImplementedError exactly when KK's first partition is not perfect)
                try:
                    req = ALGS[alg].request(case, list(case["vals"]), True)
                    a = model_query([req])[0]
                    if not (isinstance(a, dict) and a.get("error") == pr["model_answers"]):
                        continue
                except Exception:      # noqa
                    continue
            return k
        return None

    @staticmethod
    def _kf4_shape(case, observed):
        """what computing on names instead of values can produce: a TypeError (string names), or bins in which every
        name of a non-zero item still occurs exactly once (they are only packed by the wrong numbers).  Anything else -
        lost, duplicated or invented items, other exceptions - is not explained by KF4."""
        if isinstance(observed, dict) and "error" in observed:
            return observed["error"] == "TypeError"
        bins = observed.get("bins") if isinstance(observed, dict) else None
        if bins is None:
            return True            # a sums-only output: nothing to tell apart
        names = [x for b in bins for x in b]
        nonzero = sum(1 for v in case["vals"] if v != 0)
        return len(names) == len(set(map(repr, names))) and nonzero <= len(names) <= len(case["vals"])

    def fail(self, alg, case, fmt, outtype, kind, observed, expected, extra=None):
        """the implementation fails the property on this case (already judged)"""
        k = self.match_known(alg, case, fmt, kind)
        if k is not None:
            self.known_hits.setdefault(k["id"], {"finding": k, "count": 0, "first": {"case": case, "fmt": fmt}})
            self.known_hits[k["id"]]["count"] += 1
            return
        self.failures.append({"alg": alg, "case": case, "fmt": fmt, "outtype": outtype, "kind": kind,
                              "observed": observed, "expected": expected, **(extra or {})})

    # ------------------------------------------------------------ correspondence
    def corr(self, stream, cases, combos, relation=None, judge=None):
        """Strict correspondence of `cases` (list of case dicts) between the model and the implementation.
        combos(case, rng) -> list of (fmt, outtype).  judge(case, fmt, outtype, impl_answer, names, model_answer)
        -> list of (request line, predicate(answer)->None|message) evaluated by the verified Lean checkers."""
        cases = list(cases)
        if not cases:
            return
        # plan: one model request per (case, ids, contents-flag); identical lines are asked once
        plan = []
        lines = {}
        for case in cases:
            alg = ALGS[case["alg"]]
            for fmt, ot in combos(case, self.rng):
                names = names_for(fmt, case["vals"], random.Random(sha([case["vals"], fmt])))
                ids = ids_for(fmt, case["vals"], names)
                req = alg.request(case, ids, ot not in SUMS_ONLY, outtype=ot)
                lines.setdefault(req, len(lines))
                plan.append((case, fmt, ot, names, ids, req))
        answers = model_query(list(lines))
        gots = impl_map([(case, fmt, ot, names) for case, fmt, ot, names, ids, req in plan])
        pending = []      # (line, pred, context)
        counted = set()
        for (case, fmt, ot, names, ids, req), got in zip(plan, gots):
            alg = ALGS[case["alg"]]
            ans = answers[lines[req]]
            if isinstance(ans, dict) and "bad" in ans:
                raise InfraError(f"driver rejected request {req!r}: {ans}")
            if id(case) not in counted:
                counted.add(id(case))
                self._count(stream, case, ans)
                self.corr_cases += 1
            by_id = {i: nm for i, nm in zip(ids, names)}
            self.evaluations += 1
            if isinstance(got, dict) and got.get("error") == "Timeout":
                self.call_timeouts += 1
                self.stats[stream]["call-timeout (not judged)"] += 1
                continue
            self.stats[stream][f"fmt:{fmt}"] += 1
            self.stats[stream][f"out:{ot}"] += 1
            if alg.unmodelled and alg.unmodelled(case, fmt) and not (case["alg"] == "rnp" and not (isinstance(ans, dict) and ans.get("error") == "NotImplementedError")):
                want, same = {"unmodelled": True}, True
                self.stats[stream]["unmodelled"] += 1
            elif alg.relation:
                want = ans
                same = alg.relation(case, fmt, ot, got, ans, by_id)
            else:
                want = project_model(ans, ot, by_id)
                same = relation(case, fmt, ot, got, want, by_id) if relation else (got == want)
            if not same and case["alg"] == "multifit" and not J_is_err(got):
                # float capacity search in the code, exact rationals in the model: tolerated exactly when a rounding really occurs on this
                # input, the exact transcription gives the model's answer and the float transcription gives the implementation's
                from algs import multifit_float_divergence
                fd = multifit_float_divergence(case, ids_for(fmt, case["vals"], names))
                if fd is not None and project_model(fd[1], ot, by_id) == want and project_model(fd[0], ot, by_id) == got:
                    same = True
                    self.stats[stream]["float-divergence (multifit capacity search; tolerated, DESIGN 3)"] += 1
            if not same:
                self.disagreements.append({"stream": stream, "alg": case["alg"], "case": case, "fmt": fmt,
                                           "outtype": ot, "impl": got, "model": want, "request": req})
            self.sample({"request": req, "format": fmt, "outputtype": ot, "impl": got, "model": want})
            if judge:
                try:
                    items_ = judge(case, fmt, ot, got, names, ans)
                except (KeyError, TypeError, IndexError, AttributeError, ValueError) as e:
                    # the answer does not even have the shape of a result (None, wrong container, ...): a failure, not a crash of the check
                    msg = f"the answer {json.dumps(got, default=str)[:200]} is not a result of the requested output type ({type(e).__name__}: {e})"
                    items_ = [(None, lambda a, msg=msg: ("malformed-result", msg))]
                for line, pred in items_:
                    pending.append((line, pred, (case, fmt, ot, got)))
        self._last_judge = judge
        n0 = len(self.failures)
        self.run_pending(pending)
        for f in self.failures[n0:]:
            f["_judge"] = judge

    def judge_one(self, case, fmt, ot, judge):
        """evaluate one case on the implementation with the given judge -> list of failure kinds (used by the shrinker)"""
        alg = ALGS[case["alg"]]
        names = names_for(fmt, case["vals"], random.Random(sha([case["vals"], fmt])))
        ids = ids_for(fmt, case["vals"], names)
        ans = model_query([alg.request(case, ids, ot not in SUMS_ONLY, outtype=ot)])[0]
        got = timed(lambda: alg.call_impl(case, fmt, ot, names), limit=20)
        if isinstance(got, dict) and got.get("error") in ("Timeout", "MemoryError"):
            return [], got          # a resource limit is never a verdict: this candidate is not kept
        try:
            items_ = judge(case, fmt, ot, got, names, ans)
        except Exception as e:      # noqa
            return ["malformed-result"], got
        lines = [l for l, _ in items_ if l is not None]
        answers = iter(model_query(lines)) if lines else iter([])
        kinds = []
        for l, pred in items_:
            r = pred(next(answers) if l is not None else None)
            if r:
                kinds.append(r[0] if isinstance(r, tuple) else "property")
        return kinds, got

    def shrink(self, f, budget=60):
        """greedy delta debugging of a failing case: drop items, then halve values, while a failure of the same kind persists"""
        judge = f.get("_judge")
        case = f["case"]
        if judge is None or case.get("alg") not in ALGS or f["fmt"] not in FORMATS + ["uarray", "narrow", "f16"] or f["outtype"] not in OUTTYPES:
            return f
        best, tried, kind = dict(case, vals=list(case["vals"])), 0, f["kind"]
        best_got = f["observed"]
        progress = True
        while progress and tried < budget:
            progress = False
            cands = [best["vals"][:i] + best["vals"][i + 1:] for i in range(len(best["vals"]))] if len(best["vals"]) > 1 else []
            cands += [best["vals"][:i] + [best["vals"][i] // 2] + best["vals"][i + 1:] for i in range(len(best["vals"])) if best["vals"][i] > 1]
            for vals in cands:
                if tried >= budget:
                    break
                tried += 1
                cand = {"alg": best["alg"], "vals": vals, "p": dict(best["p"])}
                try:
                    kinds, got = self.judge_one(cand, f["fmt"], f["outtype"], judge)
                except Exception:      # noqa
                    continue
                if kind in kinds or ("names-not-values:" + kind) in kinds or kind.replace("names-not-values:", "") in kinds:
                    best, best_got, progress = cand, got, True
                    break
        if best["vals"] != case["vals"]:
            f = dict(f, case=best, observed=best_got, shrunk_from={"vals": case["vals"]}, note_shrunk=f"shrunk from {len(case['vals'])} to {len(best['vals'])} items in {tried} evaluations")
        return f

    def direct(self, stream, triples, nontrivial=None):
        """correspondence for direct calls (objectives, bounds, enumerators, manager operations):
        triples = [(request line, thunk calling the implementation -> canonical value, label dict)]"""
        triples = list(triples)
        if not triples:
            return
        answers = model_query([t[0] for t in triples])
        for (line, thunk, label), ans in zip(triples, answers):
            if isinstance(ans, dict) and "bad" in ans:
                raise InfraError(f"driver rejected request {line!r}: {ans}")
            try:
                got = timed(thunk)
            except Exception as e:  # noqa
                got = {"error": exc_name(e)}
            self.evaluations += 1
            if isinstance(got, dict) and got.get("error") == "Timeout":
                self.call_timeouts += 1
                continue
            self.corr_cases += 1
            self.stats[stream]["cases"] += 1
            self.distinct.add(line)
            if nontrivial is None or nontrivial(label, ans):
                self.nontrivial.add(line)
            if got != ans:
                self.disagreements.append({"stream": stream, "alg": label.get("alg", stream), "case": {"vals": label.get("vals", []), "p": label},
                                           "fmt": "direct", "outtype": "-", "impl": got, "model": ans, "request": line})
            self.sample({"request": line, "impl": got, "model": ans})

    def check_direct(self, alg, label, kind, ok, observed, expected):
        """a property evaluated directly on an implementation result (label = the call, for the replay)"""
        self.stats["direct-evaluation"]["evaluations"] += 1
        if not ok:
            self.fail(alg, {"alg": alg, "vals": label.get("vals", []), "p": label}, label.get("fmt", "direct"), label.get("outtype", "-"),
                      kind, observed, expected)

    def run_pending(self, pending):
        if not pending:
            return
        lines = [l for l, _, _ in pending if l is not None]
        ans = iter(model_query(lines))
        for line, pred, (case, fmt, ot, got) in pending:
            a = next(ans) if line is not None else None
            if a is not None and isinstance(a, dict) and "bad" in a:
                raise InfraError(f"driver rejected checker request {line!r}")
            self.stats["certified"]["evaluations"] += 1
            r = pred(a)
            if r:
                kind, msg = r if isinstance(r, tuple) else ("property", r)
                self.fail(case["alg"], case, fmt, ot, kind, got, msg, {"checker_request": line, "checker_answer": a})

    # ------------------------------------------------------------ finish
    def finish(self, extra_coverage=None, explanation=None):
        aud = audit_mod.audit(self.pid, self.tier)
        broken = [t for t in aud["theorems"] if not t["ok"]]
        # VERIF_OUT_DIR redirects evidence and replays (used only when the checks are pointed at a scratch tree with a seeded change)
        outdir = os.environ.get("VERIF_OUT_DIR") or VERIF
        os.makedirs(os.path.join(outdir, "replays"), exist_ok=True)
        os.makedirs(os.path.join(outdir, "evidence"), exist_ok=True)
        violations = []

        for k in self.known_hits.values():
            f = k["finding"]
            verdict_print(f"KNOWN-FINDING: property={self.pid} {f['id']} {f['what']} (seen {k['count']}x this run, "
                          f"e.g. {json.dumps(k['first']['case']['vals'])} {json.dumps(k['first']['case']['p'])})")

        def write_replay(obj_):
            obj_ = dict(obj_, property=self.pid, seed=self.seed, tier=self.tier,
                        replay_cmd=f"/venv/bin/python harness/run_check.py {self.pid} --replay <this file>")
            path = os.path.join("replays", f"{self.pid}-{sha(obj_)}.json")
            with open(os.path.join(outdir, path), "w") as f:
                json.dump(obj_, f, indent=1, default=str)
            return path

        if self.failures:
            # one VIOLATION line per distinct (algorithm, kind); smallest input first
            seen = set()
            for f in sorted(self.failures, key=lambda f: (len(f["case"]["vals"]), sum(f["case"]["vals"]))):
                key = (f["alg"], f["kind"])
                if key in seen:
                    continue
                seen.add(key)
                try:
                    f = self.shrink(f)
                except Exception:      # noqa  (shrinking is a convenience; the unshrunk case is a valid replay)
                    pass
                f = {k_: v_ for k_, v_ in f.items() if k_ != "_judge"}
                path = write_replay(dict(f, kind_of_replay="counterexample"))
                violations.append(f"VIOLATION property={self.pid} replay={path}")
        elif self.disagreements or broken or not aud["build_ok"]:
            if self.disagreements:
                d = min(self.disagreements, key=lambda d: (len(d["case"]["vals"]), sum(d["case"]["vals"])))
                path = write_replay(dict(d, kind_of_replay="disagreement",
                                         note="model and implementation differ on this input; the failing-input search "
                                              "(certified evaluation of every implementation output of this run) found no "
                                              "input on which the property itself fails",
                                         n_disagreements=len(self.disagreements)))
            else:
                path = write_replay({"kind_of_replay": "broken-obligation",
                                     "theorems": broken, "build_ok": aud["build_ok"], "log": aud["log"][-3000:]})
            violations.append(f"VIOLATION property={self.pid} replay={path} no-failing-input-found")

        cov = {
            "obligations": aud["obligations"], "discharged": aud["discharged"],
            "checker_cmd": "cd lean && lake build Prtpy PrtpyProofs prtpy_model && lake env lean .lake/audit/Audit_%s_<pid>.lean  (#print axioms of every registered theorem; the file is generated by harness/audit.py)" % self.pid,
            "trusted_base": TRUSTED_BASE + self.assumptions,
            "theorems": aud["theorems"], "stated_not_proven": aud["stated_not_proven"],
            "forbidden_construct_hits": aud["forbidden_hits"], "leanchecker": aud.get("leanchecker", "not run (thorough tier only)"),
            "evaluations": self.evaluations + self.stats["certified"]["evaluations"] + self.stats["direct-evaluation"]["evaluations"],
            "distinct_nontrivial": len(self.nontrivial), "distinct_inputs": len(self.distinct),
            "rule": self.rule,
            "samples": self.samples,
            "traces_validated_against_impl": self.corr_cases,
            "exhaustive": bool(self.exhaustive_scopes), "exhaustive_scopes": self.exhaustive_scopes,
            "per_stream": {k: dict(v) for k, v in self.stats.items()},
            "disagreements": len(self.disagreements), "property_failures": len(self.failures),
            "known_findings_hit": {k: v["count"] for k, v in self.known_hits.items()},
            "solver_faults": self.solver_faults, "float_divergences": self.float_divergences,
            "notes": self.notes,
        }
        if explanation:
            cov["explanation"] = explanation
        if extra_coverage:
            cov.update(extra_coverage)
        ev = {"property_id": self.pid, "tier": "thorough" if self.tier == "thorough" else "quick", "seed": self.seed,
              "level": self.level, "coverage": cov, "assumptions": TRUSTED_BASE + self.assumptions,
              "wall_s": round(time.time() - self.t0, 2), "violations": len(violations)}
        if not getattr(self, "replay_mode", False):        # a replay re-judges one case; it does not replace the evidence of a full run
            with open(os.path.join(outdir, "evidence", f"{self.pid}.json"), "w") as f:
                json.dump(ev, f, indent=1, default=str)
        for d in self.disagreements[:5]:
            print(f"  disagreement [{d['stream']}] {d['request']} fmt={d['fmt']} out={d['outtype']}: impl={json.dumps(d['impl'], default=str)[:300]} "
                  f"model={json.dumps(d['model'], default=str)[:300]}", file=sys.stderr)
        for f in self.failures[:5]:
            print(f"  property failure [{f['alg']}] {json.dumps(f['case'])[:300]} fmt={f['fmt']}: {f['kind']}: {f['expected']} observed={json.dumps(f['observed'], default=str)[:300]}", file=sys.stderr)
        for v in violations:
            verdict_print(v)
        print(f"[{self.pid}] tier={self.tier} seed={self.seed} corr_cases={self.corr_cases} impl_calls={self.evaluations} "
              f"certified={self.stats['certified']['evaluations']} theorems={aud['discharged']}/{aud['obligations']} "
              f"disagreements={len(self.disagreements)} failures={len(self.failures)} wall={ev['wall_s']}s", file=sys.stderr)
        if violations:
            return 1
        if self.call_timeouts:
            print(f"INFRA-FAILURE property={self.pid}: {self.call_timeouts} implementation call(s) exceeded {CALL_TIMEOUT_S} s and were not judged "
                  f"(a timeout is never a verdict)", file=sys.stderr)
            return 2
        return 0
