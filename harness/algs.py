"""
algs.py - registry of the prtpy entry points and of the model operation that mirrors each.

A *case* is a dict: {"alg": key, "vals": [ints], "p": {parameters}}.
  request(case)            -> the request line for the Lean driver
  call_impl(case, fmt, ot) -> canonical answer of the real prtpy for input format fmt and output type ot
"""
from core import *

OBJ_IMPL = {
    "maxmin": lambda: obj.MaximizeSmallestSum,
    "minmax": lambda: obj.MinimizeLargestSum,
    "diff": lambda: obj.MinimizeDifference,
}


def objective_impl(name):
    if name in OBJ_IMPL:
        return OBJ_IMPL[name]()
    kind, k = name.split(":")
    return obj.MaximizeKSmallestSums(int(k)) if kind == "ksmall" else obj.MinimizeKLargestSums(int(k))


class CountingClock:
    """deterministic clock: perf_counter() returns 0, 1, 2, ... (DESIGN §3, Clocks)"""
    def __init__(self):
        self.t = -1

    def perf_counter(self):
        self.t += 1
        return self.t


class Alg:
    def __init__(self, key, kind, fn, op=None, param=None, kwargs=None, req_extra=None, pre=None, needs_contents=False,
                 relation=None, direct=None, unmodelled=None):
        self.key, self.kind, self.fn = key, kind, fn
        self.op = op or key
        self.param = param or ("k" if kind == "partition" else "B")
        self.kwargs = kwargs or (lambda p: {})
        self.req_extra = req_extra or (lambda p: "")
        self.pre = pre            # hook run before every implementation call (e.g. install a clock)
        self.needs_contents = needs_contents   # the model distinguishes the sums-only from the contents manager
        self.relation = relation   # relation(case, fmt, outtype, impl_answer, raw_model_answer, by_id) when not strict
        self.direct = direct       # direct(p) -> True: call the algorithm with a binner, not through the adaptor
        self.unmodelled = unmodelled   # unmodelled(case, fmt) -> True: no strict comparison (the judges still apply)

    def request(self, case, ids=None, contents=True, outtype=None):
        """outtype: ask the model for that output type (prtpy/outputtypes.py is part of the model: Prtpy.Out);
        None: the full bins-array"""
        p = case["p"]
        c = f" contents={int(contents)}" if self.needs_contents else ""
        o = f" out={outtype}" if (outtype and not self.relation) else ""
        return f"{self.op} {self.param}={p[self.param]}{c} items={f_items(case['vals'], ids)}{self.req_extra(p)}{o}"

    def call_impl(self, case, fmt, outtype, names, mutation=None):
        """mutation: optional list; a description is appended when the call changed the object it was given"""
        p = case["p"]
        items, valueof = present(fmt, case["vals"], names)
        if mutation is not None:
            import copy
            snap = list(items.items()) if isinstance(items, dict) else (items.copy() if isinstance(items, np.ndarray) else copy.deepcopy(items))
            given = items
        ot = getattr(out, outtype)
        kw = dict(self.kwargs(p))
        if valueof is not None:
            kw["valueof"] = valueof
        try:
            if self.pre:
                self.pre(p)
            if self.direct and self.direct(p):
                # what prtpy.partition does, minus its crash on a `None` result (anytime algorithm, no solution yet)
                if isinstance(items, dict):
                    vo = kw.pop("valueof", None) or items.__getitem__
                    item_names = items.keys()
                else:
                    vo = kw.pop("valueof", None) or (lambda item: item)
                    item_names = items
                bins = self.fn()(ot.create_binner(vo), p["k"], item_names, **kw)
                r = None if bins is None else ot.extract_output_from_binsarray(bins)
            elif self.kind == "partition":
                r = prtpy.partition(algorithm=self.fn(), numbins=p["k"], items=items, outputtype=ot, **kw)
            else:
                r = prtpy.pack(algorithm=self.fn(), binsize=p["B"], items=items, outputtype=ot, **kw)
        except Exception as e:       # noqa   (the call limit is a BaseException and passes through)
            r = e
        except SystemExit as e:      # the library must not end the process
            r = RuntimeError(f"SystemExit({e.code})")
        if mutation is not None:
            now = list(given.items()) if isinstance(given, dict) else given
            same = (np.array_equal(now, snap) and now.dtype == snap.dtype) if isinstance(snap, np.ndarray) else (now == snap and type(now) == type(snap))
            if not same:
                mutation.append(f"the {fmt} argument was {snap!r} before the call and is {now!r} after it")
        if isinstance(r, Exception):
            return {"error": exc_name(r)}
        try:
            return canon_impl(r, outtype)
        except Exception as e:       # noqa  (e.g. output extraction from a malformed result)
            return {"error": "canon:" + exc_name(e)}


def _bf():
    return mod("prtpy.packing.best_fit")


ALGS = {}


def reg(a):
    ALGS[a.key] = a
    return a


reg(Alg("greedy", "partition", lambda: prt.greedy))
reg(Alg("roundrobin", "partition", lambda: prt.roundrobin))
reg(Alg("multifit", "partition", lambda: prt.multifit,
        kwargs=lambda p: {"iterations": p.get("it", 10)}, req_extra=lambda p: f" it={p.get('it', 10)}"))
reg(Alg("ff", "pack", lambda: prtpy.packing.first_fit))
reg(Alg("ffd", "pack", lambda: prtpy.packing.first_fit_decreasing))
reg(Alg("bf", "pack", lambda: _bf().online))
reg(Alg("bfd", "pack", lambda: _bf().decreasing))
reg(Alg("cover_decreasing", "cover", lambda: prtpy.covering.decreasing))
reg(Alg("twothirds", "cover", lambda: prtpy.covering.twothirds))
reg(Alg("threequarters", "cover", lambda: prtpy.covering.threequarters))


# ---- exact / anytime partitioners
def _cut(p):
    c = p.get("cut")
    return "inf" if c is None else str(c)


def _install_clock(modname):
    def pre(p):
        import time as real_time
        mod(modname).time = CountingClock() if p.get("cut") is not None else real_time
    return pre


reg(Alg("kk", "partition", lambda: prt.kk))
reg(Alg("ckk", "partition", lambda: prt.ckk, needs_contents=True))
reg(Alg("snp", "partition", lambda: prt.snp, needs_contents=True))
reg(Alg("rnp", "partition", lambda: prt.rnp, needs_contents=True, unmodelled=lambda case, fmt: case["p"]["k"] >= 6))
reg(Alg("cg", "partition", lambda: prt.cg,
        kwargs=lambda p: {"objective": objective_impl(p["obj"]), "use_lower_bound": bool(p["lb"]),
                          "use_fast_lower_bound": bool(p["fast"]), "use_heuristic_3": bool(p["h3"]),
                          "use_set_of_seen_states": bool(p["seen"]),
                          "time_limit": float("inf") if p.get("cut") is None else p["cut"]},
        req_extra=lambda p: f" obj={p['obj']} lb={p['lb']} fast={p['fast']} h3={p['h3']} seen={p['seen']} cut={_cut(p)}",
        pre=_install_clock("prtpy.partitioning.complete_greedy"), direct=lambda p: p.get("cut") is not None))
def obj_value(name, sums):
    """objective value of a sum vector, computed independently of prtpy (used only by non-strict relations)"""
    s = sorted(sums)
    if name == "maxmin":
        return -s[0]
    if name == "minmax":
        return s[-1]
    if name == "diff":
        return s[-1] - s[0]
    kind, k = name.split(":")
    k = int(k)
    return -sum(s[:k]) if kind == "ksmall" else sum(s[-k:])


def dp_relation(case, fmt, ot, got, model_ans, by_id):
    """DP: which optimal record is returned depends on CPython's set order (DESIGN §3): the relation is
    'the returned sums attain the model's optimum'; validity is judged separately by the verified checker."""
    if "error" in model_ans or (isinstance(got, dict) and ("error" in got or "none" in got)):
        return got == model_ans
    if ot == "BinCount":
        return got == case["p"]["k"]
    if ot not in ("Sums", "SortedSums", "PartitionAndSumsTuple", "PartitionAndSums"):
        return True       # a single derived number: compared with the full output by the C06 suite itself
    sums = got["sums"] if isinstance(got, dict) else got
    return obj_value(case["p"]["obj"], sums) == model_ans["value"]


reg(Alg("dp", "partition", lambda: prt.dp,
        kwargs=lambda p: {"objective": objective_impl(p["obj"])}, req_extra=lambda p: f" obj={p['obj']}",
        relation=dp_relation))
reg(Alg("ilp", "partition", lambda: prt.ilp, op="dp",
        kwargs=lambda p: {"objective": objective_impl(p["obj"])}, req_extra=lambda p: f" obj={p['obj']}",
        relation=dp_relation))      # solver trusted: the relation is "attains the verified optimum"; validity judged separately
reg(Alg("cbldm", "partition", lambda: prt.cbldm, op="cbldm", param="k",
        kwargs=lambda p: {**({} if p.get("cut") is None else {"time_limit": p["cut"]}),
                          **({} if p.get("d") is None else {"partition_difference": p["d"]})},
        req_extra=lambda p: f" d={'inf' if p.get('d') is None else p['d']} cut={_cut(p)}",
        pre=_install_clock("prtpy.partitioning.cbldm"),
        unmodelled=lambda case, fmt: case["p"]["k"] != 2))      # argument validation is modelled separately (cbldm_validate, C19)

reg(Alg("bin_completion", "pack", lambda: prtpy.packing.bin_completion))     # named input too: BC.binCompletionNamed (fix F15: search on the values, items put back)


def multifit_float_divergence(case, ids):
    """multifit's binary search on the bin capacity runs in floats in the code and in exact rationals in the model (DESIGN section 3,
    Floats).  Outside the float-exact domain the two can part: (56/5 + 84/5)/2 is 14 exactly but 13.999999999999998 in floats, so a bin
    of sum 14 is allowed by the model and refused by the code.  Returns None when no rounding occurs on this input (then a difference
    between model and code is a real disagreement); otherwise (float answer, exact answer), each as {"sums", "bins" of ids}:
    transcriptions of the documented procedure, written here independently of /repo."""
    from fractions import Fraction
    vals, k, it = list(case["vals"]), case["p"]["k"], case["p"].get("it", 10)
    if not vals or k < 1:
        return None
    s, m = sum(vals), max(vals)
    order = sorted(range(len(vals)), key=lambda i: vals[i], reverse=True)

    def ff(cap):
        bins, sums = [[]], [0]
        for i in order:
            for b in range(len(bins)):
                if sums[b] + vals[i] <= cap:
                    bins[b].append(i); sums[b] += vals[i]
                    break
            else:
                bins.append([i]); sums.append(vals[i])
        return bins, sums

    flo, fhi = max(s / k, m), max(2 * s / k, m)
    qlo, qhi = max(Fraction(s, k), m), max(Fraction(2 * s, k), m)
    rounded = (Fraction(flo) != qlo) or (Fraction(fhi) != qhi)
    for _ in range(it):
        fmid, qmid = (flo + fhi) / 2, (qlo + qhi) / 2
        rounded = rounded or Fraction(fmid) != qmid
        if len(ff(fmid)[0]) <= k:
            fhi = fmid
        else:
            flo = fmid
        if len(ff(qmid)[0]) <= k:
            qhi = qmid
        else:
            qlo = qmid
    if not rounded:
        return None
    res = []
    for cap in (fhi, qhi):
        bins, sums = ff(cap)
        res.append({"sums": list(sums), "bins": [[ids[i] for i in b] for b in bins]})
    return tuple(res)
