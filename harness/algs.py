"""
algs.py - registry of the prtpy entry points and of the model operation that mirrors each.

A *case* is a dict: {"alg": key, "vals": [ints], "p": {parameters}}.
  request(case)            -> the request line for the Lean driver
  call_impl(case, fmt, ot) -> canonical answer of the real prtpy for input format fmt and output type ot
"""
from core import *

OBJ_IMPL = {
    "maxmin": lambda: obj.MaximizeSmallestSum,
    "minmax": lambda: obj.MinimizeLargestSum,
    "diff": lambda: obj.MinimizeDifference,
}


def objective_impl(name):
    if name in OBJ_IMPL:
        return OBJ_IMPL[name]()
    kind, k = name.split(":")
    return obj.MaximizeKSmallestSums(int(k)) if kind == "ksmall" else obj.MinimizeKLargestSums(int(k))


class CountingClock:
    """deterministic clock: perf_counter() returns 0, 1, 2, ... (DESIGN §3, Clocks)"""
    def __init__(self):
        self.t = -1

    def perf_counter(self):
        self.t += 1
        return self.t


class Alg:
    def __init__(self, key, kind, fn, op=None, param=None, kwargs=None, req_extra=None, pre=None):
        self.key, self.kind, self.fn = key, kind, fn
        self.op = op or key
        self.param = param or ("k" if kind == "partition" else "B")
        self.kwargs = kwargs or (lambda p: {})
        self.req_extra = req_extra or (lambda p: "")
        self.pre = pre            # hook run before every implementation call (e.g. install a clock)

    def request(self, case):
        p = case["p"]
        return f"{self.op} {self.param}={p[self.param]} items={f_items(case['vals'])}{self.req_extra(p)}"

    def call_impl(self, case, fmt, outtype, names):
        p = case["p"]
        items, valueof = present(fmt, case["vals"], names)
        ot = getattr(out, outtype)
        kw = dict(self.kwargs(p))
        if valueof is not None:
            kw["valueof"] = valueof
        try:
            if self.pre:
                self.pre(p)
            if self.kind == "partition":
                r = prtpy.partition(algorithm=self.fn(), numbins=p["k"], items=items, outputtype=ot, **kw)
            else:
                r = prtpy.pack(algorithm=self.fn(), binsize=p["B"], items=items, outputtype=ot, **kw)
        except Exception as e:       # noqa
            return {"error": exc_name(e)}
        try:
            return canon_impl(r, outtype)
        except Exception as e:       # noqa  (e.g. output extraction from a malformed result)
            return {"error": "canon:" + exc_name(e)}


def _bf():
    return mod("prtpy.packing.best_fit")


ALGS = {}


def reg(a):
    ALGS[a.key] = a
    return a


reg(Alg("greedy", "partition", lambda: prt.greedy))
reg(Alg("roundrobin", "partition", lambda: prt.roundrobin))
reg(Alg("multifit", "partition", lambda: prt.multifit,
        kwargs=lambda p: {"iterations": p.get("it", 10)}, req_extra=lambda p: f" it={p.get('it', 10)}"))
reg(Alg("ff", "pack", lambda: prtpy.packing.first_fit))
reg(Alg("ffd", "pack", lambda: prtpy.packing.first_fit_decreasing))
reg(Alg("bf", "pack", lambda: _bf().online))
reg(Alg("bfd", "pack", lambda: _bf().decreasing))
reg(Alg("cover_decreasing", "cover", lambda: prtpy.covering.decreasing))
reg(Alg("twothirds", "cover", lambda: prtpy.covering.twothirds))
reg(Alg("threequarters", "cover", lambda: prtpy.covering.threequarters))
