#!/venv/bin/python
"""
run_check.py <Cxx> [--tier quick|thorough] [--replay file]

Exit 0: the property held on everything explored (KNOWN-FINDING lines may be printed).
Exit 1: VIOLATION line(s) printed.  Exit 2: infrastructure failure (build, timeout) - never a verdict.
"""
import sys, os, json, argparse, traceback
sys.path.insert(0, os.path.dirname(os.path.abspath(__file__)))


def main():
    ap = argparse.ArgumentParser()
    ap.add_argument("pid")
    ap.add_argument("--tier", default=os.environ.get("VERIF_TIER", "quick"))
    ap.add_argument("--replay")
    a = ap.parse_args()
    # whole-check wall-clock limit: a timeout is an infrastructure failure (exit 2), never a verdict
    import threading
    limit = int(os.environ.get("VERIF_CHECK_TIMEOUT", "1500" if a.tier != "thorough" else "7200"))

    def too_long():
        print(f"INFRA-FAILURE property={a.pid}: check exceeded {limit} s", file=sys.stderr)
        os._exit(2)
    timer = threading.Timer(limit, too_long)
    timer.daemon = True
    timer.start()
    try:
        import core
        core.protect_stdout()
        from core import InfraError, VERIF
        from engine import Check
        import suites
        c = Check(a.pid, a.tier, level=suites.LEVELS.get(a.pid, "proof"))
        if a.replay:
            rp = json.load(open(a.replay if os.path.isabs(a.replay) else os.path.join(VERIF, a.replay)))
            c.replay_mode = True
            suites.replay(c, rp)
        else:
            suites.SUITES[a.pid](c)
        rc = c.finish(**suites.FINISH.get(a.pid, {}))
        sys.exit(rc)
    except SystemExit:
        raise
    except Exception as e:  # infrastructure failure
        traceback.print_exc()
        print(f"INFRA-FAILURE property={a.pid}: {type(e).__name__}: {e}", file=sys.stderr)
        sys.exit(2)


if __name__ == "__main__":
    main()
