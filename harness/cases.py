"""
cases.py - case builders shared by the property suites: which inputs each algorithm is exercised on.
"""
import itertools
import gen

OBJS3 = ["maxmin", "minmax", "diff"]
OBJS5 = OBJS3 + ["ksmall:2", "klarge:2", "ksmall:1", "klarge:3", "klarge:1", "ksmall:3", "ksmall:7", "klarge:9"]      # incl. k >= number of bins
SWITCHES = [dict(lb=a, fast=b, h3=c, seen=d) for a in (0, 1) for b in (0, 1) for c in (0, 1) for d in (0, 1)]

HEURISTIC_PART = ["greedy", "roundrobin", "multifit", "kk"]
EXACT_DIFF = ["ckk", "snp", "rnp"]
PACKERS = ["ff", "ffd", "bf", "bfd"]
COVERS = ["cover_decreasing", "twothirds", "threequarters"]


def pick_obj(rng, objs):
    """the three classical objectives (the only ones with pruning bounds) get 60% of the draws when the k-sum objectives are in the list"""
    rest = [o for o in objs if o not in OBJS3]
    if rest and any(o in OBJS3 for o in objs):
        return rng.choice(OBJS3) if rng.random() < 0.6 else rng.choice(rest)
    return rng.choice(objs)


def part_params(rng, alg, n, k=None, objs=OBJS5, cut=False):
    """parameters for one partitioning call of `alg` on n items"""
    if k is None:
        k = gen.rand_k(rng, n)
    p = {"k": k}
    if alg == "multifit":
        p["it"] = rng.choice([0, 1, 3, 10, 10, 20])
    if alg in ("ckk", "snp", "rnp"):
        p["k"] = min(k, 5) if rng.random() < 0.97 else 6   # k! permutations per combination step
        if n > (6 if alg == "ckk" else 7):
            p["k"] = min(p["k"], 4)     # with 5+ bins and many (zero-valued) items the k! combinations take minutes per call
    if alg == "cg":
        p.update(rng.choice(SWITCHES))
        p["obj"] = pick_obj(rng, objs)
        p["cut"] = rng.randint(0, 60) if cut else None
        p["k"] = min(p["k"], 6)
    if alg == "dp":
        p["obj"] = pick_obj(rng, objs)
        p["k"] = min(p["k"], 5)
    if alg == "ilp":
        p["obj"] = pick_obj(rng, objs)
        p["k"] = min(p["k"], 4)
    if alg == "cbldm":
        p = {"k": 2, "d": rng.choice([None, None, 1, 2, 3, n]), "cut": (rng.randint(1, 60) if cut else None)}
    return p


def cap_k(case):
    """re-apply the size limits of part_params to a case whose items or k were changed afterwards (zeros added, sibling k)"""
    a, p, n = case["alg"], case["p"], len(case["vals"])
    if a in ("ckk", "snp", "rnp") and "k" in p and p["k"] <= 5:
        if n > (6 if a == "ckk" else 7):
            p["k"] = min(p["k"], 4)
        if a == "snp" and n > 9:
            p["k"] = min(p["k"], 3)
    if a == "cg" and n > 9:
        p["k"] = min(p["k"], 4)
    return case


def max_n(alg):
    return {"dp": 8, "ckk": 8, "snp": 9, "rnp": 9, "cg": 9, "cbldm": 12, "ilp": 6}.get(alg, 14)


def random_part_cases(rng, algs, count, objs=OBJS5, cut=False, nmax=None):
    res = []
    for alg in algs:
        for _ in range(count):
            n = rng.randint(1, min(max_n(alg), nmax or 99))
            vals = gen.rand_vals(rng, n)
            if alg == "dp" and sum(vals) > 400:
                vals = [v % 40 for v in vals]
            if alg == "ilp":
                vals = [v % 201 for v in vals]      # the solver is reliable for values <= 200 (property C02/C17)
            res.append({"alg": alg, "vals": vals, "p": part_params(rng, alg, n, objs=objs, cut=cut)})
    return res


def exhaustive_part_cases(algs, max_len, max_val, ks, rng, objs=OBJS3):
    """all multisets of <= max_len values from 0..max_val, every k in ks (the seed only picks switches)"""
    res = []
    for ms in gen.multisets(range(0, max_val + 1), max_len):
        for k in ks:
            for alg in algs:
                p = part_params(rng, alg, len(ms), k=k, objs=objs)
                res.append({"alg": alg, "vals": list(ms), "p": p})
    return res


def random_pack_cases(rng, algs, count, oversize=0.0, Bs=(4, 6, 7, 12, 20, 100), nmax=12):
    res = []
    for alg in algs:
        for _ in range(count):
            B = rng.choice(Bs)
            n = rng.randint(0 if alg != "bin_completion" else 1, nmax)
            r = rng.random()
            if alg == "bin_completion" and r < 0.45:
                B, vals = gen.hard_bc_case(rng, nmax=min(nmax, 11))
            elif alg != "bin_completion" and r < 0.08:
                B, vals = gen.big_pack_case(rng, nmax=nmax)
            elif r < 0.2:
                vals = gen.planted_packing(rng, rng.randint(1, 4), B)[:nmax]
            elif alg == "bin_completion" or r < 0.5:
                pool = [rng.randint(1, B) for _ in range(rng.randint(2, 5))]
                vals = [rng.choice(pool) if rng.random() < 0.7 else rng.randint(0, B) for _ in range(n)]
            else:
                vals = gen.rand_pack_vals(rng, n, B)
            if rng.random() < oversize:
                for _ in range(rng.randint(1, 3)):
                    vals.insert(rng.randrange(len(vals) + 1), B + rng.randint(1, 3))
            res.append({"alg": alg, "vals": vals, "p": {"B": B}})
    return res


def exhaustive_pack_cases(algs, Bs, max_len, all_orders_upto=4):
    res = []
    for B in Bs:
        for ms in gen.multisets(range(1, B + 1), max_len, min_len=0):
            arr = gen.orders(ms) if len(ms) <= all_orders_upto else [list(ms), list(reversed(ms))]
            for o in arr:
                for alg in algs:
                    res.append({"alg": alg, "vals": list(o), "p": {"B": B}})
    return res


def random_cover_cases(rng, algs, count, Bs=(4, 6, 7, 9, 12, 15, 20, 31, 100), nmax=14):
    res = []
    for alg in algs:
        for _ in range(count):
            B = rng.choice(Bs)
            n = rng.randint(0, nmax)
            if rng.random() < 0.06:
                B, vals = gen.big_cover_case(rng, nmax=max(2, nmax))
                res.append({"alg": alg, "vals": vals, "p": {"B": B}})
                continue
            res.append({"alg": alg, "vals": gen.rand_cover_vals(rng, n, B), "p": {"B": B}})
    return res


def exhaustive_cover_cases(algs, Bs, max_len):
    res = []
    for B in Bs:
        for ms in gen.multisets(range(1, B + 3), max_len, min_len=0):
            for alg in algs:
                res.append({"alg": alg, "vals": list(reversed(ms)), "p": {"B": B}})
                if len(ms) >= 2:
                    res.append({"alg": alg, "vals": list(ms), "p": {"B": B}})
    return res


def narrow_cases(rng, algs, count, kinds):
    """cases for the "narrow" presentation (numpy arrays of 8- / 16-bit integers): every value fits the type (<= 127, 255 or 32767),
    the totals - of a bin, of all items - leave its range.  kinds: alg -> 'partition' | 'pack' | 'cover'."""
    res = []
    for alg in algs:
        for _ in range(count):
            top = rng.choice([127, 127, 255, 255, 32767])
            kind = kinds[alg]
            if kind == "partition":
                n = rng.randint(3, min(max_n(alg), 7))
                vals = [rng.randint(top // 4, top) for _ in range(n)]
                if alg == "ilp":
                    vals = [min(v, 200) for v in vals]
                p = part_params(rng, alg, n, k=(2 if alg == "cbldm" else rng.choice([2, 3])), objs=OBJS5)
            elif kind == "pack":
                B = rng.randint(top // 2 + 1, top)
                n = rng.randint(3, 9)
                vals = [rng.randint(0 if rng.random() < 0.1 else B // 6, B) for _ in range(n)]
                if rng.random() < 0.3:          # exact fills at the top of the type's range: [100, 27] with bin size 127
                    a = rng.randint(1, B - 1)
                    vals[:2] = [a, B - a]
                p = {"B": B}
            else:
                B = rng.randint(top // 2 + 1, top)
                n = rng.randint(3, 12)
                vals = [rng.randint(1, top) if rng.random() < 0.8 else rng.randint(1, max(1, B // 3)) for _ in range(n)]
                p = {"B": B}
            case = {"alg": alg, "vals": vals, "p": p}
            if rng.random() < 0.25 and alg != "ilp":       # the same shape in half-precision floats: multiples of 32 below 65504, totals above it
                case["vals"] = [32 * rng.randint(200, 1500) if v else 0 for v in vals]
                if "B" in p:
                    case["p"] = {"B": 32 * rng.randint(1000, 2000)}
                    case["vals"] = [min(v, case["p"]["B"]) for v in case["vals"]] if kind == "pack" else case["vals"]
                case["f16"] = True
            res.append(case)
    return res
