import prtpy, random, sys, warnings
warnings.filterwarnings('ignore')
from mirror_kk import ckk, render
from prtpy.partitioning.complete_karmarkar_karp_sy import generator
random.seed(1); bad=0; cases=0; multi=0
for t in range(500):
    n=random.randint(1,8); k=random.randint(2,4)
    items=[(i,random.choice([random.randint(0,9),random.randint(1,40)])) for i in range(n)]
    d={nm:v for nm,v in items}
    for best in (None, -random.randint(1,30)):
        kw={} if best is None else {'best_difference_so_far':best}
        r=[([float(x) for x in p[0]],[list(x) for x in p[1]]) for p in generator(prtpy.BinnerKeepingContents(d.__getitem__),k,d.keys(),**kw)]
        m=[render(p) for p in ckk(k,items,best=best,gen=True)]
        cases+=1; multi+= len(r)>1
        if r!=m:
            bad+=1
            if bad<4: print('DIFF',k,items,best,r,m)
print('bad',bad,'of',cases,'multi-yield',multi)
