import prtpy, numpy as np, warnings
from prtpy.packing import best_fit, first_fit, bin_completion
warnings.filterwarnings('ignore')
out=prtpy.out; prt=prtpy.partitioning; obj=prtpy.obj
bc=bin_completion.bin_completion
def t(name, f):
    try:
        r=f(); print(name,'->',r)
    except Exception as e:
        print(name,'-> EXC',type(e).__name__,e)
t('bc lost', lambda: prtpy.pack(bc,20,[4,4,8,9,9,8,7,3,4,3]))
t('bc subopt1', lambda: prtpy.pack(bc,50,[19,14,4,14,24,17,20,15,20]))
t('bc subopt2', lambda: prtpy.pack(bc,20,[5,10,4,10,8,6,4,10,5,4,4,10]))
t('bc sums', lambda: (prtpy.pack(bc,100,[30,30,30,30,40,40],outputtype=out.Sums), prtpy.pack(bc,100,[30,30,30,30,40,40])))
t('bc intnames', lambda: prtpy.pack(bc,10,{1:9,2:9,3:9,4:1},outputtype=out.PartitionAndSumsTuple))
cov=prtpy.covering
for a in (cov.decreasing,cov.twothirds,cov.threequarters):
    t(a.__name__+' dict', lambda: prtpy.pack(a,10,{'a':6,'b':4,'c':2,'d':2,'e':3,'f':5,'g':1},outputtype=out.PartitionAndSumsTuple))
    t(a.__name__+' list', lambda: prtpy.pack(a,10,[6,4,2,2,3,5,1],outputtype=out.PartitionAndSumsTuple))
    t(a.__name__+' small', lambda: prtpy.pack(a,10,[1,2],outputtype=out.PartitionAndSumsTuple))
    t(a.__name__+' intnames', lambda: prtpy.pack(a,10,{100:6,1:4,2:4,3:2,4:2},outputtype=out.PartitionAndSumsTuple))
# ILP weights
t('ilp w', lambda: prtpy.partition(prt.ilp,2,[11,11,11,11,22],objective=obj.MaximizeSmallestSum,weights=[2,1],outputtype=out.PartitionAndSumsTuple))
t('ilp w12', lambda: prtpy.partition(prt.ilp,2,[11,11,11,11,22],objective=obj.MaximizeSmallestSum,weights=[1,2],outputtype=out.PartitionAndSumsTuple))
t('ilp copies', lambda: prtpy.partition(prt.ilp,2,[1,2,3],copies=[0,1,2],outputtype=out.PartitionAndSumsTuple))
t('ilp infeasible', lambda: prtpy.partition(prt.ilp,2,[1,2,3],additional_constraints=lambda s:[s[0]==100],outputtype=out.PartitionAndSumsTuple))
t('cbldm tl', lambda: prtpy.partition(prt.cbldm,2,[1,2,3],time_limit=1e-9,outputtype=out.PartitionAndSumsTuple))
t('cg tl', lambda: prtpy.partition(prt.cg,2,[1,2,3],time_limit=-1))
