import prtpy, random, sys, warnings, collections
from prtpy.packing import best_fit, first_fit
warnings.filterwarnings('ignore')
out=prtpy.out; prt=prtpy.partitioning; cov=prtpy.covering
random.seed(int(sys.argv[1])); fails=collections.Counter(); ex={}
P={'greedy':prt.greedy,'rr':prt.roundrobin,'multifit':prt.multifit,'kk':prt.kk,'ckk':prt.ckk,'snp':prt.snp,'dp':prt.dp,'cg':prt.cg,'cbldm':prt.cbldm}
K={'ff':first_fit.online,'ffd':first_fit.decreasing,'bf':best_fit.online,'bfd':best_fit.decreasing,'dec':cov.decreasing,'23':cov.twothirds,'34':cov.threequarters}
exact={'ckk','snp','dp','cg','cbldm'}
for t in range(int(sys.argv[2])):
    n=random.randint(1,8); k=random.randint(1,4); items=[random.randint(1,20) for _ in range(n)]
    c=random.choice([2,3,7,10,1024]); perm=items[:]; random.shuffle(perm)
    for an,a in P.items():
        kk=2 if an=='cbldm' else k
        s=sorted(prtpy.partition(a,kk,items,outputtype=out.Sums))
        s2=sorted(prtpy.partition(a,kk,perm,outputtype=out.Sums))
        cc=1024 if an=='multifit' else c
        s3=sorted(prtpy.partition(a,kk,[cc*x for x in items],outputtype=out.Sums))
        s4=sorted(prtpy.partition(a,kk,items+[0,0],outputtype=out.Sums)) if an in exact and an!='cg' else s
        d=lambda v:v[-1]-v[0]
        if an in exact:
            if d(s)!=d(s2): fails[(an,'perm')]+=1; ex.setdefault((an,'perm'),(items,perm,kk,s,s2))
            if cc*d(s)!=d(s3): fails[(an,'scale')]+=1; ex.setdefault((an,'scale'),(items,kk,cc,s,s3))
            if d(s)!=d(s4): fails[(an,'zeros')]+=1; ex.setdefault((an,'zeros'),(items,kk,s,s4))
        else:
            if s!=s2: fails[(an,'perm')]+=1; ex.setdefault((an,'perm'),(items,perm,kk,s,s2))
            if [cc*x for x in s]!=s3: fails[(an,'scale')]+=1; ex.setdefault((an,'scale'),(items,kk,cc,s,s3))
    B=random.choice([20,21,30])
    for an,a in K.items():
        s=prtpy.pack(a,B,items,outputtype=out.Sums); s3=prtpy.pack(a,B*c,[c*x for x in items],outputtype=out.Sums)
        if [c*x for x in s]!=list(s3): fails[(an,'scale')]+=1; ex.setdefault((an,'scale'),(items,B,c,s,s3))
        if an not in('ff','bf'):
            s2=prtpy.pack(a,B,perm,outputtype=out.Sums)
            if sorted(s)!=sorted(s2): fails[(an,'perm')]+=1; ex.setdefault((an,'perm'),(items,perm,B,s,s2))
print(dict(fails),ex)
