# Mirror of complete_greedy (with fix F1: seen key includes depth), checking the proposed invariant at every step.
import itertools, random, sys, math, functools
INF=float('inf')
def lb_maxmin(s,rem):
    s=list(s); rem+=s[0]
    for i in range(1,len(s)):
        if rem<=i*s[i]: return -(rem//i)
        rem+=s[i]
    return -(rem//len(s))
def lb_minmax(s,rem): return max(s[-1], -(-(sum(s)+rem)//len(s)))
OBJ={'max':(lambda s:s[-1], lb_minmax),'min':(lambda s:-s[0], lb_maxmin),'diff':(lambda s:s[-1]-s[0], lambda s,r: lb_maxmin(s,r)+lb_minmax(s,r)),
     'k2':(lambda s:-sum(s[:2]), lambda s,r:-INF)}
def run(items,k,on,use_lb,use_fast,use_h3,use_seen,check=True):
    f,lbf=OBJ[on]; n=len(items); it=sorted(items,reverse=True)
    rem=[sum(it[i:]) for i in range(n)]+[0]
    @functools.lru_cache(None)
    def reach(sums,d):
        if d==n: return frozenset([sums])
        out=set()
        for b in range(k):
            ns=list(sums); ns[b]+=it[d]; out|=reach(tuple(sorted(ns)),d+1)
        return frozenset(out)
    @functools.lru_cache(None)
    def best_from(sums,d): return min(f(L) for L in reach(sums,d))
    allL=reach((0,)*k,0)
    best=INF; glb=lbf((0,)*k,rem[0]); stack=[((0,)*k,0)]; seen=set(); stopped=False
    def covered(val,mind):  # exists stack node of depth>=mind with a reachable leaf of value <= val
        return any(d>=mind and best_from(s,d)<=val for s,d in stack)
    def check_inv():
        if stopped: 
            assert all(f(L)>=best for L in allL); return
        for L in allL:
            assert f(L)>=best or covered(f(L),0), ('I1',items,k,on,L,best,stack)
        for (d,s) in seen:
            for L in reach(s,d):
                assert f(L)>=best or covered(f(L),d), ('I2',items,k,on,(d,s),L,best,stack)
    while stack:
        if check: check_inv()
        cur,depth=stack.pop()
        if depth==n:
            v=f(cur)
            if v<best:
                best=v
                if v<=glb: stopped=True; break
            continue
        if use_h3 and on=='max' and rem[depth]+cur[0]<=cur[-1]:
            ns=list(cur); ns[0]+=rem[depth]; stack.append((tuple(sorted(ns)),n)); continue
        x=it[depth]; r=rem[depth+1]; prev=None
        for b in reversed(range(k)):
            if cur[b]==prev: continue
            prev=cur[b]
            if use_fast:
                if on=='max': fl=max(cur[b]+x,cur[-1])
                elif on=='min':
                    if k==1: fl=-INF   # fix F2
                    else: fl=-((min(cur[0]+x,cur[1]) if b==0 else cur[0])+r)
                else: fl=-INF
                if fl>=best: continue
            ns=list(cur); ns[b]+=x; ns=tuple(sorted(ns))
            if use_lb and lbf(ns,r)>=best: continue
            if use_seen:
                if (depth+1,ns) in seen: continue
                seen.add((depth+1,ns))
            stack.append((ns,depth+1))
    if check: check_inv()
    opt=min(f(L) for L in allL)
    assert best==opt,(items,k,on,best,opt)
    return best
random.seed(int(sys.argv[1])); cnt=0
for t in range(int(sys.argv[2])):
    n=random.randint(1,6); k=random.randint(1,4)
    items=[random.choice([0,random.randint(0,4),random.randint(1,12)]) for _ in range(n)]
    for on in OBJ:
        for sw in itertools.product([0,1],repeat=4):
            run(items,k,on,*sw); cnt+=1
print('ok',cnt)
