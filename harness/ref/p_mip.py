import prtpy, mip, warnings
warnings.filterwarnings('ignore')
prt=prtpy.partitioning; out=prtpy.out; obj=prtpy.obj
orig=mip.Model.optimize; cap={}
def wrapped(self,*a,**k):
    rows=[]
    for c in self.constrs:
        e=c.expr
        rows.append((sorted((v.idx,coef) for v,coef in e.expr.items()), e.sense, e.const))
    o=self.objective
    cap['rows']=rows; cap['obj']=(sorted((v.idx,coef) for v,coef in o.expr.items()), o.const, self.sense); cap['vars']=[(v.idx,v.var_type,v.lb,v.ub) for v in self.vars]
    return orig(self,*a,**k)
mip.Model.optimize=wrapped
print(prtpy.partition(prt.ilp,2,[3,5,7],objective=obj.MinimizeDifference,weights=[1,2],copies=[1,2,1],additional_constraints=lambda s:[s[0]>=2],outputtype=out.PartitionAndSumsTuple))
print('vars',cap['vars']); print('obj',cap['obj'])
for r in cap['rows']: print(r)
