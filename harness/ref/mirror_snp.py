import prtpy, random, sys, warnings
from fractions import Fraction as F
from mirror_kk import kk, ckk, sort_desc, render, real
warnings.filterwarnings('ignore')
out=prtpy.out; prt=prtpy.partitioning
def diff_of(b): return max(b[0])-min(b[0])
def concat(b1,b2): return (tuple(b1[0])+tuple(b2[0]), tuple(b1[1])+tuple(b2[1]))
def find_diff(items, sub):   # distinct names: filter preserving order
    names={n for n,_ in sub}; return [it for it in items if it[0] not in names]
def snp(k,items):
    best=kk(k,items)
    if diff_of(best)==0: return best
    st={'best':best}
    def rec(prior,items,cur):
        # prior: bins (sums,lists) ; returns nothing, updates st
        if cur==2:
            two=ckk(2,items)
            comb=tuple(two[0])+tuple(prior[0])
            d=max(comb)-min(comb)
            if d<diff_of(st['best']): st['best']=concat(two,prior)
            return
        t=sum(v for _,v in items); d0=diff_of(st['best'])
        ub=F(t,cur)
        srt=sort_desc(items); n=len(srt)
        def lb(): return F(t-(cur-1)*diff_of(st['best']),cur)
        def tree(depth,cur_set,rest):
            s=sum(v for _,v in cur_set)
            if s>ub or s+sum(v for _,v in rest)<lb(): return
            if depth==n:
                body(cur_set); return
            tree(depth+1,cur_set+[rest[0]],rest[1:])
            tree(depth+1,cur_set,rest[1:])
        def body(sub):
            newprior=concat(prior,((sum(v for _,v in sub),),(tuple(nm for nm,_ in sub),)))
            rec(newprior,find_diff(items,sub),cur-1)
        tree(0,[],srt)
    rec(((),()),items,k)
    return st['best']
if __name__=='__main__':
    random.seed(int(sys.argv[1])); bad=0; nontrivial=0
    for t in range(int(sys.argv[2])):
        n=random.randint(5,10); k=random.randint(3,5)
        items=[(i,random.choice([random.randint(0,9),random.randint(1,60),random.randint(20,99)])) for i in range(n)]
        r=real(prt.snp,k,items); mm=render(snp(k,items))
        if r!=mm:
            bad+=1
            if bad<6: print('DIFF',k,items,r,mm)
        if mm!=render(kk(k,items)): nontrivial+=1
    print('bad',bad,'improved-over-kk',nontrivial)
