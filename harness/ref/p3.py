import prtpy, numpy as np, itertools, random, sys, warnings, collections
from prtpy.packing import best_fit, first_fit, bin_completion
warnings.filterwarnings('ignore')
out=prtpy.out
random.seed(int(sys.argv[1]) if len(sys.argv)>1 else 0)
def opt_bins(items,B):
    items=sorted([x for x in items if x>0],reverse=True)
    best=[len(items)]
    def rec(i,bins):
        if len(bins)>=best[0]: return
        if i==len(items): best[0]=len(bins); return
        seen=set()
        for j in range(len(bins)):
            if bins[j]+items[i]<=B and bins[j] not in seen:
                seen.add(bins[j]); bins[j]+=items[i]; rec(i+1,bins); bins[j]-=items[i]
        bins.append(items[i]); rec(i+1,bins); bins.pop()
    rec(0,[]); return best[0]
algs={'ff':first_fit.online,'ffd':first_fit.decreasing,'bf':best_fit.online,'bfd':best_fit.decreasing,'bc':bin_completion.bin_completion}
fails=collections.Counter(); ex={}
N=int(sys.argv[2]) if len(sys.argv)>2 else 300
for it in range(N):
    n=random.randint(1,12); B=random.choice([10,20,50,100])
    items=[random.randint(1,B) for _ in range(n)]
    o=opt_bins(items,B)
    for an,a in algs.items():
        try:
            s,l=prtpy.pack(a,B,items,outputtype=out.PartitionAndSumsTuple)
            ok = sorted(x for b in l for x in b)==sorted(items) and all(abs(sum(b)-ss)<1e-9 and ss<=B and b for b,ss in zip(l,s))
            if not ok: fails[(an,'invalid')]+=1; ex.setdefault((an,'invalid'),(items,B,l))
            if an=='bc' and len(l)!=o: fails[(an,'subopt')]+=1; ex.setdefault((an,'subopt'),(items,B,len(l),o))
            c=prtpy.pack(a,B,items,outputtype=out.BinCount)
            if c!=len(l): fails[(an,'count')]+=1; ex.setdefault((an,'count'),(items,B,c,len(l)))
            d=dict((f'n{i}',v) for i,v in enumerate(items))
            try:
                s2,l2=prtpy.pack(a,B,d,outputtype=out.PartitionAndSumsTuple)
                if sorted(s2)!=sorted(s): fails[(an,'dict')]+=1; ex.setdefault((an,'dict'),(items,B,list(s),list(s2)))
            except Exception as e:
                key=(an,'dictexc',type(e).__name__); fails[key]+=1; ex.setdefault(key,(items,B,str(e)[:60]))
        except Exception as e:
            key=(an,'exc',type(e).__name__); fails[key]+=1; ex.setdefault(key,(items,B,str(e)[:60]))
for k_,v in sorted(fails.items()): print(k_,v,ex[k_])
