import prtpy, random, sys, warnings
from fractions import Fraction as F
warnings.filterwarnings('ignore')
prt=prtpy.partitioning; out=prtpy.out
def ff(B, items):
    bins=[]
    for x in items:
        for b in bins:
            if sum(b)+x<=B: b.append(x); break
        else: bins.append([x])
    return bins
def multifit_model(k, items, iters=10):
    S=sum(items); M=max(items)
    lo=max(F(S,k),F(M)); hi=max(F(2*S,k),F(M))
    si=sorted(items,reverse=True)
    for _ in range(iters):
        B=(lo+hi)/2
        if len(ff(B,si))<=k: hi=B
        else: lo=B
    return ff(hi,si)
random.seed(int(sys.argv[1])); bad=0; N=int(sys.argv[2])
for it in range(N):
    n=random.randint(1,14); k=random.randint(1,7)
    items=[random.randint(0,random.choice([3,9,30])) for _ in range(n)] or [1]
    if sum(items)==0: items[0]=1
    iters=random.choice([0,1,3,10,10,10,20,40,60])
    py=prtpy.partition(prt.multifit,k,items,iterations=iters)
    mo=multifit_model(k,items,iters)
    if py!=mo:
        bad+=1
        if bad<5: print('DIFF',k,items,iters,py,mo)
print('bad',bad,'of',N)
