import prtpy, random, sys, warnings, collections
warnings.filterwarnings('ignore')
assert 'scratch' in prtpy.__file__
prt=prtpy.partitioning; out=prtpy.out
def brute(vals,k):
    res=set()
    def rec(i,s):
        if i==len(vals): res.add(max(s)-min(s)); return
        seen=set()
        for b in range(k):
            if s[b] in seen: continue
            seen.add(s[b]); s[b]+=vals[i]; rec(i+1,s); s[b]-=vals[i]
    rec(0,[0]*k); return min(res)
random.seed(int(sys.argv[1])); bad=collections.Counter(); tot=collections.Counter(); ex=None
for t in range(int(sys.argv[2])):
    n=random.randint(4,9); k=random.choice([2,3,4,5]); items=[random.choice([random.randint(0,9),random.randint(1,80)]) for _ in range(n)]
    s,l=prtpy.partition(prt.rnp,k,items,outputtype=out.PartitionAndSumsTuple); tot[k]+=1
    ok=sorted(x for b in l for x in b)==sorted(items) and len(l)==k
    if not ok: bad[(k,'invalid')]+=1; ex=ex or (k,items,l)
    elif max(s)-min(s)!=brute(items,k): bad[(k,'subopt')]+=1; ex=ex or (k,items,list(s))
print(dict(tot),dict(bad),ex)
print(prtpy.partition(prt.rnp,4,[68,22,72,23,31,30,4],outputtype=out.Sums))
