import prtpy, random, sys, warnings, itertools, collections, functools
warnings.filterwarnings('ignore')
out=prtpy.out; cov=prtpy.covering
random.seed(int(sys.argv[1])); N=int(sys.argv[2])
def optcover(items,B):
    items=tuple(sorted(items,reverse=True)); n=len(items)
    @functools.lru_cache(None)
    def best(mask):
        # max bins coverable from items in mask
        rem=[i for i in range(n) if mask>>i&1]
        if sum(items[i] for i in rem)<B: return 0
        first=rem[0]; res=best(mask&~(1<<first))  # skip first
        # choose subset containing first covering B (minimal-ish)
        others=rem[1:]
        for r in range(0,len(others)+1):
            for c in itertools.combinations(others,r):
                s=items[first]+sum(items[i] for i in c)
                if s>=B and all(s-items[i]<B for i in c):
                    m=mask&~(1<<first)
                    for i in c: m&=~(1<<i)
                    res=max(res,1+best(m))
        return res
    return best((1<<n)-1)
fails=collections.Counter(); ex={}
for it in range(N):
    n=random.randint(1,10); B=random.choice([6,10,12,30])
    items=[random.choice([random.randint(1,B//2),random.randint(1,B+3),random.randint(1,3)]) for _ in range(n)]
    o=optcover(items,B)
    for name,a,lbf in (('dec',cov.decreasing,lambda o:(o-1)/2),('23',cov.twothirds,lambda o:2*(o-1)/3),('34',cov.threequarters,lambda o:3*o/4-4)):
        s,l=prtpy.pack(a,B,items,outputtype=out.PartitionAndSumsTuple)
        used=collections.Counter(x for b in l for x in b); have=collections.Counter(items)
        ok=all(used[x]<=have[x] for x in used) and all(sum(b)>=B for b in l) and [sum(b) for b in l]==list(s) and sum(items)-sum(s)<B
        if not ok: fails[name+' invalid']+=1; ex.setdefault(name+' invalid',(items,B,l))
        if len(l)>o: fails[name+' >opt']+=1; ex.setdefault(name+' >opt',(items,B,l,o))
        if len(l)<lbf(o): fails[name+' ratio']+=1; ex.setdefault(name+' ratio',(items,B,len(l),o))
print(dict(fails),ex)
