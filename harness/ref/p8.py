import prtpy, random, sys, warnings, itertools, collections
warnings.filterwarnings('ignore')
prt=prtpy.partitioning; out=prtpy.out; obj=prtpy.obj
random.seed(int(sys.argv[1])); N=int(sys.argv[2])
fails=collections.Counter(); ex={}
# C12 cbldm
for it in range(N):
    n=random.randint(1,10)
    items=[random.choice([random.randint(0,4),random.randint(0,30)]) for _ in range(n)]
    d=random.choice([1,1,2,3,n,10**9])
    best=None
    for mask in range(2**n):
        a=[items[i] for i in range(n) if mask>>i&1]; b=[items[i] for i in range(n) if not mask>>i&1]
        if abs(len(a)-len(b))<=d:
            v=abs(sum(a)-sum(b)); best=v if best is None else min(best,v)
    try:
        s,l=prtpy.partition(prt.cbldm,2,items,partition_difference=d,outputtype=out.PartitionAndSumsTuple)
        ok=sorted(x for bb in l for x in bb)==sorted(items) and len(l)==2 and abs(len(l[0])-len(l[1]))<=d and [sum(bb) for bb in l]==list(s)
        if not ok: fails['invalid']+=1; ex.setdefault('invalid',(items,d,l))
        elif abs(s[0]-s[1])!=best: fails['subopt']+=1; ex.setdefault('subopt',(items,d,list(s),best))
    except Exception as e:
        fails['exc '+type(e).__name__]+=1; ex.setdefault('exc '+type(e).__name__,(items,d,str(e)))
print('cbldm',dict(fails),ex)
# C13 lower bounds
fails=collections.Counter(); ex={}
def dists(k,rem):
    if k==1: yield (rem,); return
    for x in range(rem+1):
        for r in dists(k-1,rem-x): yield (x,)+r
for it in range(N):
    k=random.randint(1,4); sums=sorted(random.randint(0,8) for _ in range(k)); rem=random.randint(0,8)
    for name,o,f in (('min',obj.MaximizeSmallestSum,lambda s:-min(s)),('max',obj.MinimizeLargestSum,lambda s:max(s)),('diff',obj.MinimizeDifference,lambda s:max(s)-min(s))):
        lb=o.lower_bound(sums,rem,are_sums_in_ascending_order=True)
        sh=sums[:]; random.shuffle(sh)
        lb2=o.lower_bound(sh,rem,are_sums_in_ascending_order=False)
        best=min(f([a+b for a,b in zip(sums,dd)]) for dd in dists(k,rem))
        if lb>best: fails[name+' inadmissible']+=1; ex.setdefault(name+' inadmissible',(sums,rem,lb,best))
        if lb!=lb2: fails[name+' flag']+=1; ex.setdefault(name+' flag',(sums,sh,rem,lb,lb2))
        if name!='diff' and lb!=best: fails[name+' nottight']+=1
print('bounds',dict(fails),ex)
