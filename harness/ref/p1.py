import prtpy, numpy as np, warnings, traceback
prt=prtpy.partitioning; out=prtpy.out; obj=prtpy.obj
def t(name, f):
    try:
        r=f(); print(name,'->',r)
    except Exception as e:
        print(name,'-> EXC',type(e).__name__,e)
# C01: CG with zero items
t('cg zero', lambda: prtpy.partition(prt.complete_greedy, 2, [3,0,2], outputtype=out.PartitionAndSumsTuple))
t('cg zero noseen', lambda: prtpy.partition(prt.complete_greedy, 2, [3,0,2], outputtype=out.PartitionAndSumsTuple, use_set_of_seen_states=False))
t('cg k=1 maxmin', lambda: prtpy.partition(prt.complete_greedy, 1, [3,1,2], outputtype=out.PartitionAndSumsTuple, objective=obj.MaximizeSmallestSum))
t('cg k=1 diff', lambda: prtpy.partition(prt.complete_greedy, 1, [3,1,2], outputtype=out.PartitionAndSumsTuple))
for alg in ['greedy','roundrobin','multifit','kk','ckk','snp','rnp','dp','ilp']:
    a=getattr(prt,alg)
    t(alg+' k=1', lambda: prtpy.partition(a, 1, [3,1,2], outputtype=out.PartitionAndSumsTuple))
    t(alg+' k=5>n', lambda: prtpy.partition(a, 5, [3,1,2], outputtype=out.PartitionAndSumsTuple))
    t(alg+' zeros', lambda: prtpy.partition(a, 3, [3,0,2,0,0], outputtype=out.PartitionAndSumsTuple))
    t(alg+' allzero', lambda: prtpy.partition(a, 2, [0,0], outputtype=out.PartitionAndSumsTuple))
    t(alg+' k=6', lambda: prtpy.partition(a, 6, [3,1,2,7,8,9,4,5], outputtype=out.PartitionAndSumsTuple))
t('rnp bad', lambda: prtpy.partition(prt.rnp, 4, [68,22,72,23,31,30,4], outputtype=out.Sums))
t('snp same', lambda: prtpy.partition(prt.snp, 4, [68,22,72,23,31,30,4], outputtype=out.Sums))
t('cbldm', lambda: prtpy.partition(prt.cbldm, 2, [3,0,2,0,0], outputtype=out.PartitionAndSumsTuple))
