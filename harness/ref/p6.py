import prtpy, warnings
warnings.filterwarnings('ignore')
prt=prtpy.partitioning; out=prtpy.out; obj=prtpy.obj
for w in ([1,2],[2,1],[1,1],[3,3]):
    for o in (obj.MaximizeSmallestSum,obj.MinimizeLargestSum,obj.MinimizeDifference):
        print(w,o,prtpy.partition(prt.ilp,2,[2,2],objective=o,weights=w,outputtype=out.PartitionAndSumsTuple))
