import prtpy, numpy as np, random, sys, warnings, collections
warnings.filterwarnings('ignore')
prt=prtpy.partitioning; out=prtpy.out; obj=prtpy.obj
random.seed(int(sys.argv[1]))
algs={'greedy':prt.greedy,'rr':prt.roundrobin,'multifit':prt.multifit,'kk':prt.kk,'ckk':prt.ckk,'snp':prt.snp,'rnp':prt.rnp,'dp':prt.dp,'cg':prt.cg,'ilp':prt.ilp}
fails=collections.Counter(); ex={}
for it in range(int(sys.argv[2])):
    n=random.randint(1,9); k=random.randint(1,5)
    items=[random.choice([random.randint(1,6),random.randint(1,30)]) for _ in range(n)]
    for an,a in algs.items():
        try:
            s,l=prtpy.partition(a,k,items,outputtype=out.PartitionAndSumsTuple)
            s2=prtpy.partition(a,k,items,outputtype=out.Sums)
            if [float(x) for x in s]!=[float(x) for x in s2]:
                kind='order' if sorted(s)==sorted(s2) else 'multiset'
                fails[(an,kind)]+=1; ex.setdefault((an,kind),(items,k,list(map(float,s)),list(map(float,s2))))
        except Exception as e:
            key=(an,'exc',type(e).__name__); fails[key]+=1; ex.setdefault(key,(items,k,str(e)[:60]))
for k_,v in sorted(fails.items()): print(k_,v,ex[k_])
