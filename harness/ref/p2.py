import prtpy, numpy as np, itertools, random, sys, warnings, collections
warnings.filterwarnings('ignore')
prt=prtpy.partitioning; out=prtpy.out; obj=prtpy.obj
random.seed(int(sys.argv[1]) if len(sys.argv)>1 else 0)
def brute(items,k):
    # all sorted sums vectors
    res=set()
    def rec(i,sums):
        if i==len(items): res.add(tuple(sorted(sums))); return
        seen=set()
        for b in range(k):
            if sums[b] in seen: continue
            seen.add(sums[b])
            sums[b]+=items[i]; rec(i+1,sums); sums[b]-=items[i]
    rec(0,[0]*k); return res
objs={'diff':(obj.MinimizeDifference,lambda s:s[-1]-s[0]),'max':(obj.MinimizeLargestSum,lambda s:s[-1]),'min':(obj.MaximizeSmallestSum,lambda s:-s[0])}
algs={'ckk':prt.ckk,'snp':prt.snp,'rnp':prt.rnp,'dp':prt.dp,'cg':prt.cg}
fails=collections.Counter(); ex={}
N=int(sys.argv[2]) if len(sys.argv)>2 else 300
for it in range(N):
    n=random.randint(1,8); k=random.randint(1,5)
    items=[random.choice([random.randint(0,5),random.randint(1,40),random.randint(1,100)]) for _ in range(n)]
    all_s=brute(items,k)
    for an,a in algs.items():
        for on,(o,f) in objs.items():
            if an in('ckk','snp','rnp') and on!='diff': continue
            kw={} if an in('ckk','snp','rnp') else {'objective':o}
            try:
                s,l=prtpy.partition(a,k,items,outputtype=out.PartitionAndSumsTuple,**kw)
                ok = sorted(x for b in l for x in b)==sorted(items) and len(l)==k and all(abs(sum(b)-ss)<1e-9 for b,ss in zip(l,s))
                if not ok: fails[(an,on,'invalid')]+=1; ex.setdefault((an,on,'invalid'),(items,k,l))
                v=f(sorted(s)); best=min(f(x) for x in all_s)
                if v!=best: fails[(an,on,'subopt')]+=1; ex.setdefault((an,on,'subopt'),(items,k,v,best))
            except Exception as e:
                key=(an,on,'exc',type(e).__name__); fails[key]+=1; ex.setdefault(key,(items,k,str(e)[:60]))
for k_,v in sorted(fails.items()): print(k_,v,ex[k_])
