import random, sys, warnings, itertools, math
warnings.filterwarnings('ignore')
def lwi(orig, rem):
    o=list(orig)
    for x in rem:
        if x in o: o.remove(x)
    return o
def uniq(l):
    o=[]
    for e in l:
        if e not in o: o.append(e)
    return o
def und_pairs(c, y, items, B):
    s=0; e=len(items)-1; res=[]
    while s<e:
        t=items[s]+items[e]
        if c+t>B: s+=1
        elif t<=y: e-=1
        else: res.append([items[s],items[e]]); s+=1; e-=1
    return res
def is_dom(l1,l2):
    if not l2: return True
    if not l1: return False
    if all(x in l1 for x in l2): return True
    if l1[0]<l2[0]: return False
    for locs in itertools.product(range(len(l1)),repeat=len(l2)):
        tot=[0]*len(l1)
        for e,loc in zip(l2,locs): tot[loc]+=e
        if all(tot[i]<=l1[i] for i in range(len(l1))): return True
    return False
def check_dom(comps):
    if len(comps)<=1: return comps
    dom=[]
    for i in range(len(comps)-1):
        a=comps[i]
        if a in dom: continue
        for j in range(i+1,len(comps)):
            b=comps[j]
            if b in dom: continue
            if is_dom(a,b): dom.append(b); continue
            if is_dom(b,a): dom.append(a); break
    return sorted(lwi(comps,dom),key=sum,reverse=True)
def completions(x, items, B):
    if not items: return []
    y=next((i for i in items if x+i<=B),0)
    if y==0: return []
    found=[[y]]
    for r in range(len(items)+1):
        for fc in itertools.combinations(items,r):
            if x+sum(fc)>B: continue
            c=x+sum(fc); left=lwi(items,fc); up=und_pairs(c,y,left,B)
            if up:
                ext=[sorted(p+list(fc),reverse=True) for p in up]
                found+=ext+ext
            elif fc: found.append(list(fc))
    return check_dom(uniq(sorted(found,key=sum,reverse=True)))
def bfd(B, items):
    bins=[]
    for x in sorted(items,reverse=True):
        best=(-1,-1)
        for i,b in enumerate(bins):
            ns=sum(b)+x
            if ns<=B and ns>best[1]: best=(i,ns)
        if best[0]>-1: bins[best[0]].append(x)
        else: bins.append([x])
    return bins if bins else [[]]     # best_fit starts with one (empty) bin
def bc(B, items):
    if any(x>B for x in items): return 'ValueError'
    items=[x for x in items if x!=0]
    best=bfd(B,items); lb=0 if B==0 else math.ceil(sum(items)/B)
    if len(best)==lb: return best
    branches=[(sorted(items,reverse=True),[],0)]
    while branches:
        its,bins,idx=branches.pop(0); bins=[list(b) for b in bins]
        while its:
            x=its[0]; bins.append([x]); upd=its[1:]
            comps=completions(x,upd,B)
            if len(comps)>=1:
                for comp in comps[1:]:
                    ni=lwi(upd,comp); nb=[list(b) for b in bins]; nb[idx]+=comp
                    if not (len(nb)*B+sum(ni) >= len(best)*B): branches.append((ni,nb,idx+1))
                for it in comps[0]: bins[idx].append(it); upd.remove(it)
            idx+=1; its=upd
            if len(bins)*B+sum(upd) >= len(best)*B: break
            if not its: break
        if not its and len(bins)<len(best): best=bins
        if len(best)==lb: break
    return best
if __name__=='__main__':
    sys.path.insert(0,'/tmp/scratch_repo')
    import prtpy
    assert 'scratch' in prtpy.__file__
    from prtpy.packing import bin_completion
    real=bin_completion.bin_completion
    random.seed(int(sys.argv[1])); bad=0; searched=0
    for t in range(int(sys.argv[2])):
        n=random.randint(0,11); B=random.choice([10,20,50,100])
        items=[random.choice([random.randint(0,B),random.randint(1,B//2),random.randint(B//4,B//2+2)]) for _ in range(n)]
        r=prtpy.pack(real,B,items); m=bc(B,items)
        if m!=bfd(B,[x for x in items if x]): searched+=1
        if r!=m:
            bad+=1
            if bad<6: print('DIFF',B,items,r,m)
    print('bad',bad,'result-differs-from-bfd',searched)
    print(bc(20,[5,10,4,10,8,6,4,10,5,4,4,10]))
