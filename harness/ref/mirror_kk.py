# Functional mirrors of kk / ckk / snp, written the way the Lean model will be, compared strictly with prtpy.
import prtpy, random, sys, warnings, itertools
from fractions import Fraction as F
warnings.filterwarnings('ignore')
out=prtpy.out; prt=prtpy.partitioning
# items: list of (name, value). bins: (sums tuple, lists tuple-of-tuples)
def sort_bins(b):
    s,l=b; order=sorted(range(len(s)),key=lambda i:s[i])
    return (tuple(s[i] for i in order), tuple(l[i] for i in order))
def single(k,it): return (tuple([0]*(k-1)+[it[1]]), tuple([()]*(k-1)+[(it[0],)]))
def sort_desc(items): return sorted(items,key=lambda it:it[1],reverse=True)
# heap = list of (diff, count, bins) ; pop = max diff, then min count
def hpush(heap,cnt,b):
    b=sort_bins(b); return heap+[(b[0][-1]-b[0][0],cnt,b)], cnt+1
def hpop(heap):
    e=min(heap,key=lambda e:(-e[0],e[1])); h=[x for x in heap if x is not e]; return e[2],h
def htop(heap): return min(heap,key=lambda e:(-e[0],e[1]))
def kk(k,items):
    heap=[];cnt=0
    for it in sort_desc(items): heap,cnt=hpush(heap,cnt,single(k,it))
    for _ in range(len(items)-1):
        b1,heap=hpop(heap); b2,heap=hpop(heap)
        s=list(b1[0]); l=list(b1[1])
        for i in range(k): s[k-i-1]+=b2[0][i]; l[k-i-1]=l[k-i-1]+b2[1][i]
        heap,cnt=hpush(heap,cnt,(tuple(s),tuple(l)))
    return htop(heap)[2]
def allcomb_contents(b1,b2):
    k=len(b1[0]); seen=[]; res=[]
    for perm in itertools.permutations(range(k)):
        s=tuple(b1[0][perm[i]]+b2[0][i] for i in range(k)); l=tuple(tuple(sorted(b1[1][perm[i]]+b2[1][i])) for i in range(k))
        nb=sort_bins((s,l))
        if nb[1] not in seen: seen.append(nb[1]); res.append(nb)
    return res
def allcomb_sums(b1,b2):
    k=len(b1[0]); seen=[]; res=[]
    for perm in itertools.permutations(range(k)):
        s=tuple(sorted(b1[0][perm[i]]+b2[0][i] for i in range(k)))
        if s not in seen: seen.append(s); res.append((s,tuple([()]*k)))
    return res
def ckk_bound(heap,k):
    flat=[x for e in heap for x in e[2][0]]; m=max(flat); t=sum(flat)
    if k==1: return None
    return -(m-(t-m)//(k-1))
def ckk(k,items,contents=True,best=None,gen=False):
    heap=[];cnt=0
    for it in sort_desc(items): heap,cnt=hpush(heap,cnt,single(k,it))
    stack=[heap]; isBest = best is None; bestd = -float('inf') if best is None else best; bestp=None; ys=[]
    while stack:
        h=stack.pop()
        lb=ckk_bound(h,k)
        if lb is not None and lb<=bestd: continue
        if len(h)==1:
            d=-htop(h)[0]
            if d>bestd:
                if isBest or not gen: bestd=d
                bestp=htop(h)[2]; ys.append(bestp)
                if d==0:
                    if gen: return ys
                    return bestp
            continue
        b1,h=hpop(h); b2,h=hpop(h)
        ext=[]
        for nb in (allcomb_contents if contents else allcomb_sums)(b1,b2):
            h2,cnt=hpush(h,cnt,nb); ext.append(h2)
        ext.sort(key=lambda hh:-htop(hh)[0])
        stack.extend(ext)
    if gen: return ys
    return sort_bins(bestp)
def render(b): return ([float(x) for x in b[0]],[list(x) for x in b[1]])
def real(alg,k,items,**kw):
    d={n:v for n,v in items}
    s,l=prtpy.partition(alg,k,d,outputtype=out.PartitionAndSumsTuple,**kw); return ([float(x) for x in s],[list(x) for x in l])
if __name__=='__main__':
    random.seed(int(sys.argv[1])); bad=0
    for t in range(int(sys.argv[2])):
        n=random.randint(1,8); k=random.randint(1,5)
        items=[(i,random.choice([random.randint(0,3),random.randint(0,9),random.randint(1,40)])) for i in range(n)]
        for name,m,a in (('kk',kk,prt.kk),('ckk',ckk,prt.ckk)):
            r=real(a,k,items); mm=render(m(k,items))
            if r!=mm:
                bad+=1
                if bad<6: print('DIFF',name,k,items,r,mm)
        # sums-only ckk
        r=[float(x) for x in prtpy.partition(prt.ckk,k,[v for _,v in items],outputtype=out.Sums)]
        mm=[float(x) for x in ckk(k,items,contents=False)[0]]
        if r!=mm:
            bad+=1
            if bad<6: print('DIFF ckk-sums',k,items,r,mm)
    print('bad',bad)
