import prtpy, random, sys, warnings, collections
warnings.filterwarnings('ignore')
assert 'scratch' in prtpy.__file__
prt=prtpy.partitioning; out=prtpy.out
def brute(vals,k):
    vals=sorted(vals,reverse=True); best=[10**9]
    def rec(i,sums,used):
        if i==len(vals):
            best[0]=min(best[0],max(sums)-min(sums)); return
        for b in range(min(used+1,k)):
            sums[b]+=vals[i]; rec(i+1,sums,max(used,b+1)); sums[b]-=vals[i]
    rec(0,[0]*k,0); return best[0]
random.seed(int(sys.argv[1])); bad=collections.Counter(); tot=collections.Counter(); ex={}
for t in range(int(sys.argv[2])):
    k=random.choice([4,5,6,7,8,9,10,12]); n=random.randint(max(1,k-2),min(k+4,10)); items=[random.choice([random.randint(0,9),random.randint(1,60)]) for _ in range(n)]
    tot[k]+=1
    try:
        s,l=prtpy.partition(prt.rnp,k,items,outputtype=out.PartitionAndSumsTuple)
    except Exception as e:
        bad[(k,'exc '+type(e).__name__)]+=1; ex.setdefault((k,'exc'),(items,str(e)[:80])); continue
    ok=sorted(x for b in l for x in b)==sorted(items) and len(l)==k and [sum(b) for b in l]==[float(x) for x in s]
    if not ok: bad[(k,'invalid')]+=1; ex.setdefault((k,'invalid'),(items,l)); continue
    o=brute(items,k)
    if max(s)-min(s)!=o: bad[(k,'subopt')]+=1; ex.setdefault((k,'subopt'),(items,list(s),o))
print(dict(tot),dict(bad),ex)
