import random, sys, warnings, itertools
from fractions import Fraction as F
from mirror_kk import kk, ckk, sort_desc, render, hpush, hpop, htop, allcomb_contents, ckk_bound, sort_bins
from mirror_snp import diff_of, concat, find_diff
from mirror_rnp import intree
def ckk_gen_all(k,items,bound):   # bounded generator that does NOT stop at a perfect split
    heap=[];cnt=0
    for it in sort_desc(items): heap,cnt=hpush(heap,cnt,(tuple([0]*(k-1)+[it[1]]), tuple([()]*(k-1)+[(it[0],)])))
    stack=[heap]; ys=[]
    while stack:
        h=stack.pop(); lb=ckk_bound(h,k)
        if lb is not None and lb<=bound: continue
        if len(h)==1:
            d=-htop(h)[0]
            if d>bound: ys.append(htop(h)[2])
            continue
        b1,h=hpop(h); b2,h=hpop(h); ext=[]
        for nb in allcomb_contents(b1,b2):
            h2,cnt=hpush(h,cnt,nb); ext.append(h2)
        ext.sort(key=lambda hh:-htop(hh)[0]); stack.extend(ext)
    return ys
def rnp(k,items,refresh,nostop):
    best=kk(k,items)
    if diff_of(best)==0: return best
    val=dict(items)
    def rec(prior,best,items,cur):
        d=diff_of(best)
        if cur==2: return ckk(2,items)
        if cur%2==1:
            t=sum(v for _,v in items)
            for sub in intree(items, F(t-(cur-1)*d,cur), F(t,cur)):
                prior2=concat(prior,((sum(v for _,v in sub),),(tuple(nm for nm,_ in sub),)))
                nb=rec(prior2,best,find_diff(items,sub),cur-1)
                d=diff_of(best); comb=tuple(nb[0])+tuple(prior2[0])
                if max(comb)-min(comb)<d: best=concat(prior2,nb)
        else:
            tops = ckk_gen_all(2,items,-d) if nostop else ckk(2,items,best=-d,gen=True)
            for top in tops:
                i1=[(nm,val[nm]) for nm in top[1][0]]; i2=[(nm,val[nm]) for nm in top[1][1]]
                nb1=rec(prior,best,i1,cur//2); nb2=rec(prior,best,i2,cur//2)
                comb=tuple(nb1[0])+tuple(nb2[0])
                if max(comb)-min(comb)<d:
                    best=concat(nb1,nb2)
                    if refresh: d=max(comb)-min(comb)
        return best
    return rec(((),()),best,items,k)
def brute(vals,k):
    res=set()
    def rec(i,s):
        if i==len(vals): res.add(max(s)-min(s)); return
        seen=set()
        for b in range(k):
            if s[b] in seen: continue
            seen.add(s[b]); s[b]+=vals[i]; rec(i+1,s); s[b]-=vals[i]
    rec(0,[0]*k); return min(res)
random.seed(int(sys.argv[1])); N=int(sys.argv[2])
cnt={(k,m):0 for k in (3,4,5) for m in ('pinned','refresh','refresh+nostop')}
tot={3:0,4:0,5:0}
for t in range(N):
    n=random.randint(5,9); k=random.choice([3,4,5]); items=[(i,random.randint(1,80)) for i in range(n)]
    opt=brute([v for _,v in items],k); tot[k]+=1
    for m,(r,ns) in (('pinned',(0,0)),('refresh',(1,0)),('refresh+nostop',(1,1))):
        if diff_of(rnp(k,items,r,ns))!=opt: cnt[(k,m)]+=1
print(tot,cnt)
