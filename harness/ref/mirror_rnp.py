import prtpy, random, sys, warnings
from fractions import Fraction as F
from mirror_kk import kk, ckk, sort_desc, render, real
from mirror_snp import diff_of, concat, find_diff
warnings.filterwarnings('ignore')
out=prtpy.out; prt=prtpy.partitioning
def intree(items, lb, ub):
    srt=sort_desc(items); n=len(srt); res=[]
    def tree(depth,cur,rest):
        s=sum(v for _,v in cur)
        if s>ub or s+sum(v for _,v in rest)<lb: return
        if depth==n: res.append(cur); return
        tree(depth+1,cur+[rest[0]],rest[1:]); tree(depth+1,cur,rest[1:])
    tree(0,[],srt); return res
def rnp(k,items):
    assert k<=5
    best=kk(k,items)
    if diff_of(best)==0: return best
    val=dict(items)
    def rec(prior,best,items,cur):
        d=diff_of(best)
        if cur==2: return ckk(2,items)
        if cur%2==1:
            t=sum(v for _,v in items)
            for sub in intree(items, F(t-(cur-1)*d,cur), F(t,cur)):     # lower bound fixed at creation: RNP never updates it
                prior2=concat(prior,((sum(v for _,v in sub),),(tuple(nm for nm,_ in sub),)))
                nb=rec(prior2,best,find_diff(items,sub),cur-1)
                d=diff_of(best)
                comb=tuple(nb[0])+tuple(prior2[0])
                if max(comb)-min(comb)<d: best=concat(prior2,nb)
        else:
            for top in ckk(2,items,best=-d,gen=True):
                i1=[(nm,val[nm]) for nm in top[1][0]]; i2=[(nm,val[nm]) for nm in top[1][1]]
                nb1=rec(prior,best,i1,cur//2); nb2=rec(prior,best,i2,cur//2)
                comb=tuple(nb1[0])+tuple(nb2[0])
                if max(comb)-min(comb)<d: best=concat(nb1,nb2)      # d is NOT refreshed here (pinned behaviour, KF2)
        return best
    return rec(((),()),best,items,k)
if __name__=='__main__':
    random.seed(int(sys.argv[1])); bad=0; nontrivial=0; sub=0
    for t in range(int(sys.argv[2])):
        n=random.randint(1,10); k=random.randint(1,5)
        items=[(i,random.choice([random.randint(0,9),random.randint(1,60),random.randint(20,99)])) for i in range(n)]
        try: r=real(prt.rnp,k,items)
        except Exception as e: r='EXC '+type(e).__name__
        try: mm=render(rnp(k,items))
        except Exception as e: mm='EXC '+type(e).__name__
        if r!=mm:
            bad+=1
            if bad<6: print('DIFF',k,items,r,mm)
        if mm!=render(kk(k,items)): nontrivial+=1
    print('bad',bad,'changed-vs-kk',nontrivial)
    print(render(rnp(4,[(i,v) for i,v in enumerate([68,22,72,23,31,30,4])])))
