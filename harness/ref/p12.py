import prtpy, sys, warnings, types
warnings.filterwarnings('ignore')
out=prtpy.out; obj=prtpy.obj
cgmod=sys.modules['prtpy.partitioning.complete_greedy']; cbmod=sys.modules['prtpy.partitioning.cbldm']
class Clock:
    def __init__(self): self.t=-1
    def perf_counter(self): self.t+=1; return self.t
items=[46, 39, 27, 26, 16, 13, 10]
prev=None
for c in range(0,60):
    cgmod.time=Clock()
    r=cgmod.anytime(prtpy.BinnerKeepingContents(),3,items,time_limit=c)
    v=None if r is None else (max(r[0])-min(r[0]), sorted(map(float,r[0])))
    if v!=prev: print('cg cut',c,v)
    prev=v
print('lpt',sorted(prtpy.partition(prtpy.partitioning.greedy,3,items,outputtype=out.Sums)))
prev=None
for c in range(1,80):
    cbmod.time=Clock()
    r=cbmod.cbldm(prtpy.BinnerKeepingContents(),2,items,time_limit=c)
    v=(r[0],r[1])
    if str(v)!=str(prev): print('cbldm cut',c,v)
    prev=v
