import prtpy, random, sys, warnings, numpy as np, collections
from prtpy.packing import best_fit, first_fit, bin_completion
warnings.filterwarnings('ignore')
out=prtpy.out; obj=prtpy.obj; prt=prtpy.partitioning
random.seed(1); fails=collections.Counter(); ex={}
algs={'ff':first_fit.online,'ffd':first_fit.decreasing,'bf':best_fit.online,'bfd':best_fit.decreasing,'bc':bin_completion.bin_completion}
outs=[out.Sums,out.SortedSums,out.LargestSum,out.SmallestSum,out.ExtremeSums,out.Difference,out.BinCount,out.Partition,out.PartitionAndSumsTuple,out.PartitionAndSums]
for t in range(300):
    n=random.randint(1,6); B=random.choice([5,10]); items=[random.randint(0,B) for _ in range(n)]
    pos=random.randrange(n+1); items.insert(pos,B+random.randint(1,3))
    for an,a in algs.items():
        for fmt in ('list','dict','names','array'):
            for ot in outs:
                try:
                    if fmt=='list': prtpy.pack(a,B,items,outputtype=ot)
                    elif fmt=='array': prtpy.pack(a,B,np.array(items),outputtype=ot)
                    elif fmt=='dict': prtpy.pack(a,B,{f'n{i}':v for i,v in enumerate(items)},outputtype=ot)
                    else: prtpy.pack(a,B,[f'n{i}' for i in range(len(items))],valueof=lambda s:items[int(s[1:])],outputtype=ot)
                    fails[(an,fmt,'noerror')]+=1; ex.setdefault((an,fmt,'noerror'),(items,B))
                except ValueError: pass
                except Exception as e:
                    fails[(an,fmt,type(e).__name__)]+=1; ex.setdefault((an,fmt,type(e).__name__),(items,B,str(e)[:50]))
print('C19',dict(fails),ex)
# cbldm validation
def t(**kw):
    base=dict(algorithm=prt.cbldm,numbins=2,items=[8,7,6,5,4]); base.update(kw)
    try: prtpy.partition(**base); return 'ok'
    except Exception as e: return type(e).__name__
print([t(numbins=k) for k in (1,3,0)],[t(items=[3,-1,2]),t(items={'a':1,'b':-2})],[t(time_limit=x) for x in (0,-1,-0.5)],[t(partition_difference=x) for x in (0,-1,1.5,2.0,'a',None,True,np.int64(3))])
try: prtpy.BinnerKeepingSums().numitems(np.zeros(2),0)
except Exception as e: print(type(e).__name__)
# C20
fails=collections.Counter()
for t_ in range(3000):
    n=random.randint(1,6); s=[random.randint(0,9) for _ in range(n)]; k=random.randint(1,n+2)
    ss=sorted(s)
    specs=[(obj.MaximizeSmallestSum,-min(s)),(obj.MinimizeLargestSum,max(s)),(obj.MinimizeDifference,max(s)-min(s)),(obj.MaximizeKSmallestSums(k),-sum(ss[:k])),(obj.MinimizeKLargestSums(k),sum(ss[max(0,n-k):]))]
    for o,exp in specs:
        for conv in (list,tuple,np.array):
            if o.value_to_minimize(conv(s))!=exp: fails[(str(o),'gen')]+=1
            if o.value_to_minimize(conv(ss),are_sums_in_ascending_order=True)!=exp: fails[(str(o),'fast')]+=1
print('C20',dict(fails))
