def body(fn, start, end=None):
    s=open(fn).read()
    i=s.index(start); j=s.index(end) if end else len(s)
    return s[i:j].rstrip()+"\n"
kk = body('mirror_kk.py', "# items: list of (name, value)", "def render(b)")
snp = body('mirror_snp.py', "def diff_of(b)", "if __name__")
cg = body('mirror_cg.py', "def lb_maxmin", "class Clock")
cb = body('mirror_cb.py', "def cbldm(items,d,cut=None)", "class Clock")
app = open('appB.md').read().replace('@@KK@@',kk).replace('@@SNP@@',snp).replace('@@CG@@',cg).replace('@@CB@@',cb)
open('/verif/DESIGN.md','a').write(app)
