import prtpy, random, sys, warnings, math
warnings.filterwarnings('ignore')
from mirror_kk import sort_bins, sort_desc, render
cbmod=sys.modules['prtpy.partitioning.cbldm']
INF=float('inf')
def cbldm(items,d,cut=None):
    it=sort_desc(items); n=len(it)
    subs=[((0,v),((),(nm,))) for nm,v in it]
    st={'best':'placeholder','sd':INF,'opt':False,'tick':0}
    def sdiff(b): return abs(b[0][0]-b[0][1])
    def ldiff(b): return abs(len(b[1][0])-len(b[1][1]))
    def part(subs):
        st['tick']+=1
        if (cut is not None and st['tick']>=cut) or st['opt']: return
        if len(subs)==1:
            p=subs[0]
            if ldiff(p)<=d and sdiff(p)<st['sd']:
                st['best']=p; st['sd']=sdiff(p)
                if st['sd']==0: st['opt']=True
            return
        xs=[sdiff(p) for p in subs]; ms=[ldiff(p) for p in subs]
        if 2*max(xs)-sum(xs)>=st['sd']: return
        if 2*max(ms)-sum(ms)>d: return
        if len(subs)<=math.ceil(n/2): subs=sorted(subs,key=lambda p:-sdiff(p))
        a,b=subs[0],subs[1]; rest=subs[2:]
        comb=sort_bins(((a[0][0]+b[0][0],a[0][1]+b[0][1]),(a[1][0]+b[1][0],a[1][1]+b[1][1])))
        # split: bin0 = a[1]+b[0], bin1 = a[0]+b[1]
        split=sort_bins(((a[0][1]+b[0][0],a[0][0]+b[0][1]),(a[1][1]+b[1][0],a[1][0]+b[1][1])))
        part(rest+[split]); part(rest+[comb])
    part(subs)
    return st['best']
class Clock:
    def __init__(self): self.t=-1
    def perf_counter(self): self.t+=1; return self.t
if __name__=='__main__':
    random.seed(int(sys.argv[1])); bad=0; cases=0
    for t in range(int(sys.argv[2])):
        n=random.randint(1,9)
        items=[(i,random.choice([random.randint(0,3),random.randint(0,9),random.randint(1,40)])) for i in range(n)]
        dd={nm:v for nm,v in items}
        for d in (1,2,n,10**9):
            for cut in [None]+random.sample(range(1,60),4):
                cbmod.time=Clock()
                r=cbmod.cbldm(prtpy.BinnerKeepingContents(dd.__getitem__),2,dd.keys(),time_limit=(INF if cut is None else cut),partition_difference=d)
                rr='placeholder' if isinstance(r[0],list) and r[0]==[0,INF] else ([float(x) for x in r[0]],[list(x) for x in r[1]])
                m=cbldm(items,d,cut); mm=m if m=='placeholder' else render(m)
                cases+=1
                if rr!=mm:
                    bad+=1
                    if bad<5: print('DIFF',items,d,cut,rr,mm)
    print('bad',bad,'of',cases)
