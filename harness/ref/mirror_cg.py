import prtpy, random, sys, warnings, itertools
warnings.filterwarnings('ignore')
from mirror_kk import sort_bins, sort_desc, render
out=prtpy.out; obj=prtpy.obj
cgmod=sys.modules['prtpy.partitioning.complete_greedy']
INF=float('inf')
def lb_maxmin(s,rem):
    s=list(s); rem+=s[0]
    for i in range(1,len(s)):
        if rem<=i*s[i]: return -(rem//i)
        rem+=s[i]
    return -(rem//len(s))
def lb_minmax(s,rem): return max(s[-1], -(-(sum(s)+rem)//len(s)))
OBJ={'max':(obj.MinimizeLargestSum,lambda s:max(s), lb_minmax),'min':(obj.MaximizeSmallestSum,lambda s:-min(s), lb_maxmin),
     'diff':(obj.MinimizeDifference,lambda s:max(s)-min(s), lambda s,r: lb_maxmin(s,r)+lb_minmax(s,r)),
     'k2s':(obj.MaximizeKSmallestSums(2),lambda s:-sum(sorted(s)[:2]), lambda s,r:-INF),'k2l':(obj.MinimizeKLargestSums(2),lambda s:sum(sorted(s)[-2:]), lambda s,r:-INF)}
def cg(k,items,on,use_lb,use_fast,use_h3,use_seen,cut=None,fixed=False):
    _,f,lbf=OBJ[on]; n=len(items); it=sort_desc(items)
    rem=[sum(v for _,v in it[i:]) for i in range(n)]+[0]
    best=None; bestv=INF; glb=lbf((0,)*k,rem[0])
    stack=[(((0,)*k,tuple([()]*k)),0)]; seen=set(); tick=0
    while stack:
        tick+=1
        if cut is not None and tick>cut: break
        cur,depth=stack.pop(); cs=cur[0]
        if depth==n:
            v=f(cs)
            if v<bestv:
                best,bestv=cur,v
                if v<=glb: break
            continue
        if use_h3 and on=='max' and rem[depth]+cs[0]<=cs[-1]:
            s=list(cs); l=list(cur[1])
            for i in range(depth,n): s[0]+=it[i][1]; l[0]=l[0]+(it[i][0],)
            stack.append((sort_bins((tuple(s),tuple(l))),n)); continue
        x=it[depth]; r=rem[depth+1]; prev=None
        for b in reversed(range(k)):
            if cs[b]==prev: continue
            prev=cs[b]
            if use_fast:
                if on=='max': fl=max(cs[b]+x[1],cs[-1])
                elif on=='min': fl=-((min(cs[0]+x[1],cs[1]) if b==0 else cs[0])+r)
                else: fl=-INF
                if fl>=bestv: continue
            s=list(cs); l=list(cur[1]); s[b]+=x[1]; l[b]=l[b]+(x[0],)
            nb=sort_bins((tuple(s),tuple(l)))
            if use_lb and lbf(nb[0],r)>=bestv: continue
            if use_seen:
                key=(depth+1,nb[0]) if fixed else nb[0]
                if key in seen: continue
                seen.add(key)
            stack.append((nb,depth+1))
    return best
class Clock:
    def __init__(self): self.t=-1
    def perf_counter(self): self.t+=1; return self.t
if __name__=='__main__':
    random.seed(int(sys.argv[1])); bad=0; cases=0
    for t in range(int(sys.argv[2])):
        n=random.randint(1,7); k=random.randint(2,4)
        items=[(i,random.choice([random.randint(1,3),random.randint(1,9),random.randint(1,40)])) for i in range(n)]
        d={nm:v for nm,v in items}
        for on in OBJ:
            sw=tuple(random.randint(0,1) for _ in range(4))
            for cut in [None]+random.sample(range(0,40),4):
                cgmod.time=Clock()
                r=cgmod.anytime(prtpy.BinnerKeepingContents(d.__getitem__),k,d.keys(),objective=OBJ[on][0],use_lower_bound=bool(sw[0]),use_fast_lower_bound=bool(sw[1]),use_heuristic_3=bool(sw[2]),use_set_of_seen_states=bool(sw[3]),time_limit=(float('inf') if cut is None else cut))
                rr=None if r is None else ([float(x) for x in r[0]],[list(x) for x in r[1]])
                m=cg(k,items,on,*sw,cut=cut); mm=None if m is None else render(m)
                cases+=1
                if rr!=mm:
                    bad+=1
                    if bad<5: print('DIFF',k,items,on,sw,cut,rr,mm)
    print('bad',bad,'of',cases)
