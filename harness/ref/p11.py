import prtpy, mip, warnings, time
warnings.filterwarnings('ignore')
prt=prtpy.partitioning; out=prtpy.out; obj=prtpy.obj
o=obj.MaximizeKSmallestSums(2)
for i in range(3):
    t=time.time()
    print(prtpy.partition(prt.ilp,3,[2,5],objective=o,copies=2,additional_constraints=lambda s:[s[0]>=0],outputtype=out.PartitionAndSumsTuple), time.time()-t)
print(prtpy.partition(prt.ilp,3,[2,5],objective=o,copies=2,outputtype=out.PartitionAndSumsTuple))
orig=mip.Model.optimize
def patched(self,*a,**k):
    self.preprocess=0
    return orig(self,*a,**k)
mip.Model.optimize=patched
print('nopre',prtpy.partition(prt.ilp,3,[2,5],objective=o,copies=2,additional_constraints=lambda s:[s[0]>=0],outputtype=out.PartitionAndSumsTuple))
