import prtpy, random, sys, copy, numpy as np
random.seed(int(sys.argv[1]))
vals={f'n{i}':random.randint(0,9) for i in range(12)}
def run(kind, steps):
    B=(prtpy.BinnerKeepingContents if kind=='c' else prtpy.BinnerKeepingSums)(vals.__getitem__)
    live=[]   # list of (real, pure) ; pure=(sums list, lists list) 
    def obs(r):
        if kind=='c': return ([float(x) for x in r[0]], [list(l) for l in r[1]])
        return ([float(x) for x in r], None)
    def pobs(p): return ([float(x) for x in p[0]], [list(l) for l in p[1]] if kind=='c' else None)
    log=[]
    for _ in range(steps):
        ops=['new']
        if live: ops+=['add','add','copy','sort','addempty','remove','combine']
        if len(live)>=2: ops+=['concat']
        op=random.choice(ops); log.append(op)
        if op=='new':
            n=random.randint(0,4); live.append((B.new_bins(n),([0]*n,[[] for _ in range(n)])))
        else:
            i=random.randrange(len(live)); r,p=live[i]; n=len(p[0])
            if op=='add' and n>0:
                idx=random.choice(list(range(n))+[-1]); it=random.choice(list(vals))
                before=[pobs(pp) for _,pp in live]
                B.add_item_to_bin(r,it,idx); p[0][idx]+=vals[it]; p[1][idx].append(it)
            elif op=='copy':
                live.append((B.copy_bins(r),copy.deepcopy(p)))
            elif op=='sort':
                B.sort_by_ascending_sum(r)
                order=sorted(range(n),key=lambda j:p[0][j]); p=( [p[0][j] for j in order],[p[1][j] for j in order]); live[i]=(r,p)
            elif op=='addempty':
                m=random.randint(0,2); r2=B.add_empty_bins(r,m); live[i]=(r2,(p[0]+[0]*m,p[1]+[[] for _ in range(m)]))
            elif op=='remove':
                m=random.randint(0,n); r2=B.remove_bins(r,m); live[i]=(r2,(p[0][:n-m],p[1][:n-m]))
            elif op=='concat':
                j=random.choice([x for x in range(len(live)) if x!=i]); r2,p2=live[j]
                rr=B.concatenate_bins(r,r2); pp=(p[0]+p2[0],p[1]+p2[1])
                live=[x for t,x in enumerate(live) if t not in (i,j)]+[(rr,pp)]
            elif op=='combine' and n>0:
                j=random.randrange(len(live)); r2,p2=live[j]
                if len(p2[0])>0:
                    a=random.randrange(n); b=random.randrange(len(p2[0]))
                    B.combine_bins(r,a,r2,b); 
                    add_s=p2[0][b]; add_l=list(p2[1][b]); p[0][a]+=add_s; p[1][a]+=add_l
        for r,p in live:
            assert obs(r)==pobs(p),(kind,log,obs(r),pobs(p))
            if kind=='c': assert B.numbins(r)==len(p[0]) and all(B.numitems(r,t)==len(p[1][t]) for t in range(len(p[0])))
for t in range(int(sys.argv[2])):
    run('c',random.randint(1,40)); run('s',random.randint(1,40))
print('ok')
