import mirror_bc as m, collections, itertools, random, sys
def is_dom_ms(l1,l2):
    if not l2: return True
    if not l1: return False
    if not (collections.Counter(l2)-collections.Counter(l1)): return True
    if l1[0]<l2[0]: return False
    for locs in itertools.product(range(len(l1)),repeat=len(l2)):
        tot=[0]*len(l1)
        for e,loc in zip(l2,locs): tot[loc]+=e
        if all(tot[i]<=l1[i] for i in range(len(l1))): return True
    return False
def opt_bins(items,B):
    items=sorted([x for x in items if x>0],reverse=True); best=[len(items)]
    def rec(i,bins):
        if len(bins)>=best[0]: return
        if i==len(items): best[0]=len(bins); return
        seen=set()
        for j in range(len(bins)):
            if bins[j]+items[i]<=B and bins[j] not in seen:
                seen.add(bins[j]); bins[j]+=items[i]; rec(i+1,bins); bins[j]-=items[i]
        bins.append(items[i]); rec(i+1,bins); bins.pop()
    rec(0,[]); return best[0]
seed=int(sys.argv[1]); N=int(sys.argv[2]); mode=sys.argv[3]
if mode=='ms': m.is_dom=is_dom_ms
random.seed(seed); bad=0; exs=[]; inval=0
for t in range(N):
    n=random.randint(4,13); B=random.choice([10,12,20,30,50])
    pool=random.choice([list(range(1,B+1)), random.sample(range(1,B//2+3),min(4,B//2+2)), list(range(B//5,B//2+2))])
    items=[random.choice(pool) for _ in range(n)]
    r=m.bc(B,items)
    if sorted(x for b in r for x in b)!=sorted(items) or any(sum(b)>B for b in r): inval+=1; exs.append(('INVALID',B,items,r))
    elif len(r)!=opt_bins(items,B): bad+=1; exs.append((B,items,len(r),opt_bins(items,B)))
print(mode,'seed',seed,'suboptimal',bad,'invalid',inval,'of',N,exs[:3])
