import prtpy, random, sys, warnings, itertools, collections
warnings.filterwarnings('ignore')
prt=prtpy.partitioning; out=prtpy.out; obj=prtpy.obj
random.seed(int(sys.argv[1])); N=int(sys.argv[2])
fails=collections.Counter(); ex={}
objs={'diff':(obj.MinimizeDifference,lambda s:s[-1]-s[0]),'max':(obj.MinimizeLargestSum,lambda s:s[-1]),'min':(obj.MaximizeSmallestSum,lambda s:-s[0]),
      'k2s':(obj.MaximizeKSmallestSums(2),lambda s:-sum(s[:2])),'k2l':(obj.MinimizeKLargestSums(2),lambda s:sum(s[-2:]))}
import time
t0=time.time()
for it in range(N):
    n=random.randint(1,6); k=random.randint(1,4)
    items=[random.randint(0,random.choice([5,30,200])) for _ in range(n)]
    copies=random.choice([1,1,2,[random.randint(0,2) for _ in range(n)]])
    cp=copies if isinstance(copies,list) else [copies]*n
    flat=[x for x,c in zip(items,cp) for _ in range(c)]
    on=random.choice(list(objs)); o,f=objs[on]
    cons=random.choice([None,None,'s0==','smax<=','s0>='])
    c=random.randint(0,sum(flat)//k+3) if cons else None
    ac={None:lambda s:[], 's0==':lambda s:[s[0]==c], 'smax<=':lambda s:[s[-1]<=c], 's0>=':lambda s:[s[0]>=c]}[cons]
    chk={None:lambda s:True,'s0==':lambda s:s[0]==c,'smax<=':lambda s:s[-1]<=c,'s0>=':lambda s:s[0]>=c}[cons]
    best=None
    for asg in itertools.product(range(k),repeat=len(flat)):
        s=[0]*k
        for x,b in zip(flat,asg): s[b]+=x
        s.sort()
        if chk(s):
            v=f(s); best=v if best is None else min(best,v)
    try:
        s,l=prtpy.partition(prt.ilp,k,items,objective=o,copies=copies,additional_constraints=ac,outputtype=out.PartitionAndSumsTuple)
        s=[float(x) for x in s]
        cnt=collections.Counter(x for b in l for x in b)
        ok= sorted(x for b in l for x in b)==sorted(flat) and s==sorted(s) and [sum(b) for b in l]==s and chk(s)
        if not ok: fails['invalid']+=1; ex.setdefault('invalid',(items,k,copies,on,cons,c,l))
        elif best is None: fails['answered infeasible']+=1; ex.setdefault('answered infeasible',(items,k,copies,on,cons,c,l))
        elif f(s)!=best: fails['subopt']+=1; ex.setdefault('subopt',(items,k,copies,on,cons,c,s,best))
    except ValueError as e:
        if best is not None: fails['refused feasible']+=1; ex.setdefault('refused feasible',(items,k,copies,on,cons,c,str(e)))
    except Exception as e:
        fails['exc '+type(e).__name__]+=1; ex.setdefault('exc '+type(e).__name__,(items,k,copies,on,cons,c,str(e)))
print(dict(fails),ex, time.time()-t0)
