"""
suites.py - one function per property: which models, generators, relations and verified judges decide it.
Each suite drives a `Check` (engine.py) and returns nothing; run_check.py calls `finish()`.
"""
import itertools, json
from core import *
from engine import Check, timed
from algs import ALGS, obj_value
import cases as C
import gen
import judges as J

PT = "PartitionAndSumsTuple"


def fmts(c, quick, thorough):
    return quick if c.quick() else thorough


def combos_of(formats, outtypes):
    return lambda case, rng: [(f, o) for f in formats for o in outtypes]


def corpus(pid):
    p = os.path.join(VERIF, "corpus", f"{pid}.json")
    return json.load(open(p)) if os.path.exists(p) else []


# ------------------------------------------------------------------------------------------------ C01
def C01(c):
    """every partitioner returns a true partition into the requested number of bins"""
    rng = c.rng
    formats = fmts(c, ["list", "dict_str", "names_valueof"], FORMATS)
    combos = combos_of(formats, [PT])

    def judge(case, fmt, ot, got, names, ans):
        a = case["alg"]
        return J.judge_partition(case, fmt, ot, got, names, ans, allow_fewer=(a == "multifit"))

    c.corr("corpus", corpus("C01"), combos, judge=judge)
    algs = C.HEURISTIC_PART + ["cg", "ckk", "snp", "rnp", "dp"]
    c.corr("random-ilp", C.random_part_cases(rng, ["ilp"], c.n(120, 1200), objs=C.OBJS5), combos_of(["list", "dict_str"], [PT]), judge=judge)
    ex = C.exhaustive_part_cases(algs, c.n(4, 5), c.n(3, 5), c.n([1, 2, 3, 4], [1, 2, 3, 4, 5]), rng)
    c.corr("exhaustive", ex, combos_of(["list", "dict_str"], [PT]), judge=judge)
    c.exhaustive_scopes.append(f"all multisets of 1..{c.n(4,5)} values from 0..{c.n(3,5)} x k in {c.n([1,2,3,4],[1,2,3,4,5])} "
                               f"for {algs} (switch/objective combination drawn per case)")
    # every switch combination x objective of complete greedy on a fixed small scope
    cgs = []
    for ms in gen.multisets(range(0, 4), c.n(3, 4)):
        for k in (1, 2, 3):
            for sw in C.SWITCHES:
                for o in C.OBJS5[:5]:
                    cgs.append({"alg": "cg", "vals": list(ms), "p": dict(sw, k=k, obj=o, cut=None)})
    c.corr("cg-all-configurations", cgs, combos_of(["list"], [PT]), judge=judge)
    c.exhaustive_scopes.append(f"complete greedy: all multisets of 1..{c.n(3,4)} values from 0..3 x k in 1..3 x 16 switch combinations x 5 objectives")
    c.corr("random", C.random_part_cases(rng, algs, c.n(60, 600)), combos, judge=judge)
    c.corr("random-cbldm", C.random_part_cases(rng, ["cbldm"], c.n(100, 1000)), combos, judge=judge)
    # the recursive searches with 4-5 bins on inputs where KK's first answer is usually not perfect (nested recursion levels)
    hard = []
    for _ in range(c.n(120, 1200)):
        a = rng.choice(["snp", "snp", "rnp", "ckk"])
        n = rng.randint(6, 7 if a == "ckk" else 9)
        hard.append({"alg": a, "vals": [rng.randint(1, 30) for _ in range(n)], "p": {"k": rng.choice([4, 4, 5]) if n <= 7 or a != "snp" else 4}})
    c.corr("recursive-4-5-bins", hard, combos_of(["list", "dict_str"], [PT, "Sums"]), judge=judge)
    # rnp with 6 or more bins (known finding KF1 lives here)
    big = [{"alg": "rnp", "vals": gen.rand_vals(rng, rng.randint(6, 9), "small"), "p": {"k": rng.choice([6, 7])}} for _ in range(c.n(6, 40))]
    # ... and inputs on which KK's first partition is perfect: rnp returns it, also for 6 or more bins (this path works and is modelled)
    big += [{"alg": "rnp", "vals": [x] * (k_ * m_), "p": {"k": k_}} for x in (0, 3) for k_ in (6, 7) for m_ in (1, 2)]
    c.corr("rnp-6plus", big, combos_of(["list"], [PT]), judge=judge)


def _is_timeout(x):
    return isinstance(x, dict) and x.get("error") == "Timeout"


def judge_named(judge):
    """run a judge written for list input (names = values) on a named answer: the names are replaced by their values first"""
    def j(case, fmt, ot, got, names, ans):
        if isinstance(got, dict) and "bins" in got:
            val = {}
            for nm, v in zip(names, case["vals"]):
                val[_hk(nm)] = v
            try:
                got = dict(got, bins=[[val[_hk(x)] for x in b] for b in got["bins"]])
            except KeyError:
                return [(None, lambda a: ("invented-item", f"the answer names an item that was not given: {got['bins']}"))]
        return judge(case, "list", ot, got, list(case["vals"]), ans)
    return j


def _hk(x):
    return x if not isinstance(x, (np.integer,)) else int(x)



def narrow_stream(c, algs, count):
    """the same values as a numpy array of a NARROW integer type (int8 / uint8 / int16, every value fits, the sums do not) and as a plain
    list: same multiset of sums (the statement of C07, judged on the implementation's own two answers; the list answer is tied to the model by
    the other streams).  Library code that adds or multiplies the items' own scalars wraps around here and nowhere else."""
    from engine import impl_map
    kinds = {a: ALGS[a].kind for a in algs}
    cases = C.narrow_cases(c.rng, algs, count, {a: ("partition" if k == "partition" else "pack" if k == "pack" else "cover") for a, k in kinds.items()})
    tasks = [(case, fmt, "SortedSums", list(case["vals"])) for case in cases for fmt in ("list", "f16" if case.get("f16") else "narrow")]
    res = iter(impl_map(tasks))
    for case in cases:
        ref, got = next(res), next(res)
        if _is_timeout(got) or _is_timeout(ref):
            c.call_timeouts += 1
            continue
        if case["alg"] in ("dp", "ilp") and isinstance(got, list) and isinstance(ref, list):
            ok = obj_value(case["p"]["obj"], got) == obj_value(case["p"]["obj"], ref)
        else:
            ok = got == ref
        c.evaluations += 2; c.corr_cases += 1
        c.stats["narrow-array"]["cases"] += 1
        c.stats["narrow-array"]["alg:" + case["alg"]] += 1
        c.stats["narrow-array"]["float16" if case.get("f16") else "integer"] += 1
        kind = "format-dependence" if not J._is_err(got) else "exception:" + got["error"]
        c.check_direct(case["alg"], dict(case["p"], vals=case["vals"], alg=case["alg"], fmt="f16" if case.get("f16") else "narrow"), kind, ok, got,
                       f"same multiset of sums as for list input: {ref}")

# ------------------------------------------------------------------------------------------------ C03
def C03(c):
    """bin-packing results are feasible packings of exactly the input items"""
    rng = c.rng
    formats = fmts(c, ["list", "dict_str"], FORMATS)
    ots = fmts(c, [PT, "BinCount"], [PT, "BinCount", "Sums", "Partition", "PartitionAndSums"])

    seen_out = {}

    def judge(case, fmt, ot, got, names, ans):
        seen_out.setdefault((id(case), fmt), {"case": case})[ot] = got
        return J.judge_packing(case, fmt, ot, got, names, ans, drop_zeros=(case["alg"] == "bin_completion"))

    c.corr("corpus", corpus("C03"), combos_of(["list"], ots), judge=judge)
    c.corr("zero-valued-items", [{"alg": a, "vals": [0] * n, "p": {"B": B}} for a in C.PACKERS + ["bin_completion"] for n in (1, 2, 3) for B in (1, 5)],
           combos_of(["list"], ots), judge=judge)
    ex = C.exhaustive_pack_cases(C.PACKERS, c.n([4, 6], [4, 6, 7]), c.n(4, 5), all_orders_upto=c.n(4, 5))
    c.corr("exhaustive-fit", ex, combos_of(["list"], [PT]), judge=judge)
    c.exhaustive_scopes.append(f"fit heuristics: every arrival order of every multiset of <= {c.n(4,5)} values from 1..B, B in {c.n([4,6],[4,6,7])}")
    exb = C.exhaustive_pack_cases(["bin_completion"], c.n([6], [6, 7, 12]), c.n(5, 6), all_orders_upto=0)
    c.corr("exhaustive-bc", exb, combos_of(["list"], [PT]), judge=judge)
    c.corr("random-fit", C.random_pack_cases(rng, C.PACKERS, c.n(150, 2000)), combos_of(formats, ots), judge=judge)
    c.corr("random-bc", C.random_pack_cases(rng, ["bin_completion"], c.n(300, 4000), nmax=c.n(10, 12)),
           combos_of(["list", "array"], ots), judge=judge)
    # bin completion on named items (since fix F15: the search runs on the values, the names are put back: BC.binCompletionNamed)
    c.corr("random-bc-named", C.random_pack_cases(rng, ["bin_completion"], c.n(150, 1500), nmax=c.n(10, 12)),
           combos_of(["dict_str", "dict_int", "names_valueof", "array_valueof"], ots), judge=judge)
    # exactly representable fractions (dyadic): the integer model applies after scaling by a power of two (C18 scale theorem)
    fr = []
    for case in C.random_pack_cases(rng, C.PACKERS, c.n(30, 300)):
        fr.append(case)
    frac_corr(c, "fractions-fit", fr)
    narrow_stream(c, C.PACKERS, c.n(25, 250))      # numpy arrays of 8- / 16-bit integers (fix F13 was found here)
    # "the reported number of bins equals the number of returned bins", on the implementation's own outputs of the same call
    for (_, fmt), d in seen_out.items():
        full, cnt = d.get(PT), d.get("BinCount")
        if isinstance(full, dict) and "bins" in full and cnt is not None and not J._is_err(cnt):
            case = d["case"]
            c.check_direct(case["alg"], dict(case["p"], vals=case["vals"], alg=case["alg"], fmt=fmt, outtype="BinCount"), "bin-count-mismatch",
                           cnt == len(full["bins"]), cnt, f"BinCount = number of bins of the Partition output = {len(full['bins'])}")


def frac_corr(c, stream, cases_):
    """fit heuristics on dyadic fractions: implementation on v/2^s, B/2^s vs model on the integers (sums scale back)"""
    lines = [ALGS[k["alg"]].request(k, list(k["vals"])) for k in cases_]
    answers = model_query(lines)
    for case, ans in zip(cases_, answers):
        s = c.rng.choice([1, 2, 3, 8, 20, 40])
        sc = 2.0 ** s
        vals = [v / sc for v in case["vals"]]
        try:
            r = prtpy.pack(algorithm=ALGS[case["alg"]].fn(), binsize=case["p"]["B"] / sc, items=vals, outputtype=out.PartitionAndSumsTuple)
            got = {"sums": [float(x) * sc for x in r[0]], "bins": [[float(x) * sc for x in b] for b in r[1]]}
            got = {"sums": [num(x) for x in got["sums"]], "bins": [[num(x) for x in b] for b in got["bins"]]}
        except Exception as e:  # noqa
            got = {"error": exc_name(e)}
        c.evaluations += 1
        c.stats[stream]["cases"] += 1
        want = ans if "error" in ans else {"sums": ans["sums"], "bins": ans["bins"]}
        if got != want:
            c.disagreements.append({"stream": stream, "alg": case["alg"], "case": case, "fmt": f"list/2^{s}",
                                    "outtype": PT, "impl": got, "model": want, "request": "scaled by 2^-%d" % s})



def frac_part_corr(c, stream, cases_):
    """a partitioning algorithm on dyadic fractions: implementation on v/2^s vs the model on the integers v (sums and items scale back exactly);
    justified by the scaling theorems of C18 (every decision compares sums).  A shortcut that is sound for integers only (parity of the total,
    'a difference below 1 is 0') shows here."""
    lines = [ALGS[k["alg"]].request(k, list(k["vals"])) for k in cases_]
    answers = model_query(lines)
    for case, ans in zip(cases_, answers):
        s_ = c.rng.choice([1, 2, 2, 3, 8])
        sc = 2.0 ** s_
        vals = [v / sc for v in case["vals"]]
        alg = ALGS[case["alg"]]
        try:
            r = prtpy.partition(algorithm=alg.fn(), numbins=case["p"]["k"], items=vals, outputtype=out.PartitionAndSumsTuple, **dict(alg.kwargs(case["p"])))
            got = {"sums": [num(float(x) * sc) for x in r[0]], "bins": [[num(float(x) * sc) for x in b] for b in r[1]]}
        except Exception as e:  # noqa
            got = {"error": exc_name(e)}
        c.evaluations += 1; c.corr_cases += 1
        c.stats[stream]["cases"] += 1
        want = ans if not (isinstance(ans, dict) and "sums" in ans) else {"sums": ans["sums"], "bins": ans["bins"]}
        if got != want:
            if case["alg"] == "cbldm" and all(isinstance(x, dict) and len(x.get("sums", [])) == 2 for x in (got, want)) and \
                    abs(got["sums"][0] - got["sums"][1]) > abs(want["sums"][0] - want["sums"][1]):
                # the model's answer is optimal under the bound (CBLDMOpt.cbldm_optimal) and the problem scales (ExactSym.cbldm_value_scale)
                c.fail("cbldm", dict(case, p=dict(case["p"], scaled_by=f"2^-{s_}")), "list", PT, "suboptimal", got,
                       f"sum difference {abs(want['sums'][0] - want['sums'][1])} / 2^{s_} (the optimum under the bound) for the items {case['vals']} / 2^{s_}")
                continue
            c.disagreements.append({"stream": stream, "alg": case["alg"], "case": case, "fmt": f"list/2^{s_}",
                                    "outtype": PT, "impl": got, "model": want, "request": "scaled by 2^-%d" % s_})

# ------------------------------------------------------------------------------------------------ C05
def C05(c):
    """bin-covering results are valid covers that waste less than one bin"""
    rng = c.rng
    formats = fmts(c, ["list", "dict_str"], ["list", "dict_str", "dict_int", "names_valueof"])
    c.corr("corpus", corpus("C05"), combos_of(formats, [PT]), judge=J.judge_cover)
    ex = C.exhaustive_cover_cases(C.COVERS, c.n([6, 7], [6, 7, 12]), c.n(4, 5))
    c.corr("exhaustive", ex, combos_of(["list"], [PT]), judge=J.judge_cover)
    c.exhaustive_scopes.append(f"all multisets of <= {c.n(4,5)} values from 1..B+2 (ascending and descending arrival), B in {c.n([6,7],[6,7,12])}")
    c.corr("random", C.random_cover_cases(rng, C.COVERS, c.n(300, 4000)), combos_of(formats, [PT]), judge=J.judge_cover)
    narrow_stream(c, C.COVERS, c.n(25, 250))       # numpy arrays of 8- / 16-bit integers


# ------------------------------------------------------------------------------------------------ C02
def C02(c):
    """exact partitioners attain the true optimum of their objective"""
    rng = c.rng
    judge = J.judge_optimal(lambda case: case["p"].get("obj", "diff"))
    combos = combos_of(["list", "dict_str"] if c.quick() else ["list", "dict_str", "names_valueof"], [PT, "Sums"])
    c.corr("corpus", corpus("C02"), combos, judge=judge)
    algs = ["dp", "ckk", "snp", "rnp"]
    ex = C.exhaustive_part_cases(algs, c.n(4, 5), c.n(4, 6), c.n([1, 2, 3], [1, 2, 3, 4, 5]), rng, objs=C.OBJS5)
    ex = [e for e in ex if not (e["alg"] == "rnp" and e["p"]["k"] >= 6)]
    c.corr("exhaustive", ex, combos_of(["list"], [PT]), judge=judge)
    c.exhaustive_scopes.append(f"all multisets of 1..{c.n(4,5)} values from 0..{c.n(4,6)} x k in {c.n([1,2,3],[1,2,3,4,5])} for {algs}")
    cgs = []
    for ms in gen.multisets(range(0, c.n(4, 5)), c.n(4, 5)):
        for k in (1, 2, 3):
            for sw in C.SWITCHES:
                cgs.append({"alg": "cg", "vals": list(ms), "p": dict(sw, k=k, obj=rng.choice(C.OBJS3), cut=None)})
    c.corr("cg-all-switches", cgs, combos_of(["list"], [PT]), judge=judge)
    c.exhaustive_scopes.append(f"complete greedy: all multisets of 1..{c.n(4,5)} values from 0..{c.n(4,5)-1} x k in 1..3 x 16 switch combinations (objective drawn per case)")
    rnd = C.random_part_cases(rng, ["dp", "ckk", "snp", "rnp"], c.n(150, 1500), objs=C.OBJS5)
    rnd = [e for e in rnd if not (e["alg"] == "rnp" and e["p"]["k"] >= 6)]
    c.corr("random", rnd, combos, judge=judge)
    # dp on 7-8 items with 8-bit values and 3-4 bins, every objective, through a sums-only and a contents-keeping output: prunes that are sound
    # for one objective only (or for one manager only) lose the optimum on a few inputs in a thousand of this shape, on none of the smaller ones
    wide = [{"alg": "dp", "vals": [rng.randint(1, 255) for _ in range(rng.randint(7, 8))], "p": {"k": rng.choice([3, 3, 4]), "obj": rng.choice(["diff", "diff", "diff"] + C.OBJS5)}}
            for _ in range(c.n(600, 8000))]
    c.corr("dp-8-items-8-bit", wide, combos_of(["list"], ["Sums", PT]), judge=judge)
    c.corr("random-cg", C.random_part_cases(rng, ["cg"], c.n(600, 6000), objs=C.OBJS5), combos_of(["list"], [PT]), judge=judge)
    c.corr("random-ilp", C.random_part_cases(rng, ["ilp"], c.n(200, 2000), objs=C.OBJS5), combos_of(["list"], [PT]), judge=judge)
    # complete Karmarkar-Karp with 5 bins and small values: many coinciding partial sums (the combination enumerator's de-duplication matters)
    many = [{"alg": "ckk", "vals": [rng.randint(1, 4) for _ in range(rng.randint(6, 7))], "p": {"k": 5}} for _ in range(c.n(250, 2500))]
    c.corr("ckk-5-bins-small-values", many, combos_of(["list"], ["Sums", PT]), judge=judge)
    # the recursive searches with 4 bins (5 for short lists) on 7-9 items of small, often tied values: nested levels, pruning of candidate
    # bins by comparison with the bins fixed before (ties!), improvements of the incumbent by exactly 1
    four = []
    for _ in range(c.n(1500, 9000)):
        a = rng.choice(["snp", "snp", "rnp", "rnp", "ckk"])
        n = rng.randint(7, 9)
        hi = rng.choice([10, 16, 20, 40])
        four.append({"alg": a, "vals": [rng.randint(1, hi) for _ in range(n)], "p": {"k": 5 if (n == 7 and rng.random() < 0.3) else 4}})
    c.corr("four-bins-ties", four, combos_of(["list"], [PT]), judge=judge)
    # complete Karmarkar-Karp's search itself: for every heap the implementation pops, (number of bins-arrays in it, all their sums,
    # the lower bound computed for it) - recorded by wrapping _possible_partition_difference_lower_bound from outside - against the trace
    # of the model (ckkFT; CKKFTrace.ckkFT_fst: dropping the trace gives ckkF).  Both managers, list and named input.
    import importlib
    ckkm = importlib.import_module("prtpy.partitioning.complete_karmarkar_karp_sy")
    tcases = [e for e in rnd + four + many[: c.n(60, 600)] if e["alg"] == "ckk" and e["p"]["k"] >= 2 and e["vals"]][: c.n(260, 2600)]
    reqs, ctx = [], []
    for e in tcases:
        for fmt, ot in (("list", "Sums"), ("list", PT), ("dict_str", PT)):
            names = names_for(fmt, e["vals"], random.Random(sha([e["vals"], fmt])))
            ids = ids_for(fmt, e["vals"], names)
            line = "ckk_trace " + ALGS["ckk"].request(e, ids, contents=(ot == PT), outtype="Sums").split(" ", 1)[1]
            reqs.append(line); ctx.append((e, fmt, ot, names))
    answers = model_query(reqs)
    for (e, fmt, ot, names), line, ans in zip(ctx, reqs, answers):
        calls = []
        orig = ckkm._possible_partition_difference_lower_bound

        def rec(current_heap, numbins, calls=calls, orig=orig):
            lb = orig(current_heap, numbins)
            flat = sorted(num(x) for b in current_heap.iterator() for x in current_heap.binner.sums(b))
            calls.append([len(current_heap), flat, num(lb)])
            return lb

        def run(e=e, fmt=fmt, ot=ot, names=names):
            ckkm._possible_partition_difference_lower_bound = rec
            try:
                items, valueof = present(fmt, e["vals"], names)
                kw = {"valueof": valueof} if valueof is not None else {}
                return prtpy.partition(algorithm=ckkm.optimal, numbins=e["p"]["k"], items=items, outputtype=out.SortedSums, **kw) if ot == "Sums" else \
                    sorted(sum(e["vals"][names.index(x)] if fmt != "list" else x for x in b) for b in
                           prtpy.partition(algorithm=ckkm.optimal, numbins=e["p"]["k"], items=items, outputtype=out.Partition, **kw))
            finally:
                ckkm._possible_partition_difference_lower_bound = orig
        try:
            r = timed(run)
            got = r if isinstance(r, dict) else {"sums": [num(x) for x in r], "trace": calls}
        except Exception as ex:      # noqa
            got = {"error": exc_name(ex)}
        finally:
            ckkm._possible_partition_difference_lower_bound = orig
        c.evaluations += 1
        if isinstance(got, dict) and got.get("error") == "Timeout":
            c.call_timeouts += 1
            continue
        want = ans["result"] if (isinstance(ans.get("result"), dict) and "error" in ans["result"]) else {"sums": sorted(ans["result"]), "trace": ans["trace"]}
        c.corr_cases += 1
        c.stats["ckk-search-trace"]["cases"] += 1
        c.stats["ckk-search-trace"][f"{fmt}/{ot}"] += 1
        c.distinct.add(line)
        if len(want.get("trace", [])) >= 5:
            c.nontrivial.add(line)
        if got != want:
            c.disagreements.append({"stream": "ckk-search-trace", "alg": "ckk", "case": {"vals": e["vals"], "p": e["p"]}, "fmt": fmt, "outtype": ot,
                                    "impl": got, "model": want, "request": line})
        c.sample({"request": line, "impl": got, "model": want})
    # the recursive searches snp and rnp: the sequence of their calls of the two-way solvers (ckk_optimal(items), and for rnp
    # ckk_generator(items, bound)) with the values of the items passed, in order - recorded by wrapping the two module-level names from
    # outside - against the trace of the models snpT / rnpFT (SNPTraceProofs.snpT_fst, rnpFT_fst: dropping the trace gives snp / rnpF)
    smods = {"snp": importlib.import_module("prtpy.partitioning.sequential_number_partitioning_sy"),
             "rnp": importlib.import_module("prtpy.partitioning.recursive_number_partitioning_sy")}
    scases = [e for e in rnd + four if e["alg"] in ("snp", "rnp") and e["p"]["k"] <= 5 and e["vals"]][: c.n(400, 4000)]
    sreqs, sctx = [], []
    for e in scases:
        for fmt in ("list", "dict_str"):
            names = names_for(fmt, e["vals"], random.Random(sha([e["vals"], fmt])))
            ids = ids_for(fmt, e["vals"], names)
            sreqs.append(e["alg"] + "_trace " + ALGS[e["alg"]].request(e, ids, contents=True, outtype="Sums").split(" ", 1)[1])
            sctx.append((e, fmt, names))
    sanswers = model_query(sreqs)
    for (e, fmt, names), line, ans in zip(sctx, sreqs, sanswers):
        m = smods[e["alg"]]
        events = []
        o_opt, o_gen = m.ckk_optimal, getattr(m, "ckk_generator", None)

        def w_opt(*a, events=events, o_opt=o_opt, **kw):
            b, its = kw.get("binner", a[0] if a else None), kw.get("items", a[2] if len(a) > 2 else None)
            events.append(["optimal", [num(b.valueof(x)) for x in its]])
            return o_opt(*a, **kw)

        def w_gen(*a, events=events, o_gen=o_gen, **kw):
            b, its = kw.get("binner", a[0] if a else None), kw.get("items", a[2] if len(a) > 2 else None)
            events.append(["generator", [num(b.valueof(x)) for x in its], num(-kw.get("best_difference_so_far", 0))])
            return o_gen(*a, **kw)

        def run(e=e, fmt=fmt, names=names, m=m):
            m.ckk_optimal = w_opt
            if o_gen is not None:
                m.ckk_generator = w_gen
            try:
                items, valueof = present(fmt, e["vals"], names)
                kw = {"valueof": valueof} if valueof is not None else {}
                return prtpy.partition(algorithm=ALGS[e["alg"]].fn(), numbins=e["p"]["k"], items=items, outputtype=out.Sums, **kw)
            finally:
                m.ckk_optimal = o_opt
                if o_gen is not None:
                    m.ckk_generator = o_gen
        try:
            r = timed(run)
            got = r if isinstance(r, dict) else {"sums": [num(x) for x in r], "trace": events}
        except Exception as ex:      # noqa
            got = {"error": exc_name(ex)}
        finally:
            m.ckk_optimal = o_opt
            if o_gen is not None:
                m.ckk_generator = o_gen
        c.evaluations += 1
        if isinstance(got, dict) and got.get("error") == "Timeout":
            c.call_timeouts += 1
            continue
        want = ans["result"] if (isinstance(ans.get("result"), dict) and "error" in ans["result"]) else {"sums": ans["result"], "trace": ans["trace"]}
        c.corr_cases += 1
        c.stats["snp-rnp-search-trace"]["cases"] += 1
        c.stats["snp-rnp-search-trace"][f"{e['alg']}/{fmt}"] += 1
        c.stats["snp-rnp-search-trace"]["events:" + ("0" if not want.get("trace") else "1-9" if len(want["trace"]) < 10 else "10-99" if len(want["trace"]) < 100 else ">=100")] += 1
        c.distinct.add(line)
        if len(want.get("trace", [])) >= 3:
            c.nontrivial.add(line)
        if got != want:
            c.disagreements.append({"stream": "snp-rnp-search-trace", "alg": e["alg"], "case": {"vals": e["vals"], "p": e["p"]}, "fmt": fmt, "outtype": "Sums",
                                    "impl": got, "model": want, "request": line})
        c.sample({"request": line, "impl": got, "model": want})


# ------------------------------------------------------------------------------------------------ C04
def C04(c):
    """bin-completion uses the minimum possible number of bins"""
    rng = c.rng
    ots = [PT, "Sums", "BinCount"]
    memo = {}

    def judge(case, fmt, ot, got, names, ans):
        if any(v > case["p"]["B"] for v in case["vals"]):
            return []
        if J._is_err(got):
            return [(None, lambda a: ("exception:" + got["error"], "raised " + got["error"]))]
        count = len(got["sums"]) if ot == PT else (len(got) if ot == "Sums" else got)
        vals = [v for v in case["vals"] if v != 0]
        B = case["p"]["B"]
        res = [(f"opt_bins B={B} vals={f_nats(vals)}",
                lambda a: None if a == count else ("suboptimal", f"{count} bins used, the minimum is {a} (output type {ot})"))]
        # never more bins than FFD / BFD (a consequence of optimality, evaluated on the implementation)
        key = (B, tuple(case["vals"]))
        if key not in memo:
            memo[key] = [prtpy.pack(algorithm=ALGS[a].fn(), binsize=B, items=list(vals), outputtype=out.BinCount) for a in ("ffd", "bfd")] if vals else [0, 0]
        for nm, other in zip(("FFD", "BFD"), memo[key]):
            if vals and count > other:
                res.append((None, lambda a, nm=nm, other=other: ("more-than-heuristic", f"{count} bins used, {nm} uses {other}")))
        return res

    c.corr("corpus", corpus("C04"), combos_of(["list"], ots), judge=judge)
    ex = [e for e in C.exhaustive_pack_cases(["bin_completion"], c.n([6, 7], [6, 7, 12]), c.n(6, 7), all_orders_upto=0) if e["vals"]]
    c.corr("exhaustive", ex, combos_of(["list"], [PT]), judge=judge)
    c.exhaustive_scopes.append(f"all multisets of 1..{c.n(6,7)} values from 1..B, B in {c.n([6,7],[6,7,12])}")
    # the helpers of the search, called directly (their deviations show far more often than end-to-end)
    from prtpy.packing import bin_completion_utils as bcu
    tri, helper_cases = [], []
    for _ in range(c.n(1500, 15000)):
        B = rng.choice([10, 12, 15, 20, 30, 35])
        pool = [rng.randint(1, B) for _ in range(rng.randint(1, 4))]
        n = rng.randint(0, 9)
        items = sorted((rng.choice(pool) if rng.random() < 0.75 else rng.randint(1, B) for _ in range(n)), reverse=True)
        x = rng.randint(max(items + [1]), B) if items and max(items) <= B else rng.randint(1, B)
        def thunk(x=x, items=items, B=B):
            return [[num(v) for v in comp] for comp in bcu.find_bin_completions(x, list(items), B)]
        tri.append((f"completions x={x} items={f_nats(items)} B={B}", thunk, {"alg": "find_bin_completions", "vals": [x] + items, "B": B, "x": x}))
        helper_cases.append((x, items, B))
    for _ in range(c.n(600, 6000)):
        l1 = sorted((rng.randint(1, 9) for _ in range(rng.randint(0, 3))), reverse=True)
        l2 = sorted((rng.randint(1, 9) for _ in range(rng.randint(0, 4))), reverse=True)
        def thunk(l1=l1, l2=l2):
            return bool(bcu.is_dominant(list(l1), list(l2)))
        tri.append((f"is_dominant l1={f_nats(l1)} l2={f_nats(l2)}", thunk, {"alg": "is_dominant", "vals": l1 + l2, "l1": l1, "l2": l2}))
    def rl(maxlen=4, hi=9, dup=0.5):
        pool = [rng.randint(1, hi) for _ in range(rng.randint(1, 3))]
        return sorted((rng.choice(pool) if rng.random() < dup else rng.randint(1, hi) for _ in range(rng.randint(0, maxlen))), reverse=True)

    def fl(ls):
        return "|".join(f_nats(l) for l in ls) if ls else "~"
    for _ in range(c.n(800, 8000)):
        ls = [rl() for _ in range(rng.randint(0, 6))]
        if rng.random() < 0.5 and ls:
            ls.append(list(rng.choice(ls)))
        def t_u(ls=ls):
            return [[num(v) for v in l] for l in bcu.unique_list([list(l) for l in ls])]
        tri.append((f"uniq lists={fl(ls)}", t_u, {"alg": "unique_list", "vals": [v for l in ls for v in l], "lists": ls}))
        ne = [l for l in ls if l]
        def t_d(ne=ne):
            return [[num(v) for v in l] for l in bcu.check_for_dominance([list(l) for l in ne])]
        tri.append((f"check_dom lists={fl(ne)}", t_d, {"alg": "check_for_dominance", "vals": [v for l in ne for v in l], "lists": ne}))
        orig, rem = rl(8), rl(4)
        def t_l(orig=orig, rem=rem):
            return [num(v) for v in bcu.list_without_items(list(orig), list(rem))]
        tri.append((f"lwi orig={f_nats(orig)} rem={f_nats(rem)}", t_l, {"alg": "list_without_items", "vals": orig + rem}))
        B = rng.choice([10, 20, 30]); its = rl(8, B); cc = rng.randint(0, B); y = rng.randint(0, B // 2)
        def t_p(cc=cc, y=y, its=its, B=B):
            return [[num(v) for v in l] for l in bcu.find_undominated_pairs(cc, y, list(its), B)]
        tri.append((f"und_pairs c={cc} y={y} items={f_nats(its)} B={B}", t_p, {"alg": "find_undominated_pairs", "vals": its, "c": cc, "y": y, "B": B}))
        def t_b(its=its, B=B):
            return num(bcu.lower_bound(B, list(its)))
        tri.append((f"bc_lower_bound B={B} items={f_nats(its)}", t_b, {"alg": "lower_bound", "vals": its, "B": B}))
    before = len(c.disagreements)
    c.direct("search-helpers", tri, nontrivial=lambda label, ans: len(label["vals"]) >= 3)
    # failing-input search around every helper disagreement: the end-to-end call on the sub-problem it belongs to
    extra = []
    for d in c.disagreements[before:]:
        lab = d["case"]["p"]
        if lab.get("alg") == "find_bin_completions":
            extra.append({"alg": "bin_completion", "vals": lab["vals"], "p": {"B": lab["B"]}})
    rnd = [e for e in C.random_pack_cases(rng, ["bin_completion"], c.n(800, 8000), nmax=c.n(11, 13)) ] + extra[:200]
    for e in rnd:
        e["vals"] = [v for v in e["vals"] if v >= 1] or [1]
    c.corr("random", rnd, combos_of(["list"], ots), judge=judge)
    # named input (since fix F15 the search runs on the values and the names are put back: BC.binCompletionNamed)
    c.corr("random-named", rnd[: c.n(250, 2500)], combos_of(["dict_str", "dict_int", "names_valueof", "array_valueof"], ots), judge=judge)
    # the search itself, not only its answer: the sequence of find_bin_completions(x, items, binsize) calls the implementation makes
    # (recorded by wrapping the function from outside) against the trace of the model (BC.binCompletionT; BCTraceProofs.binCompletionT_fst:
    # the traced model computes the modelled packing).  A pruning rule or a search order that changes shows here on almost every input
    # on which the search is entered, long before it shows as a packing with too many bins.
    import importlib
    bcm = importlib.import_module("prtpy.packing.bin_completion")
    tcases = []
    for _ in range(c.n(300, 3000)):
        B, vals = gen.hard_bc_case(rng, Bs=(10, 12, 15, 20, 24, 30, 60), nmin=6, nmax=c.n(13, 15))
        tcases.append((B, [v for v in vals if v >= 1] or [1]))
    tcases += [(e["p"]["B"], e["vals"]) for e in rnd[: c.n(200, 2000)] if all(v <= e["p"]["B"] for v in e["vals"])]
    answers = model_query([f"bc_trace B={B} vals={f_nats(vals)}" for B, vals in tcases])
    before_t = len(c.disagreements)
    for (B, vals), ans in zip(tcases, answers):
        calls = []
        orig = bcm.find_bin_completions

        def rec(x, items, binsize, calls=calls, orig=orig):
            calls.append([num(x), [num(i) for i in items]])
            return orig(x, items, binsize)

        def run(B=B, vals=vals):
            bcm.find_bin_completions = rec
            try:
                return prtpy.pack(algorithm=bcm.bin_completion, binsize=B, items=list(vals), outputtype=out.Partition)
            finally:
                bcm.find_bin_completions = orig
        try:
            r = timed(run)
            got = r if isinstance(r, dict) else {"bins": sorted(sorted(num(v) for v in b) for b in r), "trace": calls}
        except Exception as e:      # noqa
            got = {"error": exc_name(e)}
        finally:
            bcm.find_bin_completions = orig
        c.evaluations += 1
        if isinstance(got, dict) and got.get("error") == "Timeout":
            c.call_timeouts += 1
            continue
        want = ans if "error" in ans else {"bins": sorted(sorted(b) for b in ans["bins"]), "trace": ans["trace"]}
        line = f"bc_trace B={B} vals={f_nats(vals)}"
        c.corr_cases += 1
        c.stats["search-trace"]["cases"] += 1
        c.stats["search-trace"]["calls:" + ("0" if not want.get("trace") else "1-5" if len(want["trace"]) <= 5 else "6-20" if len(want["trace"]) <= 20 else ">20")] += 1
        c.distinct.add(line)
        if len(want.get("trace", [])) >= 3:
            c.nontrivial.add(line)
        if got != want:
            c.disagreements.append({"stream": "search-trace", "alg": "bin_completion", "case": {"vals": vals, "p": {"B": B}}, "fmt": "list", "outtype": PT,
                                    "impl": got, "model": want, "request": line})
        c.sample({"request": line, "impl": got, "model": want})
    if len(c.disagreements) > before_t:
        # failing-input search: the search differs from the modelled one; look for an input on which the answer is wrong, among inputs on
        # which the search is entered and that are as long as the verified oracle allows
        more = []
        for _ in range(c.n(2500, 12000)):
            B, vals = gen.hard_bc_case(rng, Bs=(10, 12, 15, 20, 24, 30, 60), nmin=10, nmax=c.n(13, 14))
            more.append({"alg": "bin_completion", "vals": [v for v in vals if v >= 1] or [1], "p": {"B": B}})
        more += [{"alg": "bin_completion", "vals": d["case"]["vals"], "p": {"B": d["case"]["p"]["B"]}} for d in c.disagreements[before_t:][:300]]
        c.corr("search-after-trace-difference", more, combos_of(["list"], [PT]), judge=judge)


# ------------------------------------------------------------------------------------------------ C06
def sums_view(ot, sums):
    if not sums and ot in ("LargestSum", "SmallestSum", "ExtremeSums", "Difference"):
        return {"error": "ValueError"}
    return {"Sums": list(sums), "SortedSums": sorted(sums), "LargestSum": max(sums) if sums else None,
            "SmallestSum": min(sums) if sums else None, "ExtremeSums": [min(sums), max(sums)] if sums else None,
            "Difference": (max(sums) - min(sums)) if sums else None, "BinCount": len(sums)}[ot]


def all_algs_cases(c, rng, per_alg, with_exact=True):
    cs = C.random_part_cases(rng, C.HEURISTIC_PART + (["cg", "ckk", "snp", "rnp", "dp", "cbldm", "ilp"] if with_exact else []), per_alg, objs=C.OBJS5)
    cs = [e for e in cs if not (e["alg"] == "rnp" and e["p"]["k"] >= 6)]
    if with_exact:      # complete greedy: the three classical objectives x random switch combinations (heuristic 3 and the bounds only act there)
        for _ in range(max(24, 2 * per_alg)):
            n = rng.randint(3, 8)
            cs.append({"alg": "cg", "vals": gen.rand_vals(rng, n, rng.choice(["small", "mid", "dominant", "zeros", "dups"])),
                       "p": dict(rng.choice(C.SWITCHES), k=rng.choice([2, 2, 3, 4]), obj=rng.choice(C.OBJS3), cut=None)})
    if with_exact:      # the recursive searches on inputs where KK's first answer is usually not perfect (nested levels, prior bins kept across iterations)
        for _ in range(max(10, per_alg)):
            a = rng.choice(["snp", "rnp"])
            n = rng.randint(5, 9)
            cs.append({"alg": a, "vals": [rng.randint(1, 60) for _ in range(n)], "p": {"k": rng.choice([3, 4, 4, 5]) if n <= 7 else rng.choice([3, 4])}})
    if with_exact:      # complete Karmarkar-Karp with 5-6 bins on 6-7 small repeated values: many combinations with coinciding sums, where the
        # two managers' de-duplication of combinations (on sums / on contents) decides what is explored
        for _ in range(max(30, 2 * per_alg)):
            cs.append({"alg": "ckk", "vals": [rng.randint(1, rng.choice([4, 6, 10])) for _ in range(rng.randint(6, 7))], "p": {"k": rng.choice([5, 5, 6])}})
    if with_exact:      # ... and with 4 bins on 8-9 items: where, before fix F11, the two managers (and list / dict input) returned different sum vectors
        for _ in range(max(30, 2 * per_alg)):
            cs.append({"alg": "ckk", "vals": [rng.randint(1, rng.choice([5, 6, 8, 16])) for _ in range(rng.randint(8, 9))], "p": {"k": 4}})
    cs += C.random_pack_cases(rng, C.PACKERS + ["bin_completion"], per_alg)
    cs += C.random_cover_cases(rng, C.COVERS, per_alg)
    return cs


def C06(c):
    """reported sums and derived outputs always describe the returned bins"""
    rng = c.rng

    def judge(case, fmt, ot, got, names, ans):
        kind = ALGS[case["alg"]].kind
        if ot != PT or J._is_err(got) or J._is_none(got):
            return []
        if kind == "partition":
            return J.judge_partition(case, fmt, ot, got, names, ans, allow_fewer=True)
        if kind == "pack":
            return J.judge_packing(case, fmt, ot, got, names, ans, drop_zeros=(case["alg"] == "bin_completion"))
        return J.judge_cover(case, fmt, ot, got, names, ans)

    cs = corpus("C06") + all_algs_cases(c, rng, c.n(40, 500))
    c.corr("all-output-types", cs, combos_of(["list"], OUTTYPES), judge=judge)
    c.corr("all-output-types-dict", [e for e in cs if e["alg"] != "bin_completion"][: c.n(300, 3000)], combos_of(["dict_str"], OUTTYPES), judge=judge)
    # the statement itself, evaluated on the implementation: every sums-only output equals the function of the full output
    from engine import impl_map
    for fmt_ in ("list", "dict_str"):
        sel = cs if fmt_ == "list" else [e for e in cs if e["alg"] != "bin_completion"][: c.n(300, 3000)]
        tasks = [(case, fmt_, ot, names_for(fmt_, case["vals"], random.Random(sha([case["vals"], fmt_])))) for case in sel for ot in [PT] + SUMS_ONLY]
        res = iter(impl_map(tasks))
        for case in sel:
            full = next(res)
            rest = [next(res) for _ in SUMS_ONLY]
            if _is_timeout(full) or any(_is_timeout(r_) for r_ in rest):
                c.call_timeouts += 1        # a resource limit is never a verdict
                continue
            if J._is_err(full) or J._is_none(full) or not isinstance(full, dict) or "sums" not in full:
                continue
            for ot, got in zip(SUMS_ONLY, rest):
                want = sums_view(ot, full["sums"])
                c.check_direct(case["alg"], dict(case["p"], vals=case["vals"], alg=case["alg"], outtype=ot, fmt=fmt_), "output-mismatch",
                               got == want, got, f"{ot} computed from the full partition output: {want}")


# ------------------------------------------------------------------------------------------------ C07
def C07(c):
    """the answer does not depend on how the items are presented"""
    rng = c.rng

    full_sums = {}

    def judge(case, fmt, ot, got, names, ans):
        kind = ALGS[case["alg"]].kind
        if ot != PT:
            return []
        if J._is_none(got):
            return []
        if isinstance(got, dict) and "sums" in got:
            full_sums.setdefault(id(case), {"case": case})[fmt] = sorted(got["sums"])
        if kind == "partition":
            return J.judge_partition(case, fmt, ot, got, names, ans, allow_fewer=True)
        if kind == "pack":
            return J.judge_packing(case, fmt, ot, got, names, ans, drop_zeros=(case["alg"] == "bin_completion"))
        return J.judge_cover(case, fmt, ot, got, names, ans)

    cs = corpus("C07") + all_algs_cases(c, rng, c.n(30, 400))
    cs = [e for e in cs if not any(v > e["p"].get("B", 10 ** 9) for v in e["vals"])]
    c.corr("all-formats", cs, combos_of(FORMATS, [PT]), judge=judge)
    # the statement itself on the implementation: same multiset of sums in every format
    from engine import impl_map
    tasks = [(case, fmt, "SortedSums", names_for(fmt, case["vals"], random.Random(sha([case["vals"], fmt]))))
             for case in cs for fmt in FORMATS]
    res = iter(impl_map(tasks))
    for case in cs:
        ref = None
        for fmt in FORMATS:
            got = next(res)
            if fmt == "list":
                ref = got
                continue
            if _is_timeout(got) or _is_timeout(ref):
                c.call_timeouts += 1        # a resource limit is never a verdict (and never an agreement)
                continue
            if case["alg"] == "dp" and isinstance(got, list) and isinstance(ref, list):
                ok = obj_value(case["p"]["obj"], got) == obj_value(case["p"]["obj"], ref)   # any optimal record (DESIGN §3)
            else:
                ok = got == ref
            kind = "format-dependence" if not J._is_err(got) else "exception:" + got["error"]
            c.check_direct(case["alg"], dict(case["p"], vals=case["vals"], alg=case["alg"], fmt=fmt), kind, ok, got,
                           f"same multiset of sums as for list input: {ref}")
    # numpy arrays of an UNSIGNED integer type: the same values once more (before fix F13 ilp failed here - then known finding KF7 -; before fix F12 also dp with an
    # objective that negates a sum; every other algorithm must agree with list input as usual)
    ucases = [e for e in cs if ALGS[e["alg"]].kind == "partition" and e["alg"] != "cbldm" and e["p"].get("cut") is None and e["vals"]][: c.n(150, 1500)]
    ucases += [{"alg": a, "vals": v, "p": {"k": 2, "obj": o}} for a in ("dp", "ilp") for v in ([38, 38], [12, 6, 6, 1, 17, 3]) for o in ("maxmin", "ksmall:1", "minmax", "diff")]
    utasks = [(case, fmt, "SortedSums", names_for(fmt, case["vals"], random.Random(sha([case["vals"], fmt])))) for case in ucases for fmt in ("list", "uarray")]
    ures = iter(impl_map(utasks))
    for case in ucases:
        ref, got = next(ures), next(ures)
        if _is_timeout(got) or _is_timeout(ref):
            c.call_timeouts += 1
            continue
        if case["alg"] == "dp" and isinstance(got, list) and isinstance(ref, list):
            ok = obj_value(case["p"]["obj"], got) == obj_value(case["p"]["obj"], ref)
        else:
            ok = got == ref
        c.stats["unsigned-array"]["cases"] += 1
        kind = "format-dependence" if not J._is_err(got) else "exception:" + got["error"]
        c.check_direct(case["alg"], dict(case["p"], vals=case["vals"], alg=case["alg"], fmt="uarray"), kind, ok, got,
                       f"same multiset of sums as for list input: {ref}")
    # numpy arrays of a NARROW integer type, every algorithm (before fix F13 multifit, dp, cg, snp, rnp and bin_completion added the items' own
    # scalars and wrapped around, and ilp failed on the unsigned ones)
    narrow_stream(c, ["greedy", "roundrobin", "multifit", "kk", "ckk", "cg", "snp", "rnp", "dp", "ilp", "cbldm"] + C.PACKERS + ["bin_completion"] + C.COVERS,
                  c.n(6, 60))
    # ... and the same through the full output (the contents-keeping manager): the sums of the returned bins in every format
    for d in full_sums.values():
        case, ref = d["case"], d.get("list")
        if ref is None:
            continue
        for fmt in FORMATS:
            got = d.get(fmt)
            if fmt == "list" or got is None:
                continue
            if case["alg"] == "dp":
                ok = obj_value(case["p"]["obj"], got) == obj_value(case["p"]["obj"], ref)
            else:
                ok = got == ref
            c.check_direct(case["alg"], dict(case["p"], vals=case["vals"], alg=case["alg"], fmt=fmt, outtype=PT), "format-dependence", ok, got,
                           f"same multiset of sums of the returned bins as for list input: {ref}")


# ------------------------------------------------------------------------------------------------ C08
def C08(c):
    """partitioning heuristics meet their proven worst-case guarantees"""
    rng = c.rng
    from fractions import Fraction

    def judge(case, fmt, ot, got, names, ans):
        if ot != PT or J._is_err(got):
            return [] if ot != PT else [(None, lambda a: ("exception:" + got["error"], "raised"))]
        a, k, vals = case["alg"], case["p"]["k"], case["vals"]
        sums, bins = got["sums"], got["bins"]
        res = []
        big = max(vals)
        if a in ("greedy", "kk", "roundrobin") and max(sums) - min(sums) > big:
            res.append((None, lambda x: ("gap", f"largest - smallest sum = {max(sums)-min(sums)} exceeds the largest item {big}")))
        if a == "roundrobin":
            if any(sums[i] < sums[i + 1] for i in range(len(sums) - 1)):
                res.append((None, lambda x: ("rr-order", f"sums {sums} are not non-increasing in bin index")))
            ls = [len(b) for b in bins]
            if max(ls) - min(ls) > 1:
                res.append((None, lambda x: ("rr-cardinality", f"bin cardinalities {ls} differ by more than one")))
        small = len(vals) <= c.n(9, 11) and k <= 4 and sum(vals) <= 3000
        if k >= 2 and small and a in ("greedy", "kk", "multifit"):
            mx = max(sums)
            line = f"opt_partition obj=minmax k={k} vals={f_nats(vals)}"
            if a in ("greedy", "kk"):
                res.append((line, lambda opt: None if 3 * k * mx <= (4 * k - 1) * opt else
                            ("ratio", f"largest sum {mx} > (4/3 - 1/(3k)) * OPT = (4k-1)/(3k) * {opt}")))
            else:
                bound = Fraction(122, 100) + Fraction(1, 2 ** case["p"].get("it", 10))
                res.append((line, lambda opt: None if Fraction(mx) <= bound * opt else
                            ("ratio", f"multifit largest sum {mx} > (1.22 + 2^-it) * OPT, OPT = {opt}")))
            if a == "greedy":
                mn = min(sums)
                res.append((f"opt_partition obj=maxmin k={k} vals={f_nats(vals)}",
                            lambda negopt: None if (4 * k - 2) * mn >= (3 * k - 1) * (-negopt) else
                            ("ratio", f"greedy smallest sum {mn} < (3k-1)/(4k-2) * OPT_min, OPT_min = {-negopt}")))
        return res

    algs = ["greedy", "kk", "roundrobin", "multifit"]
    c.corr("corpus", corpus("C08"), combos_of(["list"], [PT]), judge=judge)
    ex = C.exhaustive_part_cases(algs, c.n(5, 6), c.n(4, 6), c.n([1, 2, 3], [1, 2, 3, 4]), rng)
    c.corr("exhaustive", ex, combos_of(["list"], [PT]), judge=judge)
    c.exhaustive_scopes.append(f"all multisets of 1..{c.n(5,6)} values from 0..{c.n(4,6)} x k in {c.n([1,2,3],[1,2,3,4])}")
    c.corr("random", C.random_part_cases(rng, algs, c.n(300, 4000), nmax=c.n(10, 12)), combos_of(["list"], [PT]), judge=judge)
    c.corr("random-named", C.random_part_cases(rng, algs, c.n(100, 1000), nmax=c.n(10, 12)), combos_of(["dict_str", "array_valueof", "array", "uarray"], [PT]), judge=judge_named(judge))
    # planted instances with known optimum (k full bins of equal sum T => OPT_max = OPT_min = T) and the LPT tight family
    planted = []
    for _ in range(c.n(60, 600)):
        k = rng.randint(2, 6)
        T = rng.randint(10, 200)
        vals = gen.planted_packing(rng, k, T, max_per_bin=rng.randint(1, 8))
        for a in ("greedy", "kk", "multifit", "roundrobin"):
            planted.append({"alg": a, "vals": vals, "p": ({"k": k, "it": 10} if a == "multifit" else {"k": k}), "opt": T})
    for k in range(2, c.n(6, 9)):       # Graham's tight family for LPT: 2k+1 items, values 2k-1, 2k-1, ..., k, k, k
        vals = [x for j in range(k) for x in (2 * k - 1 - j, 2 * k - 1 - j)][: 2 * k] + [k]
        vals = sorted([v for v in vals if v >= k] + [], reverse=True)
        vals = [2 * k - 1 - j // 2 for j in range(2 * k)] + [k]
        for a in ("greedy", "kk"):
            planted.append({"alg": a, "vals": vals, "p": {"k": k}, "opt": 3 * k})

    def judge_planted(case, fmt, ot, got, names, ans):
        if J._is_err(got):
            return [(None, lambda a: ("exception:" + got["error"], "raised"))]
        a, k, T = case["alg"], case["p"]["k"], case["opt"]
        mx, mn = max(got["sums"]), min(got["sums"])
        res = []
        if a in ("greedy", "kk") and 3 * k * mx > (4 * k - 1) * T:
            res.append((None, lambda x: ("ratio", f"largest sum {mx} > (4k-1)/(3k) * OPT, OPT = {T} (planted)")))
        if a == "greedy" and sum(case["vals"]) == k * T and (4 * k - 2) * mn < (3 * k - 1) * T:
            res.append((None, lambda x: ("ratio", f"smallest sum {mn} < (3k-1)/(4k-2) * OPT_min, OPT_min = {T} (planted)")))
        if a == "multifit" and Fraction(mx) > (Fraction(122, 100) + Fraction(1, 1024)) * T:
            res.append((None, lambda x: ("ratio", f"multifit largest sum {mx} > (1.22 + 2^-10) * {T} (planted)")))
        if a in ("greedy", "kk", "roundrobin") and mx - mn > max(case["vals"]):
            res.append((None, lambda x: ("gap", f"gap {mx-mn} exceeds the largest item")))
        return res

    c.corr("planted", planted, combos_of(["list"], [PT]), judge=judge_planted)


# ------------------------------------------------------------------------------------------------ C09
def anyfit_ok(B, got, vals_of):
    sums, bins = got["sums"], got["bins"]
    for j in range(len(bins)):
        if not bins[j]:
            return len(bins) == 1
        for i in range(j):
            if not sums[i] + vals_of(bins[j][0]) > B:
                return False
    return True


def C09(c):
    """fit heuristics keep the any-fit invariant and their bin-count bounds"""
    rng = c.rng

    def judge(case, fmt, ot, got, names, ans):
        B, vals, a = case["p"]["B"], case["vals"], case["alg"]
        if ot != PT or any(v > B for v in vals):
            return []
        if J._is_err(got):
            return [(None, lambda x: ("exception:" + got["error"], "raised"))]
        res = []
        if not anyfit_ok(B, got, lambda x: x):
            res.append((None, lambda x: ("any-fit", f"some bin's first item would have fitted an earlier bin: sums {got['sums']} bins {got['bins']}")))
        n = len(got["sums"])
        if vals and len(vals) <= c.n(9, 10) and sum(vals) > 0:
            line = f"opt_bins B={B} vals={f_nats(vals)}"
            if a in ("ff", "bf"):
                res.append((line, lambda opt: None if 10 * n <= 17 * opt else ("bound", f"{n} bins > floor(1.7 * OPT), OPT = {opt}")))
            elif a == "ffd":
                res.append((line, lambda opt: None if 9 * n <= 11 * opt + 6 else ("bound", f"{n} bins > 11/9 * OPT + 6/9, OPT = {opt}")))
            else:
                res.append((line, lambda opt: None if 9 * n <= 11 * opt + 36 else ("bound", f"{n} bins > 11/9 * OPT + 4, OPT = {opt}")))
        return res

    c.corr("corpus", corpus("C09"), combos_of(["list"], [PT]), judge=judge)
    ex = C.exhaustive_pack_cases(C.PACKERS, c.n([4, 6], [4, 6, 7]), c.n(4, 5), all_orders_upto=c.n(4, 5))
    c.corr("exhaustive", ex, combos_of(["list"], [PT]), judge=judge)
    c.exhaustive_scopes.append(f"every arrival order of every multiset of <= {c.n(4,5)} values from 1..B, B in {c.n([4,6],[4,6,7])}")
    c.corr("random", C.random_pack_cases(rng, C.PACKERS, c.n(400, 5000), nmax=c.n(10, 12)), combos_of(["list"], [PT]), judge=judge)
    c.corr("random-named", C.random_pack_cases(rng, C.PACKERS, c.n(150, 1500), nmax=c.n(10, 12)), combos_of(["dict_str", "array_valueof", "array", "uarray"], [PT]), judge=judge_named(judge))
    planted = []
    for _ in range(c.n(100, 1000)):
        B = rng.choice([10, 20, 100, 1000])
        m = rng.randint(2, 40)
        vals = gen.planted_packing(rng, m, B, max_per_bin=rng.randint(2, 6))
        for a in C.PACKERS:
            planted.append({"alg": a, "vals": vals, "p": {"B": B}, "opt": m})

    def judge_planted(case, fmt, ot, got, names, ans):
        if J._is_err(got):
            return [(None, lambda x: ("exception:" + got["error"], "raised"))]
        a, opt, n, B = case["alg"], case["opt"], len(got["sums"]), case["p"]["B"]
        res = []
        if not anyfit_ok(B, got, lambda x: x):
            res.append((None, lambda x: ("any-fit", "any-fit invariant broken on a planted instance")))
        bad = (a in ("ff", "bf") and 10 * n > 17 * opt) or (a == "ffd" and 9 * n > 11 * opt + 6) or (a == "bfd" and 9 * n > 11 * opt + 36)
        if bad:
            res.append((None, lambda x: ("bound", f"{a}: {n} bins on a planted instance with OPT = {opt}")))
        return res

    c.corr("planted", planted, combos_of(["list"], [PT]), judge=judge_planted)


# ------------------------------------------------------------------------------------------------ C10
def C10(c):
    """bin-covering heuristics meet their approximation guarantees"""
    rng = c.rng

    def bounds(a, n, opt):
        if n > opt:
            return ("more-than-opt", f"{n} bins reported, at most {opt} can be covered")
        if a == "cover_decreasing" and 2 * n < opt - 1:
            return ("bound", f"decreasing covers {n} < (OPT-1)/2, OPT = {opt}")
        if a == "twothirds" and 3 * n < 2 * (opt - 1):
            return ("bound", f"two-thirds covers {n} < 2/3*(OPT-1), OPT = {opt}")
        if a == "threequarters" and 4 * n < 3 * opt - 16:
            return ("bound", f"three-quarters covers {n} < 3/4*OPT - 4, OPT = {opt}")
        return None

    def judge(case, fmt, ot, got, names, ans):
        if ot != PT:
            return []
        if J._is_err(got):
            return [(None, lambda x: ("exception:" + got["error"], "raised"))]
        n = len(got["sums"])
        if len(case["vals"]) > c.n(11, 13):
            return []
        return [(f"opt_cover B={case['p']['B']} vals={f_nats(case['vals'])}", lambda opt: bounds(case["alg"], n, opt))]

    c.corr("corpus", corpus("C10"), combos_of(["list"], [PT]), judge=judge)
    ex = C.exhaustive_cover_cases(C.COVERS, c.n([6], [6, 12]), c.n(5, 6))
    c.corr("exhaustive", ex, combos_of(["list"], [PT]), judge=judge)
    c.exhaustive_scopes.append(f"all multisets of <= {c.n(5,6)} values from 1..B+2, B in {c.n([6],[6,12])}")
    c.corr("random", C.random_cover_cases(rng, C.COVERS, c.n(300, 3000), nmax=c.n(11, 13)), combos_of(["list"], [PT]), judge=judge)
    c.corr("random-named", C.random_cover_cases(rng, C.COVERS, c.n(150, 450), nmax=c.n(11, 13)), combos_of(["dict_str", "array_valueof", "array", "uarray"], [PT]), judge=judge_named(judge))
    narrow_stream(c, C.COVERS, c.n(25, 250))       # numpy arrays of 8- / 16-bit integers
    planted = []
    for _ in range(c.n(100, 1000)):
        B = rng.choice([12, 20, 100, 1000])
        m = rng.randint(2, 60)
        vals = gen.planted_packing(rng, m, B, max_per_bin=rng.randint(2, 7))
        for a in C.COVERS:
            planted.append({"alg": a, "vals": vals, "p": {"B": B}, "opt": m})
    # Csirik et al.'s bad family for the simple heuristics: B = 6m, m items of size 6m-... (big + tiny fillers)
    for m in range(2, c.n(8, 20)):
        B = 1000
        vals = [B - 6 * m] * 1 + [1] * (6 * m) + [499] * (6 * m)
        for a in C.COVERS:
            planted.append({"alg": a, "vals": vals, "p": {"B": B}, "opt": None})

    def judge_planted(case, fmt, ot, got, names, ans):
        if J._is_err(got):
            return [(None, lambda x: ("exception:" + got["error"], "raised"))]
        n = len(got["sums"])
        opt = case["opt"]
        if opt is None:
            opt_ub = sum(case["vals"]) // case["p"]["B"]      # OPT <= floor(total / B); the lower bounds on ALG use OPT <= this
            r = None if n <= opt_ub else ("more-than-opt", f"{n} bins > floor(total/B) = {opt_ub}")
            return [(None, lambda x: r)]
        return [(None, lambda x: bounds(case["alg"], n, opt))]

    c.corr("planted", planted, combos_of(["list"], [PT]), judge=judge_planted)


# ------------------------------------------------------------------------------------------------ C12
def C12(c):
    """balanced 2-way partitioning obeys the cardinality bound and is optimal under it"""
    rng = c.rng

    def judge(case, fmt, ot, got, names, ans):
        if ot != PT:
            return []
        res = J.judge_partition(case, fmt, ot, got, names, ans)
        if J._is_err(got) or J._is_none(got):
            return res
        d = case["p"].get("d")
        lens = [len(b) for b in got["bins"]]
        if len(lens) == 2 and d is not None and abs(lens[0] - lens[1]) > d:
            res.append((None, lambda a: ("cardinality", f"bin cardinalities {lens} differ by more than {d}")))
        diff = abs(got["sums"][0] - got["sums"][1]) if len(got["sums"]) == 2 else None
        res.append((f"opt_balanced d={'inf' if d is None else d} vals={f_nats(case['vals'])}",
                    lambda a: None if a == diff else ("suboptimal", f"sum difference {diff}, the optimum under the bound is {a}")))
        return res

    def mk(vals, d):
        return {"alg": "cbldm", "vals": list(vals), "p": {"k": 2, "d": d, "cut": None}}

    c.corr("corpus", corpus("C12"), combos_of(["list", "dict_str"], [PT]), judge=judge)
    ex = [mk(ms, d) for ms in gen.multisets(range(0, c.n(4, 5)), c.n(6, 7)) for d in (1, 2, 3, len(ms), None)]
    c.corr("exhaustive", ex, combos_of(["list"], [PT]), judge=judge)
    c.exhaustive_scopes.append(f"all multisets of 1..{c.n(6,7)} values from 0..{c.n(4,5)-1} x d in (1,2,3,n,unbounded)")
    rnd = [mk(gen.rand_vals(rng, rng.randint(1, c.n(12, 14))), rng.choice([1, 1, 2, 3, None, None, rng.randint(1, 14)])) for _ in range(c.n(600, 6000))]
    c.corr("random", rnd, combos_of(["list", "dict_str"], [PT]), judge=judge)
    # a binding cardinality bound on 7-9 items, in bulk: a search that prunes or memoises on the sums alone, forgetting the counts, loses
    # the constrained optimum on about one such input in a thousand
    tight = [mk([rng.choice([0, rng.randint(1, 30), rng.randint(1, 30), rng.randint(1, 9)]) for _ in range(rng.randint(7, 9))], rng.choice([1, 1, 2]))
             for _ in range(c.n(4000, 30000))]
    c.corr("binding-bound-7-9-items", tight, combos_of(["list"], [PT]), judge=judge)
    # item values that are not integers (exactly representable fractions): the search must not rely on integrality
    frac_part_corr(c, "cbldm-fractions", [mk([rng.randint(0, 40) for _ in range(rng.randint(2, 9))], rng.choice([1, 2, None, None])) for _ in range(c.n(300, 3000))])


# ------------------------------------------------------------------------------------------------ C20
def _seq_as(kind, sums):
    if kind == "uarray":
        return np.array(sums, dtype=np.uint64)
    return list(sums) if kind == "list" else (tuple(sums) if kind == "tuple" else np.array(sums, dtype=np.int64))


def C20(c):
    """built-in objectives compute their documented quantity on every sum vector"""
    rng = c.rng
    from fractions import Fraction
    from algs import objective_impl
    vecs = [list(v) for n in range(1, c.n(4, 5)) for v in itertools.product(range(0, c.n(5, 6)), repeat=n)]
    c.exhaustive_scopes.append(f"all sum vectors with 1..{c.n(3,4)} entries from 0..{c.n(4,5)} x every objective (k in 1..n+2) x list/tuple/array x both flag values where applicable")
    for _ in range(c.n(600, 6000)):
        n = rng.randint(1, 9)
        vecs.append(gen.rand_vals(rng, n))
    triples = []
    for sums in vecs:
        n = len(sums)
        objs = ["maxmin", "minmax", "diff"] + [f"ksmall:{k}" for k in range(1, n + 3)] + [f"klarge:{k}" for k in range(1, n + 3)]
        if len(sums) > 4:
            objs = ["maxmin", "minmax", "diff", f"ksmall:{rng.randint(1, n + 2)}", f"klarge:{rng.randint(1, n + 2)}"]
        is_sorted = all(sums[i] <= sums[i + 1] for i in range(n - 1))
        for o in objs:
            for flag in ([0, 1] if is_sorted else [0]):
                kind = rng.choice(["list", "tuple", "array", "uarray"])
                def thunk(o=o, sums=sums, flag=flag, kind=kind):
                    return num(objective_impl(o).value_to_minimize(_seq_as(kind, sums), are_sums_in_ascending_order=bool(flag)))
                triples.append((f"objvalue obj={o} sorted={flag} sums={f_nats(sums)}", thunk,
                                {"alg": "objective.value_to_minimize", "vals": sums, "obj": o, "sorted": flag, "seq": kind}))
    # sums at the edge of machine integers (a total of 2^63 or 2^64 and more while every single sum is below it): Python integers are
    # exact, so lists and tuples of them must give the exact documented value (arrays of such values are numpy's business and are not used)
    for _ in range(c.n(150, 1500)):
        n = rng.randint(2, 6)
        base = rng.choice([2 ** 61, 2 ** 62, 2 ** 62, 2 ** 63 - 8, 2 ** 63, 2 ** 64 - 8])
        sums = [rng.choice([base + rng.randint(0, 7), base + rng.randint(0, 7), rng.randint(0, 9)]) for _ in range(n)]
        is_sorted = all(sums[i] <= sums[i + 1] for i in range(n - 1))
        for o in ["maxmin", "minmax", "diff", f"ksmall:{rng.randint(2, n + 1)}", f"klarge:{rng.randint(2, n + 1)}"]:
            kind = rng.choice(["list", "tuple"])
            try:
                got = num(objective_impl(o).value_to_minimize(_seq_as(kind, sums)))
            except Exception as ex:     # noqa
                got = {"error": exc_name(ex)}
            c.check_direct("objective.value_to_minimize", {"vals": sums, "obj": o, "seq": kind}, "documented-quantity", got == obj_value(o, sums), got,
                           f"documented function of the sums: {obj_value(o, sums)}")
            for flag in ([0, 1] if is_sorted else [0]):
                kind = rng.choice(["list", "tuple"])
                def thunk(o=o, sums=sums, flag=flag, kind=kind):
                    return num(objective_impl(o).value_to_minimize(_seq_as(kind, sums), are_sums_in_ascending_order=bool(flag)))
                triples.append((f"objvalue obj={o} sorted={flag} sums={f_nats(sums)}", thunk,
                                {"alg": "objective.value_to_minimize", "vals": sums, "obj": o, "sorted": flag, "seq": kind}))
    c.direct("objective-values", triples, nontrivial=lambda label, ans: len(set(label["vals"])) >= 2)
    # ONE objective object evaluated on a sequence of vectors (as every algorithm does with the object it is given): vectors with fewer
    # bins than k first, longer ones afterwards - the value must not depend on what the object was asked before
    for _ in range(c.n(200, 2000)):
        k = rng.randint(1, 6)
        o = rng.choice([f"ksmall:{k}", f"klarge:{k}", "maxmin", "minmax", "diff"])
        ob = objective_impl(o)
        seq = [gen.rand_vals(rng, rng.randint(1, max(1, k - 1)), "small") for _ in range(rng.randint(1, 2))] + \
              [gen.rand_vals(rng, rng.randint(k, k + 4), "small") for _ in range(rng.randint(1, 3))]
        rng.shuffle(seq) if rng.random() < 0.3 else None
        hist = []
        for sums in seq:
            srt = rng.random() < 0.4
            v = sorted(sums) if srt else list(sums)
            try:
                got = num(ob.value_to_minimize(_seq_as(rng.choice(["list", "tuple", "array", "uarray"]), v), are_sums_in_ascending_order=srt))
            except Exception as ex:      # noqa
                got = {"error": exc_name(ex)}
            hist.append(v)
            c.check_direct("objective.value_to_minimize", {"vals": v, "obj": o, "sorted": int(srt), "earlier_calls_on_the_same_object": list(hist[:-1])},
                           "documented-quantity-after-earlier-calls", got == obj_value(o, sums), got, f"documented function of the sums: {obj_value(o, sums)}")
    # the documented quantity, computed independently, on the implementation's own answers
    for sums in vecs[: c.n(3000, 30000)]:
        n = len(sums)
        for o in ["maxmin", "minmax", "diff", f"ksmall:{rng.randint(1, n + 2)}", f"klarge:{rng.randint(1, n + 2)}"]:
            sh = list(sums); rng.shuffle(sh)
            try:
                got = num(objective_impl(o).value_to_minimize(_seq_as(rng.choice(["list", "tuple", "array", "uarray"]), sh)))
            except Exception as ex:      # noqa
                got = {"error": exc_name(ex)}
            want = obj_value(o, sums)
            c.check_direct("objective.value_to_minimize", {"vals": sh, "obj": o}, "documented-quantity", got == want, got,
                           f"documented function of the sums: {want}")
    # weighted objective: -min(s_i / w_i); compared as correctly rounded floats of the exact rational
    wt = []
    for _ in range(c.n(400, 4000)):
        n = rng.randint(1, 6)
        sums = [rng.randint(0, 60) for _ in range(n)]
        ws = [rng.choice([1, 2, 3, 4, 5, 7, 8, 10, Fraction(1, 2), Fraction(3, 4), Fraction(5, 8)]) for _ in range(n)]
        if rng.random() < 0.25:
            ws = [ws[0]] * n          # all weights equal (and usually different from 1)
        wline = "[" + ",".join(f"{Fraction(w).numerator}/{Fraction(w).denominator}" for w in ws) + "]"
        def thunk(sums=sums, ws=ws):
            r = obj.MaximizeSmallestWeightedSum([float(w) for w in ws]).value_to_minimize(list(sums))
            return float(r)
        wt.append((f"weighted weights={wline} sums={f_nats(sums)}", thunk, {"alg": "weighted", "vals": sums, "weights": [str(w) for w in ws]}))
    answers = model_query([t[0] for t in wt])
    for (line, thunk, label), ans in zip(wt, answers):
        if isinstance(ans, dict) and "bad" in ans:
            raise InfraError(f"driver rejected {line}")
        nume, den = ans.split("/")
        want = float(Fraction(int(nume), int(den)))
        got = thunk()
        c.evaluations += 1; c.corr_cases += 1
        c.stats["weighted"]["cases"] += 1
        c.distinct.add(line); c.nontrivial.add(line)
        if got != want:
            c.disagreements.append({"stream": "weighted", "alg": "weighted", "case": {"vals": label["vals"], "p": label}, "fmt": "direct",
                                    "outtype": "-", "impl": got, "model": want, "request": line})
        doc = float(-min(Fraction(sv) / Fraction(wv) for sv, wv in zip(label["vals"], label["weights"])))      # the documented quantity, computed independently
        c.check_direct("objective.weighted", label, "documented-quantity", got == doc, got, f"minus the smallest weight-normalised sum: {doc}")
    # the weighted objective refuses the sorted flag
    try:
        obj.MaximizeSmallestWeightedSum([1, 2]).value_to_minimize([1, 2], are_sums_in_ascending_order=True)
        ok = False
    except ValueError:
        ok = True
    except Exception:
        ok = False
    c.check_direct("weighted", {"vals": [1, 2], "weights": [1, 2], "sorted": 1}, "weighted-sorted-flag", ok, None, "ValueError")


# ------------------------------------------------------------------------------------------------ C13
def _compositions(total, k):
    if k == 1:
        yield (total,)
        return
    for x in range(total + 1):
        for rest in _compositions(total - x, k - 1):
            yield (x,) + rest


def C13(c):
    """search bounds are admissible and search enumerators are complete"""
    rng = c.rng
    from algs import objective_impl
    # ---- (a) lower bounds: correspondence, admissibility (brute force), independence of the sorted flag
    vecs = [list(v) for n in range(1, c.n(4, 5)) for v in itertools.combinations_with_replacement(range(0, c.n(6, 7)), n)]
    rems = list(range(0, c.n(7, 9)))
    c.exhaustive_scopes.append(f"bounds: all sorted sum vectors with 1..{c.n(3,4)} entries from 0..{c.n(5,6)} x remaining total 0..{c.n(6,8)} x 3 objectives")
    cases = [(v, r) for v in vecs for r in rems]
    for _ in range(c.n(300, 3000)):
        n = rng.randint(1, 6)
        cases.append((sorted(gen.rand_vals(rng, n, rng.choice(["tiny", "small", "mid", "zeros", "equal"]))), rng.randint(0, 60)))
    triples = []
    for sums, rem in cases:
        for o in C.OBJS3 + ([rng.choice(["ksmall:1", "ksmall:2", "ksmall:3", "klarge:1", "klarge:2", "klarge:3"])] if rng.random() < 0.3 else []):
            sh = list(sums); rng.shuffle(sh)
            for flag, vec in ((1, sums), (0, sh)):
                def thunk(o=o, vec=vec, rem=rem, flag=flag):
                    return num(objective_impl(o).lower_bound(list(vec), rem, are_sums_in_ascending_order=bool(flag)))
                triples.append((f"lb obj={o} sorted={flag} sums={f_nats(vec)} rem={rem}", thunk,
                                {"alg": "objective.lower_bound", "vals": list(vec), "obj": o, "rem": rem, "sorted": flag}))
    c.direct("lower-bounds", triples, nontrivial=lambda label, ans: label["rem"] > 0 and len(label["vals"]) >= 2)
    for sums, rem in cases:
        k = len(sums)
        small = k <= 4 and rem <= 10
        for o in C.OBJS3 + ["ksmall:1", "ksmall:2", "klarge:1", "klarge:2", "klarge:3", "weighted"]:
            if o == "weighted":
                ws = [rng.choice([1, 2, 3]) for _ in sums]
                impl_o = obj.MaximizeSmallestWeightedSum(ws)
                lbw = num(impl_o.lower_bound(list(sums), rem))
                if small:
                    from fractions import Fraction
                    bestw = min(-min(Fraction(s_ + a_, w_) for s_, a_, w_ in zip(sums, adds, ws)) for adds in _compositions(rem, k))
                    c.check_direct("objective.lower_bound", {"vals": list(sums), "obj": "weighted", "weights": ws, "rem": rem}, "inadmissible-bound",
                                   lbw == "-inf" or lbw <= bestw, lbw, f"a value not above {bestw}")
                continue
            impl_o = objective_impl(o)
            lb_sorted = num(impl_o.lower_bound(list(sums), rem, are_sums_in_ascending_order=True))
            sh = list(sums); rng.shuffle(sh)
            lb_unsorted = num(impl_o.lower_bound(sh, rem, are_sums_in_ascending_order=False))
            c.check_direct("objective.lower_bound", {"vals": sh, "obj": o, "rem": rem}, "sorted-flag-dependence", lb_sorted == lb_unsorted,
                           [lb_sorted, lb_unsorted], "the bound must not depend on whether the caller says the sums are sorted")
            # the same sums as a tuple / numpy array of signed or UNSIGNED integers (the documented extension point takes any sequence of sums)
            kind_ = rng.choice(["tuple", "array", "uarray", "uarray"])
            try:
                lb_alt = num(impl_o.lower_bound(_seq_as(kind_, sums), rem, are_sums_in_ascending_order=True))
            except Exception as ex:      # noqa
                lb_alt = {"error": exc_name(ex)}
            c.check_direct("objective.lower_bound", {"vals": list(sums), "obj": o, "rem": rem, "sums_given_as": kind_}, "presentation-dependence", lb_alt == lb_sorted,
                           lb_alt, f"the bound computed for the same sums as a list: {lb_sorted}")
            if small:
                best = min(obj_value(o, [s + a for s, a in zip(sums, adds)]) for adds in _compositions(rem, k))
                c.check_direct("objective.lower_bound", {"vals": list(sums), "obj": o, "rem": rem}, "inadmissible-bound", lb_sorted == "-inf" or lb_sorted <= best,
                               lb_sorted, f"a value not above {best}, the best objective reachable by distributing {rem}")
    # ---- (b) inclusion/exclusion enumerator
    from prtpy.inclusion_exclusion_tree import InExclusionBinTree
    tcases = []
    for ms in gen.multisets(range(0, c.n(4, 6)), c.n(5, 6), min_len=0):
        t = sum(ms)
        wins = {(0, t), (t // 2, t), (0, t // 2), (t // 3, (2 * t) // 3)} | {(rng.randint(0, t + 1), rng.randint(0, t + 2)) for _ in range(2)}
        for lb, ub in wins:
            tcases.append((list(ms), 1, lb, ub))
            if rng.random() < 0.3:
                tcases.append((list(ms), 2, 2 * lb + 1, 2 * ub + 1))      # half-integer window
    c.exhaustive_scopes.append(f"in/ex tree: all multisets of 0..{c.n(5,6)} values from 0..{c.n(3,5)} (arrival order shuffled) x integer and half-integer windows")
    for _ in range(c.n(200, 2000)):
        n = rng.randint(0, 9)
        vals = gen.rand_vals(rng, n) if n else []
        t = sum(vals)
        den = rng.choice([1, 1, 2, 3, 5])
        lb = rng.randint(0, t * den + 1); ub = rng.randint(lb // 2, t * den + 2)
        tcases.append((vals, den, lb, ub))
    triples = []
    for vals, den, lb, ub in tcases:
        vals = list(vals); rng.shuffle(vals)
        ids = list(range(len(vals)))
        def thunk(vals=vals, den=den, lb=lb, ub=ub):
            from fractions import Fraction
            names = list(range(len(vals)))
            t = InExclusionBinTree(names, vals.__getitem__, upper_bound=ub / den, lower_bound=lb / den)
            return [list(s) for s in t.generate_tree()]
        triples.append((f"gentree den={den} lb={lb} ub={ub} items={f_items(vals, ids)}", thunk,
                        {"alg": "InExclusionBinTree.generate_tree", "vals": vals, "den": den, "lb": lb, "ub": ub}))
    c.direct("inex-tree", triples, nontrivial=lambda label, ans: len(label["vals"]) >= 2 and isinstance(ans, list) and 0 < len(ans) < 2 ** len(label["vals"]))
    for line, thunk, label in triples:
        vals, den, lb, ub = label["vals"], label["den"], label["lb"], label["ub"]
        if len(vals) > 10:
            continue
        got = sorted(tuple(sorted(s)) for s in thunk())
        want = sorted(sub for r in range(len(vals) + 1) for sub in itertools.combinations(range(len(vals)), r)
                      if lb <= sum(vals[i] for i in sub) * den <= ub)
        c.check_direct("InExclusionBinTree.generate_tree", label, "enumerator-incomplete", got == want, got,
                       "every sub-collection (by position) whose total lies within the bounds exactly once and nothing else")
    # ---- (c) all_combinations of both managers
    from prtpy.binners import BinnerKeepingSums, BinnerKeepingContents
    pairs = []
    for k in range(1, c.n(4, 5)):
        for a in itertools.combinations_with_replacement(range(0, c.n(3, 4)), k):
            for b in itertools.combinations_with_replacement(range(0, c.n(3, 4)), k):
                pairs.append((list(a), list(b)))
    for a in itertools.combinations_with_replacement(range(0, 3), 5):        # 5 bins: the smallest size at which equal SETS of sums with different multiplicities occur
        for b in itertools.combinations_with_replacement(range(0, 3), 5):
            pairs.append((list(a), list(b)))
    c.exhaustive_scopes.append(f"all_combinations (sums manager): all pairs of sorted sum vectors with 1..{c.n(3,4)} bins, entries 0..{c.n(2,3)}, and with 5 bins, entries 0..2")
    for _ in range(c.n(100, 1000)):
        k = rng.randint(2, 5)
        pairs.append(([rng.randint(0, 9) for _ in range(k)], [rng.randint(0, 9) for _ in range(k)]))
    triples = []
    for a, b in pairs:
        def thunk(a=a, b=b):
            return [[num(x) for x in s] for s in BinnerKeepingSums().all_combinations(list(a), list(b))]
        triples.append((f"allcomb_sums a={f_nats(a)} b={f_nats(b)}", thunk, {"alg": "BinnerKeepingSums.all_combinations", "vals": a + b, "a": a, "b": b}))
    c.direct("allcomb-sums", triples, nontrivial=lambda label, ans: len(label["a"]) >= 2)
    for line, thunk, label in triples:
        a, b = label["a"], label["b"]
        got = [tuple(s) for s in thunk()]
        want = {tuple(sorted(a[p[i]] + b[i] for i in range(len(a)))) for p in itertools.permutations(range(len(a)))}
        c.check_direct("BinnerKeepingSums.all_combinations", label, "combinations", len(got) == len(set(got)) and set(got) == want, got,
                       "every distinct pairing (as sorted sums) exactly once")
    # contents manager: bins hold distinct item ids; values arbitrary
    ctr = []
    for _ in range(c.n(300, 3000)):
        k = rng.randint(1, c.n(4, 5))
        nid = itertools.count()
        def mk():
            lists = [[next(nid) for _ in range(rng.randint(0, 2))] for _ in range(k)]
            return lists
        l1, l2 = mk(), mk()
        nn = next(nid)
        vals = [rng.choice([0, 1, 1, 2, 3, 5]) for _ in range(nn)]
        perm = list(range(nn)); rng.shuffle(perm)          # shuffle ids so that name order is unrelated to position
        l1 = [[perm[i] for i in l] for l in l1]; l2 = [[perm[i] for i in l] for l in l2]
        val_of = {perm[i]: vals[i] for i in range(nn)}
        ctr.append((l1, l2, val_of))
    triples = []
    for l1, l2, val_of in ctr:
        s1 = [sum(val_of[i] for i in l) for l in l1]; s2 = [sum(val_of[i] for i in l) for l in l2]
        def fb(ls):
            return "|".join("[" + ",".join(f"{i}:{val_of[i]}" for i in l) + "]" for l in ls)
        def thunk(l1=l1, l2=l2, s1=s1, s2=s2, val_of=val_of):
            bk = BinnerKeepingContents(val_of.__getitem__)
            b1 = (np.array(s1, dtype=float), [list(l) for l in l1]); b2 = (np.array(s2, dtype=float), [list(l) for l in l2])
            return [{"sums": [num(x) for x in r[0]], "bins": [list(l) for l in r[1]]} for r in bk.all_combinations(b1, b2)]
        triples.append((f"allcomb_contents s1={f_nats(s1)} s2={f_nats(s2)} l1={fb(l1)} l2={fb(l2)}", thunk,
                        {"alg": "BinnerKeepingContents.all_combinations", "vals": s1 + s2, "l1": l1, "l2": l2, "values": {str(k_): v for k_, v in val_of.items()}}))
    c.direct("allcomb-contents", triples, nontrivial=lambda label, ans: len(label["l1"]) >= 2)
    # plain values as items (list input: name = value), with repeats: equal items are indistinguishable, multiplicities matter
    tv = []
    for _ in range(c.n(400, 4000)):
        k = rng.randint(2, c.n(4, 5))
        pool = [rng.randint(1, 6) for _ in range(rng.randint(1, 3))]
        l1 = [[rng.choice(pool) for _ in range(rng.randint(0, 3))] for _ in range(k)]
        l2 = [[rng.choice(pool) for _ in range(rng.randint(0, 3))] for _ in range(k)]
        l1.sort(key=sum); l2.sort(key=sum)
        s1 = [sum(l) for l in l1]; s2 = [sum(l) for l in l2]
        def fbv(ls):
            return "|".join("[" + ",".join(f"{x}:{x}" for x in l) + "]" for l in ls)
        def thunk(l1=l1, l2=l2, s1=s1, s2=s2):
            bk = BinnerKeepingContents()
            b1 = (np.array(s1, dtype=float), [list(l) for l in l1]); b2 = (np.array(s2, dtype=float), [list(l) for l in l2])
            return [{"sums": [num(x) for x in r[0]], "bins": [[num(x) for x in l] for l in r[1]]} for r in bk.all_combinations(b1, b2)]
        tv.append((f"allcomb_contents s1={f_nats(s1)} s2={f_nats(s2)} l1={fbv(l1)} l2={fbv(l2)}", thunk,
                   {"alg": "BinnerKeepingContents.all_combinations", "vals": s1 + s2, "l1": l1, "l2": l2}))
    c.direct("allcomb-contents-plain-values", tv, nontrivial=lambda label, ans: len(label["l1"]) >= 2)
    for line, thunk, label in tv:
        l1, l2 = label["l1"], label["l2"]
        k = len(l1)
        got = thunk()
        canon = [tuple(tuple(b) for b in r["bins"]) for r in got]
        want = {tuple(sorted(tuple(sorted(l1[p[i]] + l2[i])) for i in range(k))) for p in itertools.permutations(range(k))}
        # distinctness is judged on the manager's own canonical form (bins ordered by sum, contents sorted): DESIGN section 10
        ok = len(canon) == len(set(canon)) and {tuple(sorted(t)) for t in canon} == want
        c.check_direct("BinnerKeepingContents.all_combinations", label, "combinations", ok, got,
                       "every distinct pairing of the bins (as multisets of values per bin) exactly once")
    for line, thunk, label in triples:
        l1, l2 = label["l1"], label["l2"]
        k = len(l1)
        got = thunk()
        canon = [tuple(tuple(b) for b in r["bins"]) for r in got]
        want = {frozenset(tuple(sorted(l1[p[i]] + l2[i])) for i in range(k)) for p in itertools.permutations(range(k))} if all(l1[i] or l2[j] for i in range(k) for j in range(k)) else None
        ok = len(canon) == len(set(canon))
        for r in got:     # sums describe the bins, bins in non-decreasing sum order
            vo = {int(k_): v for k_, v in label["values"].items()}
            ok = ok and r["sums"] == [sum(vo[i] for i in b) for b in r["bins"]] and r["sums"] == sorted(r["sums"])
        if want is not None:
            ok = ok and {frozenset(t) for t in canon} == want
        c.check_direct("BinnerKeepingContents.all_combinations", label, "combinations", ok, got,
                       "every distinct pairing of the bins (by the manager's canonical form) exactly once, sums consistent and ascending")


# ------------------------------------------------------------------------------------------------ C11
def run_length(alg_key, case):
    """number of clock readings of an unlimited run under the counting clock = number of interruption points"""
    from algs import CountingClock, objective_impl
    import time as real_time
    vals, p = case["vals"], case["p"]
    clock = CountingClock()
    if alg_key == "cg":
        m = mod("prtpy.partitioning.complete_greedy")
        m.time = clock
        try:
            prtpy.partition(algorithm=prt.cg, numbins=p["k"], items=list(vals), outputtype=out.Sums, **ALGS["cg"].kwargs(dict(p, cut=None)))
        except Exception:      # noqa  (judged by the correspondence / certified evaluation of the unlimited run, not here)
            pass
        finally:
            m.time = real_time
    else:
        m = mod("prtpy.partitioning.cbldm")
        m.time = clock
        try:
            prtpy.partition(algorithm=prt.cbldm, numbins=2, items=list(vals), outputtype=out.Sums, **ALGS["cbldm"].kwargs(dict(p, cut=None)))
        except Exception:      # noqa
            pass
        finally:
            m.time = real_time
    return clock.t


def C11(c):
    """anytime algorithms are safe to interrupt and only ever improve"""
    rng = c.rng
    # ---------- complete greedy: every interruption point of every run in the scope
    base = []
    for ms in gen.multisets(range(0, 4), c.n(3, 4)):
        for k in (1, 2, 3):
            for sw in (C.SWITCHES if len(ms) <= 3 else rng.sample(C.SWITCHES, 4)):
                base.append({"alg": "cg", "vals": list(ms), "p": dict(sw, k=k, obj=rng.choice(C.OBJS5[:5]), cut=None)})
    c.exhaustive_scopes.append(f"complete greedy: all multisets of 1..{c.n(3,4)} values from 0..3 x k in 1..3 x switch combinations x EVERY cut 0..(length of the unlimited run)+1")
    for e in C.random_part_cases(rng, ["cg"], c.n(40, 400), objs=C.OBJS5[:5], nmax=c.n(6, 8)):
        e["p"]["k"] = min(e["p"]["k"], 4)
        base.append(e)
    # large, nearly tied values plus a few small ones: a nearly perfect partition is met before the perfect one, so a comparison
    # with the lower bound that is tolerant instead of exact (relative 1e-5 .. 1e-9) stops the search too early
    for _ in range(c.n(40, 300)):
        k = rng.choice([2, 2, 3])
        big = 10 ** rng.randint(5, 11)
        vals = [big + rng.randint(0, 6) for _ in range(rng.choice([k, k, 2 * k]))] + [rng.randint(1, 6) for _ in range(rng.randint(2, 4))]
        rng.shuffle(vals)
        base.append({"alg": "cg", "vals": vals, "p": dict(rng.choice(C.SWITCHES), k=k, obj=rng.choice(C.OBJS5[:3]), cut=None)})
    cut_cases, groups = [], []
    for e in base:
        L = run_length("cg", e)
        # every cut up to the first leaf (reached after n+1 <= 60 iterations) is always run, so "the first solution" is never a sampling artefact
        cuts = list(range(0, L + 2)) if L <= c.n(60, 400) else sorted(set(list(range(0, 61)) + rng.sample(range(0, L + 2), c.n(40, 200)) + [L, L + 1]))
        grp = []
        for cut in cuts:
            ce = {"alg": "cg", "vals": e["vals"], "p": dict(e["p"], cut=cut)}
            cut_cases.append(ce); grp.append(ce)
        ce = {"alg": "cg", "vals": e["vals"], "p": dict(e["p"], cut=None)}
        cut_cases.append(ce); grp.append(ce)
        groups.append(grp)
    results = {}

    def judge(case, fmt, ot, got, names, ans):
        results[id(case)] = got
        if J._is_err(got):
            return [(None, lambda a: ("exception:" + got["error"], "raised " + got["error"]))]
        return J.judge_partition(case, fmt, ot, got, names, ans, allow_none=case["p"].get("cut") is not None)

    c.corr("cg-every-cut", cut_cases, combos_of(["list"], [PT]), judge=judge)
    # the same for named items (names unrelated to the values): every cut of a sample of the runs
    named = [ce for grp in rng.sample(groups, min(len(groups), c.n(60, 400))) for ce in grp if len(grp[0]["vals"]) >= 3]
    saved = dict(results)
    c.corr("cg-every-cut-named", named, combos_of(["dict_str"], [PT]), judge=judge)
    named_results = {k_: v for k_, v in results.items()}
    results.clear(); results.update(saved)
    greedy_sums = {}
    for grp in groups:
        o = grp[0]["p"]["obj"]
        prev = None
        first_seen = False
        for ce in grp:
            got = results.get(id(ce))
            if got is None or J._is_err(got):
                continue
            label = dict(ce["p"], vals=ce["vals"], alg="cg")
            if J._is_none(got):
                c.check_direct("cg", label, "regressed-to-none", prev is None, got, "once a solution exists, a longer run must not return no-solution")
                continue
            v = obj_value(o, got["sums"])
            if prev is not None:
                c.check_direct("cg", label, "got-worse", v <= prev, got["sums"], f"objective value <= {prev} (value with a shorter limit)")
            prev = v if prev is None else min(prev, v)
            if not first_seen:
                first_seen = True
                key = (tuple(ce["vals"]), ce["p"]["k"])
                if key not in greedy_sums:
                    greedy_sums[key] = sorted(prtpy.partition(algorithm=prt.greedy, numbins=ce["p"]["k"], items=list(ce["vals"]), outputtype=out.Sums))
                lpt = [num(x) for x in greedy_sums[key]]
                same_value = obj_value(o, got["sums"]) == obj_value(o, lpt)
                kind = "first-solution-not-lpt" + (":same-objective-value" if same_value else "")
                c.check_direct("cg", label, kind, sorted(got["sums"]) == lpt, got["sums"],
                               f"the first solution has the greedy (LPT) sums {lpt}")
    # named runs: the first solution has the LPT sums too (it is the same search on the same values)
    seen_groups = set()
    for grp in groups:
        if not any(id(ce) in named_results for ce in grp):
            continue
        o = grp[0]["p"]["obj"]
        for ce in grp:
            got = named_results.get(id(ce))
            if got is None or J._is_err(got) or J._is_none(got):
                continue
            key = (tuple(ce["vals"]), ce["p"]["k"])
            lpt = [num(x) for x in greedy_sums.get(key) or sorted(prtpy.partition(algorithm=prt.greedy, numbins=ce["p"]["k"], items=list(ce["vals"]), outputtype=out.Sums))]
            same_value = obj_value(o, got["sums"]) == obj_value(o, lpt)
            c.check_direct("cg", dict(ce["p"], vals=ce["vals"], alg="cg", fmt="dict_str"), "first-solution-not-lpt" + (":same-objective-value" if same_value else ""),
                           sorted(got["sums"]) == sorted(lpt), got["sums"], f"the first solution (named input) has the greedy (LPT) sums {lpt}")
            break
    # no limit => optimal (verified oracle)
    jo = J.judge_optimal(lambda case: case["p"]["obj"])
    c.corr("cg-no-limit-optimal", [g[-1] for g in groups], combos_of(["list"], [PT]), judge=jo)

    # ---------- CBLDM: every interruption point
    cb = []
    for ms in gen.multisets(range(0, 4), c.n(5, 6)):
        for d in (1, 2, None):
            cb.append({"alg": "cbldm", "vals": list(ms), "p": {"k": 2, "d": d, "cut": None}})
    c.exhaustive_scopes.append(f"cbldm: all multisets of 1..{c.n(5,6)} values from 0..3 x d in (1,2,unbounded) x EVERY cut 1..(number of calls of part)+1")
    for _ in range(c.n(150, 800)):
        n = rng.randint(1, c.n(8, 11))
        cb.append({"alg": "cbldm", "vals": gen.rand_vals(rng, n, rng.choice(["tiny", "small", "small", "dominant", "dominant", "zeros", "mid"])),
                   "p": {"k": 2, "d": rng.choice([1, 1, 2, 3, None]), "cut": None}})
    cb_cases, cb_groups = [], []
    for e in cb:
        L = run_length("cbldm", e)
        cuts = list(range(1, L + 2)) if L <= c.n(60, 400) else sorted(set(rng.sample(range(1, L + 2), c.n(40, 200)) + [1, 2, L, L + 1]))
        grp = [{"alg": "cbldm", "vals": e["vals"], "p": dict(e["p"], cut=cut)} for cut in cuts] + [e]
        cb_cases += grp; cb_groups.append(grp)
    results.clear()

    def judge_cb(case, fmt, ot, got, names, ans):
        results[id(case)] = got
        if J._is_err(got):
            return [(None, lambda a: ("exception:" + got["error"], "raised " + got["error"]))]
        res = J.judge_partition(case, fmt, ot, got, names, ans, allow_none=case["p"].get("cut") is not None)
        d = case["p"].get("d")
        if not J._is_none(got) and d is not None and len(got["bins"]) == 2 and abs(len(got["bins"][0]) - len(got["bins"][1])) > d:
            res.append((None, lambda a: ("cardinality", f"bin cardinalities differ by more than {d}")))
        if case["p"].get("cut") is None and not J._is_none(got) and len(got["sums"]) == 2:       # no limit: optimal under the bound
            diff = abs(got["sums"][0] - got["sums"][1])
            res.append((f"opt_balanced d={'inf' if d is None else d} vals={f_nats(case['vals'])}",
                        lambda a: None if a == diff else ("suboptimal", f"no time limit: sum difference {diff}, the optimum under the bound is {a}")))
        return res

    c.corr("cbldm-every-cut", cb_cases, combos_of(["list"], [PT]), judge=judge_cb)
    # with no limit the result is optimal under the bound: a wider scope without the cuts
    nl = [{"alg": "cbldm", "vals": list(ms), "p": {"k": 2, "d": d, "cut": None}}
          for ms in gen.multisets(range(1, c.n(8, 9)), c.n(5, 6), min_len=3) for d in (1, 2)]
    c.corr("cbldm-no-limit-optimal", nl, combos_of(["list"], [PT]), judge=judge_cb)
    # ... and on item values that are not integers (exactly representable fractions): an early stop that is a lower bound for integers only
    frac_part_corr(c, "cbldm-fractions", [{"alg": "cbldm", "vals": [rng.randint(0, 40) for _ in range(rng.randint(2, 9))], "p": {"k": 2, "d": rng.choice([1, 2, None, None]), "cut": None}}
                                          for _ in range(c.n(300, 3000))])
    c.exhaustive_scopes.append(f"cbldm without limit: all multisets of 3..{c.n(5,6)} values from 1..{c.n(7,8)} x d in (1,2), certified against the verified balanced oracle")
    for grp in cb_groups:
        prev = None
        for ce in grp:
            got = results.get(id(ce))
            if got is None or J._is_err(got):
                continue
            label = dict(ce["p"], vals=ce["vals"], alg="cbldm")
            if J._is_none(got):
                c.check_direct("cbldm", label, "regressed-to-none", prev is None, got, "once a solution exists, a longer run must not return the placeholder")
                continue
            v = abs(got["sums"][0] - got["sums"][1])
            if prev is not None:
                c.check_direct("cbldm", label, "got-worse", v <= prev, got["sums"], f"sum difference <= {prev} (value with a shorter limit)")
            prev = v if prev is None else min(prev, v)

    # ---------- the CKK generator: whole yield sequence
    from prtpy.partitioning.complete_karmarkar_karp_sy import generator as ckk_generator
    gcases = []
    for ms in gen.multisets(range(0, 5), c.n(4, 5)):
        for k in (1, 2, 3):
            gcases.append((list(ms), k))
    c.exhaustive_scopes.append(f"ckk generator: all multisets of 1..{c.n(4,5)} values from 0..4 x k in 1..3, whole yield sequence")
    for _ in range(c.n(150, 1500)):
        n = rng.randint(1, 8)
        gcases.append((gen.rand_vals(rng, n), rng.choice([2, 2, 3, 3, 4]) if n <= 6 else rng.choice([2, 3])))
    triples = []
    for vals, k in gcases:
        ids = list(range(len(vals)))
        def thunk(vals=vals, k=k):
            bk = prtpy.BinnerKeepingContents(vals.__getitem__)
            return [{"sums": [num(x) for x in y[0]], "bins": [list(l) for l in y[1]]} for y in ckk_generator(bk, k, list(range(len(vals))))]
        triples.append((f"ckkgen k={k} contents=1 bound=inf items={f_items(vals, ids)}", thunk, {"alg": "ckk.generator", "vals": vals, "k": k}))
    c.direct("ckk-generator", triples, nontrivial=lambda label, ans: isinstance(ans, list) and len(ans) >= 2)
    pend = []
    for line, thunk, label in triples:
        vals, k = label["vals"], label["k"]
        try:
            ys = thunk()
        except Exception as e:      # noqa
            c.check_direct("ckk.generator", label, "exception:" + exc_name(e), False, None, "a sequence of partitions")
            continue
        diffs = [max(y["sums"]) - min(y["sums"]) for y in ys]
        c.check_direct("ckk.generator", label, "not-strictly-improving", all(diffs[i] > diffs[i + 1] for i in range(len(diffs) - 1)) and len(ys) >= 1,
                       diffs, "each yielded partition strictly better than the previous, at least one yielded")
        case = {"alg": "ckk.generator", "vals": vals, "p": {"k": k}}
        for y in ys:
            for ln, pred in J.judge_partition(case, "names_valueof", PT, y, list(range(len(vals))), None):
                pend.append((ln, pred, (case, "names_valueof", PT, y)))
        if ys and len(vals) <= 9:
            last = diffs[-1]
            pend.append((f"opt_partition obj=diff k={k} vals={f_nats(vals)}",
                         lambda a, last=last: None if a == last else ("last-not-optimal", f"the last yielded difference is {last}, the optimum {a}"),
                         (case, "names_valueof", PT, ys[-1])))
    c.run_pending(pend)


# ------------------------------------------------------------------------------------------------ C16
class OpSeq:
    """a disciplined operation sequence over a pool of bins-arrays (C16): tracks liveness and sizes like the spec does"""
    def __init__(self):
        self.ops = []          # tuples
        self.live = []         # per handle: number of bins, or None when handed over
        self.next_item = 0

    def clone(self):
        o = OpSeq(); o.ops = list(self.ops); o.live = list(self.live); o.next_item = self.next_item
        return o

    def live_ids(self):
        return [i for i, n in enumerate(self.live) if n is not None]

    def apply(self, op):
        k = op[0]
        if k == "new":
            self.live.append(op[1])
        elif k == "add":
            self.next_item += 1
        elif k == "copy":
            self.live.append(self.live[op[1]])
        elif k == "addempty":
            self.live.append(self.live[op[1]] + op[2]); self.live[op[1]] = None
        elif k == "remove":
            self.live.append(self.live[op[1]] - op[2]); self.live[op[1]] = None
        elif k == "concat":
            self.live.append(self.live[op[1]] + self.live[op[2]]); self.live[op[1]] = None; self.live[op[2]] = None
        self.ops.append(op)

    def choices(self, values=(0, 1, 3), news=(1, 2), small=True):
        """every disciplined next operation with small parameters"""
        res = [("new", k) for k in news]
        L = self.live_ids()
        for h in L:
            n = self.live[h]
            for i in (range(n) if not small else sorted({0, n - 1} & set(range(n)))):
                for val in values[: (2 if small else len(values))]:
                    res.append(("add", h, self.next_item, val, i))
            res.append(("copy", h)); res.append(("sort", h))
            for ne in ((1, 2) if small else (0, 1, 2, 3)):
                res.append(("addempty", h, ne))
            for r in sorted({0, 1, n} & set(range(0, n + 1))):
                res.append(("remove", h, r))
            for h2 in L:
                if h2 != h:
                    res.append(("concat", h, h2))
                    if n and self.live[h2]:
                        res.append(("combine", h, n - 1, h2, 0))
        return res

    def line(self):
        def f(op):
            k = op[0]
            if k == "add":
                return f"add:{op[1]},{op[2]}:{op[3]},{op[4]}"
            if k in ("new", "copy", "sort"):
                return f"{k}:{op[1]}"
            return k + ":" + ",".join(str(x) for x in op[1:])
        return ";".join(f(o) for o in self.ops) if self.ops else "~"


def run_ops_impl(ops, contents, scale=1):
    """run the operations on the real manager; returns the observation of EVERY array after every operation.
    `scale` (a power of two) multiplies every item value on the implementation's side and divides every observed sum again: float
    arithmetic on such values is exact, so the observations must not depend on it (a manager that rounds sums does)."""
    from prtpy.binners import BinnerKeepingSums, BinnerKeepingContents
    values = {}
    bk = (BinnerKeepingContents if contents else BinnerKeepingSums)(values.__getitem__)
    arrs, trace = [], []

    def observe(a):
        if contents:
            return {"sums": [num(x / scale) for x in a[0]], "bins": [list(l) for l in a[1]]}
        return {"sums": [num(x / scale) for x in a]}
    for op in ops:
        k = op[0]
        try:
            if k == "new":
                arrs.append(bk.new_bins(op[1]))
            elif k == "add":
                values[op[2]] = op[3] * scale
                bk.add_item_to_bin(arrs[op[1]], op[2], op[4])
            elif k == "copy":
                arrs.append(bk.copy_bins(arrs[op[1]]))
            elif k == "sort":
                bk.sort_by_ascending_sum(arrs[op[1]])
            elif k == "addempty":
                arrs.append(bk.add_empty_bins(arrs[op[1]], op[2]))
            elif k == "remove":
                arrs.append(bk.remove_bins(arrs[op[1]], op[2]))
            elif k == "concat":
                arrs.append(bk.concatenate_bins(arrs[op[1]], arrs[op[2]]))
            elif k == "combine":
                bk.combine_bins(arrs[op[1]], op[2], arrs[op[3]], op[4])
        except Exception as e:      # noqa
            trace.append({"error": exc_name(e)})
            break
        trace.append([observe(a) for a in arrs])
    return trace, values


def C16(c):
    """bins-manager operations keep sums and contents consistent, copies independent"""
    rng = c.rng
    seqs = []
    depth = c.n(3, 4)

    def dfs(sq, d):
        if sq.ops:
            seqs.append(sq)
        if d == 0:
            return
        for op in sq.choices():
            n = sq.clone(); n.apply(op)
            dfs(n, d - 1)
    root = OpSeq(); root.apply(("new", 2))
    dfs(root, depth)
    c.exhaustive_scopes.append(f"every disciplined operation sequence of length <= {depth + 1} starting with new_bins(2), with small parameters "
                               f"(new 1|2 bins, add value 0|1 to the first/last bin, copy, sort, add_empty 1, remove 0|1|all, concatenate, combine)")
    n_ex = len(seqs)
    for _ in range(c.n(400, 4000)):
        sq = OpSeq(); sq.apply(("new", rng.randint(1, 4)))
        for _ in range(rng.randint(3, c.n(25, 40))):
            ch = sq.choices(values=(0, 1, 2, 3, 5, 8), news=(0, 1, 2, 3), small=False)
            w = [(6 if o[0] == "add" else 3 if o[0] in ("sort", "copy") else 1) for o in ch]
            sq.apply(rng.choices(ch, weights=w)[0])
            if len(sq.live) > 12:
                break
        seqs.append(sq)
    lines = [sq.line() for sq in seqs]
    heap = model_query([f"heap ops={l}" for l in lines])
    pure = model_query([f"heap_pure ops={l}" for l in lines])
    for idx, (sq, hp, pu) in enumerate(zip(seqs, heap, pure)):
        stream = "exhaustive" if idx < n_ex else "random"
        if isinstance(pu, dict) and "undisciplined" in pu:
            raise InfraError(f"generator produced an undisciplined sequence: {sq.line()}")
        # item values are numbers, not only integers: some sequences run on values scaled by a power of two (exact in floats)
        scale = (1 if idx % 3 else 2.0 ** -40) if idx < n_ex else rng.choice([1, 1, 1, 2.0 ** -40, 2.0 ** -31, 2.0 ** -10, 2.0 ** 20])
        for contents in (True, False):
            tr, values = run_ops_impl(sq.ops, contents, scale)
            c.evaluations += 1; c.corr_cases += 1
            c.stats[stream]["cases"] += 1
            c.stats[stream]["value-scale:" + ("1" if scale == 1 else "2^%d" % round(__import__("math").log2(scale)))] += 1
            c.stats[stream]["ops"] += len(sq.ops)
            for o in sq.ops:
                c.stats[stream]["op:" + o[0]] += 1
            c.distinct.add((sq.line(), contents))
            if len({o[0] for o in sq.ops}) >= 3:
                c.nontrivial.add((sq.line(), contents))
            want = hp if contents else [([{"sums": a["sums"]} for a in st] if isinstance(st, list) else st) for st in hp]
            label = {"alg": "BinnerKeepingContents" if contents else "BinnerKeepingSums", "vals": [], "ops": sq.line(), "value_scale": scale}
            if tr != want:
                # first differing step
                j = next((i for i, (x, y) in enumerate(zip(tr, want)) if x != y), min(len(tr), len(want)))
                c.disagreements.append({"stream": stream, "alg": label["alg"], "case": {"vals": [], "p": label}, "fmt": "direct", "outtype": "-",
                                        "impl": tr[j] if j < len(tr) else None, "model": want[j] if j < len(want) else None,
                                        "request": f"heap ops={sq.line()} (first difference after operation {j}: {sq.ops[j] if j < len(sq.ops) else None})"})
            c.sample({"request": f"heap ops={sq.line()}", "manager": label["alg"], "impl_final": tr[-1] if tr else None, "model_final": want[-1] if want else None})
            # the property itself, on the implementation: every live array equals the specification's value and is consistent
            if tr and isinstance(tr[-1], list) and isinstance(pu, list):
                for h, (obs, spec) in enumerate(zip(tr[-1], pu)):
                    if spec is None:
                        continue
                    ok = obs["sums"] == spec["sums"] and (not contents or obs["bins"] == spec["bins"])
                    c.check_direct(label["alg"], dict(label, handle=h), "documented-effect", ok, obs, f"the value the documented operations give: {spec}")
                    if contents:
                        okc = obs["sums"] == [num(sum(values[i] for i in b) / scale) for b in obs["bins"]]
                        c.check_direct(label["alg"], dict(label, handle=h), "inconsistent-sums", okc, obs, "every bin's sum equals the total value of its recorded items")
            elif tr and not isinstance(tr[-1], list):
                c.check_direct(label["alg"], label, "exception:" + tr[-1]["error"], False, tr[-1], "no exception on a disciplined sequence")


# ------------------------------------------------------------------------------------------------ C14
def textbook(alg, vals, p):
    """direct transcriptions of the documented rules on plain lists of values -> bins (lists of values)"""
    if alg == "greedy":          # LPT: largest first, each to a bin of minimum sum
        bins = [[] for _ in range(p["k"])]
        for x in sorted(vals, reverse=True):
            min(bins, key=sum).append(x)
        return bins
    if alg == "roundrobin":      # cyclic dealing of the sorted items
        s = sorted(vals, reverse=True)
        return [s[i::p["k"]] for i in range(p["k"])]
    if alg in ("ff", "ffd", "bf", "bfd"):
        B = p["B"]
        seq = sorted(vals, reverse=True) if alg.endswith("d") else list(vals)
        bins = []
        for x in seq:
            fit = [b for b in bins if sum(b) + x <= B]
            if not fit:
                bins.append([x])
            elif alg.startswith("ff"):
                fit[0].append(x)
            else:
                max(fit, key=sum).append(x)       # a fullest bin that fits
        return bins if bins else [[]]
    B = p["B"]
    s = sorted(vals, reverse=True)
    if alg == "cover_decreasing":  # next-fit decreasing: close a bin as soon as it is covered; drop the unfinished one
        bins, cur = [], []
        for x in s:
            cur.append(x)
            if sum(cur) >= B:
                bins.append(cur); cur = []
        return bins
    if alg == "twothirds":        # open with the largest, fill with the smallest until covered
        bins = []
        while s:
            cur = [s.pop(0)]
            while s and sum(cur) < B:
                cur.append(s.pop())
            if sum(cur) >= B:
                bins.append(cur)
        return bins
    if alg == "threequarters":
        X = [x for x in s if 2 * x >= B]; Y = [x for x in s if 3 * x >= B and 2 * x < B]; Z = [x for x in s if 3 * x < B]
        bins = []

        def nfd(cur, seq):
            for x in seq:
                cur.append(x)
                if sum(cur) >= B:
                    bins.append(cur); cur = []
            return cur
        cur = []
        while True:
            if not Z:
                cur = nfd(nfd(cur, X), Y); break
            if not X and not Y:
                cur = nfd(cur, Z); break
            if sum(X[:1]) >= sum(Y[:2]):
                cur += X[:1]; X = X[1:]
            else:
                cur += Y[:2]; Y = Y[2:]
            while Z and sum(cur) < B:
                cur.append(Z.pop())
            if sum(cur) >= B:
                bins.append(cur); cur = []
        return bins
    raise ValueError(alg)


def C14(c):
    """simple heuristics compute exactly what their textbook definitions prescribe"""
    rng = c.rng
    NOFREEDOM = {"roundrobin", "ff", "ffd", "cover_decreasing", "twothirds", "threequarters"}

    def judge(case, fmt, ot, got, names, ans):
        a, vals, p = case["alg"], case["vals"], case["p"]
        if ot != PT:
            return []
        if a in C.PACKERS and any(v > p["B"] for v in vals):
            return []
        if J._is_err(got):
            return [(None, lambda x: ("exception:" + got["error"], "raised " + got["error"]))]
        tb = textbook(a, vals, p)
        res = []
        if sorted(got["sums"]) != sorted(sum(b) for b in tb):
            res.append((None, lambda x: ("textbook-sums", f"bin sums {sorted(got['sums'])} differ from the documented rule's {sorted(sum(b) for b in tb)}")))
        elif a in NOFREEDOM and sorted(sorted(b) for b in got["bins"]) != sorted(sorted(b) for b in tb):
            res.append((None, lambda x: ("textbook-bins", f"bins {got['bins']} differ (as multisets of values) from the documented rule's {tb}")))
        return res

    part = ["greedy", "roundrobin"]
    c.corr("corpus", corpus("C14"), combos_of(["list"], [PT]), judge=judge)
    ex = C.exhaustive_part_cases(part, c.n(5, 6), c.n(4, 5), c.n([1, 2, 3], [1, 2, 3, 4]), rng)
    c.corr("exhaustive-part", ex, combos_of(["list"], [PT]), judge=judge)
    exp = C.exhaustive_pack_cases(C.PACKERS, c.n([4, 6], [4, 6, 7]), c.n(4, 5), all_orders_upto=c.n(4, 5))
    c.corr("exhaustive-pack", exp, combos_of(["list"], [PT]), judge=judge)
    exc = C.exhaustive_cover_cases(C.COVERS, c.n([6, 7], [6, 7, 12]), c.n(5, 6))
    c.corr("exhaustive-cover", exc, combos_of(["list"], [PT]), judge=judge)
    c.exhaustive_scopes.append(f"greedy/round-robin: multisets of <= {c.n(5,6)} values 0..{c.n(4,5)}, k in {c.n([1,2,3],[1,2,3,4])}; fit heuristics: every arrival order of "
                               f"multisets of <= {c.n(4,5)} values 1..B, B in {c.n([4,6],[4,6,7])}; covers: multisets of <= {c.n(5,6)} values 1..B+2, B in {c.n([6,7],[6,7,12])} (thresholds B/2, B/3 hit exactly; odd B: floor(B/2) below the threshold)")
    named = C.random_part_cases(rng, part, c.n(60, 600), nmax=12) + C.random_pack_cases(rng, C.PACKERS, c.n(60, 600)) + C.random_cover_cases(rng, C.COVERS, c.n(60, 600))
    c.corr("random-named", named, combos_of(["dict_str", "array_valueof", "array", "uarray"], [PT]), judge=judge_named(judge))
    c.corr("random-part", C.random_part_cases(rng, part, c.n(300, 4000), nmax=30), combos_of(["list"], [PT]), judge=judge)
    narrow_stream(c, ["greedy", "roundrobin"] + C.PACKERS + C.COVERS, c.n(15, 150))     # numpy arrays of 8- / 16-bit integers
    c.corr("random-pack", C.random_pack_cases(rng, C.PACKERS, c.n(300, 4000), nmax=c.n(20, 40)), combos_of(["list"], [PT]), judge=judge)
    c.corr("random-cover", C.random_cover_cases(rng, C.COVERS, c.n(400, 5000), nmax=c.n(20, 40)), combos_of(["list"], [PT]), judge=judge)


# ------------------------------------------------------------------------------------------------ C17
class MipCapture:
    """records the constraint system handed to the MIP solver by wrapping mip.Model.optimize (no source change)"""
    def __init__(self):
        import mip
        self.mip = mip
        self.orig = mip.Model.optimize
        self.last = None
        self.preprocess_off = False
        self.force_status = None

    PARAMS = ("max_mip_gap_abs", "max_mip_gap", "integer_tol", "infeas_tol", "opt_tol", "max_nodes", "max_solutions", "cutoff", "emphasis",
              "preprocess", "cuts", "clique", "cut_passes", "threads", "max_seconds", "lp_method", "seed", "pump_passes", "sol_pool_size")

    def params_of(self, model):
        res = {}
        for nm in self.PARAMS:
            try:
                res[nm] = str(getattr(model, nm))
            except Exception:      # noqa
                res[nm] = "?"
        return res

    def default_params(self):
        if not hasattr(self, "_defaults"):
            self._defaults = self.params_of(self.mip.Model("defaults"))
        return self._defaults

    def __enter__(self):
        cap = self

        def wrapped(model, *a, **kw):
            rows = []
            for con in model.constrs:
                e = con.expr
                rows.append(({v.idx: float(cf) for v, cf in e.expr.items() if cf != 0}, e.sense, -float(e.const)))
            ob = model.objective
            cap.last = {"rows": rows, "objective": {v.idx: float(cf) for v, cf in ob.expr.items() if cf != 0}, "obj_const": float(ob.const),
                        "sense": model.sense, "nvars": len(model.vars), "integer": all(v.var_type == "I" for v in model.vars),
                        "params": cap.params_of(model)}
            if cap.preprocess_off:
                model.preprocess = 0        # (after the parameters were recorded above)
            st = cap.orig(model, *a, **kw)
            cap.last["status"] = str(st)
            if cap.force_status is not None and st == cap.mip.OptimizationStatus.OPTIMAL:
                return cap.force_status      # fault injection at the solver boundary: "a solution, but optimality not proved"
            return st
        self.mip.Model.optimize = wrapped
        return self

    def __exit__(self, *exc):
        self.mip.Model.optimize = self.orig


def _frac(s_):
    from fractions import Fraction
    n, d = s_.split("/")
    return Fraction(int(n), int(d))


def ilp_spec_line(sp):
    cons = ",".join(f"{kind}:{cc}" for kind, cc in sp["cons"]) or "~"
    return (f"k={sp['k']} vals={f_nats(sp['vals'])} copies={f_nats(sp['copies'])} weights={f_nats(sp['weights'])} "
            f"obj={sp['obj']} cons={cons}")


def ilp_call(sp, cap, names):
    """the real call; returns (canonical answer, captured model)"""
    from algs import objective_impl
    items = list(sp["vals"]) if sp.get("fmt") == "list" else {nm: v for nm, v in zip(names, sp["vals"])}
    kw = {"objective": objective_impl(sp["obj"])}
    if sp["copies_arg"] is not None:
        kw["copies"] = sp["copies_arg"]
    if sp["weights_arg"] is not None:
        kw["weights"] = sp["weights_arg"]
    if sp["cons"]:
        def extra(sums, cons=sp["cons"]):
            res = []
            for kind, cc in cons:
                res.append(sums[0] == cc if kind == "seq" else (sums[-1] <= cc if kind == "lle" else sums[0] >= cc))
            return res
        kw["additional_constraints"] = extra
    cap.last = None
    try:
        r = prtpy.partition(algorithm=prt.ilp, numbins=sp["k"], items=items, outputtype=out.PartitionAndSumsTuple, **kw)
        got = {"sums": [num(x) for x in r[0]], "bins": [list(b) for b in r[1]]}
    except Exception as e:      # noqa
        got = {"error": exc_name(e)}
    return got, cap.last


def C17(c):
    """ILP options (copies, weights, constraints) are honoured; sums come out ascending"""
    rng = c.rng
    from fractions import Fraction
    specs = []

    def mk(k, vals, copies_arg, weights_arg, obj_, cons, fmt="dict"):
        n = len(vals)
        copies = [copies_arg] * n if isinstance(copies_arg, int) else (list(copies_arg) if copies_arg is not None else [1] * n)
        weights = list(weights_arg) if weights_arg is not None else [1] * k
        return {"k": k, "vals": list(vals), "copies": copies, "weights": weights, "obj": obj_, "cons": cons,
                "copies_arg": copies_arg, "weights_arg": weights_arg, "fmt": fmt}

    for sp in corpus("C17"):
        specs.append(mk(sp["k"], sp["vals"], sp.get("copies_arg"), sp.get("weights_arg"), sp["obj"], [tuple(x) for x in sp.get("cons", [])], sp.get("fmt", "dict")))
    for _ in range(c.n(400, 3000)):
        k = rng.choice([1, 2, 2, 3, 3, 4])
        n = rng.randint(1, 5 if k <= 3 else 4)
        vals = [rng.choice([rng.randint(0, 9), rng.randint(1, 30), rng.randint(1, 200)]) for _ in range(n)]
        fmt = "list" if rng.random() < 0.35 else "dict"      # plain list of values: the items ARE the values, ties included
        if fmt == "list" and n >= 2 and rng.random() < 0.6:
            vals[rng.randrange(1, n)] = vals[0]
        r = rng.random()
        copies_arg = None if r < 0.45 else (rng.choice([1, 2, 2]) if r < 0.7 else [rng.choice([0, 1, 1, 2]) for _ in range(n)])
        r = rng.random()
        weights_arg = None if r < 0.35 else ([rng.choice([2, 3, 5, 7])] * k if r < 0.55 else [rng.choice([1, 2, 3, 4, 5, 7, 10]) for _ in range(k)])
        o = rng.choice(C.OBJS5)
        cons = []
        if rng.random() < 0.4:
            total = sum(v * cp for v, cp in zip(vals, [copies_arg] * n if isinstance(copies_arg, int) else (copies_arg or [1] * n)))
            guess = rng.choice([0, total // max(k, 1), total // (2 * max(k, 1)), rng.randint(0, total + 1), total, vals[0]])
            cons = [(rng.choice(["seq", "lle", "sge"]), int(guess))]
        specs.append(mk(k, vals, copies_arg, weights_arg, o, cons, fmt))
    lines = [ilp_spec_line(sp) for sp in specs]
    rows_m = model_query(["ilp_rows " + l for l in lines])
    opts_m = model_query(["ilp_opt " + l for l in lines])
    point_reqs, ctx = [], []
    with MipCapture() as cap:
        for sp, line, rm, om in zip(specs, lines, rows_m, opts_m):
            n, k = len(sp["vals"]), sp["k"]
            names = list(sp["vals"]) if sp["fmt"] == "list" else [f"i{j}" for j in range(n)]
            label = dict({kk_: sp[kk_] for kk_ in ("k", "vals", "obj", "cons", "copies_arg", "weights_arg", "fmt")}, alg="ilp", request="ilp_opt " + line)
            cap.preprocess_off = False
            got, model = ilp_call(sp, cap, names)
            c.evaluations += 1; c.corr_cases += 1
            c.stats["ilp"]["cases"] += 1
            c.stats["ilp"][f"k={k}"] += 1
            c.stats["ilp"]["copies:" + ("default" if sp["copies_arg"] is None else "scalar" if isinstance(sp["copies_arg"], int) else "per-item")] += 1
            c.stats["ilp"]["weights:" + ("none" if sp["weights_arg"] is None else "equal" if len(set(sp["weights"])) == 1 else "unequal")] += 1
            c.stats["ilp"]["cons:" + (sp["cons"][0][0] if sp["cons"] else "none")] += 1
            c.stats["ilp"]["items:" + sp["fmt"] + ("-with-ties" if sp["fmt"] == "list" and len(set(sp["vals"])) < n else "")] += 1
            c.distinct.add(line)
            if n >= 2 and k >= 2:
                c.nontrivial.add(line)
            # (1) correspondence of the formulation handed to the solver with the Lean formulation
            if model is not None:
                def close(a, b):
                    return abs(a - b) <= 1e-9 * max(1.0, abs(a), abs(b))
                want_rows = rm["rows"]
                okf = len(model["rows"]) == len(want_rows) and model["nvars"] == n * k and model["integer"] and model["sense"] == "MIN"
                if okf:
                    for (coefs, sense, rhs), wr in zip(model["rows"], want_rows):
                        wc = [float(_frac(x)) for x in wr["coeffs"]]
                        if sense != wr["sense"] or not close(rhs, float(_frac(wr["rhs"]))) or \
                                any(not close(coefs.get(j, 0.0), wc[j]) for j in range(n * k)):
                            okf = False
                            break
                    wo = [float(_frac(x)) for x in rm["objective"]]
                    if any(not close(model["objective"].get(j, 0.0), wo[j]) for j in range(n * k)) or not close(model["obj_const"], 0.0):
                        okf = False
                want_params = dict(cap.default_params(), preprocess="0")
                if model["params"] != want_params:
                    # the model assumes the solver is asked for a proven optimum: tolerances / limits must be the solver's defaults, and CBC's
                    # preprocessing must be off (fix F14: with it CBC returns wrong "optimal" answers on general-integer models)
                    c.disagreements.append({"stream": "ilp-solver-parameters", "alg": "ilp", "case": {"vals": sp["vals"], "p": label}, "fmt": "dict_str", "outtype": PT,
                                            "impl": model["params"], "model": want_params, "request": "solver parameters for ilp_rows " + line})
                if not okf:
                    c.disagreements.append({"stream": "ilp-formulation", "alg": "ilp", "case": {"vals": sp["vals"], "p": label}, "fmt": "dict_str", "outtype": PT,
                                            "impl": {"rows": [[r_[0], r_[1], r_[2]] for r_ in model["rows"]], "objective": model["objective"]},
                                            "model": rm, "request": "ilp_rows " + line})
            c.sample({"request": "ilp_opt " + line, "impl": got, "model_optimum": om})
            ctx.append((sp, line, label, got, om, names))
        # (2) certified evaluation of the answers against the brute-force optimum of the formulation
        def point_of(sp, got, names):
            if sp.get("fmt") == "list":
                # the items are their values: equal values are indistinguishable in the answer, so the copies of a value found in each
                # bin are attributed to the positions holding that value in order, each up to its requested number (the rest to the last)
                left = {}
                for b in got["bins"]:
                    for x in b:
                        left.setdefault(x, [0] * len(got["bins"]))
                for x in left:
                    left[x] = [b.count(x) for b in got["bins"]]
                rows = []
                for i, v in enumerate(sp["vals"]):
                    last = v not in sp["vals"][i + 1:]
                    have = left.get(v, [0] * len(got["bins"]))
                    row, need = [], sp["copies"][i]
                    for bi, cnt in enumerate(have):
                        take = cnt if last else min(cnt, need)
                        row.append(take); need -= min(take, need); have[bi] -= take
                    rows.append(row)
                stray = [x for x in left if x not in sp["vals"]]
                if stray:
                    rows[0] = [r_ + 1 for r_ in rows[0]] if rows else rows
                return "|".join("[" + ",".join(str(t) for t in row) + "]" for row in rows) if rows else "~"
            return "|".join("[" + ",".join(str(b.count(nm)) for b in got["bins"]) + "]" for nm in names) if names else "~"
        for sp, line, label, got, om, names in ctx:
            if not J._is_err(got) and len(got["bins"]) == sp["k"]:
                point_reqs.append(f"ilp_point {line} counts={point_of(sp, got, names)}")
            else:
                point_reqs.append(None)
        answers = iter(model_query([r for r in point_reqs if r]))
        for (sp, line, label, got, om, names), pr in zip(ctx, point_reqs):
            infeasible = isinstance(om, dict) and "none" in om
            verdict = None
            if pr is None:
                if J._is_err(got):
                    if got["error"] == "ValueError" and infeasible:
                        verdict = None
                    elif got["error"] == "ValueError":
                        verdict = ("refused-feasible", f"ValueError although the optimum {om} exists")
                    else:
                        verdict = ("exception:" + got["error"], "raised " + got["error"])
                else:
                    verdict = ("bin-count", f"{len(got['bins'])} bins returned, {sp['k']} requested")
            else:
                pa = next(answers)
                if infeasible:
                    verdict = ("answered-infeasible", "a partition was returned although no partition satisfies the constraints")
                elif not pa["feasible"]:
                    verdict = ("infeasible-answer", "the returned partition violates the copies / ascending weighted sums / caller constraints")
                elif _frac(pa["docvalue"]) != _frac(om):
                    verdict = ("suboptimal", f"objective {pa['docvalue']} but the optimum of the formulation is {om}")
                elif len(set(sp["weights"])) == 1 and got["sums"] != sorted(got["sums"]):
                    verdict = ("not-ascending", f"sums {got['sums']} are not in non-decreasing order")
                elif got["sums"] != [sum((x if sp["fmt"] == "list" else sp["vals"][names.index(x)]) for x in b) for b in got["bins"]]:
                    verdict = ("inconsistent-sums", "reported sums differ from the bins")
            c.stats["certified"]["evaluations"] += 1
            # (no allowance for solver faults any more: since fix F14 the library itself runs CBC without its faulty preprocessing, and a wrong
            #  answer - infeasible, or not the optimum of the formulation - is a failure of the property whatever component produced it)
            if verdict:
                c.fail("ilp", {"alg": "ilp", "vals": sp["vals"], "p": label}, "list" if sp["fmt"] == "list" else "dict_str", PT, verdict[0], got, verdict[1])
        # (3) equal weights never change the result (optimal objective value of the raw sums)
        for sp, line, label, got, om, names in ctx[: c.n(80, 600)]:
            if sp["weights_arg"] is not None or sp["cons"]:
                continue
            w = rng.choice([2, 3, 7])
            sp2 = dict(sp, weights_arg=[w] * sp["k"], weights=[w] * sp["k"])
            got2, _ = ilp_call(sp2, cap, names)
            want = _frac(om) if not (isinstance(om, dict)) else None      # the verified optimum for unit weights
            def good(g):
                return (not J._is_err(g)) and want is not None and obj_value(sp["obj"], g["sums"]) == want and g["sums"] == sorted(g["sums"])
            ok = good(got2)
            if want is None:
                ok = J._is_err(got2) and got2["error"] == "ValueError"
            c.check_direct("ilp", dict(label, weights_arg=[w] * sp["k"]), "equal-weights-change-result", ok, got2,
                           f"the same optimal value as without weights ({om}), sums ascending")
    # (4) the solver does not prove optimality (time limit hit with a solution in hand, ...): an error, never a partition
    with MipCapture() as capf:
        for sp, line, label, got, om, names in ctx[: c.n(40, 300)]:
            for st in (capf.mip.OptimizationStatus.FEASIBLE, capf.mip.OptimizationStatus.NO_SOLUTION_FOUND):
                capf.force_status = st
                gotf, _ = ilp_call(sp, capf, names)
                c.check_direct("ilp", dict(label, solver_status=str(st)), "unproven-optimality-accepted", J._is_err(gotf) and gotf["error"] == "ValueError", gotf,
                               f"ValueError when the solver's status is {st} (optimality not proved)")
        capf.force_status = None
    c.assumptions.append("CBC / python-mip returns an optimal feasible point of the model it is given or a non-OPTIMAL status; certified per run against the "
                         "brute-force optimum of the Lean formulation (no allowance: a wrong OPTIMAL answer is a failure; before fix F14 CBC's preprocessing produced them on 1-2 % of the calls with copies other than 1)")


# ------------------------------------------------------------------------------------------------ C19
def C19(c):
    """unsatisfiable or malformed requests are refused with an error, never answered"""
    rng = c.rng
    packers = C.PACKERS + ["bin_completion"]
    formats = ["list", "dict_str", "names_valueof"] if c.quick() else FORMATS

    def judge(case, fmt, ot, got, names, ans):
        B = case["p"]["B"]
        if any(v > B for v in case["vals"]):
            ok = J._is_err(got) and got["error"] == "ValueError"
            return [(None, lambda a: None if ok else ("oversize-accepted", f"an item exceeds the bin size {B} but the call returned {json.dumps(got, default=str)[:200]} instead of raising ValueError"))]
        return []

    # oversize item at every position of every list of the scope, 1-3 copies
    cases = []
    for B in c.n([4, 7], [4, 6, 7]):
        for ms in gen.multisets(range(0, B + 1), c.n(3, 4), min_len=0):
            for pos in range(len(ms) + 1):
                for mult in (1, 2, 3):
                    vals = list(ms)
                    for j in range(mult):
                        vals.insert(min(pos + 2 * j, len(vals)), B + 1 + (j % 2))
                    for a in packers:
                        cases.append({"alg": a, "vals": vals, "p": {"B": B}})
    c.exhaustive_scopes.append(f"every multiset of <= {c.n(3,4)} values 0..B with 1-3 oversize items inserted at every position, B in {c.n([4,7],[4,6,7])}, 5 packers")
    ots = OUTTYPES

    def combos(case, rng_):
        return [(f, o) for f in formats for o in (ots if len(case["vals"]) <= 3 else [rng_.choice(ots)])]
    c.corr("oversize-exhaustive", cases, combos, judge=judge)
    rnd = C.random_pack_cases(rng, packers, c.n(150, 1500), oversize=1.0)
    c.corr("oversize-random", rnd, lambda case, r: [(f, r.choice(ots)) for f in FORMATS], judge=judge)
    # an excess of one over a huge bin size (the comparison must be exact: 2^53 + 1 > 2^53 although both are the same double)
    huge = []
    for B in (2 ** 53, 2 ** 60, 10 ** 18):
        for vals in ([B + 1], [5, B + 1, 7], [B + 1, 5, B + 1], [3, 4, B + 1]):
            for a in packers:
                huge.append({"alg": a, "vals": vals, "p": {"B": B}})
    c.corr("oversize-by-one-huge", huge, lambda case, r: [(f, r.choice(ots)) for f in ("list", "dict_str", "names_valueof")], judge=judge)
    # feasible requests are NOT refused (the other direction of the iff)
    okc = C.random_pack_cases(rng, packers, c.n(100, 1000), oversize=0.0)

    def judge_ok(case, fmt, ot, got, names, ans):
        if any(v > case["p"]["B"] for v in case["vals"]):
            return []
        return [(None, lambda a: ("refused-feasible", "raised " + got["error"]) if J._is_err(got) else None)]
    c.corr("feasible-not-refused", okc, combos_of(["list"], [PT]), judge=judge_ok)

    # ---------- cbldm argument validation: every single-invalid-argument combination
    triples = []

    def cb_call(vals, k, tl, pd, fmt):
        def thunk():
            names = names_for(fmt, [abs(v) for v in vals], random.Random(sha([vals, fmt])))
            if fmt in ("list", "array"):
                items, vo = list(vals), None
            else:
                d = {nm: v for nm, v in zip(names, vals)}
                items, vo = (d, None) if fmt.startswith("dict") else (list(names), d.__getitem__)
            kw = {} if vo is None else {"valueof": vo}
            if tl != "default":
                kw["time_limit"] = tl
            if pd != "default":
                kw["partition_difference"] = pd
            try:
                prtpy.partition(algorithm=prt.cbldm, numbins=k, items=items, outputtype=out.Sums, **kw)
                return {"ok": True}
            except Exception as e:     # noqa
                return {"error": exc_name(e)}
        return thunk

    def pd_enc(pd):
        if pd == "default":
            return "int:1000000"
        if isinstance(pd, bool) or not isinstance(pd, int):
            return "float:" + ("1" if pd < 1 else "0")
        return f"int:{pd}"

    def add(vals, k, tl, pd, fmt, what):
        tlp = 1 if (tl == "default" or tl > 0) else 0
        line = f"cbldm_validate k={k} tl={tlp} pd={pd_enc(pd)} vals=[{','.join(str(v) for v in vals)}]"
        triples.append((line, cb_call(vals, k, tl, pd, fmt), {"alg": "cbldm", "vals": vals, "k": k, "time_limit": tl, "partition_difference": pd, "fmt": fmt, "invalid": what}))

    base_vals = [[5], [3, 1], [4, 4, 2], [7, 0, 3, 3], [9, 8, 7, 6, 5]] + [gen.rand_vals(rng, rng.randint(1, 8)) for _ in range(c.n(6, 40))]
    for vals in base_vals:
        for fmt in ["list", "dict_str", "names_valueof"]:
            add(vals, 2, "default", "default", fmt, None)
            add(vals, 2, 5, 1, fmt, None)
            add(vals, 2, 0.5, len(vals), fmt, None)
            for k in (0, 1, 3, 4, 7):
                add(vals, k, "default", "default", fmt, "numbins")
            for tl in (0, -1, -0.5, 0.0):
                add(vals, 2, tl, "default", fmt, "time_limit")
            for pd in (0, -1, -5, 1.5, 2.0, 0.5, 0.0, float("inf"), float("-inf"), float("nan"), np.inf, 1e18):
                add(vals, 2, "default", pd, fmt, "partition_difference")
            for pos in range(len(vals)):
                neg = list(vals); neg[pos] = -1 - neg[pos]
                add(neg, 2, "default", "default", fmt, "negative item")
    c.exhaustive_scopes.append("cbldm: every single invalid argument (numbins in 0,1,3,4,7; time_limit in 0,-1,-0.5,0.0; partition_difference in 0,-1,-5,1.5,2.0,0.5,0.0,inf,-inf,nan,1e18; "
                               "a negative item at every position) x list/dict/names+valueof, plus valid argument combinations")
    c.direct("cbldm-arguments", triples, nontrivial=lambda label, ans: label["invalid"] is not None)
    for line, thunk, label in triples:
        got = thunk()
        if label["invalid"]:
            c.check_direct("cbldm", label, "invalid-argument-accepted", got == {"error": "ValueError"}, got, f"ValueError for an invalid {label['invalid']}")
        else:
            c.check_direct("cbldm", label, "valid-argument-refused", got == {"ok": True}, got, "no error for valid arguments")
    # ---------- the sums-only manager refuses to count items
    from prtpy.binners import BinnerKeepingSums, BinnerKeepingContents
    tr = []
    for k in range(1, 5):
        for i in range(k):
            def t_s(k=k, i=i):
                bk = BinnerKeepingSums()
                b = bk.new_bins(k); bk.add_item_to_bin(b, 3, i)
                return num(bk.numitems(b, i))
            def t_c(k=k, i=i):
                bk = BinnerKeepingContents()
                b = bk.new_bins(k); bk.add_item_to_bin(b, 3, i); bk.add_item_to_bin(b, 4, i)
                return num(bk.numitems(b, i))
            bins_s = "|".join("[3]" if j == i else "[]" for j in range(k))
            bins_c = "|".join("[3,4]" if j == i else "[]" for j in range(k))
            tr.append((f"numitems contents=0 bins={bins_s} i={i}", t_s, {"alg": "BinnerKeepingSums.numitems", "vals": [3], "k": k, "i": i}))
            tr.append((f"numitems contents=1 bins={bins_c} i={i}", t_c, {"alg": "BinnerKeepingContents.numitems", "vals": [3, 4], "k": k, "i": i}))
    c.direct("numitems", tr)
    for line, thunk, label in tr:
        if label["alg"].startswith("BinnerKeepingSums"):
            try:
                got = thunk()
            except NotImplementedError:
                got = "NotImplementedError"
            except Exception as e:     # noqa
                got = exc_name(e)
            c.check_direct(label["alg"], label, "invented-count", got == "NotImplementedError", got, "NotImplementedError: the sums-only manager does not know the number of items")


# ------------------------------------------------------------------------------------------------ C18
def C18(c):
    """results respect problem symmetries; exact solvers agree beyond oracle size"""
    rng = c.rng
    from engine import impl_map
    SORTING = ["greedy", "roundrobin", "multifit", "kk", "ffd", "bfd"] + C.COVERS
    EXACT = ["cg", "ckk", "snp", "rnp", "dp", "ilp", "cbldm"]
    base = C.random_part_cases(rng, ["greedy", "roundrobin", "multifit", "kk"], c.n(60, 600), nmax=20)
    base += C.random_pack_cases(rng, C.PACKERS, c.n(60, 600))
    base += C.random_cover_cases(rng, C.COVERS, c.n(200, 1500), Bs=(4, 5, 6, 7, 9, 12, 15, 20, 31, 100))
    ex = C.random_part_cases(rng, EXACT, c.n(40, 400), objs=C.OBJS5)
    ex += C.random_part_cases(rng, ["cg"], c.n(120, 800), objs=C.OBJS3)
    ex = [e for e in ex if not (e["alg"] == "rnp" and e["p"]["k"] >= 6)]
    for e in ex:
        if e["alg"] == "cbldm":
            e["p"]["d"] = None
    base += ex
    base = [e for e in base if not any(v > e["p"].get("B", 10 ** 9) for v in e["vals"]) and e["vals"]]

    def value_of(case, got):
        """what the symmetry speaks about: the sums (heuristics) or the optimal value (exact algorithms)"""
        if J._is_err(got) or J._is_none(got):
            return got
        a = case["alg"]
        if a in EXACT:
            o = "diff" if a in ("ckk", "snp", "rnp", "cbldm") else case["p"]["obj"]
            return obj_value(o, got["sums"])
        return got["sums"] if a in SORTING else sorted(got["sums"])

    variants, plan = [], []
    for e in base:
        a = e["alg"]
        # permutation
        pv = list(e["vals"]); rng.shuffle(pv)
        if a in SORTING or a in EXACT:
            plan.append(("perm", e, {"alg": a, "vals": pv, "p": dict(e["p"])}, 1))
        # scaling
        f = rng.choice([2, 4, 1024] if a == "multifit" else [2, 3, 7, 10, 1024])
        if not (a == "ilp" and max(e["vals"]) * f > 200) and not (a == "dp" and sum(e["vals"]) * f > 3000):
            p2 = dict(e["p"])
            if "B" in p2:
                p2["B"] *= f
            plan.append(("scale", e, {"alg": a, "vals": [v * f for v in e["vals"]], "p": p2}, f))
        # zeros
        if a in EXACT:
            z = rng.randint(1, 3)
            zv = list(e["vals"])
            for _ in range(z):
                zv.insert(rng.randrange(len(zv) + 1), 0)
            if len(zv) <= C.max_n(a) + 3:
                zc = C.cap_k({"alg": a, "vals": zv, "p": dict(e["p"])})
                if zc["p"] == e["p"]:       # (a smaller k would be another problem, not the same one with zeros added)
                    plan.append(("zeros", e, zc, 1))
    allcases = base + [t[2] for t in plan]
    results = {}

    def judge(case, fmt, ot, got, names, ans):
        results[id(case)] = got
        return []
    c.corr("base-and-variants", allcases, combos_of(["list"], [PT]), judge=judge)
    for kind, e, var, f in plan:
        g0, g1 = results.get(id(e)), results.get(id(var))
        if g0 is None or g1 is None:
            continue
        v0, v1 = value_of(e, g0), value_of(var, g1)
        if kind == "scale" and not isinstance(v0, dict):
            v0 = [x * f for x in v0] if isinstance(v0, list) else v0 * f
        label = dict(var["p"], vals=var["vals"], alg=e["alg"], base_vals=e["vals"], transformation=kind, factor=f)
        c.check_direct(e["alg"], label, "symmetry:" + kind, v0 == v1, v1,
                       f"{v0} (from the untransformed input {e['vals']}: {json.dumps(g0, default=str)[:120]})")
        c.stats["metamorphic"][kind] += 1
    # ---------- agreement of the exact algorithms beyond oracle size; never worse than a heuristic
    agree = []
    for _ in range(c.n(12, 80)):
        n = rng.randint(11, c.n(12, 16))
        k = rng.randint(2, c.n(3, 5))
        if n >= 14:
            k = min(k, 3)       # the exact algorithms take minutes per call beyond this
        vals = [rng.randint(1, 60) for _ in range(n)]
        if rng.random() < 0.5:      # a total divisible by the number of bins (a perfect partition may exist: the bounds are tight there)
            vals[-1] += (-sum(vals)) % k
        for o in C.OBJS3:
            algs = ["cg", "dp"] + (["ilp"] if n <= 12 else []) + (["ckk", "snp", "rnp"] if o == "diff" and k <= 4 and n <= 13 else [])
            # (ilp only up to 12 items: beyond, CBC's branch and bound can need more than ten gigabytes on some inputs)
            if (k >= 4 and n >= 14) or k >= 5:
                algs = [a for a in algs if a not in ("dp",)]      # (dp with 5 bins: tens of millions of states, more than ten gigabytes)
            grp = []
            for a in algs:
                p = {"k": k}
                if a == "cg":
                    p.update(lb=1, fast=1, h3=0, seen=1, obj=o, cut=None)
                if a in ("dp", "ilp"):
                    p["obj"] = o
                grp.append({"alg": a, "vals": list(vals), "p": p})
            for a in ("greedy", "kk", "multifit", "roundrobin"):
                grp.append({"alg": a, "vals": list(vals), "p": ({"k": k, "it": 10} if a == "multifit" else {"k": k})})
            agree.append((o, grp))
    # the difference-minimising searches against each other with 4 bins (5 for 11 items) on 11-13 small, often tied values: an optimum that
    # beats the Karmarkar-Karp start by exactly 1, three equal bins, ... (the thin slices in which one of them stops too early)
    for _ in range(c.n(70, 500)):
        n = rng.randint(11, 13)
        k = 5 if (n == 11 and rng.random() < 0.25) else 4
        hi = rng.choice([8, 12, 25, 60, 250])
        vals = [rng.randint(1, hi) for _ in range(n)]
        grp = []
        for a in ("cg", "ckk", "snp", "rnp"):
            p = {"k": k}
            if a == "cg":
                p.update(lb=1, fast=1, h3=0, seen=1, obj="diff", cut=None)
            grp.append({"alg": a, "vals": list(vals), "p": p})
        agree.append(("diff", grp))
    flat = [(g, "list", PT, list(g["vals"])) for o, grp in agree for g in grp]
    res = iter(impl_map(flat, serial_below=2))
    for o, grp in agree:
        vals_by = {}
        for g in grp:
            got = next(res)
            c.evaluations += 1
            c.stats["agreement"]["calls"] += 1
            label = dict(g["p"], vals=g["vals"], alg=g["alg"], objective=o)
            c.stats["agreement"]["calls:" + g["alg"]] += 1
            if J._is_err(got) and got["error"] == "Timeout":
                c.stats["agreement"]["call-timeouts (not judged)"] += 1
                c.stats["agreement"]["call-timeouts:" + g["alg"]] += 1
                continue
            if J._is_err(got) or J._is_none(got):
                c.check_direct(g["alg"], label, "exception:" + str(got.get("error", "none")), False, got, "a partition")
                continue
            ok_multifit = g["alg"] != "multifit" or len(got["sums"]) == g["p"]["k"]
            if ok_multifit:
                vals_by[g["alg"]] = obj_value(o, got["sums"])
        exact_vals = {a: v for a, v in vals_by.items() if a in EXACT}
        if exact_vals:
            ref = min(exact_vals.values())
            for a, v in exact_vals.items():
                c.check_direct(a, {"vals": grp[0]["vals"], "k": grp[0]["p"]["k"], "alg": a, "objective": o}, "exact-disagree", v == ref, v,
                               f"the value {ref} reported by another exact algorithm ({exact_vals})")
            for a, v in vals_by.items():
                if a not in EXACT:
                    c.check_direct(a, {"vals": grp[0]["vals"], "k": grp[0]["p"]["k"], "alg": a, "objective": o}, "heuristic-beats-exact", ref <= v, v,
                                   f"no heuristic can beat the exact optimum {ref}")
    # these groups are beyond the oracle's size on purpose, so an occasional call that exceeds its limits is tolerated (and listed in the
    # evidence); an algorithm that exceeds them on more than a fifth of its calls is not: then nothing was compared, which is not a pass
    for a_ in ("cg", "ckk", "snp", "rnp", "dp", "ilp"):
        t_, n_ = c.stats["agreement"].get("call-timeouts:" + a_, 0), c.stats["agreement"].get("calls:" + a_, 0)
        if t_ > max(2, n_ // 5):
            c.call_timeouts += t_
    c.distinct.update(("agree", tuple(g[1][0]["vals"]), g[0]) for g in agree)
    c.nontrivial.update(("agree", tuple(g[1][0]["vals"]), g[0]) for g in agree)


# ------------------------------------------------------------------------------------------------ C15
def C15(c):
    """calls are pure: inputs untouched, results repeatable, no state across calls"""
    rng = c.rng
    from engine import impl_map
    pool_cases = all_algs_cases(c, rng, c.n(20, 60))
    # every algorithm also on inputs with zero-valued items (the classic place for in-place "clean-ups" of the argument)
    for e in all_algs_cases(c, rng, c.n(6, 20)):
        vals = list(e["vals"]) or [0]
        for _ in range(rng.randint(1, 2)):
            vals.insert(rng.randrange(len(vals) + 1), 0)
        if len(vals) <= C.max_n(e["alg"]) + 2:
            pool_cases.append(dict(e, vals=vals, force_fmt="list"))
            pool_cases.append(dict(e, vals=vals))
    # every algorithm on a plain list that is already in non-increasing / non-decreasing order (a "nothing to sort" shortcut that
    # hands the caller's own list object to code that consumes it)
    by_alg = {}
    for e in pool_cases:
        by_alg.setdefault(e["alg"], e)
    for a, e in by_alg.items():
        if len(e["vals"]) >= 2:
            pool_cases.append(dict(e, vals=sorted(e["vals"], reverse=True), p=dict(e["p"]), force_fmt="list"))
            pool_cases.append(dict(e, vals=sorted(e["vals"]), p=dict(e["p"]), force_fmt="list"))
    # sibling calls: the same items under a different bin size / bin count (state keyed on the items alone would leak between them)
    sib = []
    for e in pool_cases:
        if rng.random() < 0.5:
            p2 = dict(e["p"])
            if "B" in p2:
                p2["B"] = max(max(e["vals"] + [1]), p2["B"] + rng.choice([-3, -2, -1, 1, 2, 3, 5]))
            elif e["alg"] not in ("cbldm",):
                p2["k"] = max(1, min(p2["k"] + rng.choice([-1, 1]), 5))
            if p2 != e["p"]:
                sib.append({"alg": e["alg"], "vals": list(e["vals"]), "p": p2})      # (format drawn afresh)
    pool_cases += sib
    # siblings that differ in ONE option only (state keyed on the items and the bin count alone would leak between them)
    opt_sib = []
    for e in pool_cases:
        a, p = e["alg"], e["p"]
        if a == "multifit":
            opt_sib.append(dict(e, p=dict(p, it=rng.choice([x for x in (0, 1, 2, 3, 10, 20) if x != p.get("it", 10)]))))
        elif a == "cg" and p.get("cut") is None and rng.random() < 0.7:
            q = dict(p)
            which = rng.choice(["obj", "lb", "fast", "h3", "seen"])
            q[which] = rng.choice([o for o in C.OBJS5 if o != p["obj"]]) if which == "obj" else 1 - p[which]
            opt_sib.append(dict(e, p=q))
        elif a in ("dp", "ilp") and rng.random() < 0.7:
            opt_sib.append(dict(e, p=dict(p, obj=rng.choice([o for o in C.OBJS5 if o != p["obj"]]))))
        elif a == "cbldm" and p.get("k") == 2 and p.get("cut") is None and rng.random() < 0.7:
            opt_sib.append(dict(e, p=dict(p, d=rng.choice([x for x in (1, 2, 3, None) if x != p.get("d")]))))
    pool_cases += [{"alg": e["alg"], "vals": list(e["vals"]), "p": dict(e["p"])} for e in opt_sib]
    for _ in range(c.n(8, 40)):       # bin completion: one item list, two bin sizes, the branching search runs for both
        vals, b1, b2 = gen.hard_bc_pair(rng)
        for b in (b1, b2):
            pool_cases.append({"alg": "bin_completion", "vals": list(vals), "p": {"B": b}, "force_fmt": rng.choice(["list", "array"])})
    for _ in range(c.n(60, 240)):     # bin completion on many different inputs on which the branching search runs (state surviving one search
        B, vals = gen.hard_bc_case(rng)   # - a default argument, a module-level list - changes what a later search finds)
        pool_cases.append({"alg": "bin_completion", "vals": [v for v in vals if v >= 1] or [1], "p": {"B": B}, "force_fmt": rng.choice(["list", "array"])})
    for _ in range(c.n(6, 20)):       # ... and families with one bin size and one small pool of values: the same completions recur
        B, fam = gen.hard_bc_family(rng, count=c.n(10, 16))
        for vals in fam:
            pool_cases.append({"alg": "bin_completion", "vals": list(vals), "p": {"B": B}, "force_fmt": "list"})
    pool_cases += C.random_pack_cases(rng, C.PACKERS + ["bin_completion"], c.n(6, 30), oversize=1.0)          # failing calls
    pool_cases += [{"alg": "cbldm", "vals": gen.rand_vals(rng, 4), "p": {"k": 3, "d": None, "cut": None}} for _ in range(c.n(4, 20))]   # ValueError
    pool_cases += [{"alg": "rnp", "vals": gen.rand_vals(rng, 7, "small"), "p": {"k": 6}} for _ in range(c.n(3, 10))]                  # KF1 calls interleaved
    pool_cases += [{"alg": "cg", "vals": gen.rand_vals(rng, 6, "small"), "p": dict(rng.choice(C.SWITCHES), k=3, obj=rng.choice(C.OBJS3), cut=rng.randint(0, 30))}
                   for _ in range(c.n(10, 50))]                                                                  # interrupted anytime runs
    calls = []
    for e in pool_cases:
        C.cap_k(e)
        fmt = e.pop("force_fmt", None) or rng.choice(FORMATS)
        ot = rng.choice(OUTTYPES)
        names = names_for(fmt, e["vals"], random.Random(sha([e["vals"], fmt])))
        calls.append((e, fmt, ot, names))
    # reference: every call in a worker process forked before this process runs any history (the workers are re-used between calls: the
    # reference is 'another history', the model's answer below is the state-free one)
    ref = impl_map(calls, serial_below=0)
    # model answers for the modelled calls
    lines, idx = [], {}
    for j, (e, fmt, ot, names) in enumerate(calls):
        alg = ALGS[e["alg"]]
        if alg.relation or (alg.unmodelled and alg.unmodelled(e, fmt)):
            continue
        ids = ids_for(fmt, e["vals"], names)
        idx[j] = (len(lines), {i: nm for i, nm in zip(ids, names)})
        lines.append(alg.request(e, ids, ot not in SUMS_ONLY))
    answers = model_query(lines)
    # corpus: short histories that exposed state across calls before (the demonstrations of seeded changes), run first, while this interpreter
    # has run nothing else; every call is compared with the model's answer for that call alone
    from engine import timed as _timed
    for hno, hist in enumerate(corpus("C15")):
        ans_h = model_query([ALGS[e["alg"]].request(e, list(e["vals"]), True) for e in hist])
        for step, (e, a) in enumerate(zip(hist, ans_h)):
            got = _timed(lambda: ALGS[e["alg"]].call_impl(e, "list", PT, list(e["vals"])))
            want = project_model(a, PT, {v: v for v in e["vals"]})
            c.evaluations += 1; c.corr_cases += 1
            c.stats["corpus-histories"]["calls"] += 1
            c.check_direct(e["alg"], dict(e["p"], vals=e["vals"], alg=e["alg"], fmt="list", outtype=PT, history=f"corpus {hno}", step=step), "history-dependent",
                           got == want, got, f"the answer of the model for this call alone: {json.dumps(want, default=str)[:200]}")
    # histories: random call sequences in THIS interpreter
    n_hist = c.n(10, 40)
    for hno in range(n_hist):
        L = rng.randint(20, c.n(120, 200))
        seq = [rng.randrange(len(calls)) for _ in range(L)]
        if hno == 0:        # the first history runs EVERY call of the pool once, in random order: no pair of calls is left to chance
            seq = list(range(len(calls))); rng.shuffle(seq)
        # repeat some calls back to back (repeatability) and bracket some by failing calls
        for _ in range(L // 10):
            pos = rng.randrange(len(seq)); seq.insert(pos, seq[pos])
        first_seen = {}
        for step, j in enumerate(seq):
            e, fmt, ot, names = calls[j]
            mut = []
            from engine import timed
            got = timed(lambda: ALGS[e["alg"]].call_impl(e, fmt, ot, names, mutation=mut))
            c.evaluations += 1
            if (isinstance(got, dict) and got.get("error") == "Timeout") or (isinstance(ref[j], dict) and ref[j].get("error") == "Timeout"):
                c.call_timeouts += 1
                continue
            c.corr_cases += 1
            c.stats["histories"]["calls"] += 1
            c.stats["histories"]["alg:" + e["alg"]] += 1
            if J._is_err(got):
                c.stats["histories"]["error:" + got["error"]] += 1
            label = dict(e["p"], vals=e["vals"], alg=e["alg"], fmt=fmt, outtype=ot, history=hno, step=step,
                         preceding_calls=[calls[q][0]["alg"] for q in seq[max(0, step - 5):step]])
            key = (e["alg"], json.dumps(e["p"], sort_keys=True, default=str), tuple(e["vals"]), fmt, ot)
            c.distinct.add(key)
            if len(e["vals"]) >= 2:
                c.nontrivial.add(key)
            c.check_direct(e["alg"], label, "input-modified", not mut, mut, "the argument is left exactly as it was given")
            same_ref = got == ref[j] or (e["alg"] == "ilp" and not J._is_err(got) and not J._is_err(ref[j]))
            c.check_direct(e["alg"], label, "history-dependent", same_ref, got, f"the result of the same call in a fresh state: {json.dumps(ref[j], default=str)[:200]}")
            if j in first_seen:
                c.check_direct(e["alg"], label, "not-repeatable", got == first_seen[j] or e["alg"] == "ilp", got, f"identical to the earlier identical call: {json.dumps(first_seen[j], default=str)[:200]}")
            first_seen.setdefault(j, got)
            if j in idx:
                k_, by_id = idx[j]
                want = project_model(answers[k_], ot, by_id)
                if got != want:
                    c.disagreements.append({"stream": "histories", "alg": e["alg"], "case": e, "fmt": fmt, "outtype": ot, "impl": got, "model": want,
                                            "request": lines[k_] + f"  (history {hno}, step {step})"})
        c.sample({"history": hno, "length": len(seq), "first_calls": [f"{calls[q][0]['alg']}/{calls[q][1]}/{calls[q][2]}" for q in seq[:8]]})
    # the same hard bin-completion call three times in a row in this interpreter (state that survives a search and is CHANGED by it - a cached
    # list of completions consumed with pop - makes the second or third identical call differ from the first)
    hard_calls = [(j, e, fmt, ot, names) for j, (e, fmt, ot, names) in enumerate(calls) if e["alg"] == "bin_completion" and fmt in ("list", "array") and len(e["vals"]) >= 5][: c.n(150, 600)]
    from engine import timed
    for j, e, fmt, ot, names in hard_calls:
        outs = [timed(lambda: ALGS[e["alg"]].call_impl(e, fmt, ot, names)) for _ in range(3)]
        c.evaluations += 3; c.corr_cases += 1
        c.stats["repeated-bin-completion"]["triples"] += 1
        if any(isinstance(o, dict) and o.get("error") == "Timeout" for o in outs):
            c.call_timeouts += 1
            continue
        label = dict(e["p"], vals=e["vals"], alg=e["alg"], fmt=fmt, outtype=ot, repeated=3)
        c.check_direct(e["alg"], label, "not-repeatable", outs[0] == outs[1] == outs[2], outs, "three identical answers to three identical calls")
        # ... and, after everything this interpreter has run by now, still the answer of the state-free model (state that only ever GROWS -
        # a mutable default argument collecting 'dominated' completions - shows here at the latest)
        if j in idx:
            k_, by_id = idx[j]
            want = project_model(answers[k_], ot, by_id)
            c.check_direct(e["alg"], label, "history-dependent", outs[0] == want, outs[0], f"the answer of the model for this call alone: {json.dumps(want, default=str)[:200]}")
    # ilp after an ilp call that FAILED (unsatisfiable caller constraints; a time limit that expires at once): the next call must not inherit anything
    ilp_cases = [e for e in pool_cases if e["alg"] == "ilp" and len(e["vals"]) >= 2][: c.n(12, 60)]
    for e in ilp_cases:
        alg = ALGS["ilp"]
        kw = dict(alg.kwargs(e["p"]))
        tot = sum(e["vals"])

        def run(**extra):
            try:
                return canon_impl(prtpy.partition(algorithm=alg.fn(), numbins=e["p"]["k"], items=list(e["vals"]), outputtype=out.Sums, **dict(kw, **extra)), "Sums")
            except Exception as ex:      # noqa
                return {"error": exc_name(ex)}
        before = run()
        failed = run(additional_constraints=lambda sums, tot=tot: [sums[0] >= tot + 1])
        after = run()
        c.evaluations += 3; c.corr_cases += 1
        c.stats["ilp-after-failure"]["triples"] += 1
        label = dict(e["p"], vals=e["vals"], alg="ilp", fmt="list", outtype="Sums", history="ilp ok, ilp with unsatisfiable additional_constraints, the first call again")
        c.check_direct("ilp", label, "failed-call-not-refused", failed == {"error": "ValueError"}, failed, "ValueError for constraints no partition satisfies")
        same = (J._is_err(before) and before == after) or (not J._is_err(before) and not J._is_err(after) and
                                                          obj_value(e["p"]["obj"], after) == obj_value(e["p"]["obj"], before))
        c.check_direct("ilp", label, "history-dependent", same, after, f"the answer given before the failed call: {before}")
    # the caller re-uses ITS OWN dict / value function object and changes a value between two calls: the second call must see the new value
    # (state kept inside the library and keyed on the caller's object would answer with the stale one)
    shared = [e for e in pool_cases if e["alg"] in ("greedy", "roundrobin", "multifit", "kk", "ff", "ffd", "bf", "bfd", "cover_decreasing", "twothirds",
                                                      "threequarters", "cg", "dp", "ckk", "snp", "cbldm") and len(e["vals"]) >= 2
              and not any(v > e["p"].get("B", 10 ** 12) for v in e["vals"]) and e["p"].get("cut") is None and e["p"].get("k", 2) == (2 if e["alg"] == "cbldm" else e["p"].get("k", 2))]
    # ... and enough calls of the sorting heuristics (an order of the names remembered between calls only matters to them)
    shared += [e for e in C.random_pack_cases(rng, C.PACKERS, c.n(14, 60), Bs=(12, 20, 100)) + C.random_cover_cases(rng, C.COVERS, c.n(14, 60), Bs=(12, 20, 31)) +
               C.random_part_cases(rng, ["greedy", "roundrobin", "multifit", "kk"], c.n(14, 60), nmax=10) if len(e["vals"]) >= 3]
    rng.shuffle(shared)
    per_alg, picked = {}, []
    for e in shared:                 # the same number of pairs for every algorithm (the pool is dominated by the searches)
        if per_alg.get(e["alg"], 0) < c.n(10, 50):
            per_alg[e["alg"]] = per_alg.get(e["alg"], 0) + 1
            picked.append(e)
    for e in picked:
        alg = ALGS[e["alg"]]
        names = names_for("dict_str", e["vals"], rng)
        d = {nm: v for nm, v in zip(names, e["vals"])}
        ot = getattr(out, rng.choice(["Sums", "Partition", "PartitionAndSumsTuple", "BinCount"]))
        use_valueof = rng.random() < 0.4

        def call(dd, fresh):
            kw = dict(alg.kwargs(e["p"]))
            if use_valueof:
                items, kw["valueof"] = list(dd.keys()), (dd.__getitem__ if not fresh else (lambda x, dd=dd: dd[x]))
            else:
                items = dd
            try:
                if alg.kind == "partition":
                    r = prtpy.partition(algorithm=alg.fn(), numbins=e["p"]["k"], items=items, outputtype=ot, **kw)
                else:
                    r = prtpy.pack(algorithm=alg.fn(), binsize=e["p"]["B"], items=items, outputtype=ot, **kw)
                return canon_impl(r, ot.__name__)
            except Exception as ex:      # noqa
                return {"error": exc_name(ex)}
        r1 = call(d, False)
        if rng.random() < 0.5:       # the same names, the values dealt out afresh (an order of the NAMES remembered from the first call is now wrong)
            vs = list(d.values()); rng.shuffle(vs)
            for nm, v in zip(list(d), vs):
                d[nm] = v
        j = rng.randrange(len(names))
        newv = rng.choice([0, 1, d[names[j]] + 1, max(1, d[names[j]] // 2), min(e["p"].get("B", 10 ** 9), d[names[j]] + 3)])
        d[names[j]] = newv if newv <= e["p"].get("B", 10 ** 12) else d[names[j]]
        r2 = call(d, False)                 # the caller's own object, second call
        def unprefix(x):
            if isinstance(x, str):
                return x[2:] if x.startswith("q:") else x
            if isinstance(x, list):
                return [unprefix(y) for y in x]
            if isinstance(x, dict):
                return {k_: unprefix(v_) for k_, v_ in x.items()}
            return x
        # the same contents in a brand-new object under NEW names (a common prefix keeps their order): nothing remembered about the caller's
        # object, or about its names, can apply to this call
        r2_fresh = unprefix(call({"q:" + nm: v for nm, v in d.items()}, True))
        c.evaluations += 3; c.corr_cases += 1
        c.stats["shared-object"]["pairs"] += 1
        c.stats["shared-object"]["alg:" + e["alg"]] += 1
        c.stats["shared-object"]["second-answer-differs-from-first"] += int(r2 != r1)
        label = dict(e["p"], vals=e["vals"], alg=e["alg"], outtype=ot.__name__, changed=names[j], new_value=d[names[j]], via="valueof" if use_valueof else "dict")
        same = r2 == r2_fresh or (e["alg"] in ("dp",) and not J._is_err(r2))
        c.check_direct(e["alg"], label, "history-dependent", same, r2, f"the result for the caller's dict after the change, as computed from a fresh copy of it: {json.dumps(r2_fresh, default=str)[:200]}")


SUITES = {"C01": C01, "C02": C02, "C03": C03, "C04": C04, "C05": C05, "C06": C06, "C07": C07, "C08": C08, "C09": C09, "C10": C10, "C11": C11, "C12": C12, "C13": C13, "C14": C14, "C15": C15, "C16": C16, "C17": C17, "C18": C18, "C19": C19, "C20": C20}

LEVELS = {"C15": "other"}
FINISH = {"C15": {"explanation": "Purity is definitional for the Lean model (a total function of the call's arguments). What decides the property for the code is "
                                     "refinement testing over call histories: seeded random sequences of calls in one interpreter (all algorithms, formats, output types, "
                                     "failing and interrupted calls interleaved); every result is compared with the model's answer for that call alone and with the result of the "
                                     "same call in a fresh worker process, every repeated call with its first occurrence, and every argument object with a deep copy taken before the call. "
                                     "Interpreter-level state (module globals, shared counters) is not expressible in the model and is covered only by these differential runs (PARTIAL)."}}


def replay(c, rp):
    """re-run what a replay file describes against the current tree:
    * a broken obligation: print it (the proof audit of this run decides whether it still is broken);
    * a case of a registered algorithm: run that single call on the implementation and on the model, judge it with the
      verified checker of its kind, and report;
    * anything else (direct calls, operation sequences, histories): re-run the whole suite with the seed and tier recorded in
      the file - the suites are deterministic functions of (seed, tier), so the same failure reappears if it still exists."""
    kind = rp.get("kind_of_replay")
    if kind == "broken-obligation":
        print("replay file names a broken obligation, not an input:", json.dumps(rp.get("theorems"))[:600])
        return
    case = rp.get("case") or {}
    if case.get("alg") in ALGS and "vals" in case and set(ALGS[case["alg"]].param) <= set("kB") and ALGS[case["alg"]].param in case.get("p", {}):
        fmt, ot = rp.get("fmt", "list"), rp.get("outtype", PT)
        fmt = fmt if fmt in FORMATS + ["uarray", "narrow", "f16"] else "list"
        ot = ot if ot in OUTTYPES else PT
        kind_ = ALGS[case["alg"]].kind

        def judge(cs, f, o, got, names, ans):
            print(f"replay: {cs['alg']} {json.dumps(cs['p'], default=str)} vals={cs['vals']} fmt={f} out={o}\n  implementation: {json.dumps(got, default=str)[:400]}\n  model:          {json.dumps(ans, default=str)[:400]}")
            if kind_ == "partition":
                res = J.judge_partition(cs, f, o, got, names, ans, allow_fewer=(cs["alg"] == "multifit"), allow_none=cs["p"].get("cut") is not None)
                if c.pid in ("C02", "C12", "C18") and cs["alg"] not in C.HEURISTIC_PART:
                    res += J.judge_optimal(lambda q: q["p"].get("obj", "diff"))(cs, f, o, got, names, ans)
                return res
            if kind_ == "pack":
                return J.judge_packing(cs, f, o, got, names, ans, drop_zeros=(cs["alg"] == "bin_completion"))
            return J.judge_cover(cs, f, o, got, names, ans)
        c.corr("replay", [{"alg": case["alg"], "vals": case["vals"], "p": {k_: v for k_, v in case["p"].items() if k_ not in ("vals", "alg")}}], combos_of([fmt], [ot]), judge=judge)
        return
    print(f"replay: re-running the whole {c.pid} suite with the recorded seed {rp.get('seed')} and tier {rp.get('tier')}")
    c.seed = rp.get("seed", c.seed)
    c.tier = rp.get("tier", c.tier)
    c.rng = random.Random(f"{c.pid}-{c.seed}")
    SUITES[c.pid](c)


REPLAY_JUDGES = {}
