import PrtpyProofs.Fit
import PrtpyProofs.Cover
import PrtpyProofs.Oracle
import PrtpyProofs.Obj
import PrtpyProofs.Part
