/-
  Prtpy.Heap — reference-level model of the two bins-managers of prtpy/binners.py (property C16).

  The pure model `Bins α` (Prtpy/Bins.lean) cannot express aliasing.  The real managers alias a lot:

  * `BinnerKeepingSums`: a bins-array is a numpy array.  `remove_bins` returns `bins[0:len-n]`, a *view* of
    the same buffer; `concatenate_bins` / `add_empty_bins` (`np.append`) and `copy_bins` (`np.array`) allocate
    a new buffer; `add_item_to_bin`, `combine_bins` and `sort_by_ascending_sum` write through the array.
  * `BinnerKeepingContents`: a bins-array is `(sums, lists)`.  `sums` behaves as above; `lists` is a Python
    list of Python lists: `concatenate_bins` builds a new outer list (`lists1 + lists2`) that *shares the inner
    lists*; `remove_bins` slices the outer list (new outer list, shared inner lists); `copy_bins` copies
    the outer list and every inner list; `add_item_to_bin` appends to an inner list in place; `combine_bins`
    extends an inner list in place with the *elements* of another; `sort_by_ascending_sum` assigns
    `sums[:] = …` and `lists[:] = …` (in place: buffer and outer list keep their identity).

  Here: numbered buffers, numbered inner lists, numbered outer lists; a handle (= a Python bins-array object)
  is `(buffer id, length of the prefix view, outer list id)`.  Every view the code ever creates is a prefix.
  The sums-only manager is the same model with the lists ignored.

  `PurePool` is the specification: immutable `Bins α` values, one per handle, `none` once the handle has been
  handed over (passed to add_empty / remove / concatenate) — the discipline of C16.
-/
import Prtpy.Bins
namespace Prtpy
namespace Heap

variable {α : Type}

structure Handle where
  buf : Nat
  len : Nat
  outer : Nat
  deriving Repr, DecidableEq

structure State (α : Type) where
  bufs : List (List Nat)
  inners : List (List α)
  outers : List (List Nat)
  handles : List Handle          -- every bins-array object created so far; index = handle id

inductive Op (α : Type) where
  | new (k : Nat)                           -- new_bins(k)
  | add (h : Nat) (x : α) (i : Nat)         -- add_item_to_bin(h, x, i)
  | copy (h : Nat)                          -- copy_bins(h)
  | sort (h : Nat)                          -- sort_by_ascending_sum(h)
  | addEmpty (h n : Nat)                    -- add_empty_bins(h, n)   (h is handed over)
  | remove (h n : Nat)                      -- remove_bins(h, n)      (h is handed over)
  | concat (h1 h2 : Nat)                    -- concatenate_bins(h1, h2) (both handed over)
  | combine (h1 i1 h2 i2 : Nat)             -- combine_bins(h1, i1, h2, i2)

def State.init : State α := ⟨[], [], [], []⟩

/-- what a handle denotes in a heap state -/
def abs (s : State α) (h : Handle) : Bins α :=
  ⟨(s.bufs.getD h.buf []).take h.len, (s.outers.getD h.outer []).map fun id => s.inners.getD id []⟩

/-- write `f` to the first `len` cells of a list, cell by cell from a list of new values -/
def writePrefix {β : Type} (l : List β) (new : List β) : List β := new ++ l.drop new.length

/-- allocate a buffer, `lists.length` inner lists and an outer list for them; returns the new handle -/
def alloc (s : State α) (sums : List Nat) (lists : List (List α)) : State α × Handle :=
  let base := s.inners.length
  let ids := (List.range lists.length).map (· + base)
  let h : Handle := ⟨s.bufs.length, sums.length, s.outers.length⟩
  ({ s with bufs := s.bufs ++ [sums], inners := s.inners ++ lists, outers := s.outers ++ [ids],
            handles := s.handles ++ [h] }, h)

/-- a new handle that shares inner lists: fresh buffer, fresh outer list with the given inner-list ids -/
def allocShared (s : State α) (sums : List Nat) (ids : List Nat) : State α :=
  let h : Handle := ⟨s.bufs.length, sums.length, s.outers.length⟩
  { s with bufs := s.bufs ++ [sums], outers := s.outers ++ [ids], handles := s.handles ++ [h] }

/-- one operation on the heap; `none` = the Python call raises (bad handle, index out of range) -/
def step (v : α → Nat) (s : State α) : Op α → Option (State α)
  | .new k => some (alloc s (List.replicate k 0) (List.replicate k [])).1
  | .add hi x i => do
    let h ← s.handles[hi]?
    if i < h.len then
      let ids := s.outers.getD h.outer []
      some { s with bufs := s.bufs.modify h.buf (·.modify i (· + v x)),
                    inners := s.inners.modify (ids.getD i 0) (· ++ [x]) }
    else none
  | .copy hi => do
    let h ← s.handles[hi]?
    let b := abs s h
    some (alloc s b.sums b.lists).1
  | .sort hi => do
    let h ← s.handles[hi]?
    let b := abs s h
    let ids := s.outers.getD h.outer []
    let z := Prtpy.sortAsc (fun p => p.1) (b.sums.zip ids)
    some { s with bufs := s.bufs.modify h.buf (fun l => writePrefix l (z.map (·.1))),
                  outers := s.outers.modify h.outer (fun l => writePrefix l (z.map (·.2))) }
  | .addEmpty hi n => do
    let h ← s.handles[hi]?
    let b := abs s h
    let base := s.inners.length
    let newIds := (List.range n).map (· + base)
    let s1 := { s with inners := s.inners ++ List.replicate n [] }
    some (allocShared s1 (b.sums ++ List.replicate n 0) (s.outers.getD h.outer [] ++ newIds))
  | .remove hi n => do
    let h ← s.handles[hi]?
    if n ≤ h.len then
      let ids := s.outers.getD h.outer []
      let h' : Handle := ⟨h.buf, h.len - n, s.outers.length⟩
      some { s with outers := s.outers ++ [ids.take (ids.length - n)], handles := s.handles ++ [h'] }
    else none
  | .concat h1 h2 => do
    let a ← s.handles[h1]?
    let b ← s.handles[h2]?
    some (allocShared s ((abs s a).sums ++ (abs s b).sums) (s.outers.getD a.outer [] ++ s.outers.getD b.outer []))
  | .combine h1 i1 h2 i2 => do
    let a ← s.handles[h1]?
    let b ← s.handles[h2]?
    if i1 < a.len ∧ i2 < b.len then
      let add := (abs s b).sums.getD i2 0
      let extra := (abs s b).lists.getD i2 []
      let ids1 := s.outers.getD a.outer []
      some { s with bufs := s.bufs.modify a.buf (·.modify i1 (· + add)),
                    inners := s.inners.modify (ids1.getD i1 0) (· ++ extra) }
    else none

def run (v : α → Nat) : State α → List (Op α) → Option (State α)
  | s, [] => some s
  | s, op :: ops => match step v s op with
    | none => none
    | some s' => run v s' ops

/-! ### the specification: a pool of immutable values, with the hand-over discipline -/

abbrev PurePool (α : Type) := List (Option (Bins α))

def live (p : PurePool α) (h : Nat) : Option (Bins α) := (p[h]?).join

def kill (p : PurePool α) (h : Nat) : PurePool α := p.set h none

/-- one operation on the pure pool; `none` = the sequence is outside the discipline of C16
    (dead or unknown handle, index out of range, the same array given twice) -/
def pureStep (v : α → Nat) (p : PurePool α) : Op α → Option (PurePool α)
  | .new k => some (p ++ [some (Bins.new k)])
  | .add h x i => do
    let b ← live p h
    if i < b.sums.length then some (p.set h (some (b.add v x i))) else none
  | .copy h => do
    let b ← live p h
    some (p ++ [some b])
  | .sort h => do
    let b ← live p h
    some (p.set h (some b.sortAsc))
  | .addEmpty h n => do
    let b ← live p h
    some (kill p h ++ [some (b.addEmpty n)])
  | .remove h n => do
    let b ← live p h
    if n ≤ b.sums.length then some (kill p h ++ [some (b.removeLast n)]) else none
  | .concat h1 h2 => do
    let b1 ← live p h1
    let b2 ← live p h2
    if h1 = h2 then none else some (kill (kill p h1) h2 ++ [some (b1.concat b2)])
  | .combine h1 i1 h2 i2 => do
    let b1 ← live p h1
    let b2 ← live p h2
    if h1 = h2 then none
    else if i1 < b1.sums.length ∧ i2 < b2.sums.length then some (p.set h1 (some (b1.combine i1 b2 i2)))
    else none

def pureRun (v : α → Nat) : PurePool α → List (Op α) → Option (PurePool α)
  | p, [] => some p
  | p, op :: ops => match pureStep v p op with
    | none => none
    | some p' => pureRun v p' ops

/-- all arrays (live or handed over) as the heap shows them, after every operation — what the harness observes
    on the real Python objects -/
def trace (v : α → Nat) : State α → List (Op α) → List (Option (List (Bins α)))
  | _, [] => []
  | s, op :: ops => match step v s op with
    | none => [none]
    | some s' => some (s'.handles.map (abs s')) :: trace v s' ops

end Heap
end Prtpy
