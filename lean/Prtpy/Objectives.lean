/-
  Prtpy.Objectives — prtpy/objectives.py: `value_to_minimize` and `lower_bound`
  of the five sum objectives, and the weighted objective.
-/
import Prtpy.Basic
namespace Prtpy

/-- integers extended with `-inf` / `+inf` (numpy's `-np.inf`, `np.inf`) -/
inductive EInt where
  | negInf
  | fin (i : Int)
  | posInf
  deriving Repr, DecidableEq, Inhabited

namespace EInt
def le : EInt → EInt → Bool
  | negInf, _ => true
  | _, posInf => true
  | fin a, fin b => decide (a ≤ b)
  | _, _ => false
def lt (a b : EInt) : Bool := !(le b a)
def add : EInt → EInt → EInt      -- never called with opposite infinities
  | fin a, fin b => fin (a + b)
  | negInf, _ => negInf
  | _, negInf => negInf
  | _, _ => posInf
def toString : EInt → String
  | negInf => "-inf"
  | posInf => "inf"
  | fin i => ToString.toString i
instance : ToString EInt := ⟨toString⟩
end EInt

inductive Objective where
  | maxSmallest
  | maxKSmallest (k : Nat)
  | minLargest
  | minKLargest (k : Nat)
  | minDiff
  deriving Repr, DecidableEq, Inhabited

/-- `sorted_sums[-k:]` for `k ≥ 1` -/
def lastK (k : Nat) (l : List Nat) : List Nat := l.drop (l.length - k)

/-- `objective.value_to_minimize(sums, are_sums_in_ascending_order)` -/
def Objective.value (o : Objective) (sums : List Nat) (sorted : Bool) : Int :=
  match o with
  | .maxSmallest => if sorted then -((sums.headD 0 : Nat) : Int) else -((minL sums : Nat) : Int)
  | .maxKSmallest k =>
      -((sumL ((if sorted then sums else sortAsc id sums).take k) : Nat) : Int)
  | .minLargest => if sorted then ((lastD sums 0 : Nat) : Int) else ((maxL sums : Nat) : Int)
  | .minKLargest k =>
      ((sumL (lastK k (if sorted then sums else sortAsc id sums)) : Nat) : Int)
  | .minDiff =>
      if sorted then ((lastD sums 0 : Nat) : Int) - ((sums.headD 0 : Nat) : Int)
      else ((maxL sums : Nat) : Int) - ((minL sums : Nat) : Int)

/-- The loop of `MaximizeTheSmallestSum.lower_bound` (Paul A. Robin's algorithm):
    `rest` = `sorted_sums[i:]`, `rem` = running total; returns `floor(rem / i)` at the stop. -/
def lbMaxMinLoop : List Nat → Nat → Nat → Nat
  | [], i, rem => rem / i
  | s :: rest, i, rem => if rem ≤ i * s then rem / i else lbMaxMinLoop rest (i + 1) (rem + s)

/-- `MaximizeSmallestSum.lower_bound(sums, rem, sorted)`, as a non-negative number to be negated. -/
def lbMaxMinAbs (sums : List Nat) (rem : Nat) (sorted : Bool) : Nat :=
  let s := if sorted then sums else sortAsc id sums
  match s with
  | [] => 0
  | s0 :: rest => lbMaxMinLoop rest 1 (rem + s0)

/-- `MinimizeLargestSum.lower_bound(sums, rem, sorted)` -/
def lbMinMax (sums : List Nat) (rem : Nat) (sorted : Bool) : Nat :=
  let cur := if sorted then lastD sums 0 else maxL sums
  let n := sums.length
  max cur ((sumL sums + rem + n - 1) / n)

/-- `objective.lower_bound(sums, sum_of_remaining_items, are_sums_in_ascending_order)` -/
def Objective.lowerBound (o : Objective) (sums : List Nat) (rem : Nat) (sorted : Bool) : EInt :=
  match o with
  | .maxSmallest => .fin (-(lbMaxMinAbs sums rem sorted : Int))
  | .minLargest => .fin (lbMinMax sums rem sorted : Int)
  | .minDiff => .fin (-(lbMaxMinAbs sums rem sorted : Int) + (lbMinMax sums rem sorted : Int))
  | _ => .negInf

/-- minimum of a non-empty list of rationals -/
def minRat : List Rat → Rat
  | [] => 0
  | [x] => x
  | x :: xs => let m := minRat xs; if x ≤ m then x else m

/-- `MaximizeSmallestWeightedSum(weights).value_to_minimize(sums)` -/
def weightedValue (weights : List Rat) (sums : List Nat) : Rat :=
  -(minRat (List.zipWith (fun (s : Nat) (w : Rat) => (s : Rat) / w) sums weights))

end Prtpy
