/-
  Prtpy.Basic — list utilities shared by every model.
  Import-free on purpose (the driver executable links against this library).

  Python facts mirrored here (trusted base, DESIGN §3):
  * `sorted(xs, key=f, reverse=True)` is stable: equal keys keep input order.
  * `sorted(range(k), key=s.__getitem__)` is stable ascending.
  * `min(range(k), key=s.__getitem__)` returns the first index of a minimum.
-/
namespace Prtpy

/-- Error kinds: the small enum every implementation error is mapped to. -/
inductive Err where
  | valueError
  | indexError
  | notImplemented
  | typeError
  | fuel
  deriving Repr, DecidableEq, Inhabited

def Err.toString : Err → String
  | .valueError => "ValueError"
  | .indexError => "IndexError"
  | .notImplemented => "NotImplementedError"
  | .typeError => "TypeError"
  | .fuel => "FuelExhausted"

instance : ToString Err := ⟨Err.toString⟩

variable {α : Type}

/-- Insert `x` (which precedes every element of the list in the original order)
    into a list sorted by non-increasing key, before the first element whose key is `≤ key x`. -/
def insertDesc (key : α → Nat) (x : α) : List α → List α
  | [] => [x]
  | y :: ys => if key y ≤ key x then x :: y :: ys else y :: insertDesc key x ys

/-- Stable sort by non-increasing key: `sorted(xs, key=key, reverse=True)`. -/
def sortDesc (key : α → Nat) : List α → List α
  | [] => []
  | x :: xs => insertDesc key x (sortDesc key xs)

/-- Insert `x` before the first element whose key is `≥ key x`. -/
def insertAsc (key : α → Nat) (x : α) : List α → List α
  | [] => [x]
  | y :: ys => if key x ≤ key y then x :: y :: ys else y :: insertAsc key x ys

/-- Stable sort by non-decreasing key: `sorted(xs, key=key)`. -/
def sortAsc (key : α → Nat) : List α → List α
  | [] => []
  | x :: xs => insertAsc key x (sortAsc key xs)

/-- Largest element (0 for the empty list). -/
def maxL : List Nat → Nat
  | [] => 0
  | x :: xs => max x (maxL xs)

/-- Smallest element (0 for the empty list). -/
def minL : List Nat → Nat
  | [] => 0
  | [x] => x
  | x :: xs => min x (minL xs)

/-- Sum of a list of naturals (own definition, structural, simp-friendly). -/
def sumL : List Nat → Nat
  | [] => 0
  | x :: xs => x + sumL xs

/-- Total value of a list of items. -/
def binSum (v : α → Nat) (l : List α) : Nat := sumL (l.map v)

/-- First index of a minimum: `min(range(len(l)), key=l.__getitem__)`. -/
def argmin (l : List Nat) : Nat := l.idxOf (minL l)

/-- Last element or a default. -/
def lastD (l : List Nat) (d : Nat) : Nat := l.getLast?.getD d

/-- Insert `x` at every position of `l`, first position first. -/
def insertEverywhere (x : α) : List α → List (List α)
  | [] => [[x]]
  | y :: ys => (x :: y :: ys) :: (insertEverywhere x ys).map (y :: ·)

/-- Remove the element at index `i`. -/
def removeAt (l : List α) (i : Nat) : List α := l.take i ++ l.drop (i + 1)

/-- Permutations of `l` in the order of `itertools.permutations(l)`:
    lexicographic in positions (first element = each element in turn, then permutations of the rest). -/
def lexPermsAux : Nat → List α → List (List α)
  | 0, _ => [[]]
  | _, [] => [[]]
  | fuel + 1, l =>
    (List.range l.length).flatMap fun i =>
      match l[i]? with
      | none => []
      | some x => (lexPermsAux fuel (removeAt l i)).map (x :: ·)

def lexPerms (l : List α) : List (List α) := lexPermsAux l.length l

/-- Remove the first occurrence of `x`. -/
def eraseFirst [DecidableEq α] (x : α) : List α → List α
  | [] => []
  | y :: ys => if y = x then ys else y :: eraseFirst x ys

/-- Python's `[a] * n`-style helper. -/
def rep (n : Nat) (a : α) : List α := List.replicate n a

end Prtpy
