/-
  Prtpy.Bins — pure model of a bins-array as managed by `BinnerKeepingContents`
  (`sums`, `lists`); the sums-only manager `BinnerKeepingSums` is the `sums` projection.
  Operation names follow prtpy/binners.py.
-/
import Prtpy.Basic
namespace Prtpy

structure Bins (α : Type) where
  sums : List Nat
  lists : List (List α)
  deriving Repr

variable {α : Type}

namespace Bins

/-- `binner.new_bins(k)` -/
def new (k : Nat) : Bins α := ⟨List.replicate k 0, List.replicate k []⟩

/-- `binner.numbins(bins)` (= `len(sums)`) -/
def numbins (b : Bins α) : Nat := b.sums.length

/-- `binner.add_item_to_bin(bins, x, i)` for `0 ≤ i < numbins`. -/
def add (v : α → Nat) (b : Bins α) (x : α) (i : Nat) : Bins α :=
  ⟨b.sums.modify i (· + v x), b.lists.modify i (· ++ [x])⟩

/-- `binner.add_item_to_bin(bins, x, -1)` -/
def addLast (v : α → Nat) (b : Bins α) (x : α) : Bins α := b.add v x (b.sums.length - 1)

/-- `binner.concatenate_bins(b1, b2)` -/
def concat (b1 b2 : Bins α) : Bins α := ⟨b1.sums ++ b2.sums, b1.lists ++ b2.lists⟩

/-- `binner.add_empty_bins(bins, n)` -/
def addEmpty (b : Bins α) (n : Nat) : Bins α := b.concat (new n)

/-- `binner.remove_bins(bins, n)` for `0 ≤ n ≤ numbins`. -/
def removeLast (b : Bins α) (n : Nat) : Bins α :=
  ⟨b.sums.take (b.sums.length - n), b.lists.take (b.lists.length - n)⟩

/-- `binner.combine_bins(b1, i1, b2, i2)` (modifies `b1`). -/
def combine (b1 : Bins α) (i1 : Nat) (b2 : Bins α) (i2 : Nat) : Bins α :=
  ⟨b1.sums.modify i1 (· + b2.sums.getD i2 0), b1.lists.modify i1 (· ++ b2.lists.getD i2 [])⟩

/-- `binner.sort_by_ascending_sum(bins)`: one stable permutation applied to both components. -/
def sortAsc (b : Bins α) : Bins α :=
  let z := Prtpy.sortAsc (fun p => p.1) (b.sums.zip b.lists)
  ⟨z.map (·.1), z.map (·.2)⟩

/-- last sum (`binner.sums(bins)[-1]`) -/
def lastSum (b : Bins α) : Nat := lastD b.sums 0

/-- All items, bin by bin. -/
def flat (b : Bins α) : List α := b.lists.flatten

/-- substitute item names -/
def mapItems {β : Type} (f : α → β) (b : Bins α) : Bins β := ⟨b.sums, b.lists.map (·.map f)⟩

/-- The consistency invariant of C06/C16: every sum is the total value of the recorded items. -/
def Consistent (v : α → Nat) (b : Bins α) : Prop := b.sums = b.lists.map (binSum v)

end Bins

/- Output types of prtpy/outputtypes.py as functions of a bins-array. -/
namespace Out
def sums (b : Bins α) : List Nat := b.sums
def sortedSums (b : Bins α) : List Nat := Prtpy.sortAsc id b.sums
def largestSum (b : Bins α) : Nat := maxL b.sums
def smallestSum (b : Bins α) : Nat := minL b.sums
def extremeSums (b : Bins α) : Nat × Nat := (minL b.sums, maxL b.sums)
def difference (b : Bins α) : Nat := maxL b.sums - minL b.sums
def binCount (b : Bins α) : Nat := b.sums.length
def partition (b : Bins α) : List (List α) := b.lists
end Out

end Prtpy
