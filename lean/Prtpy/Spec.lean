/-
  Prtpy.Spec — the vocabulary of the properties, written to be read in minutes, and the executable
  checkers / oracles that the harness runs on the *implementation's* outputs.  Each checker and oracle has a
  correctness theorem in PrtpyProofs (`check*_iff`, `optValue_spec`, `optBins_spec`, `optCover_spec`,
  `optBalanced_spec`).
-/
import Prtpy.Bins
import Prtpy.Objectives
import Prtpy.Model.DP
namespace Prtpy

variable {α : Type}

/-! ### validity -/

/-- C01: every input item exactly once, `k` bins, sums describe the bins -/
def IsPartition (v : α → Nat) (items : List α) (k : Nat) (b : Bins α) : Prop :=
  b.lists.flatten.Perm items ∧ b.lists.length = k ∧ b.sums = b.lists.map (binSum v)

/-- C03: every input item exactly once, no bin above the bin size, no empty bin for a non-empty input -/
def IsPacking (v : α → Nat) (B : Nat) (items : List α) (b : Bins α) : Prop :=
  b.lists.flatten.Perm items ∧ b.sums = b.lists.map (binSum v) ∧ (∀ s ∈ b.sums, s ≤ B) ∧
  (items ≠ [] → ∀ l ∈ b.lists, l ≠ [])

/-- C05: every bin reaches the bin size, items used at most once, the unused items total less than one bin -/
def IsCover (v : α → Nat) (B : Nat) (items : List α) (b : Bins α) : Prop :=
  b.sums = b.lists.map (binSum v) ∧ (∀ s ∈ b.sums, B ≤ s) ∧
  ∃ rest : List α, (b.lists.flatten ++ rest).Perm items ∧ binSum v rest < B

/-! ### executable checkers (items carry distinct ids, so `BEq`/`DecidableEq` on them is identity of items) -/

def checkPartition [DecidableEq α] (v : α → Nat) (items : List α) (k : Nat) (b : Bins α) : Bool :=
  b.lists.flatten.isPerm items && b.lists.length == k && b.sums == b.lists.map (binSum v)

def checkPacking [DecidableEq α] (v : α → Nat) (B : Nat) (items : List α) (b : Bins α) : Bool :=
  b.lists.flatten.isPerm items && b.sums == b.lists.map (binSum v) && b.sums.all (fun s => decide (s ≤ B)) &&
  (items.isEmpty || b.lists.all (fun l => !l.isEmpty))

/-- remove one occurrence of every element of `sub` from `l`; `none` if some element is missing -/
def subtractAll [DecidableEq α] : List α → List α → Option (List α)
  | l, [] => some l
  | l, x :: xs => if x ∈ l then subtractAll (l.erase x) xs else none

def checkCover [DecidableEq α] (v : α → Nat) (B : Nat) (items : List α) (b : Bins α) : Bool :=
  b.sums == b.lists.map (binSum v) && b.sums.all (fun s => decide (B ≤ s)) &&
  match subtractAll items b.lists.flatten with
  | none => false
  | some rest => decide (binSum v rest < B)

/-! ### optimal partitioning -/

/-- an assignment of `n` items to `k` bins: item `i` goes to bin `asg[i]` -/
def IsAssignment (k n : Nat) (asg : List Nat) : Prop := asg.length = n ∧ ∀ a ∈ asg, a < k

/-- the bin sums an assignment produces -/
def sumsOf (k : Nat) (vals asg : List Nat) : List Nat :=
  (vals.zip asg).foldl (fun s (p : Nat × Nat) => s.modify p.2 (· + p.1)) (List.replicate k 0)

/-- `x` is the optimum of objective `o` over all partitions of `vals` into `k` bins (C02) -/
def IsOptimalValue (o : Objective) (k : Nat) (vals : List Nat) (x : Int) : Prop :=
  (∃ asg, IsAssignment k vals.length asg ∧ o.value (sumsOf k vals asg) false = x) ∧
  ∀ asg, IsAssignment k vals.length asg → x ≤ o.value (sumsOf k vals asg) false

/-! ### optimal bin packing (C04, C09): least number of bins of capacity `B` -/

/-- `vals` can be packed into `m` bins of capacity `B` -/
def Packable (B m : Nat) (vals : List Nat) : Prop :=
  ∃ asg, IsAssignment m vals.length asg ∧ ∀ s ∈ sumsOf m vals asg, s ≤ B

/-- DP layer over sorted sum-vectors, states above the capacity dropped -/
def packLayer (B m : Nat) (value : Nat) (cur : List (List Nat)) : List (List Nat) :=
  dedupAdj (((cur.flatMap fun st => (List.range m).map fun i => sortAsc id (st.modify i (· + value))).filter
    (fun st => st.all (fun s => decide (s ≤ B)))).mergeSort (fun a b => lexLe a b))

def packableB (B m : Nat) (vals : List Nat) : Bool :=
  !(vals.foldl (fun cur value => packLayer B m value cur) [List.replicate m 0]).isEmpty

/-- least `m ≤ fuel`-many bins that suffice, searching upwards from `m` -/
def optBinsFrom (B : Nat) (vals : List Nat) : Nat → Nat → Option Nat
  | 0, _ => none
  | fuel + 1, m => if packableB B m vals then some m else optBinsFrom B vals fuel (m + 1)

/-- the minimum number of bins (`none` if some item exceeds the capacity) -/
def optBins (B : Nat) (vals : List Nat) : Option Nat := optBinsFrom B vals (vals.length + 1) 0

/-! ### optimal bin covering (C10): largest number of disjoint sub-collections each totalling ≥ B -/

/-- `m` bins can be covered: an assignment into `m + 1` bins (the last one is the leftover) whose first `m`
    sums all reach `B` -/
def Coverable (B m : Nat) (vals : List Nat) : Prop :=
  ∃ asg, IsAssignment (m + 1) vals.length asg ∧ ∀ s ∈ (sumsOf (m + 1) vals asg).take m, B ≤ s

/-- DP layer: the item goes to one of the `m` bins or is left over; sums are capped at `B`
    (a bin that has reached `B` is as good as any fuller one), states kept sorted -/
def coverLayer (B m : Nat) (value : Nat) (cur : List (List Nat)) : List (List Nat) :=
  dedupAdj ((cur.flatMap fun st => st :: (List.range m).map fun i =>
      sortAsc id (st.modify i (fun s => min B (s + value)))).mergeSort (fun a b => lexLe a b))

def coverableB (B m : Nat) (vals : List Nat) : Bool :=
  (vals.foldl (fun cur value => coverLayer B m value cur) [List.replicate m 0]).any
    (fun st => st.all (fun s => decide (B ≤ s)))

/-- largest coverable `m`, searching downwards from `m` -/
def optCoverFrom (B : Nat) (vals : List Nat) : Nat → Nat
  | 0 => 0
  | m + 1 => if coverableB B (m + 1) vals then m + 1 else optCoverFrom B vals m

/-- the maximum number of bins that can be covered (for `B > 0`) -/
def optCover (B : Nat) (vals : List Nat) : Nat := optCoverFrom B vals (min vals.length (sumL vals / B))

/-! ### balanced 2-way partitioning (C12) -/

/-- reachable (cardinality, sum) pairs of sub-collections -/
def subsetPairs (vals : List Nat) : List (Nat × Nat) :=
  vals.foldl (fun cur x => (cur ++ cur.map fun (p : Nat × Nat) => (p.1 + 1, p.2 + x)).eraseDups) [(0, 0)]

/-- least `|sum A − sum B|` over 2-partitions with `||A| − |B|| ≤ d` (`none`: no such partition) -/
def optBalanced (d : Nat) (vals : List Nat) : Option Nat :=
  let n := vals.length
  let t := sumL vals
  let ok := (subsetPairs vals).filter fun (p : Nat × Nat) => decide (absDiffN (2 * p.1) n ≤ d)
  match ok.map (fun (p : Nat × Nat) => absDiffN (2 * p.2) t) with
  | [] => none
  | x :: xs => some (xs.foldl min x)
where absDiffN (a b : Nat) : Nat := if a ≤ b then b - a else a - b

end Prtpy

namespace Prtpy
variable {α : Type}

/-! ### C09: the any-fit invariant -/

/-- for any two bins, the earlier bin's sum plus the first item of the later bin exceeds the bin size -/
def AnyFit (v : α → Nat) (B : Nat) (b : Bins α) : Prop :=
  ∀ i j, i < j → j < b.lists.length →
    ∃ x, (b.lists.getD j []).head? = some x ∧ B < b.sums.getD i 0 + v x

/-! ### C20: the documented quantity of each objective -/

/-- the documented function of the bin sums, independent of order -/
def Objective.doc (o : Objective) (sums : List Nat) : Int :=
  match o with
  | .maxSmallest => -((minL sums : Nat) : Int)
  | .maxKSmallest k => -((sumL ((sortAsc id sums).take k) : Nat) : Int)
  | .minLargest => ((maxL sums : Nat) : Int)
  | .minKLargest k => ((sumL (((sortAsc id sums).reverse.take k)) : Nat) : Int)
  | .minDiff => ((maxL sums : Nat) : Int) - ((minL sums : Nat) : Int)

/-- non-decreasing -/
def SortedAsc (l : List Nat) : Prop := List.Pairwise (· ≤ ·) l

end Prtpy
