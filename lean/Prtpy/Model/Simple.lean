/-
  Prtpy.Model.Simple — the fold-shaped algorithms:
  greedy (LPT), round-robin, first-fit / best-fit (online and decreasing), multifit,
  the three bin-covering heuristics.
  Each definition mirrors the loop of the Python function named in its doc-string.
-/
import Prtpy.Bins
namespace Prtpy

variable {α : Type}

/-! ### prtpy/partitioning/greedy.py -/

/-- one iteration of the `for item in sorted(...)` loop -/
def greedyStep (v : α → Nat) (b : Bins α) (x : α) : Bins α := b.add v x (argmin b.sums)

/-- `greedy(binner, numbins, items)` -/
def greedy (v : α → Nat) (k : Nat) (items : List α) : Bins α :=
  (sortDesc v items).foldl (greedyStep v) (Bins.new k)

/-! ### prtpy/partitioning/roundrobin.py -/

def rrLoop (v : α → Nat) (k : Nat) : Bins α → Nat → List α → Bins α
  | b, _, [] => b
  | b, i, x :: xs => rrLoop v k (b.add v x i) ((i + 1) % k) xs

/-- `roundrobin(binner, numbins, items)` -/
def roundrobin (v : α → Nat) (k : Nat) (items : List α) : Bins α :=
  rrLoop v k (Bins.new k) 0 (sortDesc v items)

/-! ### prtpy/packing/first_fit.py -/

/-- Body of the `for item in items` loop once the size test has passed:
    the `while ibin < numbins` scan finds the first bin that fits, else a new bin is opened. -/
def ffStep (v : α → Nat) (B : Nat) (b : Bins α) (x : α) : Bins α :=
  match b.sums.findIdx? (fun s => decide (s + v x ≤ B)) with
  | some i => b.add v x i
  | none => (b.addEmpty 1).add v x b.sums.length

def ffLoop (v : α → Nat) (B : Nat) : Bins α → List α → Except Err (Bins α)
  | b, [] => .ok b
  | b, x :: xs => if B < v x then .error .valueError else ffLoop v B (ffStep v B b x) xs

/-- `first_fit.online(binner, binsize, items)` -/
def ffOnline (v : α → Nat) (B : Nat) (items : List α) : Except Err (Bins α) :=
  ffLoop v B (Bins.new 1) items

/-- `first_fit.decreasing(binner, binsize, items)` -/
def ffDecreasing (v : α → Nat) (B : Nat) (items : List α) : Except Err (Bins α) :=
  ffOnline v B (sortDesc v items)

/-! ### prtpy/packing/best_fit.py -/

/-- The `while ibin < numbins` scan with `best_bin = (index, new_sum)`, strict `>` on ties
    (so the first of several equally full bins wins). `none` is the initial `(-1, -1)`. -/
def bfScan (val B : Nat) : List Nat → Nat → Option (Nat × Nat) → Option (Nat × Nat)
  | [], _, best => best
  | s :: ss, i, best =>
    let ns := s + val
    let better : Bool := match best with
      | none => true
      | some (_, bs) => decide (bs < ns)
    bfScan val B ss (i + 1) (if decide (ns ≤ B) && better then some (i, ns) else best)

def bfStep (v : α → Nat) (B : Nat) (b : Bins α) (x : α) : Bins α :=
  match bfScan (v x) B b.sums 0 none with
  | some (i, _) => b.add v x i
  | none => (b.addEmpty 1).add v x b.sums.length

def bfLoop (v : α → Nat) (B : Nat) : Bins α → List α → Except Err (Bins α)
  | b, [] => .ok b
  | b, x :: xs => if B < v x then .error .valueError else bfLoop v B (bfStep v B b x) xs

/-- `best_fit.online(binner, binsize, items)` -/
def bfOnline (v : α → Nat) (B : Nat) (items : List α) : Except Err (Bins α) :=
  bfLoop v B (Bins.new 1) items

/-- `best_fit.decreasing(binner, binsize, items)` -/
def bfDecreasing (v : α → Nat) (B : Nat) (items : List α) : Except Err (Bins α) :=
  bfOnline v B (sortDesc v items)

/-! ### prtpy/partitioning/multifit.py  (exact rational arithmetic; DESIGN §3) -/

/-- `⌊q⌋` as a natural for `q ≥ 0`.  A bin whose integer sum is `s` fits capacity `q` iff `s ≤ ⌊q⌋`. -/
def floorNat (q : Rat) : Nat := q.floor.toNat

def ratMax (a b : Rat) : Rat := if a ≤ b then b else a

/-- number of bins first-fit uses with (rational) capacity `cap` -/
def ffCount (v : α → Nat) (cap : Rat) (items : List α) : Except Err Nat :=
  (ffOnline v (floorNat cap) items).map (·.sums.length)

/-- the `for _ in range(iterations)` binary search; returns the final `upper_bound` -/
def multifitSearch (v : α → Nat) (k : Nat) (sorted : List α) : Nat → Rat → Rat → Except Err Rat
  | 0, _, hi => .ok hi
  | it + 1, lo, hi =>
    let mid := (lo + hi) / 2
    match ffCount v mid sorted with
    | .error e => .error e
    | .ok n => if n ≤ k then multifitSearch v k sorted it lo mid else multifitSearch v k sorted it mid hi

/-- `multifit(binner, numbins, items, iterations)` -/
def multifit (v : α → Nat) (k : Nat) (items : List α) (iterations : Nat) : Except Err (Bins α) :=
  let vals := items.map v
  let s : Rat := (sumL vals : Nat)
  let m : Rat := (maxL vals : Nat)
  let lo := ratMax (s / k) m
  let hi := ratMax (2 * s / k) m
  let sorted := sortDesc v items
  match multifitSearch v k sorted iterations lo hi with
  | .error e => .error e
  | .ok cap => ffOnline v (floorNat cap) sorted

/-! ### prtpy/packing/greedy_covering.py -/

/-- body of the loop of `decreasing_subroutine` -/
def coverStep (v : α → Nat) (B : Nat) (b : Bins α) (x : α) : Bins α :=
  let b' := b.addLast v x
  if B ≤ b'.lastSum then b'.addEmpty 1 else b'

/-- `decreasing_subroutine(binner, bins, binsize, sorted_items)` -/
def decrSub (v : α → Nat) (B : Nat) (b : Bins α) (items : List α) : Bins α :=
  items.foldl (coverStep v B) b

/-- `greedy_covering.decreasing(binner, binsize, items)` -/
def coverDecreasing (v : α → Nat) (B : Nat) (items : List α) : Bins α :=
  (decrSub v B (Bins.new 1) (sortDesc v items)).removeLast 1

/-! ### prtpy/packing/cflz_covering.py -/

/-- `while len(items)>0 and sums[-1]<binsize: add items[-1]; del items[-1]`.
    `items` is in non-increasing order, so the smallest is last. Fuel = `items.length` suffices. -/
def fillFromSmall (v : α → Nat) (B : Nat) : Nat → Bins α → List α → Bins α × List α
  | 0, b, items => (b, items)
  | fuel + 1, b, items =>
    if b.lastSum < B then
      match items.getLast? with
      | none => (b, items)
      | some x => fillFromSmall v B fuel (b.addLast v x) items.dropLast
    else (b, items)

/-- `if sums[-1] >= binsize: bins = add_empty_bins(bins, 1)` -/
def closeIfFull (B : Nat) (b : Bins α) : Bins α :=
  if B ≤ b.lastSum then b.addEmpty 1 else b

/-- the outer `while len(items)>0` loop of `twothirds` -/
def twoThirdsLoop (v : α → Nat) (B : Nat) : Nat → Bins α → List α → Bins α
  | 0, b, _ => b
  | _ + 1, b, [] => b
  | fuel + 1, b, x :: rest =>
    let r := fillFromSmall v B rest.length (b.addLast v x) rest
    twoThirdsLoop v B fuel (closeIfFull B r.1) r.2

/-- `cflz_covering.twothirds(binner, binsize, items)` -/
def twoThirds (v : α → Nat) (B : Nat) (items : List α) : Bins α :=
  let s := sortDesc v items
  (twoThirdsLoop v B s.length (Bins.new 1) s).removeLast 1

/-- item classes of `threequarters`: X (`binsize/2 <= value`), Y, Z (`value < binsize/3`). -/
def isBig (v : α → Nat) (B : Nat) (x : α) : Bool := decide (B ≤ 2 * v x)
def isMedium (v : α → Nat) (B : Nat) (x : α) : Bool := decide (B ≤ 3 * v x) && decide (2 * v x < B)
def isSmall (v : α → Nat) (B : Nat) (x : α) : Bool := decide (3 * v x < B)

/-- the `while True` loop of `threequarters` (as it is after fix F3: values, not names, are summed) -/
def threeQuartersLoop (v : α → Nat) (B : Nat) : Nat → Bins α → List α → List α → List α → Bins α
  | 0, b, _, _, _ => b
  | fuel + 1, b, big, med, small =>
    if small.isEmpty then decrSub v B (decrSub v B b big) med
    else if big.isEmpty && med.isEmpty then decrSub v B b small
    else
      let bigTake := big.take 1
      let medTake := med.take 2
      let useBig : Bool := decide (binSum v medTake ≤ binSum v bigTake)
      let b1 := if useBig then bigTake.foldl (Bins.addLast v) b else medTake.foldl (Bins.addLast v) b
      let big1 := if useBig then big.drop 1 else big
      let med1 := if useBig then med else med.drop 2
      let r := fillFromSmall v B small.length b1 small
      threeQuartersLoop v B fuel (closeIfFull B r.1) big1 med1 r.2

/-- `cflz_covering.threequarters(binner, binsize, items)` -/
def threeQuarters (v : α → Nat) (B : Nat) (items : List α) : Bins α :=
  let s := sortDesc v items
  (threeQuartersLoop v B (s.length + 1) (Bins.new 1)
      (s.filter (isBig v B)) (s.filter (isMedium v B)) (s.filter (isSmall v B))).removeLast 1

end Prtpy
