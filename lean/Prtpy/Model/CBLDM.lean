/-
  Prtpy.Model.CBLDM — partitioning/cbldm.py (after argument validation).
  The time limit is modelled by `cut`: under a counting clock, `time_limit = c` makes the c-th call of
  `part` (and every later one) return at once.
-/
import Prtpy.Bins
import Prtpy.Objectives
namespace Prtpy

variable {α : Type}

structure CbState (α : Type) where
  best : Option (Bins α)      -- `none` = the placeholder `([0, inf], [0, inf])`
  sd : Option Nat             -- sum_delta; `none` = inf
  opt : Bool                  -- is_optimal
  tick : Nat                  -- number of calls of `part` so far

def absDiff (a b : Nat) : Nat := if a ≤ b then b - a else a - b

/-- `sum_difference(binner, bins)` -/
def sumDiff (b : Bins α) : Nat := absDiff (b.sums.getD 0 0) (b.sums.getD 1 0)

/-- `len_difference(binner, bins)` -/
def lenDiff (b : Bins α) : Nat := absDiff (b.lists.getD 0 []).length (b.lists.getD 1 []).length

/-- `[small, big] + [small, big] -> [small + small, big + big]`, then sorted -/
def cbCombine (a b : Bins α) : Bins α :=
  (Bins.mk [a.sums.getD 0 0 + b.sums.getD 0 0, a.sums.getD 1 0 + b.sums.getD 1 0]
           [a.lists.getD 0 [] ++ b.lists.getD 0 [], a.lists.getD 1 [] ++ b.lists.getD 1 []]).sortAsc

/-- bin 0 = a[1] + b[0], bin 1 = a[0] + b[1], then sorted -/
def cbSplit (a b : Bins α) : Bins α :=
  (Bins.mk [a.sums.getD 1 0 + b.sums.getD 0 0, a.sums.getD 0 0 + b.sums.getD 1 0]
           [a.lists.getD 1 [] ++ b.lists.getD 0 [], a.lists.getD 0 [] ++ b.lists.getD 1 []]).sortAsc

/-- `x < sd` where `sd = none` is +inf -/
def ltInf (x : Nat) (sd : Option Nat) : Bool := match sd with | none => true | some s => decide (x < s)

/-- `CBLDM_algo.part(sub_partitions)`; `n` = numitems, `d` = len_delta; first argument is recursion fuel -/
def cbPart (n d : Nat) (cut : Option Nat) : Nat → CbState α → List (Bins α) → CbState α
  | 0, st, _ => st
  | fuel + 1, st, subs =>
    let st := { st with tick := st.tick + 1 }
    let timeUp : Bool := match cut with | none => false | some c => decide (c ≤ st.tick)
    if timeUp || st.opt then st else
    match subs with
    | [] => st
    | [p] =>
      if decide (lenDiff p ≤ d) && ltInf (sumDiff p) st.sd then
        { st with best := some p, sd := some (sumDiff p), opt := decide (sumDiff p = 0) }
      else st
    | _ =>
      let xs := subs.map sumDiff
      let ms := subs.map lenDiff
      -- `2 * max_x - sum_xi >= self.sum_delta`, i.e. `sum_delta + sum_xi ≤ 2 * max_x` (sum_delta = inf: false)
      if (match st.sd with | none => false | some s => decide (s + sumL xs ≤ 2 * maxL xs)) then st else
      if decide (sumL ms + d < 2 * maxL ms) then st else
      let subs := if decide (subs.length ≤ (n + 1) / 2) then sortDesc sumDiff subs else subs
      match subs with
      | a :: b :: rest =>
        let st1 := cbPart n d cut fuel st (rest ++ [cbSplit a b])
        cbPart n d cut fuel st1 (rest ++ [cbCombine a b])
      | _ => st

/-- `cbldm(binner, 2, items, time_limit, partition_difference)` for valid arguments and non-empty items.
    `d = none` is the default `sys.maxsize`. Result `none` = the placeholder. -/
def cbldm (v : α → Nat) (items : List α) (d : Option Nat) (cut : Option Nat) : Option (Bins α) :=
  let sorted := sortDesc v items
  let n := sorted.length
  let subs := sorted.map fun x => (Bins.new 2).add v x 1
  let dd := d.getD (n + 1)       -- any bound ≥ n never binds
  (cbPart n dd cut (n + 1) { best := none, sd := none, opt := false, tick := 0 } subs).best

end Prtpy
