/-
  Prtpy.Model.SNPTrace — the two recursive partitioners `snp` (Model/SNP.lean) and `rnp` after F8–F10 (Model/RNP.lean)
  with the trace of their search: the same functions returning, next to their result, the list of the calls of the
  two-way solvers in the order the code makes them,

    * `ckk_optimal(binner=…, numbins=2, items=items)`                                        → `SEvent.optimal vals`
    * `ckk_generator(binner=ckk_binner, numbins=2, items=items, best_difference_so_far=-d0)`  → `SEvent.generator vals d0`

  (`vals` = the values of `items` in the order passed).  The harness records the same calls on the implementation by
  wrapping the module-level names `ckk_optimal` / `ckk_generator` from outside, and compares.  An event is emitted
  whenever the code reaches the call expression, also when the call then raises (empty `items`: `max([])` inside
  `optimal`, or at the first `next` of the generator) and the model short-circuits in `ckk2` / on `items.isEmpty`.
  The result is a pair: when the result is an error, the second component is the trace up to the error.

  The order of `items`.  `find_diff(l1, l2)` is `list((Counter(l1) - Counter(l2)).elements())`: it *groups equal items
  together* (in the order of their first occurrences in `l1`).  The untraced model uses the order-preserving `findDiff`,
  which no output can tell from the real thing (every consumer first sorts by value, stably, and equal items are the
  same object; for distinct names the two coincide), but a trace of the `items` passed can.  The traced functions
  therefore carry one more argument, `shown`: the list `items` exactly as Python holds it (`findDiffC` instead of
  `findDiff`); it is only ever used to fill the events.

  `PrtpyProofs/SNPTraceProofs.lean` proves that dropping the trace gives `snp` / `rnpF`.
-/
import Prtpy.Model.RNP
namespace Prtpy

variable {α : Type}

/-- a call of one of the two 2-way solvers: the values of the items passed, in the order passed, and for the
    generator the bound `d0` (the code passes `best_difference_so_far = -d0`) -/
inductive SEvent where
  | optimal (vals : List Nat)
  | generator (vals : List Nat) (bound : Nat)
  deriving Repr, DecidableEq, Inhabited

abbrev STrace := List SEvent

/-- the distinct elements of a list in the order of their first occurrences (the keys of `Counter(l)`) -/
def firstOccs [BEq α] : List α → List α → List α
  | [], _ => []
  | x :: xs, seen => if seen.contains x then firstOccs xs seen else x :: firstOccs xs (x :: seen)

/-- `find_diff(l1, l2)` literally: `list((Counter(l1) - Counter(l2)).elements())` -/
def findDiffC [BEq α] (l1 l2 : List α) : List α :=
  (firstOccs l1 []).flatMap (fun x => List.replicate (l1.count x - l2.count x) x)

/-- `treeFold` whose body also returns a trace -/
def treeFoldT {σ : Type} (v : α → Nat) (den : Nat) (ub : Int) (lbOf : σ → Int)
    (body : σ → List α → Except Err σ × STrace) : σ → List α → List α → Except Err σ × STrace
  | st, cur, [] => if inexPrune v den (lbOf st) ub cur [] then (.ok st, []) else body st cur
  | st, cur, x :: xs =>
    if inexPrune v den (lbOf st) ub cur (x :: xs) then (.ok st, [])
    else
      match treeFoldT v den ub lbOf body st (cur ++ [x]) xs with
      | (.error e, tr) => (.error e, tr)
      | (.ok st1, tr) =>
        let r := treeFoldT v den ub lbOf body st1 cur xs
        (r.1, tr ++ r.2)

/-- `foldE` whose step also returns a trace -/
def foldET {σ β : Type} (f : σ → β → Except Err σ × STrace) : σ → List β → Except Err σ × STrace
  | s, [] => (.ok s, [])
  | s, x :: xs =>
    match f s x with
    | (.error e, tr) => (.error e, tr)
    | (.ok s', tr) =>
      let r := foldET f s' xs
      (r.1, tr ++ r.2)

/-- `snpRec` with its trace; `shown` is `items` in Python's order -/
def snpRecT (v nm : α → Nat) [BEq α] (contents : Bool) (fuel : Nat) :
    Nat → Bins α → Bins α → List α → List α → Except Err (Bins α) × STrace
  | 0, _, best, _, _ => (.ok best, [])
  | 1, _, best, _, _ => (.ok best, [])
  | 2, prior, best, items, shown =>
    (match ckk2 v nm contents items fuel with
     | .error e => .error e
     | .ok two =>
       if spread (two.sums ++ prior.sums) < spread best.sums then .ok (two.concat prior) else .ok best,
     [.optimal (shown.map v)])
  | cur + 3, prior, best, items, shown =>
    let c := cur + 3
    let t : Int := (binSum v items : Nat)
    treeFoldT v c t (fun (b : Bins α) => t - ((c : Int) - 1) * (spread b.sums : Nat))
      (fun b sub =>
        let prior' : Bins α := ⟨prior.sums ++ [binSum v sub], prior.lists ++ [sub]⟩
        snpRecT v nm contents fuel (cur + 2) prior' b (findDiff items sub) (findDiffC shown sub))
      best [] (sortDesc v items)

/-- `snp(binner, numbins, items)` with the trace of its `ckk_optimal` calls (empty when KK's start is perfect) -/
def snpT (v nm : α → Nat) [BEq α] (k : Nat) (contents : Bool) (items : List α) (fuel : Nat) :
    Except Err (Bins α) × STrace :=
  match kk v k items with
  | .error e => (.error e, [])
  | .ok best =>
    if spread best.sums = 0 then (.ok best, [])
    else snpRecT v nm contents fuel k ⟨[], []⟩ best items items

/-- `rnpRecF` with its trace; `shown` is `items` in Python's order -/
def rnpRecFT (v nm : α → Nat) [BEq α] (contents : Bool) (fuel : Nat) :
    Nat → Nat → Bins α → Bins α → List α → List α → Except Err (Bins α) × STrace
  | 0, _, _, _, _, _ => (.error .fuel, [])
  | rf + 1, cur, prior, best, items, shown =>
    if cur == 2 then (ckk2 v nm contents items fuel, [.optimal (shown.map v)])
    else if cur % 2 == 1 then
      let t : Int := (binSum v items : Nat)
      let d0 := spread best.sums
      let subs := genTree v cur (t - ((cur : Int) - 1) * (d0 : Nat)) t items
      foldET (fun (best : Bins α) sub =>
          let prior2 : Bins α := ⟨prior.sums ++ [binSum v sub], prior.lists ++ [sub]⟩
          match rnpRecFT v nm contents fuel rf (cur - 1) prior2 best (findDiff items sub) (findDiffC shown sub) with
          | (.error e, tr) => (.error e, tr)
          | (.ok nb, tr) =>
            (if spread (nb.sums ++ prior2.sums) < spread best.sums then .ok (prior2.concat nb) else .ok best, tr))
        best subs
    else
      let d0 := spread best.sums
      let ev : SEvent := .generator (shown.map v) d0
      match (if items.isEmpty then .error .valueError else ckkGen v nm 2 true items (some d0) fuel) with
      | .error e => (.error e, [ev])
      | .ok tops =>
        let r := foldET (fun (st : Bins α × Nat) top =>
            let i1 := top.lists.getD 0 []
            let i2 := top.lists.getD 1 []
            match rnpRecFT v nm contents fuel rf (cur / 2) prior st.1 i1 i1 with
            | (.error e, tr1) => (.error e, tr1)
            | (.ok nb1, tr1) =>
              match rnpRecFT v nm contents fuel rf (cur / 2) prior st.1 i2 i2 with
              | (.error e, tr2) => (.error e, tr1 ++ tr2)
              | (.ok nb2, tr2) =>
                let d := spread (nb1.sums ++ nb2.sums ++ prior.sums)
                (if d < st.2 then .ok (nb1.concat nb2, d) else .ok st, tr1 ++ tr2))
          (best, d0) tops
        (r.1.map (·.1), ev :: r.2)

/-- `rnp(binner, numbins, items)` (after F10, `numbins ≤ 5`) with the trace of its `ckk_optimal` / `ckk_generator`
    calls (empty when KK's start is perfect, and for `numbins ≥ 6`, which is not modelled) -/
def rnpFT (v nm : α → Nat) [BEq α] (k : Nat) (contents : Bool) (items : List α) (fuel : Nat) :
    Except Err (Bins α) × STrace :=
  match kk v k items with
  | .error e => (.error e, [])
  | .ok best =>
    if spread best.sums = 0 then (.ok best, [])
    else if k ≥ 6 then (.error .notImplemented, [])
    else rnpRecFT v nm contents fuel (k + 1) k ⟨[], []⟩ best items items

end Prtpy
