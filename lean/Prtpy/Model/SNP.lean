/-
  Prtpy.Model.SNP — inclusion_exclusion_tree.py, sequential_number_partitioning_sy.py (`snp`),
  recursive_number_partitioning_sy.py (`rnp`, as it is after fixes F8/F9, for numbins ≤ 5).

  Window bounds are rationals `num/den` compared by exact cross-multiplication (DESIGN §3).
-/
import Prtpy.Model.KK
import Prtpy.Model.CKKF
namespace Prtpy

variable {α : Type}

/-- the prune test of `rec_generate_tree`:
    `sum(cur_set) > upper_bound or sum(cur_set + remaining) < lower_bound`, bounds being `ub/den`, `lb/den` -/
def inexPrune (v : α → Nat) (den : Nat) (lb ub : Int) (cur rest : List α) : Bool :=
  let s : Int := (binSum v cur : Nat)
  let r : Int := (binSum v rest : Nat)
  decide (ub < s * den) || decide ((s + r) * den < lb)

/-- `InExclusionBinTree(items, valueof, upper_bound, lower_bound).generate_tree()` with fixed bounds;
    `rest` must be the items sorted by descending value, `cur = []` at the root. -/
def genTreeAux (v : α → Nat) (den : Nat) (lb ub : Int) : List α → List α → List (List α)
  | cur, [] => if inexPrune v den lb ub cur [] then [] else [cur]
  | cur, x :: xs =>
    if inexPrune v den lb ub cur (x :: xs) then []
    else genTreeAux v den lb ub (cur ++ [x]) xs ++ genTreeAux v den lb ub cur xs

def genTree (v : α → Nat) (den : Nat) (lb ub : Int) (items : List α) : List (List α) :=
  genTreeAux v den lb ub [] (sortDesc v items)

/-- The same traversal as a fold whose lower bound is re-read from the state at every node
    (SNP mutates `tree.lower_bound` while the generator is suspended).  Errors short-circuit. -/
def treeFold {σ : Type} (v : α → Nat) (den : Nat) (ub : Int) (lbOf : σ → Int)
    (body : σ → List α → Except Err σ) : σ → List α → List α → Except Err σ
  | st, cur, [] => if inexPrune v den (lbOf st) ub cur [] then .ok st else body st cur
  | st, cur, x :: xs =>
    if inexPrune v den (lbOf st) ub cur (x :: xs) then .ok st
    else
      match treeFold v den ub lbOf body st (cur ++ [x]) xs with
      | .error e => .error e
      | .ok st1 => treeFold v den ub lbOf body st1 cur xs

/-- `find_diff(items, sub)`: multiset difference (`Counter(l1) - Counter(l2)`).  For distinct names this is
    an order-preserving filter; for list input (name = value) Python's `Counter.elements()` additionally groups
    equal values together, which no consumer can observe because every consumer first sorts by value (stably)
    and equal values are identical objects. -/
def findDiff [BEq α] (items sub : List α) : List α := sub.foldl (fun acc x => acc.erase x) items

def spread (sums : List Nat) : Nat := maxL sums - minL sums

/-- 2-way CKK as SNP/RNP call it (`optimal(binner, 2, items)`, i.e. `ckkF`: the code after fix F11); on an empty
    item list the real code raises ValueError (`max([])`) -/
def ckk2 (v nm : α → Nat) [BEq α] (contents : Bool) (items : List α) (fuel : Nat) : Except Err (Bins α) :=
  if items.isEmpty then .error .valueError else ckkF v nm 2 contents items fuel

/-- `sequential_number_partitioning_sy.rec_generate_sets`; state = best partition so far -/
def snpRec (v nm : α → Nat) [BEq α] (contents : Bool) (fuel : Nat) :
    Nat → Bins α → Bins α → List α → Except Err (Bins α)
  | 0, _, best, _ => .ok best
  | 1, _, best, _ => .ok best
  | 2, prior, best, items =>
    match ckk2 v nm contents items fuel with
    | .error e => .error e
    | .ok two =>
      if spread (two.sums ++ prior.sums) < spread best.sums then .ok (two.concat prior) else .ok best
  | cur + 3, prior, best, items =>
    let c := cur + 3
    let t : Int := (binSum v items : Nat)
    treeFold v c t (fun (b : Bins α) => t - ((c : Int) - 1) * (spread b.sums : Nat))
      (fun b sub =>
        let prior' : Bins α := ⟨prior.sums ++ [binSum v sub], prior.lists ++ [sub]⟩
        snpRec v nm contents fuel (cur + 2) prior' b (findDiff items sub))
      best [] (sortDesc v items)

/-- `snp(binner, numbins, items)` -/
def snp (v nm : α → Nat) [BEq α] (k : Nat) (contents : Bool) (items : List α) (fuel : Nat) : Except Err (Bins α) :=
  match kk v k items with
  | .error e => .error e
  | .ok best =>
    if spread best.sums = 0 then .ok best
    else snpRec v nm contents fuel k ⟨[], []⟩ best items

/-! ### RNP (numbins ≤ 5) -/

/-- fold with early error exit -/
def foldE {σ β : Type} (f : σ → β → Except Err σ) : σ → List β → Except Err σ
  | s, [] => .ok s
  | s, x :: xs => match f s x with
    | .error e => .error e
    | .ok s' => foldE f s' xs

/-- `recursive_number_partitioning_sy.rec_generate_sets` after F8/F9.  `rf` is recursion fuel
    (current_numbins at least halves or decreases at every level), `fuel` is for the CKK searches. -/
def rnpRec (v nm : α → Nat) [BEq α] (contents : Bool) (fuel : Nat) :
    Nat → Nat → Bins α → Bins α → List α → Except Err (Bins α)
  | 0, _, _, _, _ => .error .fuel
  | rf + 1, cur, prior, best, items =>
    if cur == 2 then ckk2 v nm contents items fuel
    else if cur % 2 == 1 then
      let t : Int := (binSum v items : Nat)
      let d0 := spread best.sums
      let subs := genTree v cur (t - ((cur : Int) - 1) * (d0 : Nat)) t items
      foldE (fun (best : Bins α) sub =>
          let prior2 : Bins α := ⟨prior.sums ++ [binSum v sub], prior.lists ++ [sub]⟩
          match rnpRec v nm contents fuel rf (cur - 1) prior2 best (findDiff items sub) with
          | .error e => .error e
          | .ok nb =>
            if spread (nb.sums ++ prior2.sums) < spread best.sums then .ok (prior2.concat nb) else .ok best)
        best subs
    else
      let d0 := spread best.sums
      -- the top-level 2-way generator always runs with a contents-keeping manager
      match (if items.isEmpty then .error .valueError else ckkGen v nm 2 true items (some d0) fuel) with
      | .error e => .error e
      | .ok tops =>
        (foldE (fun (st : Bins α × Nat) top =>
            let i1 := top.lists.getD 0 []
            let i2 := top.lists.getD 1 []
            match rnpRec v nm contents fuel rf (cur / 2) prior st.1 i1 with
            | .error e => .error e
            | .ok nb1 =>
              match rnpRec v nm contents fuel rf (cur / 2) prior st.1 i2 with
              | .error e => .error e
              | .ok nb2 =>
                let d := spread (nb1.sums ++ nb2.sums)
                if d < st.2 then .ok (nb1.concat nb2, d) else .ok st)
          (best, d0) tops).map (·.1)

/-- `rnp(binner, numbins, items)` for `numbins ≤ 5`.
    For `numbins ≥ 6` (and KK not already perfect) the real code computes `current_numbins/2` as a float and
    indexes the prior bins with it: it mostly fails with IndexError (known finding KF1) and is **not modelled**;
    the model answers `notImplemented` there and the harness judges the implementation's output directly. -/
def rnp (v nm : α → Nat) [BEq α] (k : Nat) (contents : Bool) (items : List α) (fuel : Nat) : Except Err (Bins α) :=
  match kk v k items with
  | .error e => .error e
  | .ok best =>
    if spread best.sums = 0 then .ok best
    else if k ≥ 6 then .error .notImplemented
    else rnpRec v nm contents fuel (k + 1) k ⟨[], []⟩ best items

end Prtpy
