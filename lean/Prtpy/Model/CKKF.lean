/-
  Prtpy.Model.CKKF — `complete_karmarkar_karp_sy.optimal` as it is after fix F11.

  Before F11 the search tree of `optimal` depended on the bins-manager: `all_combinations` of the sums-only manager
  de-duplicates on the vector of sums, that of the contents manager on the tuple of contents, so the two managers
  explored different trees and stopped at different optimal leaves (`Prtpy.ckk`, Model/KK.lean, is that code; it is
  kept because the refutations in PrtpyProofs/CKKDedupe.lean are about it, and because `ckkGen` — the generator used
  by snp and rnp, which F11 does not touch — shares its step function).

  F11 adds, in `optimal` only, a filter on the combinations:

      sums_seen = set()
      for new_bins in binner.all_combinations(bins1, bins2):
          new_sums = tuple(sorted(binner.sums(new_bins)))
          if new_sums in sums_seen: continue
          sums_seen.add(new_sums)
          ...

  With the sums-only manager the filter changes nothing; with the contents manager it keeps the first combination of
  every vector of sums, which is the combination the sums-only manager would have produced.
-/
import Prtpy.Model.KK
namespace Prtpy
variable {α : Type}

/-- the `sums_seen` filter: keep the first bins-array of every (sorted) vector of sums, in order -/
def dedupSumsAux : List (Bins α) → List (List Nat) → List (Bins α)
  | [], _ => []
  | b :: rest, seen =>
    let key := sortAsc id b.sums
    if seen.contains key then dedupSumsAux rest seen else b :: dedupSumsAux rest (key :: seen)

def dedupSums (l : List (Bins α)) : List (Bins α) := dedupSumsAux l []

/-- one iteration of the `while stack` loop of `optimal` (no generator mode: the incumbent is always updated) -/
def ckkStepF (nm : α → Nat) [BEq α] (k : Nat) (contents : Bool) (s : CkkState α) : CkkState α :=
  match s.stack with
  | [] => { s with done := true }
  | h :: stack =>
    let s := { s with stack := stack }
    let pruned : Bool := match ckkBound h k with
      | none => false
      | some lb => EInt.le (.fin lb) s.best
    if pruned then s else
    if h.length == 1 then
      let d : Int := -((topDiffOf h : Nat) : Int)
      if EInt.lt s.best (.fin d) then
        let bp := (htop h).map (·.bins)
        let s := { s with best := .fin d, bestP := bp,
                          yields := match bp with | some b => b :: s.yields | none => s.yields }
        if d == 0 then { s with done := true } else s
      else s
    else
      match hpop h with
      | none => s
      | some (e1, h1) =>
        match hpop h1 with
        | none => s
        | some (e2, h2) =>
          let combs := dedupSums (allComb nm contents e1.bins e2.bins)
          let r := combs.foldl (fun (acc : List (Heap α) × Nat) nb =>
                      let p := hpush h2 acc.2 nb; (acc.1 ++ [p.1], p.2)) ([], s.cnt)
          let ext := sortDesc topDiffOf r.1
          { s with stack := ext.reverse ++ s.stack, cnt := r.2 }

def ckkRunF (nm : α → Nat) [BEq α] (k : Nat) (contents : Bool) : Nat → CkkState α → CkkState α
  | 0, s => s
  | fuel + 1, s => if s.done then s else ckkRunF nm k contents fuel (ckkStepF nm k contents s)

/-- `complete_karmarkar_karp_sy.optimal(binner, numbins, items)` after F11 -/
def ckkF (v nm : α → Nat) [BEq α] (k : Nat) (contents : Bool) (items : List α) (fuel : Nat) : Except Err (Bins α) :=
  let s := ckkRunF nm k contents fuel (ckkInit v k items .negInf)
  if !s.done then .error .fuel else
  match s.bestP with
  | none => .error .indexError
  | some b => .ok b.sortAsc

end Prtpy

/-! ### the search of `optimal` with its trace

`ckkRunFT` is `ckkRunF` carrying one more accumulator: for every heap popped from the stack, its number of bins-arrays,
the sorted list of all their sums, and the value `_possible_partition_difference_lower_bound` computes for it — what the
harness records on the implementation by wrapping that function.  `CKKF.ckkRunFT_fst` (PrtpyProofs/CKKF.lean … CKKFTrace.lean)
proves that dropping the trace gives `ckkRunF`. -/
namespace Prtpy
variable {α : Type}

abbrev CkkTrace := List (Nat × List Nat × Option Int)

def ckkTraceEntry (h : Heap α) (k : Nat) : Nat × List Nat × Option Int :=
  (h.length, sortAsc id (h.flatMap (·.bins.sums)), ckkBound h k)

def ckkRunFT (nm : α → Nat) [BEq α] (k : Nat) (contents : Bool) : Nat → CkkState α → CkkTrace → CkkState α × CkkTrace
  | 0, s, tr => (s, tr)
  | fuel + 1, s, tr =>
    if s.done then (s, tr)
    else
      let tr' := match s.stack with
        | [] => tr
        | h :: _ => tr ++ [ckkTraceEntry h k]
      ckkRunFT nm k contents fuel (ckkStepF nm k contents s) tr'

/-- `optimal` after F11 together with the trace of its search -/
def ckkFT (v nm : α → Nat) [BEq α] (k : Nat) (contents : Bool) (items : List α) (fuel : Nat) :
    Except Err (Bins α) × CkkTrace :=
  let r := ckkRunFT nm k contents fuel (ckkInit v k items .negInf) []
  let s := r.1
  (if !s.done then .error .fuel else
   match s.bestP with
   | none => .error .indexError
   | some b => .ok b.sortAsc, r.2)

end Prtpy
