/-
  Prtpy.Model.KK — karmarkar_karp_sy.py (`BinsSortedByMaxDiff`, `kk`),
  binners.py `all_combinations` (both managers), complete_karmarkar_karp_sy.py (`optimal`, `generator`).

  Heap discipline (DESIGN §3): entries are `(-diff, count, bins)`; `heapq` pops the entry with the largest
  diff, earliest push first (counts are unique and increasing, so bins are never compared).  The heap is
  modelled as a list of entries; `pop` selects by that order.  The push counter is shared between a heap
  and all its clones (`the_clone.heap_count = self.heap_count`), so it is threaded through the search.
-/
import Prtpy.Bins
import Prtpy.Objectives
namespace Prtpy

variable {α : Type}

structure HEntry (α : Type) where
  diff : Nat
  cnt : Nat
  bins : Bins α

abbrev Heap (α : Type) := List (HEntry α)

/-- `e1` is popped before `e2` -/
def HEntry.before (e1 e2 : HEntry α) : Bool :=
  decide (e2.diff < e1.diff) || (decide (e1.diff = e2.diff) && decide (e1.cnt < e2.cnt))

/-- `bins_heap.push(bins)`: sorts the bins, key = largest − smallest sum -/
def hpush (h : Heap α) (cnt : Nat) (b : Bins α) : Heap α × Nat :=
  let b' := b.sortAsc
  (h ++ [⟨lastD b'.sums 0 - b'.sums.headD 0, cnt, b'⟩], cnt + 1)

/-- index of the entry that `heapq.heappop` returns -/
def hbestAux : List (HEntry α) → Nat → Nat → HEntry α → Nat
  | [], _, bi, _ => bi
  | e :: es, i, bi, be => if e.before be then hbestAux es (i + 1) i e else hbestAux es (i + 1) bi be

def hbest (h : Heap α) : Option (Nat × HEntry α) :=
  match h with
  | [] => none
  | e :: es => let i := hbestAux es 1 0 e; (h[i]?).map fun x => (i, x)

/-- `bins_heap.top()` -/
def htop (h : Heap α) : Option (HEntry α) := (hbest h).map (·.2)

/-- `bins_heap.pop()` -/
def hpop (h : Heap α) : Option (HEntry α × Heap α) :=
  (hbest h).map fun (i, e) => (e, removeAt h i)

/-- a k-tuple with `x` alone in the last bin: `add_item_to_bin(new_bins(k), x, k-1)` -/
def single (v : α → Nat) (k : Nat) (x : α) : Bins α := (Bins.new k).add v x (k - 1)

/-- push a singleton tuple for every item of the (sorted) list -/
def pushAll (v : α → Nat) (k : Nat) : List α → Heap α → Nat → Heap α × Nat
  | [], h, c => (h, c)
  | x :: xs, h, c => let r := hpush h c (single v k x); pushAll v k xs r.1 r.2

/-- `for i in range(k): combine_bins(bins1, k-i-1, bins2, i)`:
    smallest of one with largest of the other -/
def kkCombine (b1 b2 : Bins α) : Bins α :=
  ⟨List.zipWith (· + ·) b1.sums b2.sums.reverse, List.zipWith (· ++ ·) b1.lists b2.lists.reverse⟩

/-- the `for _ in range(numitems-1)` loop -/
def kkLoop : Nat → Heap α → Nat → Heap α
  | 0, h, _ => h
  | n + 1, h, c =>
    match hpop h with
    | none => h
    | some (e1, h1) =>
      match hpop h1 with
      | none => h
      | some (e2, h2) => let r := hpush h2 c (kkCombine e1.bins e2.bins); kkLoop n r.1 r.2

/-- `kk(binner, numbins, items)`; an empty item list makes `bins_heap.top()` raise IndexError -/
def kk (v : α → Nat) (k : Nat) (items : List α) : Except Err (Bins α) :=
  let s := sortDesc v items
  let r := pushAll v k s [] 0
  match htop (kkLoop (s.length - 1) r.1 r.2) with
  | none => .error .indexError
  | some e => .ok e.bins

/-! ### all_combinations -/

/-- Bins obtained by pairing bin `perm[i]` of `b1` with bin `i` of `b2`. -/
def pairBy (b1 b2 : Bins α) (perm : List Nat) : Bins α :=
  ⟨List.zipWith (fun p s2 => b1.sums.getD p 0 + s2) perm b2.sums,
   List.zipWith (fun p l2 => b1.lists.getD p [] ++ l2) perm b2.lists⟩

/-- `BinnerKeepingSums.all_combinations`: yields sorted sum-vectors, de-duplicated, in generation order. -/
def allCombSumsAux (b1 b2 : List Nat) : List (List Nat) → List (List Nat) → List (List Nat)
  | [], acc => acc.reverse
  | perm :: rest, acc =>
    let s := sortAsc id (List.zipWith (fun p s2 => b1.getD p 0 + s2) perm b2)
    if acc.contains s then allCombSumsAux b1 b2 rest acc else allCombSumsAux b1 b2 rest (s :: acc)

def allCombSums (b1 b2 : List Nat) : List (List Nat) :=
  allCombSumsAux b1 b2 (lexPerms (List.range b1.length)) []

/-- `BinnerKeepingContents.all_combinations`: every bin's items sorted (by name), bins sorted by sum (stable),
    de-duplicated on the tuple of contents, in generation order.  `nm` is the sort key of names. -/
def allCombContentsAux (nm : α → Nat) [BEq α] (b1 b2 : Bins α) : List (List Nat) → List (Bins α) → List (Bins α)
  | [], acc => acc.reverse
  | perm :: rest, acc =>
    let p := pairBy b1 b2 perm
    let nb := (Bins.mk p.sums (p.lists.map (sortAsc nm))).sortAsc
    if acc.any (fun o => o.lists == nb.lists) then allCombContentsAux nm b1 b2 rest acc
    else allCombContentsAux nm b1 b2 rest (nb :: acc)

def allCombContents (nm : α → Nat) [BEq α] (b1 b2 : Bins α) : List (Bins α) :=
  allCombContentsAux nm b1 b2 (lexPerms (List.range b1.sums.length)) []

/-- `binner.all_combinations(b1, b2)` for the manager in use:
    `contents = false` is the sums-only manager (lists stay empty). -/
def allComb (nm : α → Nat) [BEq α] (contents : Bool) (b1 b2 : Bins α) : List (Bins α) :=
  if contents then allCombContents nm b1 b2
  else (allCombSums b1.sums b2.sums).map fun s => ⟨s, List.replicate s.length []⟩

/-! ### complete Karmarkar–Karp -/

/-- `_possible_partition_difference_lower_bound` (a non-positive number, or "no bound" when `k = 1`,
    where the float floor-division by zero yields inf/nan and the test `lower_bound <= best` is false). -/
def ckkBound (h : Heap α) (k : Nat) : Option Int :=
  if k ≤ 1 then none else
  let flat := h.flatMap (·.bins.sums)
  let m := maxL flat
  let t := sumL flat
  some (-((m : Int) - (((t - m) / (k - 1) : Nat) : Int)))

/-- insert a heap into `ext` keeping it stably sorted by descending top-diff
    (`tmp_stack_extension.sort(key=lambda heap: heap.topdiff())`, topdiff being minus the diff) -/
def topDiffOf (h : Heap α) : Nat := ((htop h).map (·.diff)).getD 0

structure CkkState (α : Type) where
  stack : List (Heap α)          -- top of the stack = head
  cnt : Nat
  best : EInt                    -- best_difference_so_far (≤ 0 or -inf)
  bestP : Option (Bins α)
  yields : List (Bins α)         -- generator output, most recent first
  done : Bool

/-- one iteration of the `while stack` loop.
    `gen`: generator mode; `isBest`: update the incumbent difference on improvement. -/
def ckkStep (nm : α → Nat) [BEq α] (k : Nat) (contents gen isBest : Bool) (s : CkkState α) : CkkState α :=
  match s.stack with
  | [] => { s with done := true }
  | h :: stack =>
    let s := { s with stack := stack }
    let pruned : Bool := match ckkBound h k with
      | none => false
      | some lb => EInt.le (.fin lb) s.best
    if pruned then s else
    if h.length == 1 then
      let d : Int := -((topDiffOf h : Nat) : Int)
      if EInt.lt s.best (.fin d) then
        let bp := (htop h).map (·.bins)
        let s := { s with best := if isBest || !gen then .fin d else s.best, bestP := bp,
                          yields := match bp with | some b => b :: s.yields | none => s.yields }
        if d == 0 && (isBest || !gen) then { s with done := true } else s
      else s
    else
      match hpop h with
      | none => s
      | some (e1, h1) =>
        match hpop h1 with
        | none => s
        | some (e2, h2) =>
          let combs := allComb nm contents e1.bins e2.bins
          -- push each combination on a clone; the counter is shared
          let r := combs.foldl (fun (acc : List (Heap α) × Nat) nb =>
                      let p := hpush h2 acc.2 nb; (acc.1 ++ [p.1], p.2)) ([], s.cnt)
          let ext := sortDesc topDiffOf r.1
          -- stack.extend(ext): the last element of ext is popped first
          { s with stack := ext.reverse ++ s.stack, cnt := r.2 }

def ckkRun (nm : α → Nat) [BEq α] (k : Nat) (contents gen isBest : Bool) : Nat → CkkState α → CkkState α
  | 0, s => s
  | fuel + 1, s => if s.done then s else ckkRun nm k contents gen isBest fuel (ckkStep nm k contents gen isBest s)

def ckkInit (v : α → Nat) (k : Nat) (items : List α) (best : EInt) : CkkState α :=
  let r := pushAll v k (sortDesc v items) [] 0
  { stack := [r.1], cnt := r.2, best := best, bestP := none, yields := [], done := false }

/-- `complete_karmarkar_karp_sy.optimal(binner, numbins, items)` AS IT WAS BEFORE FIX F11 (the current code is `ckkF`,
    Model/CKKF.lean; this definition is kept for the refutations in PrtpyProofs/CKKDedupe.lean and shares `ckkStep` with the
    generator `ckkGen`, which F11 does not touch).
    `none` result with exhausted fuel is reported as `Err.fuel`.  On an empty item list Python raises ValueError (`max([])`
    in the lower bound); the model answers `Err.indexError` there — outside every property's domain (non-empty input), and
    `ckk2`, the only caller, guards the empty list itself. -/
def ckk (v nm : α → Nat) [BEq α] (k : Nat) (contents : Bool) (items : List α) (fuel : Nat) : Except Err (Bins α) :=
  let s := ckkRun nm k contents false true fuel (ckkInit v k items .negInf)
  if !s.done then .error .fuel else
  match s.bestP with
  | none => .error .indexError
  | some b => .ok b.sortAsc

/-- `complete_karmarkar_karp_sy.generator(binner, numbins, items, best_difference_so_far)`:
    the sequence of yielded partitions.  `bound = none` is the default `-inf` (improve-only mode). -/
def ckkGen (v nm : α → Nat) [BEq α] (k : Nat) (contents : Bool) (items : List α) (bound : Option Nat) (fuel : Nat) :
    Except Err (List (Bins α)) :=
  let best : EInt := match bound with | none => .negInf | some d => .fin (-(d : Int))
  let s := ckkRun nm k contents true bound.isNone fuel (ckkInit v k items best)
  if !s.done then .error .fuel else .ok s.yields.reverse

end Prtpy
