/-
  Prtpy.Model.BinCompletion — packing/bin_completion.py and packing/bin_completion_utils.py as they are after
  fixes F5 (no stale iteration), F6 (BFD with the caller's manager) and F7 (multiset-aware dominance shortcut),
  for list input (item = value: `binCompletion`) and, after fix F15, for items with a value function (`binCompletionNamed`:
  the search runs on the values and the items are put back).
-/
import Prtpy.Model.Simple
namespace Prtpy
namespace BC

/-- `list_without_items(original, to_remove)`: remove the first occurrence of each element, if present -/
def lwi {β : Type} [BEq β] (orig rem : List β) : List β := rem.foldl (fun o x => o.erase x) orig

/-- `unique_list(lst)`: first occurrences, in order -/
def uniq {β : Type} [BEq β] (l : List β) : List β :=
  l.foldl (fun out e => if out.contains e then out else out ++ [e]) []

/-- `lower_bound(binsize, items)` = `ceil(sum / binsize)` (0 for binsize 0) -/
def lowerBound (B : Nat) (items : List Nat) : Nat := if B = 0 then 0 else (sumL items + B - 1) / B

/-- the two-pointer loop of `find_undominated_pairs` -/
def undPairsLoop (c y B : Nat) (items : List Nat) : Nat → Nat → Nat → List (List Nat) → List (List Nat)
  | 0, _, _, acc => acc.reverse
  | fuel + 1, s, e, acc =>
    if s < e then
      let t := items.getD s 0 + items.getD e 0
      if B < c + t then undPairsLoop c y B items fuel (s + 1) e acc
      else if t ≤ y then undPairsLoop c y B items fuel s (e - 1) acc
      else undPairsLoop c y B items fuel (s + 1) (e - 1) ([items.getD s 0, items.getD e 0] :: acc)
    else acc.reverse

/-- `find_undominated_pairs(constant_elements_sum, y, items, binsize)` -/
def undPairs (c y : Nat) (items : List Nat) (B : Nat) : List (List Nat) :=
  undPairsLoop c y B items items.length 0 (items.length - 1) []

/-- `itertools.product(range(n), repeat=m)` -/
def product (n : Nat) : Nat → List (List Nat)
  | 0 => [[]]
  | m + 1 => (List.range n).flatMap fun i => (product n m).map (i :: ·)

/-- totals per slot of an arrangement: element `j` of `l2` goes to slot `locs[j]` -/
def slotTotals (n : Nat) (l2 locs : List Nat) : List Nat :=
  (l2.zip locs).foldl (fun t (p : Nat × Nat) => t.modify p.2 (· + p.1)) (List.replicate n 0)

/-- `check_fits(items, arrangement)` -/
def fits (l1 totals : List Nat) : Bool := (l1.zip totals).all fun (p : Nat × Nat) => decide (p.2 ≤ p.1)

/-- `is_dominant(list1, list2)` after F7 -/
def isDom (l1 l2 : List Nat) : Bool :=
  if l2.isEmpty then true
  else if l1.isEmpty then false
  else if l2.all (fun x => decide (l2.count x ≤ l1.count x)) then true
  else if l1.headD 0 < l2.headD 0 then false
  else (product l1.length l2.length).any fun locs => fits l1 (slotTotals l1.length l2 locs)

/-- the inner `for j in range(i+1, len(completions))` loop; returns the extended `dominated` list -/
def domInner (a : List Nat) : List (List Nat) → List (List Nat) → List (List Nat)
  | [], dom => dom
  | b :: rest, dom =>
    if dom.contains b then domInner a rest dom
    else if isDom a b then domInner a rest (dom ++ [b])
    else if isDom b a then dom ++ [a]
    else domInner a rest dom

/-- the outer `for i in range(len(completions) - 1)` loop -/
def domOuter : List (List Nat) → List (List Nat) → List (List Nat)
  | [], dom => dom
  | [_], dom => dom
  | a :: rest, dom => if dom.contains a then domOuter rest dom else domOuter rest (domInner a rest dom)

/-- `check_for_dominance(completions)` -/
def checkDom (comps : List (List Nat)) : List (List Nat) :=
  if comps.length ≤ 1 then comps
  else sortDesc sumL (lwi comps (domOuter comps []))

/-- `itertools.combinations(items, r)` -/
def combs : Nat → List Nat → List (List Nat)
  | 0, _ => [[]]
  | _ + 1, [] => []
  | r + 1, x :: xs => (combs r xs).map (x :: ·) ++ combs (r + 1) xs

/-- what one feasible subset `fc` contributes to `found_completions` -/
def contrib (x y B : Nat) (items fc : List Nat) : List (List Nat) :=
  if B < x + sumL fc then []
  else
    let up := undPairs (x + sumL fc) y (lwi items fc) B
    if !up.isEmpty then
      let ext := up.map fun p => sortDesc id (p ++ fc)
      ext ++ ext
    else if !fc.isEmpty then [fc] else []

/-- `find_bin_completions(x, items, binsize)` -/
def completions (x : Nat) (items : List Nat) (B : Nat) : List (List Nat) :=
  if items.isEmpty then []
  else
    let y := (items.find? fun i => decide (x + i ≤ B)).getD 0
    if y = 0 then []
    else
      let found := [y] :: (List.range (items.length + 1)).flatMap fun r =>
        (combs r items).flatMap fun fc => contrib x y B items fc
      checkDom (uniq (sortDesc sumL found))

structure Branch where
  items : List Nat
  bins : List (List Nat)
  idx : Nat

/-- the `while cb.items` loop over one branch; returns the final branch and the branches spawned -/
def runBranch (B : Nat) (bestLen : Nat) : Nat → Branch → List Branch → Branch × List Branch
  | 0, cb, spawned => (cb, spawned)
  | fuel + 1, cb, spawned =>
    match cb.items with
    | [] => (cb, spawned)
    | x :: upd =>
      let bins := cb.bins ++ [[x]]
      let comps := completions x upd B
      let r : List (List Nat) × List Nat × List Branch :=
        match comps with
        | [] => (bins, upd, spawned)
        | c0 :: others =>
          let sp := others.foldl (fun (acc : List Branch) comp =>
              let ni := lwi upd comp
              let nb := bins.modify cb.idx (· ++ comp)
              if decide (bestLen * B ≤ nb.length * B + sumL ni) then acc else acc ++ [⟨ni, nb, cb.idx + 1⟩]) spawned
          (bins.modify cb.idx (· ++ c0), lwi upd c0, sp)
      let cb' : Branch := ⟨r.2.1, r.1, cb.idx + 1⟩
      if decide (bestLen * B ≤ cb'.bins.length * B + sumL cb'.items) then (cb', r.2.2)
      else if cb'.items.isEmpty then (cb', r.2.2)
      else runBranch B bestLen fuel cb' r.2.2

/-- the `while branches` loop (FIFO queue) -/
def search (B lb : Nat) : Nat → List Branch → List (List Nat) → List (List Nat)
  | 0, _, best => best
  | _ + 1, [], best => best
  | fuel + 1, cb :: queue, best =>
    let r := runBranch B best.length (cb.items.length + 1) cb []
    let best' := if r.1.items.isEmpty && decide (r.1.bins.length < best.length) then r.1.bins else best
    if best'.length = lb then best' else search B lb fuel (queue ++ r.2) best'

/-- `bin_completion(binner, binsize, items)` for list input; result = the bins (lists of values) -/
def binCompletion (B : Nat) (items : List Nat) (fuel : Nat) : Except Err (List (List Nat)) :=
  if items.any (fun x => decide (B < x)) then .error .valueError
  else
    let items := items.filter (· != 0)
    match bfDecreasing id B items with
    | .error e => .error e
    | .ok bfd =>
      let lb := lowerBound B items
      if bfd.lists.length = lb then .ok bfd.lists
      else .ok (search B lb fuel [⟨sortDesc id items, [], 0⟩] bfd.lists)

/-! ### named items (after fix F15): the search runs on the values, the items are put back into the bins -/

/-- `items_of_value[x].pop(0)`: the first item of `l` whose value is `x`, and `l` without it -/
def takeValue {α : Type} (v : α → Nat) (x : Nat) : List α → Option (α × List α)
  | [] => none
  | a :: l => if v a = x then some (a, l) else (takeValue v x l).map fun p => (p.1, a :: p.2)

/-- one bin of values back to items: value by value, each time the first remaining item of that value -/
def relabelBin {α : Type} (v : α → Nat) : List Nat → List α → List α × List α
  | [], rest => ([], rest)
  | x :: xs, rest =>
    match takeValue v x rest with
    | some (a, rest') => let r := relabelBin v xs rest'; (a :: r.1, r.2)
    | none => relabelBin v xs rest        -- (cannot happen for the bins of a packing of these items: `relabel_values`)

/-- all bins, in order -/
def relabel {α : Type} (v : α → Nat) : List (List Nat) → List α → List (List α)
  | [], _ => []
  | b :: bs, rest => let r := relabelBin v b rest; r.1 :: relabel v bs r.2

/-- `bin_completion(binner, binsize, items)` for items with a value function (after fix F15): refuse an oversize item, drop the
    zero-valued items, run the search on the values, put the items back value by value in input order -/
def binCompletionNamed {α : Type} (v : α → Nat) (B : Nat) (items : List α) (fuel : Nat) : Except Err (List (List α)) :=
  match binCompletion B (items.map v) fuel with
  | .error e => .error e
  | .ok bins => .ok (relabel v bins (items.filter fun a => v a != 0))

end BC
end Prtpy
