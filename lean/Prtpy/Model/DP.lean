/-
  Prtpy.Model.DP — dynamic_programming.py `_optimal_partition` (the only reachable path:
  `isinstance(binner, BinnerKeepingSums)` holds for both managers).

  Python keeps the state records in a `set` hashed on the state only; which record survives a collision and
  which minimal record `min` returns depend on CPython's set iteration order, which is not modelled.
  The model therefore keeps, per layer, one record per distinct state (the first found in its own
  deterministic order) and exposes *all* final records; the theorems speak about every minimal one.
-/
import Prtpy.Bins
import Prtpy.Objectives
namespace Prtpy

variable {α : Type}

/-- a state record: the sum-vector and the path (bin index chosen for each item so far, most recent first) -/
structure DpRec where
  state : List Nat
  path : List Nat
  deriving Repr

/-- add `r` unless a record with the same state is already present (`set.add` with `__eq__` on state) -/
def dpInsert (r : DpRec) (l : List DpRec) : List DpRec :=
  if l.any (fun o => o.state == r.state) then l else r :: l

/-- the records obtained from `rec` by adding `value` to each bin in turn -/
def dpExpand (k : Nat) (value : Nat) (r : DpRec) : List DpRec :=
  (List.range k).map fun ibin => ⟨r.state.modify ibin (· + value), ibin :: r.path⟩

/-- one layer: `for record in current: for ibin in range(numbins): next.add(...)` -/
def dpLayer (k : Nat) (value : Nat) (cur : List DpRec) : List DpRec :=
  (cur.flatMap (dpExpand k value)).foldl (fun acc r => dpInsert r acc) []

/-- all final state records -/
def dpFinal (k : Nat) (vals : List Nat) : List DpRec :=
  vals.foldl (fun cur value => dpLayer k value cur) [⟨List.replicate k 0, []⟩]

/-- the least objective value over the final records -/
def dpBestValue (o : Objective) (k : Nat) (vals : List Nat) : Option Int :=
  match (dpFinal k vals).map (fun r => o.value r.state false) with
  | [] => none
  | x :: xs => some (xs.foldl min x)

/-- replay a path: `for item_index, item in enumerate(items): add_item_to_bin(result, item, path[item_index])` -/
def dpReplay (v : α → Nat) (k : Nat) (items : List α) (path : List Nat) : Bins α :=
  (items.zip path.reverse).foldl (fun b (p : α × Nat) => b.add v p.1 p.2) (Bins.new k)

/-- a deterministic representative of `dynamic_programming.optimal`: the first minimal record in the
    model's order, replayed.  (The implementation may return any other minimal record.) -/
def dp (v : α → Nat) (o : Objective) (k : Nat) (items : List α) : Except Err (Bins α) :=
  let vals := items.map v
  match dpBestValue o k vals with
  | none => .error .valueError
  | some best =>
    match (dpFinal k vals).find? (fun r => o.value r.state false == best) with
    | none => .error .valueError
    | some r => .ok (dpReplay v k items r.path)

/-! ### A faster oracle: states kept sorted (every objective is symmetric in the sums),
       layers de-duplicated by merge sort + removal of adjacent duplicates -/

/-- lexicographic `≤` on sum-vectors (a total preorder, used only to bring duplicates together) -/
def lexLe : List Nat → List Nat → Bool
  | [], _ => true
  | _ :: _, [] => false
  | a :: as, b :: bs => if a < b then true else if b < a then false else lexLe as bs

/-- remove adjacent duplicates -/
def dedupAdj : List (List Nat) → List (List Nat)
  | [] => []
  | [x] => [x]
  | x :: y :: rest => if x == y then dedupAdj (y :: rest) else x :: dedupAdj (y :: rest)

def oracleLayer (k : Nat) (value : Nat) (cur : List (List Nat)) : List (List Nat) :=
  dedupAdj ((cur.flatMap fun st => (List.range k).map fun i => sortAsc id (st.modify i (· + value))).mergeSort
    (fun a b => lexLe a b))

def oracleFinal (k : Nat) (vals : List Nat) : List (List Nat) :=
  vals.foldl (fun cur value => oracleLayer k value cur) [List.replicate k 0]

/-- optimum of objective `o` over all partitions of `vals` into `k` bins (verified in PrtpyProofs) -/
def optValue (o : Objective) (k : Nat) (vals : List Nat) : Option Int :=
  match (oracleFinal k vals).map (fun s => o.value s false) with
  | [] => none
  | x :: xs => some (xs.foldl min x)

end Prtpy
