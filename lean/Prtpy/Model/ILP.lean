/-
  Prtpy.Model.ILP — partitioning/integer_programming.py `optimal` (as it is after fix F4): the *formulation*
  handed to the MIP solver, as data, and the read-back of the solver's answer.  The solver itself (CBC through
  python-mip) is an external call and is not modelled: it is assumed to return an optimal feasible point of
  the formulation or a non-OPTIMAL status (trusted base; certified per run by the harness against `ilpBest`).

  Variables: `counts[i][b]` = how many copies of item `i` are put into bin `b` (integer, ≥ 0), flattened as
  `i * k + b`.  Weighted bin sums `S_b = (Σ_i counts[i][b] * v_i) / w_b` are linear expressions.
-/
import Prtpy.Bins
import Prtpy.Objectives
namespace Prtpy
namespace ILP

/-- the three forms of caller constraints the property speaks about (on the ascending weighted sums) -/
inductive Con where
  | smallestEq (c : Nat)     -- `sums[0] == c`
  | largestLe (c : Nat)      -- `sums[-1] <= c`
  | smallestGe (c : Nat)     -- `sums[0] >= c`
  deriving Repr, DecidableEq

structure Spec where
  k : Nat
  vals : List Nat
  copies : List Nat          -- per item (a scalar `copies` is expanded by the caller, as the code does)
  weights : List Nat         -- per bin, positive (`None` = all ones)
  obj : Objective
  cons : List Con
  deriving Repr

inductive Sense where | le | eq | ge
  deriving Repr, DecidableEq

/-- `Σ coeffs[j] * x[j]  sense  rhs` -/
structure Row where
  coeffs : List Rat
  sense : Sense
  rhs : Rat

abbrev Point := List (List Nat)      -- counts[i][b]

def nvars (s : Spec) : Nat := s.vals.length * s.k

/-- unit vector of variable `(i, b)` -/
def unit (s : Spec) (i b : Nat) : List Rat :=
  (List.range (nvars s)).map fun j => if j = i * s.k + b then 1 else 0

def addV (a b : List Rat) : List Rat := List.zipWith (· + ·) a b
def negV (a : List Rat) : List Rat := a.map (fun x => -x)
def zeroV (s : Spec) : List Rat := List.replicate (nvars s) 0
def sumV (s : Spec) (l : List (List Rat)) : List Rat := l.foldl addV (zeroV s)

/-- the linear expression `bin_sums[b]`: coefficient of `counts[i][b]` is `v_i / w_b` -/
def binSumExpr (s : Spec) (b : Nat) : List Rat :=
  (List.range (nvars s)).map fun j =>
    if j % s.k = b ∧ s.k ≠ 0 then ((s.vals.getD (j / s.k) 0 : Nat) : Rat) / ((s.weights.getD b 1 : Nat) : Rat) else 0

/-- `objective.value_to_minimize(bin_sums, are_sums_in_ascending_order=True)` as a linear expression -/
def objExpr (s : Spec) : List Rat :=
  let S := fun b => binSumExpr s b
  match s.obj with
  | .maxSmallest => negV (S 0)
  | .minLargest => S (s.k - 1)
  | .minDiff => addV (S (s.k - 1)) (negV (S 0))
  | .maxKSmallest n => negV (sumV s ((List.range (min n s.k)).map S))
  | .minKLargest n => sumV s (((List.range s.k).drop (s.k - n)).map S)

def conRow (s : Spec) : Con → Row
  | .smallestEq c => ⟨binSumExpr s 0, .eq, (c : Rat)⟩
  | .largestLe c => ⟨binSumExpr s (s.k - 1), .le, (c : Rat)⟩
  | .smallestGe c => ⟨binSumExpr s 0, .ge, (c : Rat)⟩

/-- the constraint list in the order the code adds it:
    non-negativity (bin outer, item inner), one row per item, ascending sums, caller constraints -/
def rows (s : Spec) : List Row :=
  let n := s.vals.length
  ((List.range s.k).flatMap fun b => (List.range n).map fun i => (⟨unit s i b, .ge, 0⟩ : Row)) ++
  ((List.range n).map fun i => (⟨sumV s ((List.range s.k).map fun b => unit s i b), .eq, ((s.copies.getD i 0 : Nat) : Rat)⟩ : Row)) ++
  ((List.range (s.k - 1)).map fun b => (⟨addV (binSumExpr s (b + 1)) (negV (binSumExpr s b)), .ge, 0⟩ : Row)) ++
  s.cons.map (conRow s)

/-! ### semantics of a point -/

def flat (s : Spec) (p : Point) : List Rat :=
  (List.range (nvars s)).map fun j => (((p.getD (j / s.k) []).getD (j % s.k) 0 : Nat) : Rat)

def dot (a x : List Rat) : Rat := (List.zipWith (· * ·) a x).foldl (· + ·) 0

def Row.holds (r : Row) (x : List Rat) : Bool :=
  match r.sense with
  | .le => decide (dot r.coeffs x ≤ r.rhs)
  | .eq => decide (dot r.coeffs x = r.rhs)
  | .ge => decide (r.rhs ≤ dot r.coeffs x)

/-- raw (unweighted) sum of bin `b` at point `p` -/
def rawSum (s : Spec) (p : Point) (b : Nat) : Nat :=
  sumL ((List.range s.vals.length).map fun i => (p.getD i []).getD b 0 * s.vals.getD i 0)

/-- weighted sum of bin `b` -/
def wSum (s : Spec) (p : Point) (b : Nat) : Rat := ((rawSum s p b : Nat) : Rat) / ((s.weights.getD b 1 : Nat) : Rat)

def wSums (s : Spec) (p : Point) : List Rat := (List.range s.k).map (wSum s p)

def shaped (s : Spec) (p : Point) : Bool := p.length == s.vals.length && p.all (fun r => r.length == s.k)

/-- the point satisfies every row of the formulation -/
def satisfies (s : Spec) (p : Point) : Bool := shaped s p && (rows s).all fun r => r.holds (flat s p)

/-- value of the objective expression at the point -/
def objValue (s : Spec) (p : Point) : Rat := dot (objExpr s) (flat s p)

/-! ### the documented meaning, stated directly (no rows) -/

def ascending (l : List Rat) : Bool :=
  match l with
  | [] => true
  | [_] => true
  | a :: b :: rest => decide (a ≤ b) && ascending (b :: rest)

def Con.holdsOn (S : List Rat) : Con → Bool
  | .smallestEq c => decide (S.headD 0 = (c : Rat))
  | .largestLe c => decide (S.getLast?.getD 0 ≤ (c : Rat))
  | .smallestGe c => decide ((c : Rat) ≤ S.headD 0)

/-- each item placed `copies[i]` times, weighted sums ascending, caller constraints hold -/
def feasible (s : Spec) (p : Point) : Bool :=
  shaped s p &&
  (List.range s.vals.length).all (fun i => sumL (p.getD i []) == s.copies.getD i 0) &&
  ascending (wSums s p) && s.cons.all (Con.holdsOn (wSums s p))

def sumRat (l : List Rat) : Rat := l.foldl (· + ·) 0

/-- the documented objective of a vector of (weighted) sums given in ascending order -/
def docValue (o : Objective) (S : List Rat) : Rat :=
  match o with
  | .maxSmallest => -(S.headD 0)
  | .minLargest => S.getLast?.getD 0
  | .minDiff => S.getLast?.getD 0 - S.headD 0
  | .maxKSmallest n => -(sumRat (S.take n))
  | .minKLargest n => sumRat (S.drop (S.length - n))

/-! ### read-back -/

/-- the `for ibin: for iitem: for _ in range(count): add_item_to_bin(output, items[iitem], ibin)` loop -/
def decodeRaw {α : Type} (v : α → Nat) (k : Nat) (items : List α) (p : Point) : Bins α :=
  (List.range k).foldl (fun (acc : Bins α) b =>
    (items.zip p).foldl (fun (acc : Bins α) (ip : α × List Nat) =>
      (List.range (ip.2.getD b 0)).foldl (fun (acc : Bins α) _ => acc.add v ip.1 b) acc) acc) (Bins.new k)

def allEqual (l : List Nat) : Bool := l.all (fun w => w == l.headD 0)

/-- the final (conditional) sort of fix F4 -/
def decode {α : Type} (v : α → Nat) (s : Spec) (items : List α) (p : Point) : Bins α :=
  let b := decodeRaw v s.k items p
  if allEqual s.weights then b.sortAsc else b

/-! ### brute force over the whole (finite) space of points: the optimum of the formulation -/

/-- all lists of `k` naturals with sum `c` -/
def compositions : Nat → Nat → List (List Nat)
  | 0, c => if c = 0 then [[]] else []
  | k + 1, c => (List.range (c + 1)).flatMap fun x => (compositions k (c - x)).map (x :: ·)

def allPoints (s : Spec) : List Point :=
  (List.range s.vals.length).foldr (fun i acc =>
    (compositions s.k (s.copies.getD i 0)).flatMap fun row => acc.map (row :: ·)) [[]]

def minRatOpt : List Rat → Option Rat
  | [] => none
  | x :: xs => some (xs.foldl (fun m y => if y < m then y else m) x)

/-- least objective value over the feasible points (`none`: infeasible, the code must raise ValueError) -/
def ilpBest (s : Spec) : Option Rat :=
  minRatOpt (((allPoints s).filter (feasible s)).map fun p => docValue s.obj (wSums s p))

end ILP
end Prtpy
