/-
  Prtpy.Model.CG — complete_greedy.py `anytime`, as it is after fixes F1 (seen-state key includes the depth)
  and F2 (one-bin guard in the max-min fast bound).

  The `while len(stack) > 0` loop is an explicit state machine; the time limit is modelled by `cut`:
  under a counting clock `time_limit = c` lets exactly `c` iterations run (DESIGN §3, Clocks).
-/
import Prtpy.Bins
import Prtpy.Objectives
namespace Prtpy

variable {α : Type}

structure CgCfg where
  obj : Objective
  useLb : Bool        -- use_lower_bound
  useFast : Bool      -- use_fast_lower_bound
  useH3 : Bool        -- use_heuristic_3
  useSeen : Bool      -- use_set_of_seen_states
  deriving Repr

structure CgState (α : Type) where
  stack : List (Bins α × Nat)          -- head = top of the stack
  seen : List (Nat × List Nat)         -- (depth, sums)
  best : Option (Bins α)
  bestV : EInt                          -- best_objective_value, initially +inf
  done : Bool

/-- `sums_of_remaining_items[d]` = total value of `sorted_items[d:]` -/
def remFrom (v : α → Nat) (sorted : List α) (d : Nat) : Nat := binSum v (sorted.drop d)

/-- the fast lower bound computed before the child is created -/
def cgFast (o : Objective) (k : Nat) (cs : List Nat) (b : Nat) (x : Nat) (r : Nat) : EInt :=
  match o with
  | .minLargest => .fin ((max (cs.getD b 0 + x) (lastD cs 0) : Nat) : Int)
  | .maxSmallest =>
      let newSmallest : Nat :=
        if b = 0 then (if k = 1 then cs.getD 0 0 + x else min (cs.getD 0 0 + x) (cs.getD 1 0))
        else cs.getD 0 0
      .fin (-((newSmallest + r : Nat) : Int))
  | _ => .negInf

/-- children of a vertex, in the order they are pushed (`for bin_index in reversed(range(numbins))`);
    returns the pushed vertices (first pushed first) and the extended seen-set. -/
def cgChildren (v : α → Nat) (cfg : CgCfg) (k : Nat) (cur : Bins α) (depth : Nat) (x : α) (r : Nat) (bestV : EInt) :
    List Nat → Option Nat → List (Nat × List Nat) → List (Bins α × Nat) → List (Bins α × Nat) × List (Nat × List Nat)
  | [], _, seen, acc => (acc.reverse, seen)
  | b :: bs, prev, seen, acc =>
    let cs := cur.sums
    let cb := cs.getD b 0
    if prev == some cb then cgChildren v cfg k cur depth x r bestV bs prev seen acc else
    let prev := some cb
    if cfg.useFast && EInt.le bestV (cgFast cfg.obj k cs b (v x) r) then
      cgChildren v cfg k cur depth x r bestV bs prev seen acc else
    let nb := (cur.add v x b).sortAsc
    if cfg.useLb && EInt.le bestV (cfg.obj.lowerBound nb.sums r true) then
      cgChildren v cfg k cur depth x r bestV bs prev seen acc else
    if cfg.useSeen then
      if seen.contains (depth + 1, nb.sums) then cgChildren v cfg k cur depth x r bestV bs prev seen acc
      else cgChildren v cfg k cur depth x r bestV bs prev ((depth + 1, nb.sums) :: seen) ((nb, depth + 1) :: acc)
    else cgChildren v cfg k cur depth x r bestV bs prev seen ((nb, depth + 1) :: acc)

/-- one iteration of the main loop (after the time test) -/
def cgStep (v : α → Nat) (cfg : CgCfg) (k : Nat) (sorted : List α) (glb : EInt) (s : CgState α) : CgState α :=
  match s.stack with
  | [] => { s with done := true }
  | (cur, depth) :: stack =>
    let s := { s with stack := stack }
    let n := sorted.length
    if depth == n then
      let nv : EInt := .fin (cfg.obj.value cur.sums false)
      if EInt.lt nv s.bestV then
        let s := { s with best := some cur, bestV := nv }
        if EInt.le nv glb then { s with done := true } else s
      else s
    else
    if cfg.useH3 && cfg.obj == .minLargest && decide (remFrom v sorted depth + cur.sums.headD 0 ≤ lastD cur.sums 0) then
      let nb := ((sorted.drop depth).foldl (fun b x => b.add v x 0) cur).sortAsc
      { s with stack := (nb, n) :: s.stack }
    else
    match sorted[depth]? with
    | none => s
    | some x =>
      let r := remFrom v sorted (depth + 1)
      let res := cgChildren v cfg k cur depth x r s.bestV (List.range k).reverse none s.seen []
      -- pushed in order; the last pushed is on top
      { s with stack := res.1.reverse ++ s.stack, seen := res.2 }

/-- run at most `ticks` iterations (`ticks` plays both roles: the cut of the counting clock and fuel) -/
def cgRun (v : α → Nat) (cfg : CgCfg) (k : Nat) (sorted : List α) (glb : EInt) : Nat → CgState α → CgState α
  | 0, s => s
  | t + 1, s =>
    if s.done then s else
    match s.stack with
    | [] => { s with done := true }
    | _ => cgRun v cfg k sorted glb t (cgStep v cfg k sorted glb s)

def cgInit (k : Nat) : CgState α :=
  { stack := [(Bins.new k, 0)], seen := [], best := none, bestV := .posInf, done := false }

/-- `complete_greedy.anytime(...)`.  `cut = some c`: counting clock, `time_limit = c`.
    `cut = none`: no limit; `fuel` bounds the run and `Err.fuel` reports exhaustion.
    Result `none` is Python's `None` (no solution yet). -/
def cg (v : α → Nat) (cfg : CgCfg) (k : Nat) (items : List α) (cut : Option Nat) (fuel : Nat) : Except Err (Option (Bins α)) :=
  let sorted := sortDesc v items
  let glb := cfg.obj.lowerBound (List.replicate k 0) (remFrom v sorted 0) true
  match cut with
  | some c => .ok (cgRun v cfg k sorted glb c (cgInit k)).best
  | none =>
    let s := cgRun v cfg k sorted glb fuel (cgInit k)
    if s.done || s.stack.isEmpty then .ok s.best else .error .fuel

end Prtpy
