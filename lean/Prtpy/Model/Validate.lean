/-
  Prtpy.Model.Validate — the argument checks that refuse malformed requests (property C19):
  `cbldm`'s validation (partitioning/cbldm.py, in the code's order of tests) and the sums-only manager's
  refusal to count items (`BinnerKeepingSums.numitems`).
-/
import Prtpy.Basic
namespace Prtpy

/-- `partition_difference` as the code sees it: a Python `int`, or a number that is not an `int`
    (a float such as `1.5` or `2.0`; `below1` records whether it is `< 1`) -/
inductive PDiff where
  | int (i : Int)
  | nonInt (below1 : Bool)
  deriving Repr, DecidableEq

structure CbArgs where
  numbins : Nat
  timeLimitPositive : Bool      -- `time_limit > 0`
  pd : PDiff
  items : List Int              -- the item values (possibly negative: that is what is being refused)
  deriving Repr

def minInt : List Int → Int
  | [] => 0
  | [x] => x
  | x :: xs => min x (minInt xs)

/-- `partition_difference < 1 or not isinstance(partition_difference, int)` -/
def PDiff.bad : PDiff → Bool
  | .int i => decide (i < 1)
  | .nonInt _ => true

/-- the checks at the top of `cbldm`, in order; `.ok ()` = the search starts -/
def cbldmValidate (a : CbArgs) : Except Err Unit :=
  if a.numbins ≠ 2 then .error .valueError
  else if !a.timeLimitPositive then .error .valueError
  else if a.pd.bad then .error .valueError
  else if a.items.isEmpty then .error .indexError           -- `sorted_items[-1]` on an empty list
  else if minInt a.items < 0 then .error .valueError         -- smallest item = last of the descending order
  else .ok ()

/-- `binner.numitems(bins, i)`: the contents manager counts, the sums-only manager refuses -/
def numitems {α : Type} (contents : Bool) (lists : List (List α)) (i : Nat) : Except Err Nat :=
  if contents then
    match lists[i]? with
    | some l => .ok l.length
    | none => .error .indexError
  else .error .notImplemented

end Prtpy
