/-
  Prtpy.Model.BCTrace — bin completion with the trace of its search: the same functions as in Model/BinCompletion.lean
  carrying one more accumulator, the list of the calls `find_bin_completions(x, items, binsize)` in the order the code
  makes them.  The harness records the same calls on the implementation (by wrapping the function from outside) and
  compares: a change of any pruning rule or of the order of the search shows as a different trace long before it shows
  as a different packing.  `PrtpyProofs/BCTraceProofs.lean` proves that dropping the trace gives `BC.binCompletion`.
-/
import Prtpy.Model.BinCompletion
namespace Prtpy
namespace BC

abbrev Trace := List (Nat × List Nat)

def runBranchT (B : Nat) (bestLen : Nat) : Nat → Branch → List Branch → Trace → (Branch × List Branch) × Trace
  | 0, cb, spawned, tr => ((cb, spawned), tr)
  | fuel + 1, cb, spawned, tr =>
    match cb.items with
    | [] => ((cb, spawned), tr)
    | x :: upd =>
      let tr := tr ++ [(x, upd)]
      let bins := cb.bins ++ [[x]]
      let comps := completions x upd B
      let r : List (List Nat) × List Nat × List Branch :=
        match comps with
        | [] => (bins, upd, spawned)
        | c0 :: others =>
          let sp := others.foldl (fun (acc : List Branch) comp =>
              let ni := lwi upd comp
              let nb := bins.modify cb.idx (· ++ comp)
              if decide (bestLen * B ≤ nb.length * B + sumL ni) then acc else acc ++ [⟨ni, nb, cb.idx + 1⟩]) spawned
          (bins.modify cb.idx (· ++ c0), lwi upd c0, sp)
      let cb' : Branch := ⟨r.2.1, r.1, cb.idx + 1⟩
      if decide (bestLen * B ≤ cb'.bins.length * B + sumL cb'.items) then ((cb', r.2.2), tr)
      else if cb'.items.isEmpty then ((cb', r.2.2), tr)
      else runBranchT B bestLen fuel cb' r.2.2 tr

def searchT (B lb : Nat) : Nat → List Branch → List (List Nat) → Trace → List (List Nat) × Trace
  | 0, _, best, tr => (best, tr)
  | _ + 1, [], best, tr => (best, tr)
  | fuel + 1, cb :: queue, best, tr =>
    let rt := runBranchT B best.length (cb.items.length + 1) cb [] tr
    let r := rt.1
    let best' := if r.1.items.isEmpty && decide (r.1.bins.length < best.length) then r.1.bins else best
    if best'.length = lb then (best', rt.2) else searchT B lb fuel (queue ++ r.2) best' rt.2

/-- `bin_completion` with the trace of its `find_bin_completions` calls (empty when the search is not entered) -/
def binCompletionT (B : Nat) (items : List Nat) (fuel : Nat) : Except Err (List (List Nat) × Trace) :=
  if items.any (fun x => decide (B < x)) then .error .valueError
  else
    let items := items.filter (· != 0)
    match bfDecreasing id B items with
    | .error e => .error e
    | .ok bfd =>
      let lb := lowerBound B items
      if bfd.lists.length = lb then .ok (bfd.lists, [])
      else .ok (searchT B lb fuel [⟨sortDesc id items, [], 0⟩] bfd.lists [])

end BC
end Prtpy
