/-
  Prtpy.Model.RNP — recursive_number_partitioning_sy.py (`rnp`) as it is after fixes F8, F9 and **F10**
  (the even case compares the spread of the two halves *together with the bins fixed so far*), for numbins ≤ 5.

  `Prtpy.rnpRec` / `Prtpy.rnp` in Prtpy/Model/SNP.lean are the code *before* F10; they are kept because the
  refutation `SNPOpt.rnp_not_optimal_five` (5 bins, items [11,9,9,6,6,4,4,4]: difference 4, optimum 3) is a
  theorem about them.  The driver and every property theorem use the definitions of this file.
-/
import Prtpy.Model.SNP
namespace Prtpy

variable {α : Type}

/-- `recursive_number_partitioning_sy.rec_generate_sets` after F8/F9/F10.  `rf` is recursion fuel
    (current_numbins at least halves or decreases at every level), `fuel` is for the CKK searches. -/
def rnpRecF (v nm : α → Nat) [BEq α] (contents : Bool) (fuel : Nat) :
    Nat → Nat → Bins α → Bins α → List α → Except Err (Bins α)
  | 0, _, _, _, _ => .error .fuel
  | rf + 1, cur, prior, best, items =>
    if cur == 2 then ckk2 v nm contents items fuel
    else if cur % 2 == 1 then
      let t : Int := (binSum v items : Nat)
      let d0 := spread best.sums
      let subs := genTree v cur (t - ((cur : Int) - 1) * (d0 : Nat)) t items
      foldE (fun (best : Bins α) sub =>
          let prior2 : Bins α := ⟨prior.sums ++ [binSum v sub], prior.lists ++ [sub]⟩
          match rnpRecF v nm contents fuel rf (cur - 1) prior2 best (findDiff items sub) with
          | .error e => .error e
          | .ok nb =>
            if spread (nb.sums ++ prior2.sums) < spread best.sums then .ok (prior2.concat nb) else .ok best)
        best subs
    else
      let d0 := spread best.sums
      -- the top-level 2-way generator always runs with a contents-keeping manager
      match (if items.isEmpty then .error .valueError else ckkGen v nm 2 true items (some d0) fuel) with
      | .error e => .error e
      | .ok tops =>
        (foldE (fun (st : Bins α × Nat) top =>
            let i1 := top.lists.getD 0 []
            let i2 := top.lists.getD 1 []
            match rnpRecF v nm contents fuel rf (cur / 2) prior st.1 i1 with
            | .error e => .error e
            | .ok nb1 =>
              match rnpRecF v nm contents fuel rf (cur / 2) prior st.1 i2 with
              | .error e => .error e
              | .ok nb2 =>
                -- F10: the bins fixed so far (`prior_bins`) count too
                let d := spread (nb1.sums ++ nb2.sums ++ prior.sums)
                if d < st.2 then .ok (nb1.concat nb2, d) else .ok st)
          (best, d0) tops).map (·.1)

/-- `rnp(binner, numbins, items)` for `numbins ≤ 5` (after F10).
    For `numbins ≥ 6` (and KK not already perfect) the real code computes `current_numbins/2` as a float and
    indexes the prior bins with it: it mostly fails with IndexError (known finding KF1) and is **not modelled**;
    the model answers `notImplemented` there and the harness judges the implementation's output directly. -/
def rnpF (v nm : α → Nat) [BEq α] (k : Nat) (contents : Bool) (items : List α) (fuel : Nat) : Except Err (Bins α) :=
  match kk v k items with
  | .error e => .error e
  | .ok best =>
    if spread best.sums = 0 then .ok best
    else if k ≥ 6 then .error .notImplemented
    else rnpRecF v nm contents fuel (k + 1) k ⟨[], []⟩ best items

end Prtpy
