/-
  Driver — line protocol between the Python harness and the executable Lean model.
  One request per line on stdin:   <op> key=value key=value ...
  One answer per line on stdout (JSON).  A malformed request is answered {"bad":"..."}; never defaulted.
  Imports only the import-free `Prtpy` library, so it is built as a native executable.
-/
import Prtpy
open Prtpy

abbrev Item := Nat × Nat      -- (name id, value)
def val : Item → Nat := Prod.snd

/-! ### parsing -/

def stripBrackets (s : String) : Option String :=
  match s.toList with
  | '[' :: rest =>
    match rest.reverse with
    | ']' :: r => some (String.ofList r.reverse)
    | _ => none
  | _ => none

def dropMinus (s : String) : Bool × String :=
  match s.toList with
  | '-' :: rest => (true, String.ofList rest)
  | _ => (false, s)

def parseList {β : Type} (f : String → Option β) (s : String) : Option (List β) := do
  let inner ← stripBrackets s
  if inner.isEmpty then pure [] else (inner.splitOn ",").mapM f

def parseNatList : String → Option (List Nat) := parseList String.toNat?

def parseItem (s : String) : Option Item :=
  match s.splitOn ":" with
  | [a, b] => do pure ((← a.toNat?), (← b.toNat?))
  | _ => none

def parseItems : String → Option (List Item) := parseList parseItem

def parseRat (s : String) : Option Rat :=
  let (neg, s') := dropMinus s
  let r : Option Rat := match s'.splitOn "/" with
    | [a] => do pure ((← a.toNat?) : Nat)
    | [a, b] => do
        let n ← a.toNat?; let d ← b.toNat?
        if d = 0 then none else pure ((n : Rat) / (d : Rat))
    | _ => none
  r.map fun q => if neg then -q else q

def parseRatList : String → Option (List Rat) := parseList parseRat

/-- bins: `[..]|[..]`; `~` = no bins -/
def parseBinsOf {β : Type} (f : String → Option (List β)) (s : String) : Option (List (List β)) :=
  if s == "~" then some [] else (s.splitOn "|").mapM f

def parseBool (s : String) : Option Bool :=
  if s == "1" then some true else if s == "0" then some false else none

abbrev Args := List (String × String)

def parseArgs (toks : List String) : Option Args :=
  toks.mapM fun t =>
    match t.splitOn "=" with
    | [k, v] => some (k, v)
    | _ => none

def Args.get (a : Args) (k : String) : Option String := (a.find? (·.1 == k)).map (·.2)
def Args.nat (a : Args) (k : String) : Option Nat := a.get k >>= String.toNat?
def Args.items (a : Args) (k : String) : Option (List Item) := a.get k >>= parseItems
def Args.nats (a : Args) (k : String) : Option (List Nat) := a.get k >>= parseNatList
def Args.bool (a : Args) (k : String) : Option Bool := a.get k >>= parseBool

/-! ### rendering (JSON) -/

def jList {β : Type} (f : β → String) (l : List β) : String := "[" ++ ",".intercalate (l.map f) ++ "]"
def jNats (l : List Nat) : String := jList toString l
def jBins (b : Bins Item) : String :=
  "{\"sums\":" ++ jNats b.sums ++ ",\"bins\":" ++ jList (fun l => jNats (l.map (·.1))) b.lists ++ "}"
def jErr (e : Err) : String := "{\"error\":\"" ++ toString e ++ "\"}"

/-- prtpy/outputtypes.py: what the output type `ot` extracts from a bins-array (`Prtpy.Out`, theorems in
    PrtpyProofs/BinsOps.lean).  `max()`/`min()` of an empty sequence raise ValueError in Python. -/
def jOut (ot : String) (b : Bins Item) : String :=
  let lists := jList (fun l => jNats (l.map (·.1))) (Out.partition b)
  match ot with
  | "Sums" => jNats (Out.sums b)
  | "SortedSums" => jNats (Out.sortedSums b)
  | "LargestSum" => if b.sums.isEmpty then jErr .valueError else toString (Out.largestSum b)
  | "SmallestSum" => if b.sums.isEmpty then jErr .valueError else toString (Out.smallestSum b)
  | "ExtremeSums" => if b.sums.isEmpty then jErr .valueError else jNats [(Out.extremeSums b).1, (Out.extremeSums b).2]
  | "Difference" => if b.sums.isEmpty then jErr .valueError else toString (Out.difference b)
  | "BinCount" => toString (Out.binCount b)
  | "Partition" => "{\"partition\":" ++ lists ++ "}"
  | _ => "{\"sums\":" ++ jNats b.sums ++ ",\"bins\":" ++ lists ++ "}"
def jExcept (r : Except Err (Bins Item)) : String :=
  match r with
  | .ok b => jBins b
  | .error e => jErr e
/-- render through the requested output type (`out=<type>`), or the full bins-array when none is requested -/
def jB (a : List (String × String)) (b : Bins Item) : String :=
  match (a.find? (·.1 == "out")).map (·.2) with
  | some ot => jOut ot b
  | none => jBins b
def jSEvent : SEvent → String
  | .optimal vals => "[\"optimal\"," ++ jNats vals ++ "]"
  | .generator vals b => "[\"generator\"," ++ jNats vals ++ "," ++ toString b ++ "]"

def jE (a : List (String × String)) (r : Except Err (Bins Item)) : String :=
  match r with
  | .ok b => jB a b
  | .error e => jErr e
def jEO (a : List (String × String)) (r : Except Err (Option (Bins Item))) : String :=
  match r with
  | .ok (some b) => jB a b
  | .ok none => "{\"none\":true}"
  | .error e => jErr e
def jBad (msg : String) : String := "{\"bad\":\"" ++ msg ++ "\"}"
def jRat (q : Rat) : String := "\"" ++ toString q.num ++ "/" ++ toString q.den ++ "\""
def jInt (i : Int) : String := toString i
def jEInt (e : EInt) : String :=
  match e with
  | .fin i => toString i
  | .negInf => "\"-inf\""
  | .posInf => "\"inf\""

def jExceptList (r : Except Err (List (Bins Item))) : String :=
  match r with
  | .ok l => jList jBins l
  | .error e => jErr e
def jExceptOpt (r : Except Err (Option (Bins Item))) : String :=
  match r with
  | .ok (some b) => jBins b
  | .ok none => "{\"none\":true}"
  | .error e => jErr e

def parseInt (s : String) : Option Int :=
  let (neg, s') := dropMinus s
  s'.toNat?.map fun n => if neg then -(n : Int) else (n : Int)

/-- sort key of names: the id (the harness numbers the items by the rank of their names) -/
def nmOf : Item → Nat := Prod.fst
def FUEL : Nat := 100000000

def parseObjective (s : String) : Option Objective :=
  match s.splitOn ":" with
  | ["maxmin"] => some .maxSmallest
  | ["minmax"] => some .minLargest
  | ["diff"] => some .minDiff
  | ["ksmall", k] => k.toNat?.map .maxKSmallest
  | ["klarge", k] => k.toNat?.map .minKLargest
  | _ => none

/-- heap op sequences: `new:3;add:0,7:3,1;copy:0;sort:0;addempty:0,2;remove:0,1;concat:0,1;combine:0,1,2,0` -/
def parseHeapOp (t : String) : Option (Heap.Op Item) :=
  match t.splitOn ":" with
  | ["new", k] => k.toNat?.map .new
  | ["copy", h] => h.toNat?.map .copy
  | ["sort", h] => h.toNat?.map .sort
  | ["addempty", r] => match r.splitOn "," with
      | [h, n] => do pure (.addEmpty (← h.toNat?) (← n.toNat?))
      | _ => none
  | ["remove", r] => match r.splitOn "," with
      | [h, n] => do pure (.remove (← h.toNat?) (← n.toNat?))
      | _ => none
  | ["concat", r] => match r.splitOn "," with
      | [a, b] => do pure (.concat (← a.toNat?) (← b.toNat?))
      | _ => none
  | ["combine", r] => match r.splitOn "," with
      | [a, i, b, j] => do pure (.combine (← a.toNat?) (← i.toNat?) (← b.toNat?) (← j.toNat?))
      | _ => none
  | ["add", h, r] => match r.splitOn "," with       -- add:<h>,<id>:<val>,<i>  splits on ':' into ["add", "<h>,<id>", "<val>,<i>"]
      | [val, i] => match h.splitOn "," with
          | [hh, id] => do pure (.add (← hh.toNat?) ((← id.toNat?), (← val.toNat?)) (← i.toNat?))
          | _ => none
      | _ => none
  | _ => none

def parseHeapOps (s : String) : Option (List (Heap.Op Item)) :=
  if s == "~" then some [] else (s.splitOn ";").mapM parseHeapOp

def jOptBins (o : Option (Bins Item)) : String :=
  match o with
  | some b => jBins b
  | none => "null"

def parseCon (t : String) : Option ILP.Con :=
  match t.splitOn ":" with
  | ["seq", c] => c.toNat?.map .smallestEq
  | ["lle", c] => c.toNat?.map .largestLe
  | ["sge", c] => c.toNat?.map .smallestGe
  | _ => none

def parseCons (s : String) : Option (List ILP.Con) :=
  if s == "~" then some [] else (s.splitOn ",").mapM parseCon

def parseSpec (a : Args) : Option ILP.Spec := do
  pure { k := (← a.nat "k"), vals := (← a.nats "vals"), copies := (← a.nats "copies"), weights := (← a.nats "weights"),
         obj := (← a.get "obj" >>= parseObjective), cons := (← a.get "cons" >>= parseCons) }

def jSense : ILP.Sense → String
  | .le => "\"<\""
  | .eq => "\"=\""
  | .ge => "\">\""

def jRow (r : ILP.Row) : String :=
  "{\"coeffs\":" ++ jList jRat r.coeffs ++ ",\"sense\":" ++ jSense r.sense ++ ",\"rhs\":" ++ jRat r.rhs ++ "}"

/-! ### dispatch -/

def dispatch (op : String) (a : Args) : Option String :=
  match op with
  | "greedy" => do pure (jB a (greedy val (← a.nat "k") (← a.items "items")))
  | "roundrobin" => do pure (jB a (roundrobin val (← a.nat "k") (← a.items "items")))
  | "multifit" => do pure (jE a (multifit val (← a.nat "k") (← a.items "items") (← a.nat "it")))
  | "ff" => do pure (jE a (ffOnline val (← a.nat "B") (← a.items "items")))
  | "ffd" => do pure (jE a (ffDecreasing val (← a.nat "B") (← a.items "items")))
  | "bf" => do pure (jE a (bfOnline val (← a.nat "B") (← a.items "items")))
  | "bfd" => do pure (jE a (bfDecreasing val (← a.nat "B") (← a.items "items")))
  | "cover_decreasing" => do pure (jB a (coverDecreasing val (← a.nat "B") (← a.items "items")))
  | "twothirds" => do pure (jB a (twoThirds val (← a.nat "B") (← a.items "items")))
  | "threequarters" => do pure (jB a (threeQuarters val (← a.nat "B") (← a.items "items")))
  | "kk" => do pure (jE a (kk val (← a.nat "k") (← a.items "items")))
  | "ckk" => do
      pure (jE a (ckkF val nmOf (← a.nat "k") (← a.bool "contents") (← a.items "items") FUEL))
  | "ckk_trace" => do
      let r := ckkFT val nmOf (← a.nat "k") (← a.bool "contents") (← a.items "items") FUEL
      let jI (i : Int) : String := toString i
      pure ("{\"result\":" ++ jE a r.1 ++ ",\"trace\":" ++
        jList (fun (e : Nat × List Nat × Option Int) => "[" ++ toString e.1 ++ "," ++ jNats e.2.1 ++ "," ++
          (match e.2.2 with | some b => jI b | none => "null") ++ "]") r.2 ++ "}")
  | "ckkgen" => do
      let bound : Option Nat ← match (← a.get "bound") with
        | "inf" => pure none
        | s => s.toNat?.map some
      pure (jExceptList (ckkGen val nmOf (← a.nat "k") (← a.bool "contents") (← a.items "items") bound FUEL))
  | "snp" => do
      pure (jE a (snp val nmOf (← a.nat "k") (← a.bool "contents") (← a.items "items") FUEL))
  | "rnp" => do
      pure (jE a (rnpF val nmOf (← a.nat "k") (← a.bool "contents") (← a.items "items") FUEL))
  | "snp_trace" => do
      let r := snpT val nmOf (← a.nat "k") (← a.bool "contents") (← a.items "items") FUEL
      pure ("{\"result\":" ++ jE a r.1 ++ ",\"trace\":" ++ jList jSEvent r.2 ++ "}")
  | "rnp_trace" => do
      let r := rnpFT val nmOf (← a.nat "k") (← a.bool "contents") (← a.items "items") FUEL
      pure ("{\"result\":" ++ jE a r.1 ++ ",\"trace\":" ++ jList jSEvent r.2 ++ "}")
  | "cg" => do
      let cfg : CgCfg := { obj := (← a.get "obj" >>= parseObjective), useLb := (← a.bool "lb"),
                           useFast := (← a.bool "fast"), useH3 := (← a.bool "h3"), useSeen := (← a.bool "seen") }
      let cut : Option Nat ← match (← a.get "cut") with
        | "inf" => pure none
        | s => s.toNat?.map some
      pure (jEO a (cg val cfg (← a.nat "k") (← a.items "items") cut FUEL))
  | "dp" => do
      let o ← a.get "obj" >>= parseObjective
      pure (match optValue o (← a.nat "k") ((← a.items "items").map val) with
            | some x => "{\"value\":" ++ jInt x ++ "}"
            | none => jErr .valueError)
  | "opt_partition" => do
      let o ← a.get "obj" >>= parseObjective
      pure (match optValue o (← a.nat "k") (← a.nats "vals") with
            | some x => jInt x
            | none => jErr .valueError)
  | "cbldm" => do
      let d : Option Nat ← match (← a.get "d") with
        | "inf" => pure none
        | s => s.toNat?.map some
      let cut : Option Nat ← match (← a.get "cut") with
        | "inf" => pure none
        | s => s.toNat?.map some
      pure (match cbldm val (← a.items "items") d cut with
            | some b => jB a b
            | none => "{\"none\":true}")
  | "gentree" => do
      let lb ← a.get "lb" >>= parseInt
      let ub ← a.get "ub" >>= parseInt
      pure (jList (fun l => jNats (l.map (·.1))) (genTree val (← a.nat "den") lb ub (← a.items "items")))
  | "allcomb_sums" => do
      pure (jList jNats (allCombSums (← a.nats "a") (← a.nats "b")))
  | "allcomb_contents" => do
      let s1 ← a.nats "s1"; let s2 ← a.nats "s2"
      let l1 ← a.get "l1" >>= parseBinsOf parseItems
      let l2 ← a.get "l2" >>= parseBinsOf parseItems
      pure (jList jBins (allCombContents nmOf (Bins.mk s1 l1) (Bins.mk s2 l2)))
  | "bin_completion" => do
      pure (match BC.binCompletionNamed val (← a.nat "B") (← a.items "items") FUEL with
            | .ok bins => jB a (Bins.mk (bins.map (binSum val)) bins)
            | .error e => jErr e)
  | "bc_trace" => do
      pure (match BC.binCompletionT (← a.nat "B") (← a.nats "vals") FUEL with
            | .ok (bins, tr) => "{\"bins\":" ++ jList jNats bins ++ ",\"trace\":" ++
                jList (fun (c : Nat × List Nat) => "[" ++ toString c.1 ++ "," ++ jNats c.2 ++ "]") tr ++ "}"
            | .error e => jErr e)
  | "uniq" => do
      let ls ← a.get "lists" >>= parseBinsOf parseNatList
      pure (jList jNats (BC.uniq ls))
  | "lwi" => do pure (jNats (BC.lwi (← a.nats "orig") (← a.nats "rem")))
  | "und_pairs" => do pure (jList jNats (BC.undPairs (← a.nat "c") (← a.nat "y") (← a.nats "items") (← a.nat "B")))
  | "check_dom" => do
      let ls ← a.get "lists" >>= parseBinsOf parseNatList
      pure (jList jNats (BC.checkDom ls))
  | "bc_lower_bound" => do pure (toString (BC.lowerBound (← a.nat "B") (← a.nats "items")))
  | "is_dominant" => do pure (toString (BC.isDom (← a.nats "l1") (← a.nats "l2")))
  | "completions" => do pure (jList jNats (BC.completions (← a.nat "x") (← a.nats "items") (← a.nat "B")))
  | "check_partition" => do
      let lists ← a.get "bins" >>= parseBinsOf parseItems
      pure (toString (checkPartition val (← a.items "items") (← a.nat "k") (Bins.mk (← a.nats "sums") lists)))
  | "check_packing" => do
      let lists ← a.get "bins" >>= parseBinsOf parseItems
      pure (toString (checkPacking val (← a.nat "B") (← a.items "items") (Bins.mk (← a.nats "sums") lists)))
  | "check_cover" => do
      let lists ← a.get "bins" >>= parseBinsOf parseItems
      pure (toString (checkCover val (← a.nat "B") (← a.items "items") (Bins.mk (← a.nats "sums") lists)))
  | "opt_bins" => do
      pure (match optBins (← a.nat "B") (← a.nats "vals") with
            | some m => toString m
            | none => jErr .valueError)
  | "opt_cover" => do pure (toString (optCover (← a.nat "B") (← a.nats "vals")))
  | "opt_balanced" => do
      let d : Option Nat ← match (← a.get "d") with
        | "inf" => pure none
        | s => s.toNat?.map some
      let vals ← a.nats "vals"
      pure (match optBalanced (d.getD (vals.length + 1)) vals with
            | some m => toString m
            | none => "{\"none\":true}")
  | "heap" => do
      -- the reference-level model: every array (live or handed over) after every operation
      let ops ← a.get "ops" >>= parseHeapOps
      pure (jList (fun (o : Option (List (Bins Item))) => match o with
                    | some l => jList jBins l
                    | none => "{\"error\":\"IndexError\"}") (Heap.trace val Heap.State.init ops))
  | "heap_pure" => do
      -- the specification: the pool of immutable values under the hand-over discipline (null = handed over)
      let ops ← a.get "ops" >>= parseHeapOps
      pure (match Heap.pureRun val [] ops with
            | some p => jList jOptBins p
            | none => "{\"undisciplined\":true}")
  | "ilp_rows" => do
      let sp ← parseSpec a
      pure ("{\"rows\":" ++ jList jRow (ILP.rows sp) ++ ",\"objective\":" ++ jList jRat (ILP.objExpr sp) ++ "}")
  | "ilp_opt" => do
      let sp ← parseSpec a
      pure (match ILP.ilpBest sp with
            | some x => jRat x
            | none => "{\"none\":true}")
  | "ilp_point" => do
      let sp ← parseSpec a
      let p ← a.get "counts" >>= parseBinsOf parseNatList
      let items : List Item := (List.range sp.vals.length).map fun i => (i, sp.vals.getD i 0)
      pure ("{\"satisfies\":" ++ toString (ILP.satisfies sp p) ++ ",\"feasible\":" ++ toString (ILP.feasible sp p) ++
            ",\"objvalue\":" ++ jRat (ILP.objValue sp p) ++ ",\"docvalue\":" ++ jRat (ILP.docValue sp.obj (ILP.wSums sp p)) ++
            ",\"decoded\":" ++ jBins (ILP.decode val sp items p) ++ "}")
  | "cbldm_validate" => do
      -- pd=int:<i> | pd=float:<0|1 (below 1?)> ; tl=<0|1 (positive?)> ; vals=[signed ints]
      let pd : PDiff ← match (← a.get "pd").splitOn ":" with
        | ["int", i] => (parseInt i).map PDiff.int
        | ["float", b] => (parseBool b).map PDiff.nonInt
        | _ => none
      let vals ← a.get "vals" >>= parseList parseInt
      pure (match cbldmValidate { numbins := (← a.nat "k"), timeLimitPositive := (← a.bool "tl"), pd := pd, items := vals } with
            | .ok () => "{\"ok\":true}"
            | .error e => jErr e)
  | "numitems" => do
      let lists ← a.get "bins" >>= parseBinsOf parseNatList
      pure (match numitems (← a.bool "contents") lists (← a.nat "i") with
            | .ok n => toString n
            | .error e => jErr e)
  | "objvalue" => do
      let o ← a.get "obj" >>= parseObjective
      pure (jInt (o.value (← a.nats "sums") (← a.bool "sorted")))
  | "lb" => do
      let o ← a.get "obj" >>= parseObjective
      pure (jEInt (o.lowerBound (← a.nats "sums") (← a.nat "rem") (← a.bool "sorted")))
  | "weighted" => do
      let w ← a.get "weights" >>= parseRatList
      pure (jRat (weightedValue w (← a.nats "sums")))
  | _ => none

def answer (line : String) : String :=
  match (line.splitOn " ").filter (· ≠ "") with
  | [] => jBad "empty"
  | op :: toks =>
    match parseArgs toks with
    | none => jBad "args"
    | some a =>
      match dispatch op a with
      | some s => s
      | none => jBad op

partial def loop (h : IO.FS.Stream) (out : IO.FS.Stream) : IO Unit := do
  let line ← h.getLine
  if line.isEmpty then return ()
  let l := String.ofList (line.toList.filter (fun c => c != '\n' && c != '\r'))
  out.putStrLn (answer l)
  loop h out

def main : IO Unit := do
  let stdin ← IO.getStdin
  let stdout ← IO.getStdout
  loop stdin stdout
