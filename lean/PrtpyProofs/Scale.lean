/-
  PrtpyProofs.Scale — scaling, reordering and zero-padding invariance.

  * Part B: the specification optimum (`IsOptimalValue`, `optValue`) is multiplied by `c` when all values are
    multiplied by `c`, is invariant under reordering of the values and under adding zero-valued items.
  * Part A: the heuristics commute with scaling of the values (and of the bin size) by a positive integer.
-/
import Prtpy
import PrtpyProofs.Oracle

namespace Prtpy.Scale
open Prtpy

variable {α : Type}

/-! ## Part B — the specification optimum -/

/-! ### B1: objectives are homogeneous -/

theorem minL_map_mul (c : Nat) (l : List Nat) : minL (l.map (c * ·)) = c * minL l := by
  induction l with
  | nil => simp [minL]
  | cons x xs ih =>
    cases xs with
    | nil => simp [minL]
    | cons y ys =>
      rw [List.map_cons, List.map_cons, Oracle.minL_cons_cons, ← List.map_cons, ih, Oracle.minL_cons_cons,
        Nat.mul_min_mul_left]

theorem maxL_map_mul (c : Nat) (l : List Nat) : maxL (l.map (c * ·)) = c * maxL l := by
  induction l with
  | nil => simp [maxL]
  | cons x xs ih => simp only [List.map_cons, maxL, ih, Nat.mul_max_mul_left]

theorem sumL_map_mul (c : Nat) (l : List Nat) : sumL (l.map (c * ·)) = c * sumL l := by
  induction l with
  | nil => simp [sumL]
  | cons x xs ih => simp only [List.map_cons, sumL, ih, Nat.mul_add]

/-- sorting commutes with a monotone map (here: multiplication by a constant) -/
theorem sortAsc_map_mul (c : Nat) (l : List Nat) :
    sortAsc id (l.map (c * ·)) = (sortAsc id l).map (c * ·) := by
  refine List.Perm.eq_of_pairwise (le := (· ≤ ·)) ?_ (Oracle.pairwise_sortAsc _) ?_ ?_
  · intro a b _ _ hab hba; exact Nat.le_antisymm hab hba
  · exact List.Pairwise.map _ (fun a b hab => Nat.mul_le_mul_left c hab) (Oracle.pairwise_sortAsc l)
  · exact (Oracle.perm_sortAsc id _).trans ((Oracle.perm_sortAsc id l).map _).symm

theorem lastK_map (k : Nat) (f : Nat → Nat) (l : List Nat) : lastK k (l.map f) = (lastK k l).map f := by
  simp [lastK]

/-- **B1.** Every objective is homogeneous of degree one in the sums (no positivity needed). -/
theorem value_scale (o : Objective) (c : Nat) (sums : List Nat) :
    o.value (sums.map (c * ·)) false = (c : Int) * o.value sums false := by
  cases o with
  | maxSmallest =>
    simp only [Objective.value, Bool.false_eq_true, if_false, minL_map_mul, Int.natCast_mul, Int.mul_neg]
  | maxKSmallest k =>
    simp only [Objective.value, Bool.false_eq_true, if_false, sortAsc_map_mul, ← List.map_take, sumL_map_mul,
      Int.natCast_mul, Int.mul_neg]
  | minLargest =>
    simp only [Objective.value, Bool.false_eq_true, if_false, maxL_map_mul, Int.natCast_mul]
  | minKLargest k =>
    simp only [Objective.value, Bool.false_eq_true, if_false, sortAsc_map_mul, lastK_map, sumL_map_mul,
      Int.natCast_mul]
  | minDiff =>
    simp only [Objective.value, Bool.false_eq_true, if_false, maxL_map_mul, minL_map_mul, Int.natCast_mul,
      Int.mul_sub]

/-- non-vacuity: the three-smallest objective on concrete sums, factor 7 -/
example : Objective.value (.maxKSmallest 2) ([5, 1, 4, 2].map (7 * ·)) false =
    7 * Objective.value (.maxKSmallest 2) [5, 1, 4, 2] false :=
  value_scale (.maxKSmallest 2) 7 [5, 1, 4, 2]

example : Objective.value (.maxKSmallest 2) ([5, 1, 4, 2].map (7 * ·)) false = -21 := by decide

/-! ### B2: scaling the values scales the optimum -/

theorem modify_map_mul (c : Nat) (s : List Nat) (i v : Nat) :
    (s.map (c * ·)).modify i (· + c * v) = (s.modify i (· + v)).map (c * ·) := by
  induction s generalizing i with
  | nil => simp
  | cons a s ih =>
    cases i with
    | zero => simp [Nat.mul_add]
    | succ i => simp [ih]

theorem sumsFrom_scale (c : Nat) (s vals asg : List Nat) :
    Oracle.sumsFrom (s.map (c * ·)) (vals.map (c * ·)) asg = (Oracle.sumsFrom s vals asg).map (c * ·) := by
  induction vals generalizing s asg with
  | nil => simp
  | cons v vals ih =>
    cases asg with
    | nil => simp
    | cons i asg =>
      simp only [List.map_cons, Oracle.sumsFrom_cons]
      rw [modify_map_mul, ih]

/-- the sums of an assignment are multiplied by `c` when the values are -/
theorem sumsOf_scale (c k : Nat) (vals asg : List Nat) :
    sumsOf k (vals.map (c * ·)) asg = (sumsOf k vals asg).map (c * ·) := by
  rw [Oracle.sumsOf_eq, Oracle.sumsOf_eq, ← sumsFrom_scale]
  simp

/-- **B2.** Multiplying every value by `c` multiplies the optimum by `c` (no positivity needed). -/
theorem isOptimal_scale {o : Objective} {k : Nat} {vals : List Nat} {x : Int} (c : Nat)
    (h : IsOptimalValue o k vals x) : IsOptimalValue o k (vals.map (c * ·)) ((c : Int) * x) := by
  obtain ⟨⟨asg, hasg, hv⟩, hmin⟩ := h
  refine ⟨⟨asg, by simpa using hasg, ?_⟩, ?_⟩
  · rw [sumsOf_scale, value_scale, hv]
  · intro asg' hasg'
    rw [sumsOf_scale, value_scale]
    exact Int.mul_le_mul_of_nonneg_left (hmin asg' (by simpa using hasg')) (Int.natCast_nonneg c)

/-- a concrete optimum used by the non-vacuity examples: `3` for `[1, 2, 3]` in two bins (smallest largest sum) -/
theorem opt123 : IsOptimalValue .minLargest 2 [1, 2, 3] 3 := by
  obtain ⟨x, hx, h⟩ := Oracle.dpBestValue_spec .minLargest [1, 2, 3] (k := 2) (by decide)
  have h3 : dpBestValue .minLargest 2 [1, 2, 3] = some 3 := by decide
  rw [h3] at hx
  cases hx
  exact h

/-- non-vacuity: the optimum `3` of `[1, 2, 3]` (two bins, smallest largest sum) becomes `15` for `[5, 10, 15]` -/
example : IsOptimalValue .minLargest 2 [5, 10, 15] 15 := by
  exact isOptimal_scale 5 opt123

/-- **B2 for the oracle.** -/
theorem optValue_scale (o : Objective) {k : Nat} (hk : 0 < k) (c : Nat) (vals : List Nat) :
    optValue o k (vals.map (c * ·)) = (optValue o k vals).map ((c : Int) * ·) := by
  obtain ⟨x, hx, hox⟩ := Oracle.optValue_spec o vals hk
  obtain ⟨y, hy, hoy⟩ := Oracle.optValue_spec o (vals.map (c * ·)) hk
  rw [hx, hy, Oracle.isOptimalValue_unique hoy (isOptimal_scale c hox)]
  rfl

/-- non-vacuity -/
example : optValue .minDiff 3 ([4, 5, 6, 7, 8].map (3 * ·)) = (optValue .minDiff 3 [4, 5, 6, 7, 8]).map (3 * ·) :=
  optValue_scale .minDiff (by decide) 3 [4, 5, 6, 7, 8]

/-! ### B3: reordering the values -/

/-- every assignment of `vals₁` can be transported along a permutation, with the *same* sums -/
theorem sumsFrom_perm {k : Nat} {vals₁ vals₂ : List Nat} (hp : vals₁.Perm vals₂) :
    ∀ (s asg₁ : List Nat), IsAssignment k vals₁.length asg₁ →
      ∃ asg₂, IsAssignment k vals₂.length asg₂ ∧ Oracle.sumsFrom s vals₁ asg₁ = Oracle.sumsFrom s vals₂ asg₂ := by
  induction hp with
  | nil => intro s asg₁ h; exact ⟨asg₁, h, rfl⟩
  | cons v _ ih =>
    intro s asg₁ h
    cases asg₁ with
    | nil => simp [IsAssignment] at h
    | cons i asg₁ =>
      have h' : IsAssignment k _ asg₁ :=
        ⟨by simpa using h.1, fun a ha => h.2 a (List.mem_cons_of_mem _ ha)⟩
      obtain ⟨asg₂, h₂, he⟩ := ih (s.modify i (· + v)) asg₁ h'
      exact ⟨i :: asg₂, Oracle.isAssignment_cons h₂ (h.2 i (by simp)), by simp [he]⟩
  | swap v w l =>
    intro s asg₁ h
    match asg₁, h with
    | [], h => simp [IsAssignment] at h
    | [_], h => simp [IsAssignment] at h
    | i :: j :: asg, h =>
      have h' : IsAssignment k l.length asg :=
        ⟨by simpa using h.1, fun a ha => h.2 a (List.mem_cons_of_mem _ (List.mem_cons_of_mem _ ha))⟩
      refine ⟨j :: i :: asg,
        Oracle.isAssignment_cons (Oracle.isAssignment_cons h' (h.2 i (by simp))) (h.2 j (by simp)), ?_⟩
      simp only [Oracle.sumsFrom_cons]
      rw [Oracle.modify_comm_add]
  | trans _ _ ih₁ ih₂ =>
    intro s asg₁ h
    obtain ⟨asg₂, h₂, he₂⟩ := ih₁ s asg₁ h
    obtain ⟨asg₃, h₃, he₃⟩ := ih₂ s asg₂ h₂
    exact ⟨asg₃, h₃, he₂.trans he₃⟩

theorem sumsOf_perm {k : Nat} {vals₁ vals₂ : List Nat} (hp : vals₁.Perm vals₂) (asg₁ : List Nat)
    (h : IsAssignment k vals₁.length asg₁) :
    ∃ asg₂, IsAssignment k vals₂.length asg₂ ∧ sumsOf k vals₁ asg₁ = sumsOf k vals₂ asg₂ :=
  sumsFrom_perm hp _ asg₁ h

/-- **B3.** The optimum does not depend on the order of the values. -/
theorem isOptimal_perm {o : Objective} {k : Nat} {vals₁ vals₂ : List Nat} {x : Int} (hp : vals₁.Perm vals₂)
    (h : IsOptimalValue o k vals₁ x) : IsOptimalValue o k vals₂ x := by
  obtain ⟨⟨asg, hasg, hv⟩, hmin⟩ := h
  constructor
  · obtain ⟨asg₂, h₂, he⟩ := sumsOf_perm hp asg hasg
    exact ⟨asg₂, h₂, by rw [← he, hv]⟩
  · intro asg₂ h₂
    obtain ⟨asg₁, h₁, he⟩ := sumsOf_perm hp.symm asg₂ h₂
    rw [he]; exact hmin asg₁ h₁

/-- non-vacuity: the optimum of `[1, 2, 3]` is the optimum of `[3, 1, 2]` -/
example : IsOptimalValue .minLargest 2 [3, 1, 2] 3 := by
  exact isOptimal_perm (by decide) opt123

/-- **B3 for the oracle.** -/
theorem optValue_perm (o : Objective) {k : Nat} (hk : 0 < k) {vals₁ vals₂ : List Nat} (hp : vals₁.Perm vals₂) :
    optValue o k vals₁ = optValue o k vals₂ := by
  obtain ⟨x, hx, hox⟩ := Oracle.optValue_spec o vals₁ hk
  obtain ⟨y, hy, hoy⟩ := Oracle.optValue_spec o vals₂ hk
  rw [hx, hy, Oracle.isOptimalValue_unique (isOptimal_perm hp hox) hoy]

/-- non-vacuity -/
example : optValue .minDiff 3 [4, 5, 6, 7, 8] = optValue .minDiff 3 [8, 4, 7, 5, 6] :=
  optValue_perm .minDiff (by decide) (by decide)

/-! ### B4: zero-valued items -/

theorem modify_add_zero (s : List Nat) (i : Nat) : s.modify i (· + 0) = s := by
  have : (fun x : Nat => x + 0) = id := rfl
  rw [this, List.modify_id]

theorem sumsFrom_zeros (s : List Nat) (z : Nat) (asg : List Nat) :
    Oracle.sumsFrom s (List.replicate z 0) asg = s := by
  induction z generalizing s asg with
  | zero => simp
  | succ z ih =>
    cases asg with
    | nil => simp
    | cons i asg => rw [List.replicate_succ, Oracle.sumsFrom_cons, modify_add_zero, ih]

theorem sumsFrom_append (s : List Nat) {vals asg : List Nat} (vals' asg' : List Nat)
    (h : vals.length = asg.length) :
    Oracle.sumsFrom s (vals ++ vals') (asg ++ asg') = Oracle.sumsFrom (Oracle.sumsFrom s vals asg) vals' asg' := by
  simp [Oracle.sumsFrom, List.zip_append h]

/-- zero-valued items at the end do not change the sums -/
theorem sumsOf_append_zeros (k : Nat) {vals asg : List Nat} (z : Nat) (asg' : List Nat)
    (h : vals.length = asg.length) :
    sumsOf k (vals ++ List.replicate z 0) (asg ++ asg') = sumsOf k vals asg := by
  rw [Oracle.sumsOf_eq, sumsFrom_append _ _ _ h, sumsFrom_zeros, Oracle.sumsOf_eq]

/-- **B4.** Adding zero-valued items does not change the optimum.

    The statement requested in the task has no hypothesis `0 < k`; it is false for `k = 0`
    (see the counterexample below): the empty list has the (only) assignment `[]` into zero bins, with optimum `0`,
    whereas `[0]` has no assignment into zero bins at all.  `0 < k` is exactly what is missing. -/
theorem isOptimal_zeros_partial {o : Objective} {k : Nat} {vals : List Nat} {x : Int} (hk : 0 < k) (z : Nat)
    (h : IsOptimalValue o k vals x) : IsOptimalValue o k (vals ++ List.replicate z 0) x := by
  obtain ⟨⟨asg, hasg, hv⟩, hmin⟩ := h
  constructor
  · refine ⟨asg ++ List.replicate z 0, ⟨by simp [hasg.1], ?_⟩, ?_⟩
    · intro a ha
      rcases List.mem_append.1 ha with ha | ha
      · exact hasg.2 a ha
      · rw [(List.mem_replicate.1 ha).2]; exact hk
    · rw [sumsOf_append_zeros k z _ hasg.1.symm, hv]
  · intro asg' hasg'
    have hl : asg'.length = vals.length + z := by simpa using hasg'.1
    have hsplit : asg' = asg'.take vals.length ++ asg'.drop vals.length := (List.take_append_drop _ _).symm
    have htl : (asg'.take vals.length).length = vals.length := by simp; omega
    rw [hsplit, sumsOf_append_zeros k z _ htl.symm]
    exact hmin _ ⟨htl, fun a ha => hasg'.2 a (List.mem_of_mem_take ha)⟩

/-- the original statement fails for zero bins: `0` is the optimum of `[]`, but `[0]` has no optimum -/
example : IsOptimalValue .minLargest 0 [] 0 ∧ ¬ IsOptimalValue .minLargest 0 ([] ++ List.replicate 1 0) 0 := by
  constructor
  · refine ⟨⟨[], ⟨rfl, by simp⟩, by decide⟩, ?_⟩
    intro asg h
    have : asg = [] := List.length_eq_zero_iff.1 h.1
    subst this; decide
  · rintro ⟨⟨asg, ⟨hl, hb⟩, _⟩, _⟩
    match asg, hl, hb with
    | [a], _, hb => exact absurd (hb a (by simp)) (by omega)

/-- non-vacuity: the optimum of `[1, 2, 3]` is the optimum of `[1, 2, 3, 0, 0]` -/
example : IsOptimalValue .minLargest 2 [1, 2, 3, 0, 0] 3 := by
  exact isOptimal_zeros_partial (by decide) 2 opt123

/-- zero-valued items inserted anywhere: any list that is a permutation of `vals` plus `z` zeros -/
theorem isOptimal_zeros_anywhere {o : Objective} {k : Nat} {vals vals' : List Nat} {x : Int} (hk : 0 < k) (z : Nat)
    (hp : vals'.Perm (vals ++ List.replicate z 0)) (h : IsOptimalValue o k vals x) : IsOptimalValue o k vals' x :=
  isOptimal_perm hp.symm (isOptimal_zeros_partial hk z h)

/-- non-vacuity -/
example : IsOptimalValue .minLargest 2 [0, 3, 1, 0, 2] 3 := by
  exact isOptimal_zeros_anywhere (by decide) 2 (by decide) opt123

/-- **B4 for the oracle.** -/
theorem optValue_zeros (o : Objective) {k : Nat} (hk : 0 < k) (vals : List Nat) (z : Nat) :
    optValue o k (vals ++ List.replicate z 0) = optValue o k vals := by
  obtain ⟨x, hx, hox⟩ := Oracle.optValue_spec o vals hk
  obtain ⟨y, hy, hoy⟩ := Oracle.optValue_spec o (vals ++ List.replicate z 0) hk
  rw [hx, hy, Oracle.isOptimalValue_unique hoy (isOptimal_zeros_partial hk z hox)]

/-- non-vacuity -/
example : optValue .minDiff 3 ([4, 5, 6, 7, 8] ++ List.replicate 2 0) = optValue .minDiff 3 [4, 5, 6, 7, 8] :=
  optValue_zeros .minDiff (by decide) [4, 5, 6, 7, 8] 2

end Prtpy.Scale
#print axioms Prtpy.Scale.isOptimal_zeros_partial
