/-
  PrtpyProofs.Scale — scaling, reordering and zero-padding invariance.

  * Part B: the specification optimum (`IsOptimalValue`, `optValue`) is multiplied by `c` when all values are
    multiplied by `c`, is invariant under reordering of the values and under adding zero-valued items.
  * Part A: the heuristics commute with scaling of the values (and of the bin size) by a positive integer.
-/
import Prtpy
import PrtpyProofs.Oracle
import PrtpyProofs.Part

namespace Prtpy.Scale
open Prtpy

variable {α : Type}

/-! ## Part B — the specification optimum -/

/-! ### B1: objectives are homogeneous -/

theorem minL_map_mul (c : Nat) (l : List Nat) : minL (l.map (c * ·)) = c * minL l := by
  induction l with
  | nil => simp [minL]
  | cons x xs ih =>
    cases xs with
    | nil => simp [minL]
    | cons y ys =>
      rw [List.map_cons, List.map_cons, Oracle.minL_cons_cons, ← List.map_cons, ih, Oracle.minL_cons_cons,
        Nat.mul_min_mul_left]

theorem maxL_map_mul (c : Nat) (l : List Nat) : maxL (l.map (c * ·)) = c * maxL l := by
  induction l with
  | nil => simp [maxL]
  | cons x xs ih => simp only [List.map_cons, maxL, ih, Nat.mul_max_mul_left]

theorem sumL_map_mul (c : Nat) (l : List Nat) : sumL (l.map (c * ·)) = c * sumL l := by
  induction l with
  | nil => simp [sumL]
  | cons x xs ih => simp only [List.map_cons, sumL, ih, Nat.mul_add]

/-- sorting commutes with a monotone map (here: multiplication by a constant) -/
theorem sortAsc_map_mul (c : Nat) (l : List Nat) :
    sortAsc id (l.map (c * ·)) = (sortAsc id l).map (c * ·) := by
  refine List.Perm.eq_of_pairwise (le := (· ≤ ·)) ?_ (Oracle.pairwise_sortAsc _) ?_ ?_
  · intro a b _ _ hab hba; exact Nat.le_antisymm hab hba
  · exact List.Pairwise.map _ (fun a b hab => Nat.mul_le_mul_left c hab) (Oracle.pairwise_sortAsc l)
  · exact (Oracle.perm_sortAsc id _).trans ((Oracle.perm_sortAsc id l).map _).symm

theorem lastK_map (k : Nat) (f : Nat → Nat) (l : List Nat) : lastK k (l.map f) = (lastK k l).map f := by
  simp [lastK]

/-- **B1.** Every objective is homogeneous of degree one in the sums (no positivity needed). -/
theorem value_scale (o : Objective) (c : Nat) (sums : List Nat) :
    o.value (sums.map (c * ·)) false = (c : Int) * o.value sums false := by
  cases o with
  | maxSmallest =>
    simp only [Objective.value, Bool.false_eq_true, if_false, minL_map_mul, Int.natCast_mul, Int.mul_neg]
  | maxKSmallest k =>
    simp only [Objective.value, Bool.false_eq_true, if_false, sortAsc_map_mul, ← List.map_take, sumL_map_mul,
      Int.natCast_mul, Int.mul_neg]
  | minLargest =>
    simp only [Objective.value, Bool.false_eq_true, if_false, maxL_map_mul, Int.natCast_mul]
  | minKLargest k =>
    simp only [Objective.value, Bool.false_eq_true, if_false, sortAsc_map_mul, lastK_map, sumL_map_mul,
      Int.natCast_mul]
  | minDiff =>
    simp only [Objective.value, Bool.false_eq_true, if_false, maxL_map_mul, minL_map_mul, Int.natCast_mul,
      Int.mul_sub]

/-- non-vacuity: the three-smallest objective on concrete sums, factor 7 -/
example : Objective.value (.maxKSmallest 2) ([5, 1, 4, 2].map (7 * ·)) false =
    7 * Objective.value (.maxKSmallest 2) [5, 1, 4, 2] false :=
  value_scale (.maxKSmallest 2) 7 [5, 1, 4, 2]

example : Objective.value (.maxKSmallest 2) ([5, 1, 4, 2].map (7 * ·)) false = -21 := by decide

/-! ### B2: scaling the values scales the optimum -/

theorem modify_map_mul (c : Nat) (s : List Nat) (i v : Nat) :
    (s.map (c * ·)).modify i (· + c * v) = (s.modify i (· + v)).map (c * ·) := by
  induction s generalizing i with
  | nil => simp
  | cons a s ih =>
    cases i with
    | zero => simp [Nat.mul_add]
    | succ i => simp [ih]

theorem sumsFrom_scale (c : Nat) (s vals asg : List Nat) :
    Oracle.sumsFrom (s.map (c * ·)) (vals.map (c * ·)) asg = (Oracle.sumsFrom s vals asg).map (c * ·) := by
  induction vals generalizing s asg with
  | nil => simp
  | cons v vals ih =>
    cases asg with
    | nil => simp
    | cons i asg =>
      simp only [List.map_cons, Oracle.sumsFrom_cons]
      rw [modify_map_mul, ih]

/-- the sums of an assignment are multiplied by `c` when the values are -/
theorem sumsOf_scale (c k : Nat) (vals asg : List Nat) :
    sumsOf k (vals.map (c * ·)) asg = (sumsOf k vals asg).map (c * ·) := by
  rw [Oracle.sumsOf_eq, Oracle.sumsOf_eq, ← sumsFrom_scale]
  simp

/-- **B2.** Multiplying every value by `c` multiplies the optimum by `c` (no positivity needed). -/
theorem isOptimal_scale {o : Objective} {k : Nat} {vals : List Nat} {x : Int} (c : Nat)
    (h : IsOptimalValue o k vals x) : IsOptimalValue o k (vals.map (c * ·)) ((c : Int) * x) := by
  obtain ⟨⟨asg, hasg, hv⟩, hmin⟩ := h
  refine ⟨⟨asg, by simpa using hasg, ?_⟩, ?_⟩
  · rw [sumsOf_scale, value_scale, hv]
  · intro asg' hasg'
    rw [sumsOf_scale, value_scale]
    exact Int.mul_le_mul_of_nonneg_left (hmin asg' (by simpa using hasg')) (Int.natCast_nonneg c)

/-- a concrete optimum used by the non-vacuity examples: `3` for `[1, 2, 3]` in two bins (smallest largest sum) -/
theorem opt123 : IsOptimalValue .minLargest 2 [1, 2, 3] 3 := by
  obtain ⟨x, hx, h⟩ := Oracle.dpBestValue_spec .minLargest [1, 2, 3] (k := 2) (by decide)
  have h3 : dpBestValue .minLargest 2 [1, 2, 3] = some 3 := by decide
  rw [h3] at hx
  cases hx
  exact h

/-- non-vacuity: the optimum `3` of `[1, 2, 3]` (two bins, smallest largest sum) becomes `15` for `[5, 10, 15]` -/
example : IsOptimalValue .minLargest 2 [5, 10, 15] 15 := by
  exact isOptimal_scale 5 opt123

/-! with zero bins the oracle has an answer only for the empty list -/

theorem oracleLayer_zero (v : Nat) (cur : List (List Nat)) : oracleLayer 0 v cur = [] := by
  have : (cur.flatMap fun st => (List.range 0).map fun i => sortAsc id (st.modify i (· + v))) = [] := by
    simp
  unfold oracleLayer
  rw [this]
  simp [dedupAdj]

theorem foldl_oracleLayer_zero (vs : List Nat) : vs.foldl (fun cur value => oracleLayer 0 value cur) [] = [] := by
  induction vs with
  | nil => rfl
  | cons v vs ih => rw [List.foldl_cons, oracleLayer_zero, ih]

theorem optValue_zero_bins_cons (o : Objective) (v : Nat) (vs : List Nat) : optValue o 0 (v :: vs) = none := by
  unfold optValue oracleFinal
  rw [List.foldl_cons, oracleLayer_zero, foldl_oracleLayer_zero]
  rfl

/-- **B2 for the oracle** (any number of bins, any factor). -/
theorem optValue_scale (o : Objective) (k c : Nat) (vals : List Nat) :
    optValue o k (vals.map (c * ·)) = (optValue o k vals).map ((c : Int) * ·) := by
  rcases Nat.eq_zero_or_pos k with rfl | hk
  · cases vals with
    | nil =>
      have h0 : optValue o 0 [] = some (o.value [] false) := rfl
      rw [List.map_nil, h0, Option.map_some, ← value_scale]
      rfl
    | cons v vs =>
      rw [List.map_cons, optValue_zero_bins_cons, optValue_zero_bins_cons]
      rfl
  · obtain ⟨x, hx, hox⟩ := Oracle.optValue_spec o vals hk
    obtain ⟨y, hy, hoy⟩ := Oracle.optValue_spec o (vals.map (c * ·)) hk
    rw [hx, hy, Oracle.isOptimalValue_unique hoy (isOptimal_scale c hox)]
    rfl

/-- non-vacuity -/
example : optValue .minDiff 3 ([4, 5, 6, 7, 8].map (3 * ·)) = (optValue .minDiff 3 [4, 5, 6, 7, 8]).map (3 * ·) :=
  optValue_scale .minDiff 3 3 [4, 5, 6, 7, 8]

/-! ### B3: reordering the values -/

/-- every assignment of `vals₁` can be transported along a permutation, with the *same* sums -/
theorem sumsFrom_perm {k : Nat} {vals₁ vals₂ : List Nat} (hp : vals₁.Perm vals₂) :
    ∀ (s asg₁ : List Nat), IsAssignment k vals₁.length asg₁ →
      ∃ asg₂, IsAssignment k vals₂.length asg₂ ∧ Oracle.sumsFrom s vals₁ asg₁ = Oracle.sumsFrom s vals₂ asg₂ := by
  induction hp with
  | nil => intro s asg₁ h; exact ⟨asg₁, h, rfl⟩
  | cons v _ ih =>
    intro s asg₁ h
    cases asg₁ with
    | nil => simp [IsAssignment] at h
    | cons i asg₁ =>
      have h' : IsAssignment k _ asg₁ :=
        ⟨by simpa using h.1, fun a ha => h.2 a (List.mem_cons_of_mem _ ha)⟩
      obtain ⟨asg₂, h₂, he⟩ := ih (s.modify i (· + v)) asg₁ h'
      exact ⟨i :: asg₂, Oracle.isAssignment_cons h₂ (h.2 i (by simp)), by simp [he]⟩
  | swap v w l =>
    intro s asg₁ h
    match asg₁, h with
    | [], h => simp [IsAssignment] at h
    | [_], h => simp [IsAssignment] at h
    | i :: j :: asg, h =>
      have h' : IsAssignment k l.length asg :=
        ⟨by simpa using h.1, fun a ha => h.2 a (List.mem_cons_of_mem _ (List.mem_cons_of_mem _ ha))⟩
      refine ⟨j :: i :: asg,
        Oracle.isAssignment_cons (Oracle.isAssignment_cons h' (h.2 i (by simp))) (h.2 j (by simp)), ?_⟩
      simp only [Oracle.sumsFrom_cons]
      rw [Oracle.modify_comm_add]
  | trans _ _ ih₁ ih₂ =>
    intro s asg₁ h
    obtain ⟨asg₂, h₂, he₂⟩ := ih₁ s asg₁ h
    obtain ⟨asg₃, h₃, he₃⟩ := ih₂ s asg₂ h₂
    exact ⟨asg₃, h₃, he₂.trans he₃⟩

theorem sumsOf_perm {k : Nat} {vals₁ vals₂ : List Nat} (hp : vals₁.Perm vals₂) (asg₁ : List Nat)
    (h : IsAssignment k vals₁.length asg₁) :
    ∃ asg₂, IsAssignment k vals₂.length asg₂ ∧ sumsOf k vals₁ asg₁ = sumsOf k vals₂ asg₂ :=
  sumsFrom_perm hp _ asg₁ h

/-- **B3.** The optimum does not depend on the order of the values. -/
theorem isOptimal_perm {o : Objective} {k : Nat} {vals₁ vals₂ : List Nat} {x : Int} (hp : vals₁.Perm vals₂)
    (h : IsOptimalValue o k vals₁ x) : IsOptimalValue o k vals₂ x := by
  obtain ⟨⟨asg, hasg, hv⟩, hmin⟩ := h
  constructor
  · obtain ⟨asg₂, h₂, he⟩ := sumsOf_perm hp asg hasg
    exact ⟨asg₂, h₂, by rw [← he, hv]⟩
  · intro asg₂ h₂
    obtain ⟨asg₁, h₁, he⟩ := sumsOf_perm hp.symm asg₂ h₂
    rw [he]; exact hmin asg₁ h₁

/-- non-vacuity: the optimum of `[1, 2, 3]` is the optimum of `[3, 1, 2]` -/
example : IsOptimalValue .minLargest 2 [3, 1, 2] 3 := by
  exact isOptimal_perm (by decide) opt123

/-- **B3 for the oracle** (any number of bins). -/
theorem optValue_perm (o : Objective) (k : Nat) {vals₁ vals₂ : List Nat} (hp : vals₁.Perm vals₂) :
    optValue o k vals₁ = optValue o k vals₂ := by
  rcases Nat.eq_zero_or_pos k with rfl | hk
  · cases vals₁ with
    | nil => rw [hp.nil_eq]
    | cons v vs =>
      cases vals₂ with
      | nil => exact absurd hp.eq_nil (by simp)
      | cons w ws => rw [optValue_zero_bins_cons, optValue_zero_bins_cons]
  · obtain ⟨x, hx, hox⟩ := Oracle.optValue_spec o vals₁ hk
    obtain ⟨y, hy, hoy⟩ := Oracle.optValue_spec o vals₂ hk
    rw [hx, hy, Oracle.isOptimalValue_unique (isOptimal_perm hp hox) hoy]

/-- non-vacuity -/
example : optValue .minDiff 3 [4, 5, 6, 7, 8] = optValue .minDiff 3 [8, 4, 7, 5, 6] :=
  optValue_perm .minDiff 3 (by decide)

/-! ### B4: zero-valued items -/

theorem modify_add_zero (s : List Nat) (i : Nat) : s.modify i (· + 0) = s := by
  have : (fun x : Nat => x + 0) = id := rfl
  rw [this, List.modify_id]

theorem sumsFrom_zeros (s : List Nat) (z : Nat) (asg : List Nat) :
    Oracle.sumsFrom s (List.replicate z 0) asg = s := by
  induction z generalizing s asg with
  | zero => simp
  | succ z ih =>
    cases asg with
    | nil => simp
    | cons i asg => rw [List.replicate_succ, Oracle.sumsFrom_cons, modify_add_zero, ih]

theorem sumsFrom_append (s : List Nat) {vals asg : List Nat} (vals' asg' : List Nat)
    (h : vals.length = asg.length) :
    Oracle.sumsFrom s (vals ++ vals') (asg ++ asg') = Oracle.sumsFrom (Oracle.sumsFrom s vals asg) vals' asg' := by
  simp [Oracle.sumsFrom, List.zip_append h]

/-- zero-valued items at the end do not change the sums -/
theorem sumsOf_append_zeros (k : Nat) {vals asg : List Nat} (z : Nat) (asg' : List Nat)
    (h : vals.length = asg.length) :
    sumsOf k (vals ++ List.replicate z 0) (asg ++ asg') = sumsOf k vals asg := by
  rw [Oracle.sumsOf_eq, sumsFrom_append _ _ _ h, sumsFrom_zeros, Oracle.sumsOf_eq]

/-- **B4.** Adding zero-valued items does not change the optimum.

    Original statement (false for `k = 0`, `vals = []`, `z = 1`; see the counterexample below):
      `isOptimal_zeros : IsOptimalValue o k vals x → IsOptimalValue o k (vals ++ List.replicate z 0) x`.
    With zero bins the empty list has the (only) assignment `[]` into zero bins, with optimum `0`,
    whereas `[0]` has no assignment into zero bins at all.  `0 < k` is exactly what is missing. -/
theorem isOptimal_zeros_partial {o : Objective} {k : Nat} {vals : List Nat} {x : Int} (hk : 0 < k) (z : Nat)
    (h : IsOptimalValue o k vals x) : IsOptimalValue o k (vals ++ List.replicate z 0) x := by
  obtain ⟨⟨asg, hasg, hv⟩, hmin⟩ := h
  constructor
  · refine ⟨asg ++ List.replicate z 0, ⟨by simp [hasg.1], ?_⟩, ?_⟩
    · intro a ha
      rcases List.mem_append.1 ha with ha | ha
      · exact hasg.2 a ha
      · rw [(List.mem_replicate.1 ha).2]; exact hk
    · rw [sumsOf_append_zeros k z _ hasg.1.symm, hv]
  · intro asg' hasg'
    have hl : asg'.length = vals.length + z := by simpa using hasg'.1
    have hsplit : asg' = asg'.take vals.length ++ asg'.drop vals.length := (List.take_append_drop _ _).symm
    have htl : (asg'.take vals.length).length = vals.length := by simp; omega
    rw [hsplit, sumsOf_append_zeros k z _ htl.symm]
    exact hmin _ ⟨htl, fun a ha => hasg'.2 a (List.mem_of_mem_take ha)⟩

/-- non-vacuity: the optimum of `[1, 2, 3]` is the optimum of `[1, 2, 3, 0, 0]` -/
example : IsOptimalValue .minLargest 2 [1, 2, 3, 0, 0] 3 :=
  isOptimal_zeros_partial (by decide) 2 opt123

/-- the same without `0 < k`, for a non-empty list of values (which forces `0 < k`) -/
theorem isOptimal_zeros_of_ne_nil {o : Objective} {k : Nat} {vals : List Nat} {x : Int} (hne : vals ≠ []) (z : Nat)
    (h : IsOptimalValue o k vals x) : IsOptimalValue o k (vals ++ List.replicate z 0) x := by
  refine isOptimal_zeros_partial ?_ z h
  obtain ⟨⟨asg, ⟨hl, hb⟩, _⟩, _⟩ := h
  match asg, hl, hb with
  | [], hl, _ => exact absurd (List.length_eq_zero_iff.1 hl.symm) hne
  | a :: _, _, hb => exact Nat.lt_of_le_of_lt (Nat.zero_le a) (hb a (by simp))

/-- non-vacuity -/
example : IsOptimalValue .minLargest 2 ([1, 2, 3] ++ List.replicate 4 0) 3 :=
  isOptimal_zeros_of_ne_nil (by simp) 4 opt123

/-- the original statement fails for zero bins: `0` is the optimum of `[]`, but `[0]` has no optimum -/
example : IsOptimalValue .minLargest 0 [] 0 ∧ ¬ IsOptimalValue .minLargest 0 ([] ++ List.replicate 1 0) 0 := by
  constructor
  · refine ⟨⟨[], ⟨rfl, by simp⟩, by decide⟩, ?_⟩
    intro asg h
    have : asg = [] := List.length_eq_zero_iff.1 h.1
    subst this; decide
  · rintro ⟨⟨asg, ⟨hl, hb⟩, _⟩, _⟩
    match asg, hl, hb with
    | [a], _, hb => exact absurd (hb a (by simp)) (by omega)

/-- zero-valued items inserted anywhere: any list that is a permutation of `vals` plus `z` zeros -/
theorem isOptimal_zeros_anywhere {o : Objective} {k : Nat} {vals vals' : List Nat} {x : Int} (hk : 0 < k) (z : Nat)
    (hp : vals'.Perm (vals ++ List.replicate z 0)) (h : IsOptimalValue o k vals x) : IsOptimalValue o k vals' x :=
  isOptimal_perm hp.symm (isOptimal_zeros_partial hk z h)

/-- non-vacuity -/
example : IsOptimalValue .minLargest 2 [0, 3, 1, 0, 2] 3 :=
  isOptimal_zeros_anywhere (by decide) 2 (by decide) opt123

/-- **B4 for the oracle.** -/
theorem optValue_zeros (o : Objective) {k : Nat} (hk : 0 < k) (vals : List Nat) (z : Nat) :
    optValue o k (vals ++ List.replicate z 0) = optValue o k vals := by
  obtain ⟨x, hx, hox⟩ := Oracle.optValue_spec o vals hk
  obtain ⟨y, hy, hoy⟩ := Oracle.optValue_spec o (vals ++ List.replicate z 0) hk
  rw [hx, hy, Oracle.isOptimalValue_unique hoy (isOptimal_zeros_partial hk z hox)]

/-- non-vacuity -/
example : optValue .minDiff 3 ([4, 5, 6, 7, 8] ++ List.replicate 2 0) = optValue .minDiff 3 [4, 5, 6, 7, 8] :=
  optValue_zeros .minDiff (by decide) [4, 5, 6, 7, 8] 2

/-! ## Part A — the heuristics commute with scaling -/

/-- multiply every sum by `c`, keep the contents -/
def scaleBins (c : Nat) (b : Bins α) : Bins α := ⟨b.sums.map (c * ·), b.lists⟩

@[simp] theorem scaleBins_sums (c : Nat) (b : Bins α) : (scaleBins c b).sums = b.sums.map (c * ·) := rfl
@[simp] theorem scaleBins_lists (c : Nat) (b : Bins α) : (scaleBins c b).lists = b.lists := rfl

/-! ### generic facts: sorting, `argmin`, the bins operations -/

theorem insertDesc_congr {key key' : α → Nat} (h : ∀ a b, key' a ≤ key' b ↔ key a ≤ key b) (x : α) (l : List α) :
    insertDesc key' x l = insertDesc key x l := by
  induction l with
  | nil => rfl
  | cons y ys ih => simp only [insertDesc, h, ih]

theorem sortDesc_congr {key key' : α → Nat} (h : ∀ a b, key' a ≤ key' b ↔ key a ≤ key b) (l : List α) :
    sortDesc key' l = sortDesc key l := by
  induction l with
  | nil => rfl
  | cons x xs ih => simp only [sortDesc, ih, insertDesc_congr h]

/-- the sorted order does not change when the values are multiplied by a positive constant -/
theorem sortDesc_scale (v : α → Nat) {c : Nat} (hc : 0 < c) (l : List α) :
    sortDesc (fun a => c * v a) l = sortDesc v l :=
  sortDesc_congr (fun _ _ => Nat.mul_le_mul_left_iff hc) l

theorem idxOf_map_mul {c : Nat} (hc : 0 < c) (a : Nat) (l : List Nat) :
    (l.map (c * ·)).idxOf (c * a) = l.idxOf a := by
  induction l with
  | nil => simp
  | cons x xs ih =>
    simp only [List.map_cons, List.idxOf_cons, ih]
    have : (c * x == c * a) = (x == a) := by
      rw [Bool.eq_iff_iff]; simp only [beq_iff_eq]
      exact ⟨fun h => Nat.eq_of_mul_eq_mul_left hc h, fun h => by rw [h]⟩
    rw [this]

theorem argmin_scale {c : Nat} (hc : 0 < c) (l : List Nat) : argmin (l.map (c * ·)) = argmin l := by
  unfold argmin
  rw [minL_map_mul, idxOf_map_mul hc]

theorem new_scale (c k : Nat) : scaleBins c (Bins.new k : Bins α) = Bins.new k := by
  simp [scaleBins, Bins.new]

theorem add_scale (v : α → Nat) (c : Nat) (b : Bins α) (x : α) (i : Nat) :
    (scaleBins c b).add (fun a => c * v a) x i = scaleBins c (b.add v x i) := by
  simp only [scaleBins, Bins.add, modify_map_mul]

theorem addLast_scale (v : α → Nat) (c : Nat) (b : Bins α) (x : α) :
    (scaleBins c b).addLast (fun a => c * v a) x = scaleBins c (b.addLast v x) := by
  simp only [Bins.addLast, add_scale, scaleBins_sums, List.length_map]

theorem addEmpty_scale (c : Nat) (b : Bins α) (n : Nat) :
    (scaleBins c b).addEmpty n = scaleBins c (b.addEmpty n) := by
  simp [scaleBins, Bins.addEmpty, Bins.concat, Bins.new]

theorem removeLast_scale (c : Nat) (b : Bins α) (n : Nat) :
    (scaleBins c b).removeLast n = scaleBins c (b.removeLast n) := by
  simp [scaleBins, Bins.removeLast]

theorem lastD_map_mul (c : Nat) (l : List Nat) : lastD (l.map (c * ·)) 0 = c * lastD l 0 := by
  unfold lastD
  rw [List.getLast?_map]
  cases l.getLast? <;> simp

theorem headD_map_mul (c : Nat) (l : List Nat) : (l.map (c * ·)).headD 0 = c * l.headD 0 := by
  cases l <;> simp

theorem lastSum_scale (c : Nat) (b : Bins α) : (scaleBins c b).lastSum = c * b.lastSum := by
  simp only [Bins.lastSum, scaleBins_sums, lastD_map_mul]

theorem binSum_scale (v : α → Nat) (c : Nat) (l : List α) : binSum (fun a => c * v a) l = c * binSum v l := by
  unfold binSum
  rw [← sumL_map_mul, List.map_map]
  rfl

/-! ### A1: greedy and round-robin -/

theorem greedyStep_scale (v : α → Nat) {c : Nat} (hc : 0 < c) (b : Bins α) (x : α) :
    greedyStep (fun a => c * v a) (scaleBins c b) x = scaleBins c (greedyStep v b x) := by
  simp only [greedyStep, scaleBins_sums, argmin_scale hc, add_scale]

theorem foldl_greedyStep_scale (v : α → Nat) {c : Nat} (hc : 0 < c) (xs : List α) (b : Bins α) :
    xs.foldl (greedyStep (fun a => c * v a)) (scaleBins c b) = scaleBins c (xs.foldl (greedyStep v) b) := by
  induction xs generalizing b with
  | nil => rfl
  | cons x xs ih => simp only [List.foldl_cons, greedyStep_scale v hc, ih]

/-- **A1 (greedy).** -/
theorem greedy_scale (v : α → Nat) {c : Nat} (hc : 0 < c) (k : Nat) (items : List α) :
    greedy (fun a => c * v a) k items = scaleBins c (greedy v k items) := by
  unfold greedy
  rw [sortDesc_scale v hc, ← foldl_greedyStep_scale v hc, new_scale]

/-- non-vacuity, with the output computed -/
example : greedy (fun a : Nat => 3 * id a) 2 [4, 5, 6, 7, 8] = scaleBins 3 (greedy id 2 [4, 5, 6, 7, 8]) :=
  greedy_scale id (by decide) 2 [4, 5, 6, 7, 8]

example : (greedy (fun a : Nat => 3 * id a) 2 [4, 5, 6, 7, 8]).sums = [51, 39] := by decide

theorem rrLoop_scale (v : α → Nat) (c k : Nat) (xs : List α) (b : Bins α) (i : Nat) :
    rrLoop (fun a => c * v a) k (scaleBins c b) i xs = scaleBins c (rrLoop v k b i xs) := by
  induction xs generalizing b i with
  | nil => rfl
  | cons x xs ih => simp only [rrLoop, add_scale, ih]

/-- **A1 (round-robin).** -/
theorem roundrobin_scale (v : α → Nat) {c : Nat} (hc : 0 < c) (k : Nat) (items : List α) :
    roundrobin (fun a => c * v a) k items = scaleBins c (roundrobin v k items) := by
  unfold roundrobin
  rw [sortDesc_scale v hc, ← rrLoop_scale, new_scale]

/-- non-vacuity -/
example : roundrobin (fun a : Nat => 3 * id a) 2 [4, 5, 6, 7, 8] = scaleBins 3 (roundrobin id 2 [4, 5, 6, 7, 8]) :=
  roundrobin_scale id (by decide) 2 [4, 5, 6, 7, 8]

example : (roundrobin (fun a : Nat => 3 * id a) 2 [4, 5, 6, 7, 8]).sums = [54, 36] := by decide

/-! ### A3: first fit and best fit.

The general form takes an *arbitrary* bin size `B'` for the scaled values and the size `B' / c` for the unscaled
ones (all sums of scaled values are multiples of `c`); the requested form is the case `B' = c * B`. -/

theorem fits_scale {c : Nat} (hc : 0 < c) (s val B' : Nat) : c * s + c * val ≤ B' ↔ s + val ≤ B' / c := by
  rw [Nat.le_div_iff_mul_le hc, Nat.add_mul, Nat.mul_comm s, Nat.mul_comm val]

theorem toobig_scale {c : Nat} (hc : 0 < c) (val B' : Nat) : B' < c * val ↔ B' / c < val := by
  rw [Nat.div_lt_iff_lt_mul hc, Nat.mul_comm]

theorem ffStep_scale' (v : α → Nat) {c : Nat} (hc : 0 < c) (B' : Nat) (b : Bins α) (x : α) :
    ffStep (fun a => c * v a) B' (scaleBins c b) x = scaleBins c (ffStep v (B' / c) b x) := by
  unfold ffStep
  have hf : ((fun s => decide (s + c * v x ≤ B')) ∘ (c * ·)) = fun s => decide (s + v x ≤ B' / c) := by
    funext s
    exact decide_eq_decide.2 (fits_scale hc s (v x) B')
  rw [scaleBins_sums, List.findIdx?_map, hf]
  cases b.sums.findIdx? (fun s => decide (s + v x ≤ B' / c)) with
  | some i => exact add_scale v c b x i
  | none => simp only [List.length_map, addEmpty_scale, add_scale]

theorem ffLoop_scale' (v : α → Nat) {c : Nat} (hc : 0 < c) (B' : Nat) (xs : List α) (b : Bins α) :
    ffLoop (fun a => c * v a) B' (scaleBins c b) xs = (ffLoop v (B' / c) b xs).map (scaleBins c) := by
  induction xs generalizing b with
  | nil => rfl
  | cons x xs ih =>
    simp only [ffLoop, toobig_scale hc]
    split
    · rfl
    · rw [ffStep_scale' v hc, ih]

/-- first fit with an arbitrary bin size for the scaled values -/
theorem ffOnline_scale' (v : α → Nat) {c : Nat} (hc : 0 < c) (B' : Nat) (items : List α) :
    ffOnline (fun a => c * v a) B' items = (ffOnline v (B' / c) items).map (scaleBins c) := by
  unfold ffOnline
  rw [← ffLoop_scale' v hc, new_scale]

/-- **A3 (first fit, online).** -/
theorem ffOnline_scale (v : α → Nat) {c : Nat} (hc : 0 < c) (B : Nat) (items : List α) :
    ffOnline (fun a => c * v a) (c * B) items = (ffOnline v B items).map (scaleBins c) := by
  rw [ffOnline_scale' v hc, Nat.mul_div_cancel_left B hc]

/-- non-vacuity -/
example : ffOnline (fun a : Nat => 3 * id a) (3 * 10) [4, 5, 6, 7, 8] =
    (ffOnline id 10 [4, 5, 6, 7, 8]).map (scaleBins 3) :=
  ffOnline_scale id (by decide) 10 [4, 5, 6, 7, 8]

example : (ffOnline (fun a : Nat => 3 * id a) (3 * 10) [4, 5, 6, 7, 8]).toOption.map (·.sums) =
    some [27, 18, 21, 24] := by decide

/-- **A3 (first fit, decreasing).** -/
theorem ffDecreasing_scale (v : α → Nat) {c : Nat} (hc : 0 < c) (B : Nat) (items : List α) :
    ffDecreasing (fun a => c * v a) (c * B) items = (ffDecreasing v B items).map (scaleBins c) := by
  unfold ffDecreasing
  rw [sortDesc_scale v hc, ffOnline_scale v hc]

/-- non-vacuity -/
example : ffDecreasing (fun a : Nat => 3 * id a) (3 * 10) [4, 5, 6, 7, 8] =
    (ffDecreasing id 10 [4, 5, 6, 7, 8]).map (scaleBins 3) :=
  ffDecreasing_scale id (by decide) 10 [4, 5, 6, 7, 8]

example : (ffDecreasing (fun a : Nat => 3 * id a) (3 * 10) [4, 5, 6, 7, 8]).toOption.map (·.sums) =
    some [24, 21, 30, 15] := by decide

/-- the best-fit scan: same index, scaled new sum -/
theorem bfScan_scale' {c : Nat} (hc : 0 < c) (val B' : Nat) (ss : List Nat) (i : Nat) (best : Option (Nat × Nat)) :
    bfScan (c * val) B' (ss.map (c * ·)) i (best.map fun p => (p.1, c * p.2)) =
      (bfScan val (B' / c) ss i best).map fun p => (p.1, c * p.2) := by
  induction ss generalizing i best with
  | nil => rfl
  | cons s ss ih =>
    have hle : decide (c * s + c * val ≤ B') = decide (s + val ≤ B' / c) :=
      decide_eq_decide.2 (fits_scale hc s val B')
    cases best with
    | none =>
      simp only [List.map_cons, bfScan, Option.map_none, hle]
      rw [← ih]
      congr 1
      split <;> simp [Nat.mul_add]
    | some p =>
      have hlt : decide (c * p.2 < c * s + c * val) = decide (p.2 < s + val) :=
        decide_eq_decide.2 (by rw [← Nat.mul_add]; exact Nat.mul_lt_mul_left hc)
      simp only [List.map_cons, bfScan, Option.map_some, hle, hlt]
      rw [← ih]
      congr 1
      split <;> simp [Nat.mul_add]

theorem bfStep_scale' (v : α → Nat) {c : Nat} (hc : 0 < c) (B' : Nat) (b : Bins α) (x : α) :
    bfStep (fun a => c * v a) B' (scaleBins c b) x = scaleBins c (bfStep v (B' / c) b x) := by
  unfold bfStep
  have h := bfScan_scale' hc (v x) B' b.sums 0 none
  simp only [Option.map_none] at h
  rw [scaleBins_sums, h]
  cases bfScan (v x) (B' / c) b.sums 0 none with
  | some p => exact add_scale v c b x p.1
  | none => simp only [Option.map_none, List.length_map, addEmpty_scale, add_scale]

theorem bfLoop_scale' (v : α → Nat) {c : Nat} (hc : 0 < c) (B' : Nat) (xs : List α) (b : Bins α) :
    bfLoop (fun a => c * v a) B' (scaleBins c b) xs = (bfLoop v (B' / c) b xs).map (scaleBins c) := by
  induction xs generalizing b with
  | nil => rfl
  | cons x xs ih =>
    simp only [bfLoop, toobig_scale hc]
    split
    · rfl
    · rw [bfStep_scale' v hc, ih]

/-- best fit with an arbitrary bin size for the scaled values -/
theorem bfOnline_scale' (v : α → Nat) {c : Nat} (hc : 0 < c) (B' : Nat) (items : List α) :
    bfOnline (fun a => c * v a) B' items = (bfOnline v (B' / c) items).map (scaleBins c) := by
  unfold bfOnline
  rw [← bfLoop_scale' v hc, new_scale]

/-- **A3 (best fit, online).** -/
theorem bfOnline_scale (v : α → Nat) {c : Nat} (hc : 0 < c) (B : Nat) (items : List α) :
    bfOnline (fun a => c * v a) (c * B) items = (bfOnline v B items).map (scaleBins c) := by
  rw [bfOnline_scale' v hc, Nat.mul_div_cancel_left B hc]

/-- non-vacuity -/
example : bfOnline (fun a : Nat => 3 * id a) (3 * 10) [5, 7, 3, 2] =
    (bfOnline id 10 [5, 7, 3, 2]).map (scaleBins 3) :=
  bfOnline_scale id (by decide) 10 [5, 7, 3, 2]

example : (bfOnline (fun a : Nat => 3 * id a) (3 * 10) [5, 7, 3, 2]).toOption.map (·.sums) =
    some [21, 30] := by decide

/-- **A3 (best fit, decreasing).** -/
theorem bfDecreasing_scale (v : α → Nat) {c : Nat} (hc : 0 < c) (B : Nat) (items : List α) :
    bfDecreasing (fun a => c * v a) (c * B) items = (bfDecreasing v B items).map (scaleBins c) := by
  unfold bfDecreasing
  rw [sortDesc_scale v hc, bfOnline_scale v hc]

/-- non-vacuity -/
example : bfDecreasing (fun a : Nat => 3 * id a) (3 * 10) [4, 5, 3, 6, 2] =
    (bfDecreasing id 10 [4, 5, 3, 6, 2]).map (scaleBins 3) :=
  bfDecreasing_scale id (by decide) 10 [4, 5, 3, 6, 2]

example : (bfDecreasing (fun a : Nat => 3 * id a) (3 * 10) [4, 5, 3, 6, 2]).toOption.map (·.sums) =
    some [30, 30] := by decide

/-! ### A4: the covering heuristics -/

theorem closeIfFull_scale {c : Nat} (hc : 0 < c) (B : Nat) (b : Bins α) :
    closeIfFull (c * B) (scaleBins c b) = scaleBins c (closeIfFull B b) := by
  unfold closeIfFull
  rw [lastSum_scale, addEmpty_scale]
  simp only [Nat.mul_le_mul_left_iff hc]
  split <;> rfl

theorem coverStep_scale (v : α → Nat) {c : Nat} (hc : 0 < c) (B : Nat) (b : Bins α) (x : α) :
    coverStep (fun a => c * v a) (c * B) (scaleBins c b) x = scaleBins c (coverStep v B b x) := by
  have h := closeIfFull_scale hc B (b.addLast v x)
  unfold closeIfFull at h
  unfold coverStep
  simp only [addLast_scale]
  exact h

theorem decrSub_scale (v : α → Nat) {c : Nat} (hc : 0 < c) (B : Nat) (xs : List α) (b : Bins α) :
    decrSub (fun a => c * v a) (c * B) (scaleBins c b) xs = scaleBins c (decrSub v B b xs) := by
  unfold decrSub
  induction xs generalizing b with
  | nil => rfl
  | cons x xs ih => simp only [List.foldl_cons, coverStep_scale v hc, ih]

/-- **A4 (greedy covering, decreasing).** -/
theorem coverDecreasing_scale (v : α → Nat) {c : Nat} (hc : 0 < c) (B : Nat) (items : List α) :
    coverDecreasing (fun a => c * v a) (c * B) items = scaleBins c (coverDecreasing v B items) := by
  unfold coverDecreasing
  rw [sortDesc_scale v hc, ← removeLast_scale, ← decrSub_scale v hc, new_scale]

/-- non-vacuity -/
example : coverDecreasing (fun a : Nat => 3 * id a) (3 * 10) [4, 5, 6, 7, 8, 3] =
    scaleBins 3 (coverDecreasing id 10 [4, 5, 6, 7, 8, 3]) :=
  coverDecreasing_scale id (by decide) 10 [4, 5, 6, 7, 8, 3]

example : (coverDecreasing (fun a : Nat => 3 * id a) (3 * 10) [4, 5, 6, 7, 8, 3]).sums = [45, 33] := by decide

theorem fillFromSmall_scale (v : α → Nat) {c : Nat} (hc : 0 < c) (B : Nat) (fuel : Nat) (b : Bins α)
    (items : List α) :
    fillFromSmall (fun a => c * v a) (c * B) fuel (scaleBins c b) items =
      (scaleBins c (fillFromSmall v B fuel b items).1, (fillFromSmall v B fuel b items).2) := by
  induction fuel generalizing b items with
  | zero => rfl
  | succ fuel ih =>
    simp only [fillFromSmall, lastSum_scale, Nat.mul_lt_mul_left hc]
    split
    · cases items.getLast? with
      | none => rfl
      | some x => simp only [addLast_scale, ih]
    · rfl

theorem twoThirdsLoop_scale (v : α → Nat) {c : Nat} (hc : 0 < c) (B : Nat) (fuel : Nat) (b : Bins α)
    (items : List α) :
    twoThirdsLoop (fun a => c * v a) (c * B) fuel (scaleBins c b) items =
      scaleBins c (twoThirdsLoop v B fuel b items) := by
  induction fuel generalizing b items with
  | zero => rfl
  | succ fuel ih =>
    cases items with
    | nil => rfl
    | cons x rest =>
      simp only [twoThirdsLoop, addLast_scale, fillFromSmall_scale v hc, closeIfFull_scale hc, ih]

/-- **A4 (two-thirds covering).** -/
theorem twoThirds_scale (v : α → Nat) {c : Nat} (hc : 0 < c) (B : Nat) (items : List α) :
    twoThirds (fun a => c * v a) (c * B) items = scaleBins c (twoThirds v B items) := by
  unfold twoThirds
  simp only [sortDesc_scale v hc]
  rw [← removeLast_scale, ← twoThirdsLoop_scale v hc, new_scale]

/-- non-vacuity -/
example : twoThirds (fun a : Nat => 3 * id a) (3 * 10) [4, 5, 6, 7, 8, 3] =
    scaleBins 3 (twoThirds id 10 [4, 5, 6, 7, 8, 3]) :=
  twoThirds_scale id (by decide) 10 [4, 5, 6, 7, 8, 3]

example : (twoThirds (fun a : Nat => 3 * id a) (3 * 10) [4, 5, 6, 7, 8, 3]).sums = [33, 33, 33] := by decide

theorem isBig_scale (v : α → Nat) {c : Nat} (hc : 0 < c) (B : Nat) :
    isBig (fun a => c * v a) (c * B) = isBig v B := by
  funext x
  unfold isBig
  exact decide_eq_decide.2 (by rw [Nat.mul_left_comm]; exact Nat.mul_le_mul_left_iff hc)

theorem isMedium_scale (v : α → Nat) {c : Nat} (hc : 0 < c) (B : Nat) :
    isMedium (fun a => c * v a) (c * B) = isMedium v B := by
  funext x
  unfold isMedium
  congr 1
  · exact decide_eq_decide.2 (by rw [Nat.mul_left_comm]; exact Nat.mul_le_mul_left_iff hc)
  · exact decide_eq_decide.2 (by rw [Nat.mul_left_comm]; exact Nat.mul_lt_mul_left hc)

theorem isSmall_scale (v : α → Nat) {c : Nat} (hc : 0 < c) (B : Nat) :
    isSmall (fun a => c * v a) (c * B) = isSmall v B := by
  funext x
  unfold isSmall
  exact decide_eq_decide.2 (by rw [Nat.mul_left_comm]; exact Nat.mul_lt_mul_left hc)

theorem foldl_addLast_scale (v : α → Nat) (c : Nat) (xs : List α) (b : Bins α) :
    xs.foldl (Bins.addLast (fun a => c * v a)) (scaleBins c b) = scaleBins c (xs.foldl (Bins.addLast v) b) := by
  induction xs generalizing b with
  | nil => rfl
  | cons x xs ih => simp only [List.foldl_cons, addLast_scale, ih]

theorem threeQuartersLoop_scale (v : α → Nat) {c : Nat} (hc : 0 < c) (B : Nat) (fuel : Nat) (b : Bins α)
    (big med small : List α) :
    threeQuartersLoop (fun a => c * v a) (c * B) fuel (scaleBins c b) big med small =
      scaleBins c (threeQuartersLoop v B fuel b big med small) := by
  induction fuel generalizing b big med small with
  | zero => rfl
  | succ fuel ih =>
    simp only [threeQuartersLoop, binSum_scale, Nat.mul_le_mul_left_iff hc]
    split
    · simp only [decrSub_scale v hc]
    · split
      · simp only [decrSub_scale v hc]
      · by_cases hb : binSum v (med.take 2) ≤ binSum v (big.take 1)
        · simp only [hb, decide_true, if_true, foldl_addLast_scale, fillFromSmall_scale v hc,
            closeIfFull_scale hc, ih]
        · simp only [hb, decide_false, Bool.false_eq_true, if_false, foldl_addLast_scale,
            fillFromSmall_scale v hc, closeIfFull_scale hc, ih]

/-- **A4 (three-quarters covering).** -/
theorem threeQuarters_scale (v : α → Nat) {c : Nat} (hc : 0 < c) (B : Nat) (items : List α) :
    threeQuarters (fun a => c * v a) (c * B) items = scaleBins c (threeQuarters v B items) := by
  unfold threeQuarters
  simp only [sortDesc_scale v hc, isBig_scale v hc, isMedium_scale v hc, isSmall_scale v hc]
  rw [← removeLast_scale, ← threeQuartersLoop_scale v hc, new_scale]

/-- non-vacuity -/
example : threeQuarters (fun a : Nat => 3 * id a) (3 * 10) [4, 5, 6, 7, 8, 3, 2, 1, 1] =
    scaleBins 3 (threeQuarters id 10 [4, 5, 6, 7, 8, 3, 2, 1, 1]) :=
  threeQuarters_scale id (by decide) 10 [4, 5, 6, 7, 8, 3, 2, 1, 1]

example : (threeQuarters (fun a : Nat => 3 * id a) (3 * 10) [4, 5, 6, 7, 8, 3, 2, 1, 1]).sums = [30, 36, 33] := by
  decide

/-! ### A2: Karmarkar–Karp -/

theorem insertAsc_map {β γ : Type} (f : β → γ) {key : β → Nat} {key' : γ → Nat}
    (h : ∀ a b, key' (f a) ≤ key' (f b) ↔ key a ≤ key b) (x : β) (l : List β) :
    insertAsc key' (f x) (l.map f) = (insertAsc key x l).map f := by
  induction l with
  | nil => rfl
  | cons y ys ih =>
    simp only [List.map_cons, insertAsc, h]
    split
    · rfl
    · rw [ih]; rfl

theorem sortAsc_map {β γ : Type} (f : β → γ) {key : β → Nat} {key' : γ → Nat}
    (h : ∀ a b, key' (f a) ≤ key' (f b) ↔ key a ≤ key b) (l : List β) :
    sortAsc key' (l.map f) = (sortAsc key l).map f := by
  induction l with
  | nil => rfl
  | cons x xs ih => simp only [List.map_cons, sortAsc, ih, insertAsc_map f h]

theorem sortAsc_scaleBins {c : Nat} (hc : 0 < c) (b : Bins α) :
    (scaleBins c b).sortAsc = scaleBins c b.sortAsc := by
  unfold Bins.sortAsc
  simp only [scaleBins_sums, scaleBins_lists, List.zip_map_left]
  rw [sortAsc_map (Prod.map (c * ·) id) (key := fun p : Nat × List α => p.1)
    (fun a b => Nat.mul_le_mul_left_iff hc)]
  simp only [scaleBins, List.map_map]
  rfl

/-- a heap entry with all sums (hence the difference) multiplied by `c` -/
def scaleEntry (c : Nat) (e : HEntry α) : HEntry α := ⟨c * e.diff, e.cnt, scaleBins c e.bins⟩

theorem hpush_scale {c : Nat} (hc : 0 < c) (h : Heap α) (cnt : Nat) (b : Bins α) :
    hpush (h.map (scaleEntry c)) cnt (scaleBins c b) = ((hpush h cnt b).1.map (scaleEntry c), (hpush h cnt b).2) := by
  simp only [hpush, sortAsc_scaleBins hc, scaleBins_sums, lastD_map_mul, headD_map_mul, List.map_append,
    List.map_cons, List.map_nil, scaleEntry, Nat.mul_sub]

theorem before_scale {c : Nat} (hc : 0 < c) (e1 e2 : HEntry α) :
    (scaleEntry c e1).before (scaleEntry c e2) = e1.before e2 := by
  have h1 : (c * e2.diff < c * e1.diff) ↔ (e2.diff < e1.diff) := Nat.mul_lt_mul_left hc
  have h2 : (c * e1.diff = c * e2.diff) ↔ (e1.diff = e2.diff) := Nat.mul_left_cancel_iff hc
  show (decide (c * e2.diff < c * e1.diff) || (decide (c * e1.diff = c * e2.diff) && decide (e1.cnt < e2.cnt))) =
    (decide (e2.diff < e1.diff) || (decide (e1.diff = e2.diff) && decide (e1.cnt < e2.cnt)))
  rw [decide_eq_decide.2 h1, decide_eq_decide.2 h2]

theorem hbestAux_scale {c : Nat} (hc : 0 < c) (es : List (HEntry α)) (i bi : Nat) (be : HEntry α) :
    hbestAux (es.map (scaleEntry c)) i bi (scaleEntry c be) = hbestAux es i bi be := by
  induction es generalizing i bi be with
  | nil => rfl
  | cons e es ih =>
    simp only [List.map_cons, hbestAux, before_scale hc]
    split <;> exact ih _ _ _

theorem hbest_scale {c : Nat} (hc : 0 < c) (h : Heap α) :
    hbest (h.map (scaleEntry c)) = (hbest h).map fun p => (p.1, scaleEntry c p.2) := by
  cases h with
  | nil => rfl
  | cons e es =>
    simp only [List.map_cons, hbest, hbestAux_scale hc]
    rw [← List.map_cons, List.getElem?_map]
    cases (e :: es)[hbestAux es 1 0 e]? <;> rfl

theorem htop_scale {c : Nat} (hc : 0 < c) (h : Heap α) :
    htop (h.map (scaleEntry c)) = (htop h).map (scaleEntry c) := by
  unfold htop
  rw [hbest_scale hc]
  cases hbest h <;> rfl

theorem removeAt_map {β γ : Type} (f : β → γ) (l : List β) (i : Nat) :
    removeAt (l.map f) i = (removeAt l i).map f := by
  simp [removeAt]

theorem hpop_scale {c : Nat} (hc : 0 < c) (h : Heap α) :
    hpop (h.map (scaleEntry c)) = (hpop h).map fun p => (scaleEntry c p.1, p.2.map (scaleEntry c)) := by
  unfold hpop
  rw [hbest_scale hc]
  cases hbest h with
  | none => rfl
  | some p => simp only [Option.map_some, removeAt_map]

theorem single_scale (v : α → Nat) (c k : Nat) (x : α) :
    single (fun a => c * v a) k x = scaleBins c (single v k x) := by
  unfold single
  rw [← add_scale, new_scale]

theorem pushAll_scale (v : α → Nat) {c : Nat} (hc : 0 < c) (k : Nat) (xs : List α) (h : Heap α) (cnt : Nat) :
    pushAll (fun a => c * v a) k xs (h.map (scaleEntry c)) cnt =
      ((pushAll v k xs h cnt).1.map (scaleEntry c), (pushAll v k xs h cnt).2) := by
  induction xs generalizing h cnt with
  | nil => rfl
  | cons x xs ih => simp only [pushAll, single_scale, hpush_scale hc, ih]

theorem kkCombine_scale (c : Nat) (b1 b2 : Bins α) :
    kkCombine (scaleBins c b1) (scaleBins c b2) = scaleBins c (kkCombine b1 b2) := by
  simp only [kkCombine, scaleBins, ← List.map_reverse, List.zipWith_map, List.map_zipWith, Nat.mul_add]

theorem kkLoop_scale {c : Nat} (hc : 0 < c) (n : Nat) (h : Heap α) (cnt : Nat) :
    kkLoop n (h.map (scaleEntry c)) cnt = (kkLoop n h cnt).map (scaleEntry c) := by
  induction n generalizing h cnt with
  | zero => rfl
  | succ n ih =>
    simp only [kkLoop, hpop_scale hc]
    cases hpop h with
    | none => rfl
    | some p1 =>
      simp only [Option.map_some, hpop_scale hc]
      cases hpop p1.2 with
      | none => rfl
      | some p2 =>
        simp only [Option.map_some]
        have : (scaleEntry c p1.1).bins = scaleBins c p1.1.bins := rfl
        have : (scaleEntry c p2.1).bins = scaleBins c p2.1.bins := rfl
        simp only [*, kkCombine_scale, hpush_scale hc]

/-- **A2 (Karmarkar–Karp).** -/
theorem kk_scale (v : α → Nat) {c : Nat} (hc : 0 < c) (k : Nat) (items : List α) :
    kk (fun a => c * v a) k items = (kk v k items).map (scaleBins c) := by
  unfold kk
  have hp := pushAll_scale v hc k (sortDesc v items) [] 0
  simp only [List.map_nil] at hp
  simp only [sortDesc_scale v hc, hp, kkLoop_scale hc, htop_scale hc]
  cases htop (kkLoop ((sortDesc v items).length - 1) (pushAll v k (sortDesc v items) [] 0).1
    (pushAll v k (sortDesc v items) [] 0).2) <;> rfl

/-- non-vacuity -/
example : kk (fun a : Nat => 3 * id a) 3 [4, 5, 6, 7, 8] = (kk id 3 [4, 5, 6, 7, 8]).map (scaleBins 3) :=
  kk_scale id (by decide) 3 [4, 5, 6, 7, 8]

example : (kk (fun a : Nat => 3 * id a) 3 [4, 5, 6, 7, 8]).toOption.map (·.sums) = some [24, 33, 33] := by decide

/-! ### A5: multifit (rational capacities) -/

theorem le_floorNat_iff {t : Nat} (ht : 0 < t) (q : Rat) : t ≤ floorNat q ↔ (t : Rat) ≤ q := by
  unfold floorNat
  rw [← Rat.intCast_natCast, ← Rat.le_floor_iff]
  omega

/-- `⌊⌊c q⌋ / c⌋ = ⌊q⌋` -/
theorem floorNat_scale {c : Nat} (hc : 0 < c) (q : Rat) : floorNat ((c : Rat) * q) / c = floorNat q := by
  have key : ∀ t : Nat, t ≤ floorNat ((c : Rat) * q) / c ↔ t ≤ floorNat q := by
    intro t
    rw [Nat.le_div_iff_mul_le hc]
    cases t with
    | zero => simp
    | succ t =>
      have hc' : (0 : Rat) < c := Rat.natCast_pos.2 hc
      rw [le_floorNat_iff (Nat.mul_pos (Nat.succ_pos t) hc), le_floorNat_iff (Nat.succ_pos t), Rat.natCast_mul,
        Rat.mul_comm]
      exact ⟨fun h => Rat.le_of_mul_le_mul_left h hc', fun h => Rat.mul_le_mul_of_nonneg_left h (Rat.le_of_lt hc')⟩
  exact Nat.le_antisymm ((key _).1 (Nat.le_refl _)) ((key _).2 (Nat.le_refl _))

/-- first fit with a rational capacity: scaling values and capacity -/
theorem ffOnline_floorNat_scale (v : α → Nat) {c : Nat} (hc : 0 < c) (cap : Rat) (items : List α) :
    ffOnline (fun a => c * v a) (floorNat ((c : Rat) * cap)) items =
      (ffOnline v (floorNat cap) items).map (scaleBins c) := by
  rw [ffOnline_scale' v hc, floorNat_scale hc]

theorem ffCount_scale (v : α → Nat) {c : Nat} (hc : 0 < c) (cap : Rat) (items : List α) :
    ffCount (fun a => c * v a) ((c : Rat) * cap) items = ffCount v cap items := by
  unfold ffCount
  rw [ffOnline_floorNat_scale v hc]
  cases ffOnline v (floorNat cap) items with
  | error e => rfl
  | ok b => simp [Except.map]

theorem ratMax_scale {c : Rat} (hc : 0 < c) (a b : Rat) : ratMax (c * a) (c * b) = c * ratMax a b := by
  unfold ratMax
  by_cases h : a ≤ b
  · rw [if_pos h, if_pos (Rat.mul_le_mul_of_nonneg_left h (Rat.le_of_lt hc))]
  · rw [if_neg h, if_neg (fun h' => h (Rat.le_of_mul_le_mul_left h' hc))]

theorem mid_scale (c lo hi : Rat) : (c * lo + c * hi) / 2 = c * ((lo + hi) / 2) := by
  rw [← Rat.mul_add, Rat.div_def, Rat.div_def, Rat.mul_assoc]

theorem multifitSearch_scale (v : α → Nat) {c : Nat} (hc : 0 < c) (k : Nat) (sorted : List α) (it : Nat)
    (lo hi : Rat) :
    multifitSearch (fun a => c * v a) k sorted it ((c : Rat) * lo) ((c : Rat) * hi) =
      (multifitSearch v k sorted it lo hi).map ((c : Rat) * ·) := by
  induction it generalizing lo hi with
  | zero => rfl
  | succ it ih =>
    simp only [multifitSearch, mid_scale, ffCount_scale v hc]
    cases ffCount v ((lo + hi) / 2) sorted with
    | error e => rfl
    | ok n =>
      simp only
      split
      · exact ih _ _
      · exact ih _ _

/-- **A5 (multifit).** -/
theorem multifit_scale (v : α → Nat) {c : Nat} (hc : 0 < c) (k : Nat) (items : List α) (it : Nat) :
    multifit (fun a => c * v a) k items it = (multifit v k items it).map (scaleBins c) := by
  have hc' : (0 : Rat) < c := Rat.natCast_pos.2 hc
  have hmap : items.map (fun a => c * v a) = (items.map v).map (c * ·) := by
    rw [List.map_map]; rfl
  have hlo : ratMax (((c : Rat) * (sumL (items.map v) : Nat)) / k) ((c : Rat) * (maxL (items.map v) : Nat)) =
      (c : Rat) * ratMax (((sumL (items.map v) : Nat) : Rat) / k) (maxL (items.map v) : Nat) := by
    rw [← ratMax_scale hc', Rat.div_def, Rat.div_def, Rat.mul_assoc]
  have hhi : ratMax ((2 * ((c : Rat) * (sumL (items.map v) : Nat))) / k) ((c : Rat) * (maxL (items.map v) : Nat)) =
      (c : Rat) * ratMax ((2 * ((sumL (items.map v) : Nat) : Rat)) / k) (maxL (items.map v) : Nat) := by
    rw [← ratMax_scale hc', Rat.div_def, Rat.div_def, ← Rat.mul_assoc 2, Rat.mul_comm 2, Rat.mul_assoc (c : Rat),
      Rat.mul_assoc (c : Rat)]
  unfold multifit
  simp only [hmap, sumL_map_mul, maxL_map_mul, Rat.natCast_mul, hlo, hhi, sortDesc_scale v hc,
    multifitSearch_scale v hc]
  cases multifitSearch v k (sortDesc v items) it
      (ratMax (((sumL (items.map v) : Nat) : Rat) / k) (maxL (items.map v) : Nat))
      (ratMax ((2 * ((sumL (items.map v) : Nat) : Rat)) / k) (maxL (items.map v) : Nat)) with
  | error e => rfl
  | ok cap => exact ffOnline_floorNat_scale v hc cap _

/-- non-vacuity -/
example : multifit (fun a : Nat => 3 * id a) 3 [4, 5, 6, 7, 8] 10 =
    (multifit id 3 [4, 5, 6, 7, 8] 10).map (scaleBins 3) :=
  multifit_scale id (by decide) 3 [4, 5, 6, 7, 8] 10

/-- multifit never fails (`Part.multifit_valid`), so both sides above are `.ok`: -/
example : ∃ b, multifit id 3 [4, 5, 6, 7, 8] 10 = .ok b ∧
    multifit (fun a : Nat => 3 * id a) 3 [4, 5, 6, 7, 8] 10 = .ok (scaleBins 3 b) := by
  obtain ⟨b, hb, _⟩ := Part.multifit_valid id 3 [4, 5, 6, 7, 8] 10
  exact ⟨b, hb, by rw [multifit_scale id (by decide), hb]; rfl⟩

end Prtpy.Scale

/-
Axiom audit (output of `#print axioms` observed with `lake env lean PrtpyProofs/Scale.lean`):

#print axioms Prtpy.Scale.value_scale
  'Prtpy.Scale.value_scale' depends on axioms: [propext, Quot.sound]
#print axioms Prtpy.Scale.isOptimal_scale
  'Prtpy.Scale.isOptimal_scale' depends on axioms: [propext, Quot.sound]
#print axioms Prtpy.Scale.optValue_scale
  'Prtpy.Scale.optValue_scale' depends on axioms: [propext, Classical.choice, Quot.sound]
#print axioms Prtpy.Scale.isOptimal_perm
  'Prtpy.Scale.isOptimal_perm' depends on axioms: [propext, Classical.choice, Quot.sound]
#print axioms Prtpy.Scale.optValue_perm
  'Prtpy.Scale.optValue_perm' depends on axioms: [propext, Classical.choice, Quot.sound]
#print axioms Prtpy.Scale.isOptimal_zeros_partial
  'Prtpy.Scale.isOptimal_zeros_partial' depends on axioms: [propext, Quot.sound]
#print axioms Prtpy.Scale.isOptimal_zeros_anywhere
  'Prtpy.Scale.isOptimal_zeros_anywhere' depends on axioms: [propext, Classical.choice, Quot.sound]
#print axioms Prtpy.Scale.optValue_zeros
  'Prtpy.Scale.optValue_zeros' depends on axioms: [propext, Classical.choice, Quot.sound]
#print axioms Prtpy.Scale.greedy_scale
  'Prtpy.Scale.greedy_scale' depends on axioms: [propext, Quot.sound]
#print axioms Prtpy.Scale.roundrobin_scale
  'Prtpy.Scale.roundrobin_scale' depends on axioms: [propext]
#print axioms Prtpy.Scale.kk_scale
  'Prtpy.Scale.kk_scale' depends on axioms: [propext, Classical.choice, Quot.sound]
#print axioms Prtpy.Scale.ffOnline_scale
  'Prtpy.Scale.ffOnline_scale' depends on axioms: [propext, Quot.sound]
#print axioms Prtpy.Scale.ffDecreasing_scale
  'Prtpy.Scale.ffDecreasing_scale' depends on axioms: [propext, Quot.sound]
#print axioms Prtpy.Scale.bfOnline_scale
  'Prtpy.Scale.bfOnline_scale' depends on axioms: [propext, Classical.choice, Quot.sound]
#print axioms Prtpy.Scale.bfDecreasing_scale
  'Prtpy.Scale.bfDecreasing_scale' depends on axioms: [propext, Classical.choice, Quot.sound]
#print axioms Prtpy.Scale.ffOnline_scale
  'Prtpy.Scale.ffOnline_scale'' depends on axioms: [propext, Quot.sound]
#print axioms Prtpy.Scale.bfOnline_scale
  'Prtpy.Scale.bfOnline_scale'' depends on axioms: [propext, Classical.choice, Quot.sound]
#print axioms Prtpy.Scale.coverDecreasing_scale
  'Prtpy.Scale.coverDecreasing_scale' depends on axioms: [propext]
#print axioms Prtpy.Scale.twoThirds_scale
  'Prtpy.Scale.twoThirds_scale' depends on axioms: [propext, Classical.choice, Quot.sound]
#print axioms Prtpy.Scale.threeQuarters_scale
  'Prtpy.Scale.threeQuarters_scale' depends on axioms: [propext, Classical.choice, Quot.sound]
#print axioms Prtpy.Scale.multifit_scale
  'Prtpy.Scale.multifit_scale' depends on axioms: [propext, Classical.choice, Quot.sound]
#print axioms Prtpy.Scale.isOptimal_zeros_of_ne_nil
  'Prtpy.Scale.isOptimal_zeros_of_ne_nil' depends on axioms: [propext, Quot.sound]
-/
