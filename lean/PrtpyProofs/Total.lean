/-
  PrtpyProofs.Total — property C01, totality part: "a call that runs to completion never yields a missing
  result".  In the models: with enough fuel no exact algorithm ends in `.error .fuel`, and on the property's
  domain (`0 < k`, non-empty items) it ends in `.ok`.

  Main theorems
  * `ckk_fuel_sufficient`, `ckkGen_fuel_sufficient` : `ckkFuel k n = (k! + 1) ^ n + 1` iterations suffice
    (both managers, every bound);
  * `ckk_fuel_mono`, `ckkGen_fuel_mono`            : more fuel does not change a completed run;
  * `snp_total`                                     : `snp` with fuel `ckkFuel 2 n` returns `.ok`;
  * `rnpF_total`                                    : `rnpF` (numbins ≤ 5) with fuel `ckkFuel 2 n` returns `.ok`
    (these two are in PrtpyProofs/CKKFSwitch3.lean since fix F11, same namespace);
  * `bc_total`                                      : `binCompletion` returns `.ok` (and the optimum with `enoughFuel`).
-/
import Prtpy
import PrtpyProofs.Part
import PrtpyProofs.CKK
import PrtpyProofs.CKKValid
import PrtpyProofs.CKKOpt
import PrtpyProofs.SNP
import PrtpyProofs.SNPOpt
import PrtpyProofs.RNPF
import PrtpyProofs.BCProofs
import Mathlib.Data.Nat.Factorial.Basic
open Prtpy

namespace Prtpy.Total

variable {α : Type}

/-! ## 1. `itertools.permutations` yields `n!` lists; `all_combinations` at most `k!` tuples, at least one -/

theorem length_flatMap_const {β γ : Type} (f : β → List γ) (c : Nat) :
    ∀ l : List β, (∀ a ∈ l, (f a).length = c) → (l.flatMap f).length = l.length * c
  | [], _ => by simp
  | a :: l, h => by
    have h1 := h a List.mem_cons_self
    have ih := length_flatMap_const f c l (fun b hb => h b (List.mem_cons_of_mem _ hb))
    simp only [List.flatMap_cons, List.length_append, List.length_cons, Nat.add_mul, h1, ih]
    omega

theorem lexPermsAux_length (n : Nat) (l : List α) (hl : l.length = n) :
    (lexPermsAux n l).length = n.factorial := by
  induction n generalizing l with
  | zero => simp [lexPermsAux]
  | succ n ih =>
    cases l with
    | nil => simp at hl
    | cons a t =>
      rw [CKKProofs.lexPermsAux_succ_cons, length_flatMap_const _ n.factorial]
      · rw [List.length_range, hl, Nat.factorial_succ]
      · intro i hi
        have hi' : i < (a :: t).length := List.mem_range.1 hi
        rw [List.getElem?_eq_getElem hi']
        have hlen : (removeAt (a :: t) i).length = n := by
          have := CKKProofs.removeAt_length (a :: t) i hi'; omega
        simp only [List.length_map]
        exact ih _ hlen

theorem lexPerms_length (l : List α) : (lexPerms l).length = l.length.factorial :=
  lexPermsAux_length l.length l rfl

theorem lexPerms_ne_nil (l : List α) : lexPerms l ≠ [] := by
  intro h
  have := CKKProofs.lexPerms_complete (List.Perm.refl l)
  rw [h] at this
  cases this

theorem allCombContentsAux_length_le (nm : α → Nat) [BEq α] (b1 b2 : Bins α) :
    ∀ (perms : List (List Nat)) (acc : List (Bins α)),
      (allCombContentsAux nm b1 b2 perms acc).length ≤ perms.length + acc.length
  | [], acc => by simp [allCombContentsAux]
  | perm :: rest, acc => by
    simp only [allCombContentsAux]
    split
    · have := allCombContentsAux_length_le nm b1 b2 rest acc
      simp only [List.length_cons]; omega
    · have := allCombContentsAux_length_le nm b1 b2 rest
        ((Bins.mk (pairBy b1 b2 perm).sums ((pairBy b1 b2 perm).lists.map (sortAsc nm))).sortAsc :: acc)
      simp only [List.length_cons] at this ⊢; omega

theorem allCombContentsAux_ne_nil (nm : α → Nat) [BEq α] (b1 b2 : Bins α) :
    ∀ (perms : List (List Nat)) (acc : List (Bins α)), acc ≠ [] → allCombContentsAux nm b1 b2 perms acc ≠ []
  | [], acc, h => by simpa [allCombContentsAux] using h
  | perm :: rest, acc, h => by
    simp only [allCombContentsAux]
    split
    · exact allCombContentsAux_ne_nil nm b1 b2 rest acc h
    · exact allCombContentsAux_ne_nil nm b1 b2 rest _ (List.cons_ne_nil _ _)

theorem allCombSumsAux_length_le (b1 b2 : List Nat) :
    ∀ (perms acc : List (List Nat)), (allCombSumsAux b1 b2 perms acc).length ≤ perms.length + acc.length
  | [], acc => by simp [allCombSumsAux]
  | perm :: rest, acc => by
    rw [CKKProofs.allCombSumsAux_cons]
    split
    · have := allCombSumsAux_length_le b1 b2 rest acc
      simp only [List.length_cons]; omega
    · have := allCombSumsAux_length_le b1 b2 rest (CKKProofs.canonS b1 b2 perm :: acc)
      simp only [List.length_cons] at this ⊢; omega

theorem allCombSumsAux_ne_nil (b1 b2 : List Nat) :
    ∀ (perms acc : List (List Nat)), acc ≠ [] → allCombSumsAux b1 b2 perms acc ≠ []
  | [], acc, h => by simpa [allCombSumsAux] using h
  | perm :: rest, acc, h => by
    rw [CKKProofs.allCombSumsAux_cons]
    split
    · exact allCombSumsAux_ne_nil b1 b2 rest acc h
    · exact allCombSumsAux_ne_nil b1 b2 rest _ (List.cons_ne_nil _ _)

/-- `all_combinations` yields at most `k!` tuples (de-duplication only removes some) -/
theorem allComb_length_le (nm : α → Nat) [BEq α] (contents : Bool) (b1 b2 : Bins α) :
    (allComb nm contents b1 b2).length ≤ b1.sums.length.factorial := by
  unfold allComb
  split
  · have := allCombContentsAux_length_le nm b1 b2 (lexPerms (List.range b1.sums.length)) []
    rw [lexPerms_length, List.length_range] at this
    simpa [allCombContents] using this
  · have := allCombSumsAux_length_le b1.sums b2.sums (lexPerms (List.range b1.sums.length)) []
    rw [lexPerms_length, List.length_range] at this
    simpa [allCombSums] using this

/-- ... and at least one -/
theorem allComb_ne_nil (nm : α → Nat) [BEq α] (contents : Bool) (b1 b2 : Bins α) :
    allComb nm contents b1 b2 ≠ [] := by
  unfold allComb
  split
  · unfold allCombContents
    cases hp : lexPerms (List.range b1.sums.length) with
    | nil => exact absurd hp (lexPerms_ne_nil _)
    | cons perm rest =>
      simp only [allCombContentsAux, List.any_nil, Bool.false_eq_true, if_false]
      exact allCombContentsAux_ne_nil nm b1 b2 rest _ (List.cons_ne_nil _ _)
  · unfold allCombSums
    cases hp : lexPerms (List.range b1.sums.length) with
    | nil => exact absurd hp (lexPerms_ne_nil _)
    | cons perm rest =>
      rw [CKKProofs.allCombSumsAux_cons, if_neg (by simp)]
      have := allCombSumsAux_ne_nil b1.sums b2.sums rest _ (List.cons_ne_nil (CKKProofs.canonS b1.sums b2.sums perm) [])
      simpa using this

/-! ## 2. the potential of a stack of heaps -/

/-- the weight of a heap with `m` tuples: `W 0 = 1`, `W (m + 1) = 1 + k! · W m` -/
def W (k : Nat) : Nat → Nat
  | 0 => 1
  | m + 1 => 1 + k.factorial * W k m

theorem W_pos (k m : Nat) : 0 < W k m := by
  cases m with
  | zero => simp [W]
  | succ m => rw [W]; omega

theorem W_le_pow (k m : Nat) : W k m ≤ (k.factorial + 1) ^ m := by
  induction m with
  | zero => simp [W]
  | succ m ih =>
    have h1 : 1 ≤ (k.factorial + 1) ^ m := Nat.one_le_pow _ _ (by omega)
    have h2 : k.factorial * W k m ≤ k.factorial * (k.factorial + 1) ^ m := Nat.mul_le_mul_left _ ih
    rw [W, Nat.pow_succ, Nat.mul_add, Nat.mul_one, Nat.mul_comm ((k.factorial + 1) ^ m)]
    omega

/-- the potential of a stack: the sum of the weights of its heaps -/
def pot (k : Nat) : List (Heap α) → Nat
  | [] => 0
  | h :: L => W k h.length + pot k L

theorem pot_append (k : Nat) (L₁ L₂ : List (Heap α)) : pot k (L₁ ++ L₂) = pot k L₁ + pot k L₂ := by
  induction L₁ with
  | nil => simp [pot]
  | cons h L ih => simp only [List.cons_append, pot, ih]; omega

theorem pot_perm (k : Nat) {L₁ L₂ : List (Heap α)} (h : L₁.Perm L₂) : pot k L₁ = pot k L₂ := by
  induction h with
  | nil => rfl
  | cons x _ ih => simp only [pot, ih]
  | swap x y l => simp only [pot]; omega
  | trans _ _ ih₁ ih₂ => exact ih₁.trans ih₂

theorem hpush_length (h : Heap α) (c : Nat) (b : Bins α) : (hpush h c b).1.length = h.length + 1 := by
  simp [hpush]

theorem foldl_push_pot (k : Nat) (h2 : Heap α) (combs : List (Bins α)) (acc : List (Heap α) × Nat) :
    pot k (combs.foldl (fun (acc : List (Heap α) × Nat) nb =>
        let p := hpush h2 acc.2 nb; (acc.1 ++ [p.1], p.2)) acc).1 =
      pot k acc.1 + combs.length * W k (h2.length + 1) := by
  induction combs generalizing acc with
  | nil => simp
  | cons nb rest ih =>
    simp only [List.foldl_cons, List.length_cons]
    rw [ih, pot_append, pot, pot, hpush_length, Nat.add_mul]
    omega

theorem foldl_push_length (h2 : Heap α) (combs : List (Bins α)) (acc : List (Heap α) × Nat) :
    (combs.foldl (fun (acc : List (Heap α) × Nat) nb =>
        let p := hpush h2 acc.2 nb; (acc.1 ++ [p.1], p.2)) acc).1.length = acc.1.length + combs.length := by
  induction combs generalizing acc with
  | nil => simp
  | cons nb rest ih =>
    simp only [List.foldl_cons, List.length_cons]
    rw [ih, List.length_append]
    simp only [List.length_cons, List.length_nil]
    omega

theorem hpop_length {h h' : Heap α} {e : HEntry α} (hp : hpop h = some (e, h')) : h.length = h'.length + 1 := by
  have := (Part.hpop_perm hp).length_eq
  simpa using this

theorem hpop_mem {h h' : Heap α} {e : HEntry α} (hp : hpop h = some (e, h')) : e ∈ h :=
  (Part.hpop_perm hp).mem_iff.2 List.mem_cons_self

/-- every tuple on the stack has `k` bins -/
def LenInv (k : Nat) (s : CkkState α) : Prop := ∀ h ∈ s.stack, ∀ e ∈ h, e.bins.sums.length = k

/-- the body of an iteration uses up the weight of the popped heap -/
theorem stepBody_pot (nm : α → Nat) [BEq α] (contents gen isBest : Bool) (k : Nat) (h : Heap α) (s : CkkState α)
    (hlen : ∀ e ∈ h, e.bins.sums.length = k) :
    pot k (CKKValid.stepBody nm contents gen isBest h s).stack + 1 ≤ W k h.length + pot k s.stack := by
  have hW := W_pos k h.length
  unfold CKKValid.stepBody
  split
  · simp only []
    split
    · split
      · show pot k s.stack + 1 ≤ _; omega
      · show pot k s.stack + 1 ≤ _; omega
    · omega
  · split
    · omega
    · rename_i e1 h1 hp1
      split
      · omega
      · rename_i e2 h2 hp2
        show pot k ((sortDesc topDiffOf _).reverse ++ s.stack) + 1 ≤ _
        rw [pot_append, pot_perm k (List.reverse_perm _), pot_perm k (Part.sortDesc_perm _ _), foldl_push_pot]
        have hl1 := hpop_length hp1
        have hl2 := hpop_length hp2
        have hc := allComb_length_le nm contents e1.bins e2.bins
        rw [hlen e1 (hpop_mem hp1)] at hc
        have e : h.length = (h2.length + 1) + 1 := by omega
        have hWe : W k (h2.length + 1 + 1) = 1 + k.factorial * W k (h2.length + 1) := rfl
        rw [e, hWe]
        have := Nat.mul_le_mul_right (W k (h2.length + 1)) hc
        simp only [pot, Nat.zero_add]
        generalize W k (h2.length + 1) = w at *
        omega

/-- every iteration on a non-empty stack lowers the potential -/
theorem ckkStep_pot (nm : α → Nat) [BEq α] (k : Nat) (contents gen isBest : Bool) (s : CkkState α)
    (hl : LenInv k s) (hne : s.stack ≠ []) :
    pot k (ckkStep nm k contents gen isBest s).stack + 1 ≤ pot k s.stack := by
  rw [CKKValid.ckkStep_eq]
  split
  · rename_i hs; exact absurd hs hne
  · rename_i h stack hs
    rw [hs, pot]
    split
    · show pot k stack + 1 ≤ _
      have := W_pos k h.length; omega
    · exact stepBody_pot nm contents gen isBest k h { s with stack := stack }
        (hl h (by rw [hs]; exact List.mem_cons_self))

theorem ckkRun_of_done (nm : α → Nat) [BEq α] (k : Nat) (contents gen isBest : Bool) (fuel : Nat)
    {s : CkkState α} (h : s.done = true) : ckkRun nm k contents gen isBest fuel s = s := by
  cases fuel with
  | zero => rfl
  | succ n => simp only [ckkRun, h, if_true]

theorem ckkRun_add (nm : α → Nat) [BEq α] (k : Nat) (contents gen isBest : Bool) (a b : Nat) (s : CkkState α) :
    ckkRun nm k contents gen isBest (a + b) s =
      ckkRun nm k contents gen isBest b (ckkRun nm k contents gen isBest a s) := by
  induction a generalizing s with
  | zero => simp [ckkRun]
  | succ a ih =>
    rw [Nat.add_right_comm]
    simp only [ckkRun]
    split
    · rename_i hd; rw [ckkRun_of_done _ _ _ _ _ _ hd]
    · exact ih _

/-- once the run is `done`, more fuel changes nothing -/
theorem ckkRun_mono (nm : α → Nat) [BEq α] (k : Nat) (contents gen isBest : Bool) {fuel fuel' : Nat}
    (hf : fuel ≤ fuel') (s : CkkState α) (hd : (ckkRun nm k contents gen isBest fuel s).done = true) :
    ckkRun nm k contents gen isBest fuel' s = ckkRun nm k contents gen isBest fuel s := by
  obtain ⟨d, rfl⟩ := Nat.exists_eq_add_of_le hf
  rw [ckkRun_add, ckkRun_of_done _ _ _ _ _ _ hd]

/-- with fuel above the potential of the stack, the loop runs until `done` -/
theorem ckkRun_done (nm : α → Nat) [BEq α] (k : Nat) (contents gen isBest : Bool) (P : CkkState α → Prop)
    (hstep : ∀ s, P s → P (ckkStep nm k contents gen isBest s)) (hlen : ∀ s, P s → LenInv k s) :
    ∀ (fuel : Nat) (s : CkkState α), P s → pot k s.stack + 1 ≤ fuel →
      (ckkRun nm k contents gen isBest fuel s).done = true := by
  intro fuel
  induction fuel with
  | zero => intro s _ h; omega
  | succ n ih =>
    intro s hs hp
    simp only [ckkRun]
    split
    · assumption
    · by_cases hne : s.stack = []
      · have : (ckkStep nm k contents gen isBest s).done = true := by
          rw [CKKValid.ckkStep_eq, hne]
        rw [ckkRun_of_done _ _ _ _ _ _ this]; exact this
      · have := ckkStep_pot nm k contents gen isBest s (hlen s hs) hne
        exact ih _ (hstep s hs) (by omega)

/-! ## 3. explicit fuel for complete Karmarkar–Karp -/

/-- the explicit fuel bound: `(k! + 1) ^ n + 1` iterations -/
def ckkFuel (k n : Nat) : Nat := (k.factorial + 1) ^ n + 1

theorem ckkFuel_mono (k : Nat) {n n' : Nat} (h : n ≤ n') : ckkFuel k n ≤ ckkFuel k n' := by
  unfold ckkFuel
  have := Nat.pow_le_pow_right (n := k.factorial + 1) (by omega) h
  omega

theorem pushAll_length (v : α → Nat) (k : Nat) :
    ∀ (xs : List α) (h : Heap α) (c : Nat), (pushAll v k xs h c).1.length = h.length + xs.length
  | [], h, c => by simp [pushAll]
  | x :: xs, h, c => by
    simp only [pushAll]
    rw [pushAll_length v k xs, hpush_length, List.length_cons]
    omega

theorem ckkInit_pot (v : α → Nat) (k : Nat) (items : List α) (best : EInt) :
    pot k (ckkInit v k items best).stack + 1 ≤ ckkFuel k items.length := by
  simp only [ckkInit, pot, pushAll_length, Part.sortDesc_length, List.length_nil, Nat.zero_add, Nat.add_zero,
    ckkFuel]
  have := W_le_pow k items.length
  omega

theorem lenInv_of_sinv {v : α → Nat} {k : Nat} {items : List α} {s : CkkState α}
    (h : CKKValid.SInv v k items s) : LenInv k s := by
  intro g hg e he
  obtain ⟨l, c, _, _⟩ := (h.stack g hg).2 e he
  rw [Part.consistent_length v c, l]

theorem lenInv_of_sinvS {v : α → Nat} {k : Nat} {items : List α} {s : CkkState α}
    (h : CKKValid.SInvS v k items s) : LenInv k s := by
  intro g hg e he
  obtain ⟨⟨g', hg', hsim⟩, _⟩ := h.stack g hg
  obtain ⟨e', he', hk⟩ := CKKOpt.sim_mem hsim he
  obtain ⟨l, c, _, _⟩ := hg'.2 e' he'
  rw [(CKKValid.key_eq hk).2.2, Part.consistent_length v c, l]

/-- **The search loop of CKK stops** within `ckkFuel k n` iterations: in every mode (optimal / generator, with or
    without a bound), with either manager. -/
theorem ckkRun_init_done (v nm : α → Nat) [BEq α] {k : Nat} (hk : 0 < k) (contents gen isBest : Bool)
    (items : List α) (best : EInt) {fuel : Nat} (hf : ckkFuel k items.length ≤ fuel) :
    (ckkRun nm k contents gen isBest fuel (ckkInit v k items best)).done = true := by
  have hp := Nat.le_trans (ckkInit_pot v k items best) hf
  cases contents with
  | true =>
    exact ckkRun_done nm k true gen isBest (CKKValid.SInv v k items)
      (fun s hs => CKKValid.ckkStep_inv gen isBest hs) (fun s hs => lenInv_of_sinv hs) fuel _
      (CKKValid.ckkInit_inv hk items best) hp
  | false =>
    exact ckkRun_done nm k false gen isBest (CKKValid.SInvS v k items)
      (fun s hs => CKKValid.ckkStep_invS gen isBest hs) (fun s hs => lenInv_of_sinvS hs) fuel _
      (CKKValid.ckkInit_invS hk items best) hp

/-! ### the search finds an incumbent before it stops -/

/-- an incumbent exists, or nothing has been pruned yet and the stack holds a non-empty heap -/
def J (s : CkkState α) : Prop :=
  s.bestP ≠ none ∨ (s.best = .negInf ∧ s.done = false ∧ s.stack ≠ [] ∧ ∀ g ∈ s.stack, g ≠ [])

theorem stepBody_J (nm : α → Nat) [BEq α] (contents gen isBest : Bool) (h : Heap α) (s : CkkState α)
    (hne : h ≠ []) (hb : s.best = .negInf) (hd : s.done = false) (hall : ∀ g ∈ s.stack, g ≠ []) :
    J (CKKValid.stepBody nm contents gen isBest h s) := by
  unfold CKKValid.stepBody
  split
  · rename_i hlen
    obtain ⟨e, rfl⟩ : ∃ e, h = [e] := by
      match h, hlen with
      | [e], _ => exact ⟨e, rfl⟩
    have hlt : EInt.lt s.best (.fin (-((topDiffOf [e] : Nat) : Int))) = true := by rw [hb]; rfl
    simp only [hlt, if_true]
    left
    split <;> simp [Part.htop_singleton]
  · rename_i hlen
    obtain ⟨e1, h1, hp1, hperm1⟩ := Part.hpop_some h hne
    have hne1 : h1 ≠ [] := by
      rintro rfl
      have := hperm1.length_eq
      simp at this
      simp [this] at hlen
    obtain ⟨e2, h2, hp2, hperm2⟩ := Part.hpop_some h1 hne1
    simp only [hp1, hp2]
    right
    refine ⟨hb, hd, ?_, ?_⟩
    · intro hnil
      have := congrArg List.length hnil
      simp only [List.length_append, List.length_reverse, Part.sortDesc_length, foldl_push_length,
        List.length_nil, Nat.zero_add] at this
      exact allComb_ne_nil nm contents e1.bins e2.bins (List.length_eq_zero_iff.1 (by omega))
    · intro g hg
      simp only [List.mem_append, List.mem_reverse] at hg
      rcases hg with hg | hg
      · rw [(Part.sortDesc_perm _ _).mem_iff] at hg
        rcases CKKValid.foldl_push_mem h2 _ _ g hg with h0 | ⟨nb, _, c, rfl⟩
        · cases h0
        · simp [hpush]
      · exact hall g hg

theorem ckkStep_J (nm : α → Nat) [BEq α] (k : Nat) (contents gen isBest : Bool) (s : CkkState α) (h : J s) :
    J (ckkStep nm k contents gen isBest s) := by
  rcases h with h | ⟨hb, hd, hne, hall⟩
  · left
    obtain ⟨_, hy⟩ := CKKValid.ckkStep_cases nm k contents gen isBest s
    rcases hy with ⟨_, _, h3⟩ | ⟨e, _, _, _, _, h3⟩
    · rw [h3]; exact h
    · rw [h3]; simp
  · rw [CKKValid.ckkStep_eq]
    split
    · rename_i hs; exact absurd hs hne
    · rename_i h stack hs
      have hnp : CKKValid.prunedB k h s.best = false := by
        rw [hb]; unfold CKKValid.prunedB
        cases ckkBound h k <;> rfl
      rw [hnp]
      simp only [Bool.false_eq_true, if_false]
      exact stepBody_J nm contents gen isBest h { s with stack := stack }
        (hall h (by rw [hs]; exact List.mem_cons_self)) hb hd
        (fun g hg => hall g (by rw [hs]; exact List.mem_cons_of_mem _ hg))

theorem ckkInit_J (v : α → Nat) (k : Nat) {items : List α} (hne : items ≠ []) : J (ckkInit v k items .negInf) := by
  right
  refine ⟨rfl, rfl, by simp [ckkInit], ?_⟩
  intro g hg
  simp only [ckkInit, List.mem_singleton] at hg
  subst hg
  intro h
  have := congrArg List.length h
  rw [pushAll_length, Part.sortDesc_length] at this
  have : items.length = 0 := by simpa using this
  exact hne (List.length_eq_zero_iff.1 this)

/-- **C01 (totality) for complete Karmarkar–Karp, `optimal`.**  With `ckkFuel k n = (k! + 1) ^ n + 1` iterations the
    model never reports `Err.fuel`, and for `0 < k` and a non-empty input it returns a result — for both managers. -/
theorem ckk_fuel_sufficient {v nm : α → Nat} [BEq α] {k : Nat} {contents : Bool} {items : List α} {fuel : Nat}
    (hk : 0 < k) (hne : items ≠ []) (hf : ckkFuel k items.length ≤ fuel) :
    ∃ b, ckk v nm k contents items fuel = .ok b := by
  have hd := ckkRun_init_done v nm hk contents false true items .negInf hf
  have hj := CKKValid.ckkRun_inv nm k contents false true J (ckkStep_J nm k contents false true) fuel _
    (ckkInit_J v k hne)
  simp only [ckk, hd, Bool.not_true, Bool.false_eq_true, if_false]
  rcases hj with hj | ⟨_, hnd, _⟩
  · cases hbp : (ckkRun nm k contents false true fuel (ckkInit v k items .negInf)).bestP with
    | none => exact absurd hbp hj
    | some b => exact ⟨_, rfl⟩
  · rw [hd] at hnd; cases hnd

/-- non-vacuity: `(2! + 1) ^ 5 + 1 = 244` iterations suffice for five items and two bins (both managers) -/
example : ∃ b, ckk id id 2 true [4, 5, 6, 7, 8] 244 = .ok b := ckk_fuel_sufficient (by decide) (by decide) (by decide)
example : ∃ b, ckk id id 3 false [4, 5, 6, 7, 8] (ckkFuel 3 5) = .ok b :=
  ckk_fuel_sufficient (by decide) (by decide) (Nat.le_refl _)

/-- with that fuel `Err.fuel` is not reachable on any input (on the empty list the model answers `indexError`:
    Python's `UnboundLocalError`, outside the property's domain) -/
theorem ckk_never_fuel {v nm : α → Nat} [BEq α] {k : Nat} {contents : Bool} {items : List α} {fuel : Nat}
    (hk : 0 < k) (hf : ckkFuel k items.length ≤ fuel) : ckk v nm k contents items fuel ≠ .error .fuel := by
  have hd := ckkRun_init_done v nm hk contents false true items .negInf hf
  simp only [ckk, hd, Bool.not_true, Bool.false_eq_true, if_false]
  split <;> simp

example : ckk id id 2 true ([] : List Nat) 2 ≠ .error .fuel := ckk_never_fuel (by decide) (by decide)

/-- the same for the generator, for every initial bound (no hypothesis on the items is needed) -/
theorem ckkGen_fuel_sufficient {v nm : α → Nat} [BEq α] {k : Nat} {contents : Bool} {items : List α}
    {bound : Option Nat} {fuel : Nat} (hk : 0 < k) (hf : ckkFuel k items.length ≤ fuel) :
    ∃ ys, ckkGen v nm k contents items bound fuel = .ok ys := by
  simp only [ckkGen, ckkRun_init_done v nm hk contents true bound.isNone items _ hf, Bool.not_true,
    Bool.false_eq_true, if_false]
  exact ⟨_, rfl⟩

example : ∃ ys, ckkGen id id 2 true [4, 5, 6, 7, 8] (some 3) 244 = .ok ys :=
  ckkGen_fuel_sufficient (by decide) (by decide)
example : ∃ ys, ckkGen id id 3 false [4, 5, 6, 7, 8] none (ckkFuel 3 5) = .ok ys :=
  ckkGen_fuel_sufficient (by decide) (Nat.le_refl _)

/-! ## 4. more fuel does not change a completed run -/

theorem ckk_done_of_ok {v nm : α → Nat} [BEq α] {k : Nat} {contents : Bool} {items : List α} {fuel : Nat}
    {b : Bins α} (h : ckk v nm k contents items fuel = .ok b) :
    (ckkRun nm k contents false true fuel (ckkInit v k items .negInf)).done = true := by
  simp only [ckk] at h
  split at h
  · cases h
  · rename_i hnd; simpa using hnd

/-- **The run is deterministic and stops**: once `ckk` has returned `.ok b`, every larger fuel returns the same `b`. -/
theorem ckk_fuel_mono {v nm : α → Nat} [BEq α] {k : Nat} {contents : Bool} {items : List α} {fuel fuel' : Nat}
    {b : Bins α} (h : ckk v nm k contents items fuel = .ok b) (hf : fuel ≤ fuel') :
    ckk v nm k contents items fuel' = .ok b := by
  have hd := ckk_done_of_ok h
  simp only [ckk] at h ⊢
  rw [ckkRun_mono nm k contents false true hf _ hd]
  exact h

example : ckk id id 3 true [4, 5, 6, 7, 8] 1000 = .ok ⟨[8, 11, 11], [[8], [5, 6], [4, 7]]⟩ :=
  ckk_fuel_mono (fuel := 100) rfl (by decide)

theorem gen_mono_aux (nm : α → Nat) [BEq α] (k : Nat) (contents gen isBest : Bool) (s0 : CkkState α)
    {fuel fuel' : Nat} {ys : List (Bins α)} (hf : fuel ≤ fuel')
    (h : (if !(ckkRun nm k contents gen isBest fuel s0).done then Except.error Err.fuel
          else Except.ok (ckkRun nm k contents gen isBest fuel s0).yields.reverse) = Except.ok ys) :
    (if !(ckkRun nm k contents gen isBest fuel' s0).done then Except.error Err.fuel
      else Except.ok (ckkRun nm k contents gen isBest fuel' s0).yields.reverse) = Except.ok ys := by
  have hd : (ckkRun nm k contents gen isBest fuel s0).done = true := by
    split at h
    · cases h
    · rename_i hnd; simpa using hnd
  rw [ckkRun_mono nm k contents gen isBest hf _ hd]
  exact h

/-- the same for the generator -/
theorem ckkGen_fuel_mono {v nm : α → Nat} [BEq α] {k : Nat} {contents : Bool} {items : List α}
    {bound : Option Nat} {fuel fuel' : Nat} {ys : List (Bins α)}
    (h : ckkGen v nm k contents items bound fuel = .ok ys) (hf : fuel ≤ fuel') :
    ckkGen v nm k contents items bound fuel' = .ok ys := by
  cases bound with
  | none => exact gen_mono_aux nm k contents true true _ hf h
  | some d => exact gen_mono_aux nm k contents true false _ hf h

example : ckkGen id id 2 true [4, 5, 6, 7, 8] (some 3) 1000 =
    .ok [⟨[14, 16], [[6, 8], [4, 5, 7]]⟩, ⟨[15, 15], [[4, 5, 6], [7, 8]]⟩] :=
  ckkGen_fuel_mono (fuel := 100) rfl (by decide)

/-! ## 5.–6. (moved) SNP and RNP never fail

  `snp_total`, `rnpF_total` and their lemmas (`treeFold_ok`, `foldE_ok`, `ckk2_total`, `snpRec_total`,
  `ckkGen_bounded_lt`, `rnpRecF_*_total`, …) are in PrtpyProofs/CKKFSwitch3.lean, same namespace `Prtpy.Total`, same
  names and statements: since fix F11 the 2-way search that snp/rnp call is `ckkF`, whose termination
  (`CKKF.ckkF_fuel_sufficient`) is proved in PrtpyProofs/CKKF.lean, which imports this file. -/

/-! ## 7. bin completion never fails -/

/-- **C01 (totality) for bin completion.**  The model never reports `Err.fuel` (an exhausted budget returns the
    incumbent); if every item fits into a bin the result is `.ok` for every fuel, and with
    `BCProofs.enoughFuel` it is a packing with the minimum number of bins. -/
theorem bc_total {B : Nat} {items : List Nat} (fuel : Nat) (hall : ∀ x ∈ items, x ≤ B) :
    ∃ bins, BC.binCompletion B items fuel = .ok bins ∧
      (0 < B → BCProofs.enoughFuel (items.filter (· != 0)).length ≤ fuel →
        optBins B (items.filter (· != 0)) = some bins.length) := by
  obtain ⟨bins, h⟩ := BCProofs.bc_ok_of_all_le fuel hall
  exact ⟨bins, h, fun hB hfuel => BCProofs.bc_optimal hB hfuel h⟩

/-- the only error of `binCompletion` is the `ValueError` for an item that is larger than a bin -/
theorem bc_never_fuel {B : Nat} {items : List Nat} {fuel : Nat} : BC.binCompletion B items fuel ≠ .error .fuel := by
  intro h
  have := (BCProofs.bc_error_iff.1 h).1
  cases this

example : ∃ bins, BC.binCompletion 20 [5, 10, 4, 10, 8, 6, 4, 10, 5, 4, 4, 10] 7 = .ok bins ∧
    (0 < 20 → BCProofs.enoughFuel ([5, 10, 4, 10, 8, 6, 4, 10, 5, 4, 4, 10].filter (· != 0)).length ≤ 7 →
      optBins 20 ([5, 10, 4, 10, 8, 6, 4, 10, 5, 4, 4, 10].filter (· != 0)) = some bins.length) :=
  bc_total 7 (by decide)

end Prtpy.Total

/-
Axiom audit (output of `#print axioms` observed with `lake env lean`):

#print axioms Prtpy.Total.ckk_fuel_sufficient
  'Prtpy.Total.ckk_fuel_sufficient' depends on axioms: [propext, Classical.choice, Quot.sound]
#print axioms Prtpy.Total.ckk_never_fuel
  'Prtpy.Total.ckk_never_fuel' depends on axioms: [propext, Classical.choice, Quot.sound]
#print axioms Prtpy.Total.ckkGen_fuel_sufficient
  'Prtpy.Total.ckkGen_fuel_sufficient' depends on axioms: [propext, Classical.choice, Quot.sound]
#print axioms Prtpy.Total.ckk_fuel_mono
  'Prtpy.Total.ckk_fuel_mono' depends on axioms: [propext]
#print axioms Prtpy.Total.ckkGen_fuel_mono
  'Prtpy.Total.ckkGen_fuel_mono' depends on axioms: [propext]
#print axioms Prtpy.Total.bc_total
  'Prtpy.Total.bc_total' depends on axioms: [propext, Classical.choice, Quot.sound]
#print axioms Prtpy.Total.bc_never_fuel
  'Prtpy.Total.bc_never_fuel' depends on axioms: [propext, Classical.choice, Quot.sound]
-/
