-- NOTE (round 7): the exact ratio (3k-1)/(4k-2) is proved for EVERY k in PrtpyProofs/MaxMin5.lean (`MaxMin5.greedy_maxmin`); what this file calls open is closed there.
/-
  PrtpyProofs.MaxMin4 — property C08, continued (see PrtpyProofs.MaxMin3): the exact max-min guarantee of LPT
  (`greedy`), `(3k−1)·OPT ≤ (4k−2)·L`, for FOUR bins, by discharging the mixed case `hmix` of
  `MaxMin3.run_maxmin_of_mixed` for `k = 4`.

  Proved here
  -----------
  * `greedy_maxmin_four` (`k = 4`): `11·OPT ≤ 14·L`, unconditional (run level: `run_maxmin_four`, `four_hmix`).
  * `greedy_maxmin_partial_eighth` (EVERY `k`): the exact bound `(3k−1)·OPT ≤ (4k−2)·L` whenever every item is at
    least `OPT/8` (run level: `run_maxmin_low`, `low_mixed`, `mixedR_bin`).
  * `greedy_maxmin_partial` : the exact bound for all `k ≤ K`, assuming the mixed case only for `5 ≤ k ≤ K`.
  * `greedy_maxmin_partial_three_quarters` : `3·OPT ≤ 4·L` for `k ≤ 4`.
  The general theorem for `k ≥ 5` with items below `OPT/8`, and the ratio `3/4` for `k ≥ 5`, are NOT proved; see
  `greedy_maxmin_partial`.

  No tiny items (§6).  Let `A = preA ++ [zA]` be a bin exceeding `L` by more than `θ = k·W/(4k−2)`.  By `MaxMin3.A2Inv`
  every other bin consists of items `≥ zA > θ` (of total `≥ L + θ − zA`) plus the items that arrived after `zA`.  Such a later item that is not the last one of its bin (or lies on a bin of sum `≤ L`) is
  `≤ zA − θ ≤ L/2 − θ < (k−1)·W/(8k−4) < W/8`.  So if no item is that small, every bin is "large items, then at most
  one more item", weighs `≤ 3`, a bin of smallest sum `≤ 2`, and the counting argument of `MaxMin3` applies — for
  every `k`, with no use of the total.

  The mixed case for four bins (`four_mixed`): besides the bin `M` of smallest sum `L` and the bin `C` of the last
  (smallest, small) item `x` there are two bins `B`, `D`.  A bin with at most one item is removed
  (`peel_small_bin`, then `run_maxmin_three`).  Otherwise every excess over `L` is at most `L/2`, so the total
  `≥ 4·W` together with `L < (11/14)·W` forces both `B` and `D` to exceed `L` by more than `(13/28)·W − x`; hence
  after the later of their last items only `x` arrives (`MaxMin3.A2Inv`), all other items exceed `(4/14)·W`, the
  weights of the bins are `≤ 3, 3, 3, 2`, and `MaxMin3.count_core` applies.  (For five bins the same computation
  no longer excludes further tiny items — e.g. `13 × 370, 10, 6, 6` — so a different argument is needed.)
-/
import Mathlib.Tactic.Linarith
import Mathlib.Tactic.Ring
import Prtpy
import PrtpyProofs.Part
import PrtpyProofs.Oracle
import PrtpyProofs.Scale
import PrtpyProofs.LPT43
import PrtpyProofs.MaxMin
import PrtpyProofs.MaxMin3
open Prtpy

namespace Prtpy.MaxMin4
open Prtpy.LPT43 Prtpy.MaxMin Prtpy.MaxMin3

variable {α : Type}

/-! ## 1. Static lemmas -/

theorem binSum_take_drop (v : α → Nat) (l : List α) (m : Nat) :
    binSum v l = binSum v (l.take m) + binSum v (l.drop m) := by
  rw [← Part.binSum_append, List.take_append_drop]

/-- nothing arrived after the cut: the part after the cut would hold an item `≥ x` -/
theorem drop_nil_of_lt {v : α → Nat} (l : List α) (m p S : Nat) (x : α) (hS : binSum v l ≤ S)
    (hp : p ≤ binSum v (l.take m)) (hmin : ∀ u ∈ l, v x ≤ v u) (h : S < p + v x) : l.drop m = [] := by
  cases hd : l.drop m with
  | nil => rfl
  | cons u t =>
    exfalso
    have hu : u ∈ l := List.mem_of_mem_drop (by rw [hd]; simp)
    have := hmin u hu
    have hs := binSum_take_drop v l m
    rw [hd, Part.binSum_cons] at hs
    omega

/-- at most one item arrived after the cut -/
theorem drop_len_le_one {v : α → Nat} (l : List α) (m p S : Nat) (x : α) (hS : binSum v l ≤ S)
    (hp : p ≤ binSum v (l.take m)) (hmin : ∀ u ∈ l, v x ≤ v u) (h : S < p + 2 * v x) :
    (l.drop m).length ≤ 1 := by
  match hd : l.drop m with
  | [] => simp
  | [_] => simp
  | u :: u' :: t =>
    exfalso
    have hu : u ∈ l := List.mem_of_mem_drop (by rw [hd]; simp)
    have hu' : u' ∈ l := List.mem_of_mem_drop (by rw [hd]; simp)
    have h1 := hmin u hu
    have h2 := hmin u' hu'
    have hs := binSum_take_drop v l m
    rw [hd, Part.binSum_cons, Part.binSum_cons] at hs
    omega

/-- `wt_bin` for four bins: `L < (11/14)·W`, every item exceeds `(4/14)·W` -/
theorem wt_bin4 {v : α → Nat} {W L : Nat} (hL : 14 * L < 11 * W) (l : List α)
    (hpre : ∀ n, n < l.length → binSum v (l.take n) ≤ L) (htail : ∀ c ∈ l.tail, 2 * v c < W)
    (hbig : ∀ c ∈ l, 4 * W < 14 * v c) :
    wt W (l.map v) ≤ 3 ∧ (binSum v l ≤ L → wt W (l.map v) ≤ 2) := by
  have key := wt_bin (v := fun a => 14 * v a) (W := 14 * W) (t := 4 * W) (L := 14 * L)
    (by omega) (by omega) (by omega) l
    (fun n hn => by rw [Scale.binSum_scale]; exact Nat.mul_le_mul_left _ (hpre n hn))
    (fun c hc => by have := htail c hc; omega) hbig
  have e : l.map (fun a => 14 * v a) = (l.map v).map (14 * ·) := by rw [List.map_map]; rfl
  rw [e, wt_scale (by decide), Scale.binSum_scale] at key
  exact ⟨key.1, fun h => key.2 (Nat.mul_le_mul_left _ h)⟩

/-- a bin `l' ++ [c]` whose items before the last one are large and sum to `≤ L`, and whose last item is below
    `W/2`, weighs at most `3` -/
theorem wt_snoc4 {v : α → Nat} {W L : Nat} (hL : 14 * L < 11 * W) (l' : List α) (c : α)
    (hpre : ∀ n, n < (l' ++ [c]).length → binSum v ((l' ++ [c]).take n) ≤ L)
    (htail : ∀ u ∈ (l' ++ [c]).tail, 2 * v u ≤ L) (hbig : ∀ u ∈ l', 4 * W < 14 * v u)
    (hsum : binSum v l' ≤ L) (hc : 2 * v c < W) : wt W ((l' ++ [c]).map v) ≤ 3 := by
  have h := wt_bin4 hL l'
    (fun n hn => by
      have := hpre n (by simp; omega)
      rwa [List.take_append_of_le_length (by omega)] at this)
    (fun u hu => by have := htail u (mem_tail_append_left hu); omega) hbig
  have h4 := h.2 hsum
  have e1 : decide (W ≤ 2 * v c) = false := by simp; omega
  have e2 : decide (W ≤ v c) = false := by simp; omega
  have hwx : wt W [v c] = 1 := by simp [wt, e1, e2]
  rw [List.map_append, wt_append, List.map_cons, List.map_nil, hwx]
  omega

/-- the LPT rule seen from bin `l` (cf. `MaxMin3.A2Inv`): when `c` was put on the items `pre`, the bin `l` held its
    first `m` items, of sum at least the sum of `pre` and all `≥ c`; the others came later and are `≤ c` -/
def Split (v : α → Nat) (pre : List α) (c : α) (l : List α) : Prop :=
  ∃ m, m ≤ l.length ∧ binSum v pre ≤ binSum v (l.take m) ∧ (∀ u ∈ l.drop m, v u ≤ v c) ∧
    (∀ u ∈ l.take m, v c ≤ v u)

/-- if at most one item of `l' ++ [x]` came after the cut and `x` is below the cut value, the cut is just
    before `x` -/
theorem cut_before_last {v : α → Nat} {l' : List α} {x c : α} {m : Nat} (hm : m ≤ (l' ++ [x]).length)
    (hlen : ((l' ++ [x]).drop m).length ≤ 1) (h3 : ∀ u ∈ (l' ++ [x]).take m, v c ≤ v u) (hx : v x < v c) :
    m = l'.length := by
  simp only [List.length_append, List.length_cons, List.length_nil, List.length_drop] at hm hlen
  rcases Nat.lt_or_ge l'.length m with hgt | hle
  · exfalso
    have : (l' ++ [x]).take m = l' ++ [x] := List.take_of_length_le (by simp; omega)
    rw [this] at h3
    have := h3 x (by simp)
    omega
  · omega

/-- an item that is not the last one of its bin and came after the cut fits below `L` on top of the part before
    the cut -/
theorem after_cut_small {v : α → Nat} {L : Nat} (l : List α)
    (hpre : ∀ n, n < l.length → binSum v (l.take n) ≤ L) (m : Nat) (hm : m + 1 < l.length) :
    binSum v (l.take m) + v (l[m]'(by omega)) ≤ L := by
  have := hpre (m + 1) hm
  rw [List.take_succ_eq_append_getElem (by omega), Oracle.binSum_concat] at this
  exact this

/-- **Four bins, the mixed case** (static form).  `B = preB ++ [zB]` exceeds the smallest sum `L` by more than
    `(4/14)·W`; `D = preD ++ [zD]` is the fourth bin (at least two items), `C = lC' ++ [x]` ends with the smallest
    item `x ≤ (4/14)·W`, `M` has sum `≤ L < (11/14)·W`, and the four bins hold at least `4·W`.  Then the total
    forces both `B` and `D` to exceed `L` by so much that after the later of `zB`, `zD` only `x` arrives, and all
    other items are large; the weights of the bins are at most `3, 3, 3, 2`. -/
theorem four_mixed {v : α → Nat} {W L : Nat} (hL : 14 * L < 11 * W)
    (preB : List α) (zB : α) (preD : List α) (zD : α) (lC' : List α) (x : α) (lM : List α)
    (hvol : 4 * W ≤ binSum v (preB ++ [zB]) + binSum v (preD ++ [zD]) + binSum v (lC' ++ [x]) + binSum v lM)
    (hM : binSum v lM ≤ L) (hC' : binSum v lC' ≤ L) (hpB : binSum v preB ≤ L) (hpD : binSum v preD ≤ L)
    (hx : 14 * v x ≤ 4 * W) (hzB2 : 2 * v zB ≤ L) (hzD2 : 2 * v zD ≤ L)
    (hB : 14 * L + 4 * W < 14 * binSum v (preB ++ [zB]))
    (hminD : ∀ u ∈ preD ++ [zD], v x ≤ v u) (hminC : ∀ u ∈ lC' ++ [x], v x ≤ v u)
    (hminM : ∀ u ∈ lM, v x ≤ v u)
    (hsB : ∀ u ∈ preB, v zB ≤ v u) (hsD : ∀ u ∈ preD, v zD ≤ v u)
    (a2BM : Split v preB zB lM) (a2BC : Split v preB zB (lC' ++ [x])) (a2BD : Split v preB zB (preD ++ [zD]))
    (a2DM : Split v preD zD lM) (a2DC : Split v preD zD (lC' ++ [x]))
    (prefB : ∀ n, n < (preB ++ [zB]).length → binSum v ((preB ++ [zB]).take n) ≤ L)
    (prefD : ∀ n, n < (preD ++ [zD]).length → binSum v ((preD ++ [zD]).take n) ≤ L)
    (prefC : ∀ n, n < (lC' ++ [x]).length → binSum v ((lC' ++ [x]).take n) ≤ L)
    (prefM : ∀ n, n < lM.length → binSum v (lM.take n) ≤ L)
    (tailB : ∀ c ∈ (preB ++ [zB]).tail, 2 * v c ≤ L) (tailD : ∀ c ∈ (preD ++ [zD]).tail, 2 * v c ≤ L)
    (tailC : ∀ c ∈ (lC' ++ [x]).tail, 2 * v c ≤ L) (tailM : ∀ c ∈ lM.tail, 2 * v c ≤ L) :
    wt W ((preB ++ [zB]).map v) ≤ 3 ∧ wt W ((preD ++ [zD]).map v) ≤ 3 ∧
      wt W ((lC' ++ [x]).map v) ≤ 3 ∧ wt W (lM.map v) ≤ 2 := by
  have eB := Oracle.binSum_concat v preB zB
  have eD := Oracle.binSum_concat v preD zD
  have eC := Oracle.binSum_concat v lC' x
  rw [eB, eD, eC] at hvol
  rw [eB] at hB
  have hzBbig : 4 * W < 14 * v zB := by omega
  have hxz : v x < v zB := by omega
  -- bin B
  have kB : wt W ((preB ++ [zB]).map v) ≤ 3 := by
    refine (wt_bin4 hL _ prefB (fun c hc => by have := tailB c hc; omega) ?_).1
    intro c hc
    rcases List.mem_append.1 hc with hc | hc
    · have := hsB c hc; omega
    · simp only [List.mem_cons, List.not_mem_nil, or_false] at hc; rw [hc]; exact hzBbig
  obtain ⟨mD, hmD, d1, d2, d3⟩ := a2BD
  by_cases hdD : (preD ++ [zD]).drop mD = []
  · -- (i) bin D was complete when `zB` arrived: all items except `x` are large
    have htD : (preD ++ [zD]).take mD = preD ++ [zD] := by
      have := List.take_append_drop mD (preD ++ [zD])
      rw [hdD, List.append_nil] at this
      exact this
    rw [htD] at d3
    have kD : wt W ((preD ++ [zD]).map v) ≤ 3 :=
      (wt_bin4 hL _ prefD (fun c hc => by have := tailD c hc; omega)
        (fun c hc => by have := d3 c hc; omega)).1
    -- bin M
    obtain ⟨mM, hmM, m1, m2, m3⟩ := a2BM
    have hdM := drop_nil_of_lt lM mM (binSum v preB) L x hM m1 hminM (by omega)
    have htM : lM.take mM = lM := by
      have := List.take_append_drop mM lM
      rw [hdM, List.append_nil] at this
      exact this
    rw [htM] at m3
    have kM : wt W (lM.map v) ≤ 2 :=
      (wt_bin4 hL lM prefM (fun c hc => by have := tailM c hc; omega)
        (fun c hc => by have := m3 c hc; omega)).2 hM
    -- bin C
    obtain ⟨mC, hmC, c1, c2, c3⟩ := a2BC
    have hlenC := drop_len_le_one (lC' ++ [x]) mC (binSum v preB) (binSum v lC' + v x) x
      (by rw [eC]) c1 hminC (by omega)
    have hmeq := cut_before_last hmC hlenC c3 hxz
    subst hmeq
    rw [List.take_left' rfl] at c3
    have kC : wt W ((lC' ++ [x]).map v) ≤ 3 :=
      wt_snoc4 hL lC' x prefC tailC (fun u hu => by have := c3 u hu; omega) hC' (by omega)
    exact ⟨kB, kD, kC, kM⟩
  · -- (ii) bin D received items after `zB`
    have hmDlt : mD < (preD ++ [zD]).length := by
      rcases Nat.lt_or_ge mD (preD ++ [zD]).length with h | h
      · exact h
      · exact absurd (List.drop_eq_nil_of_le h) hdD
    -- exactly one: `zD`
    have hmDeq : mD = preD.length := by
      simp only [List.length_append, List.length_cons, List.length_nil] at hmDlt
      rcases Nat.lt_or_ge mD preD.length with hlt | hge
      · exfalso
        have hsm := after_cut_small (preD ++ [zD]) prefD mD (by simp; omega)
        have hr : (preD ++ [zD])[mD]'(by simp; omega) = preD[mD] := List.getElem_append_left hlt
        rw [hr] at hsm
        have hrz := hsD preD[mD] (List.getElem_mem hlt)
        omega
      · omega
    subst hmDeq
    rw [List.take_left' rfl] at d1 d3
    have hzDx : v x ≤ v zD := hminD zD (by simp)
    have kD : wt W ((preD ++ [zD]).map v) ≤ 3 :=
      wt_snoc4 hL preD zD prefD tailD (fun u hu => by have := d3 u hu; omega) hpD (by omega)
    -- bin M: nothing after `zD`, hence nothing after `zB`
    obtain ⟨mM', hmM', n1, n2, n3⟩ := a2DM
    have hdM' := drop_nil_of_lt lM mM' (binSum v preD) L x hM n1 hminM (by omega)
    have htM' : lM.take mM' = lM := by
      have := List.take_append_drop mM' lM
      rw [hdM', List.append_nil] at this
      exact this
    rw [htM'] at n3
    obtain ⟨mM, hmM, m1, m2, m3⟩ := a2BM
    have hdM : lM.drop mM = [] := by
      cases hd : lM.drop mM with
      | nil => rfl
      | cons u t =>
        exfalso
        have hu : u ∈ lM := List.mem_of_mem_drop (by rw [hd]; simp)
        have h1 := n3 u hu
        have hs := binSum_take_drop v lM mM
        rw [hd, Part.binSum_cons] at hs
        omega
    have htM : lM.take mM = lM := by
      have := List.take_append_drop mM lM
      rw [hdM, List.append_nil] at this
      exact this
    rw [htM] at m3
    have kM : wt W (lM.map v) ≤ 2 :=
      (wt_bin4 hL lM prefM (fun c hc => by have := tailM c hc; omega)
        (fun c hc => by have := m3 c hc; omega)).2 hM
    -- bin C: after `zD` at most one item; between `zB` and `zD` none
    obtain ⟨mC', hmC', e1, e2, e3⟩ := a2DC
    have hlenC' := drop_len_le_one (lC' ++ [x]) mC' (binSum v preD) (binSum v lC' + v x) x
      (by rw [eC]) e1 hminC (by omega)
    obtain ⟨mC, hmC, c1, c2, c3⟩ := a2BC
    have hmCeq : mC = lC'.length := by
      simp only [List.length_append, List.length_cons, List.length_nil, List.length_drop] at hmC hlenC' hmC'
      rcases Nat.lt_or_ge mC lC'.length with hlt | hge
      · exfalso
        have hsm := after_cut_small (lC' ++ [x]) prefC mC (by simp; omega)
        have hr : (lC' ++ [x])[mC]'(by simp; omega) = lC'[mC] := List.getElem_append_left hlt
        rw [hr] at hsm
        -- this item came before `zD`
        have hmem : lC'[mC] ∈ (lC' ++ [x]).take mC' := by
          have h1 : (lC' ++ [x]).take mC' = lC' ++ ([x].take (mC' - lC'.length)) := by
            rw [List.take_append]
            congr 1
            exact List.take_of_length_le (by omega)
          rw [h1]
          exact List.mem_append_left _ (List.getElem_mem hlt)
        have hrz := e3 _ hmem
        omega
      · rcases Nat.lt_or_ge lC'.length mC with hgt | hle
        · exfalso
          have : (lC' ++ [x]).take mC = lC' ++ [x] := List.take_of_length_le (by simp; omega)
          rw [this] at c3
          have := c3 x (by simp)
          omega
        · omega
    subst hmCeq
    rw [List.take_left' rfl] at c3
    have kC : wt W ((lC' ++ [x]).map v) ≤ 3 :=
      wt_snoc4 hL lC' x prefC tailC (fun u hu => by have := c3 u hu; omega) hC' (by omega)
    exact ⟨kB, kD, kC, kM⟩

/-! ## 2. The mixed state of the LPT loop (any number of bins) -/

/-- **The mixed state.**  In the LPT run on `P ++ [x]` (ordered) let the last item `x` (value `≤ y`) not land on
    a bin of smallest final sum `L`, and let some bin with at least two items exceed `L + y`.  Then there are three
    different bins: `C = lC' ++ [x]` with `lC'` of sum `≤ L`, a bin `M` of sum `L`, and `B = preB ++ [zB]` with
    `preB ≠ []` of sum `> L + y`. -/
theorem mixed_setup {v : α → Nat} {k : Nat} (hk : 0 < k) (P : List α) (x : α)
    (hT : minL (run v k (P ++ [x])).sums ≠ minL (run v k P).sums + v x) (y : Nat) (hxy : v x ≤ y)
    (hbig : ∃ l ∈ (run v k (P ++ [x])).lists, 2 ≤ l.length ∧
      minL (run v k (P ++ [x])).sums + y < binSum v l) :
    ∃ (j i0 iB : Nat) (lC' lM preB : List α) (zB : α), j < k ∧ i0 < k ∧ iB < k ∧ i0 ≠ j ∧ iB ≠ i0 ∧ iB ≠ j ∧
      argmin (run v k (P ++ [x])).sums = i0 ∧
      (run v k (P ++ [x])).lists[j]? = some (lC' ++ [x]) ∧ binSum v lC' ≤ minL (run v k (P ++ [x])).sums ∧
      (run v k (P ++ [x])).lists[i0]? = some lM ∧ binSum v lM = minL (run v k (P ++ [x])).sums ∧
      (run v k (P ++ [x])).lists[iB]? = some (preB ++ [zB]) ∧ preB ≠ [] ∧
      minL (run v k (P ++ [x])).sums + y < binSum v (preB ++ [zB]) := by
  obtain ⟨lB, hlB, hlen2, hBbig⟩ := hbig
  obtain ⟨hperm, hlists, hcons⟩ := run_valid v hk (P ++ [x])
  have hc : (run v k (P ++ [x])).sums = (run v k (P ++ [x])).lists.map (binSum v) := hcons
  obtain ⟨_, hlistsP, hconsP⟩ := run_valid v hk P
  have hcP : (run v k P).sums = (run v k P).lists.map (binSum v) := hconsP
  have hslen := run_sums_length v hk (P ++ [x])
  have hslenP := run_sums_length v hk P
  have hne := run_sums_ne_nil v hk (P ++ [x])
  have hneP := run_sums_ne_nil v hk P
  have hmono := run_min_mono v hk P [x]
  obtain ⟨iB, hiB, hiBl⟩ := List.mem_iff_getElem.1 hlB
  have hj := Part.argmin_lt hneP
  have hi0 := Part.argmin_lt hne
  generalize hjdef : argmin (run v k P).sums = j at hj
  generalize hi0def : argmin (run v k (P ++ [x])).sums = i0 at hi0
  have hLi0 : (run v k (P ++ [x])).sums[i0] = minL (run v k (P ++ [x])).sums := by
    subst hi0def; exact Part.getElem_argmin hi0
  have hLPj : (run v k P).sums[j] = minL (run v k P).sums := by
    subst hjdef; exact Part.getElem_argmin hj
  have hnl : (run v k (P ++ [x])).lists = (run v k P).lists.modify j (· ++ [x]) := by
    rw [run_snoc]; simp only [greedyStep, Part.add_lists, hjdef]
  have hns : (run v k (P ++ [x])).sums = (run v k P).sums.modify j (· + v x) := by
    rw [run_snoc]; simp only [greedyStep, Part.add_sums, hjdef]
  have hjl : j < (run v k P).lists.length := by omega
  have hlC : (run v k (P ++ [x])).lists[j]? = some ((run v k P).lists[j] ++ [x]) := by
    rw [hnl, List.getElem?_modify_eq, List.getElem?_eq_getElem hjl]; rfl
  have hsj : (run v k (P ++ [x])).sums[j]'(by omega) = minL (run v k P).sums + v x := by
    have : (run v k (P ++ [x])).sums[j]? = some (minL (run v k P).sums + v x) := by
      rw [hns, List.getElem?_modify_eq, List.getElem?_eq_getElem (by omega), hLPj]; rfl
    rw [List.getElem?_eq_getElem (by omega)] at this
    simpa using this
  have hsumof : ∀ (n : Nat) (hn : n < (run v k (P ++ [x])).lists.length),
      (run v k (P ++ [x])).sums[n]'(by omega) = binSum v (run v k (P ++ [x])).lists[n] := by
    intro n hn; simp [hc]
  have hsC' : binSum v (run v k P).lists[j] = minL (run v k P).sums := by
    rw [← hLPj]; simp [hcP]
  have hi0j : i0 ≠ j := by
    intro e
    subst e
    rw [hsj] at hLi0
    exact hT hLi0.symm
  have hBsum := hsumof iB hiB
  rw [hiBl] at hBsum
  have hiBi0 : iB ≠ i0 := by
    intro e
    subst e
    omega
  have hiBj : iB ≠ j := by
    intro e
    subst e
    rw [hsj] at hBsum
    omega
  have hBne : lB ≠ [] := by intro h0; rw [h0] at hlen2; simp at hlen2
  have hBsplit : lB = lB.dropLast ++ [lB.getLast hBne] := (List.dropLast_append_getLast hBne).symm
  generalize lB.dropLast = preB at hBsplit
  generalize lB.getLast hBne = zB at hBsplit
  subst hBsplit
  have hpreBne : preB ≠ [] := by
    intro h0; rw [h0] at hlen2; simp at hlen2
  refine ⟨j, i0, iB, (run v k P).lists[j], (run v k (P ++ [x])).lists[i0], preB, zB, by omega, by omega,
    by omega, hi0j, hiBi0, hiBj, rfl, hlC, by omega, List.getElem?_eq_getElem (by omega), ?_, ?_, hpreBne,
    hBbig⟩
  · rw [← hLi0]; exact (hsumof i0 (by omega)).symm
  · rw [List.getElem?_eq_getElem hiB, hiBl]

/-- what the invariants say about a bin of the final state of the LPT loop on an ordered list -/
theorem bin_facts {v : α → Nat} {k : Nat} (hk : 0 < k) {xs : List α}
    (hS : xs.Pairwise (fun a c => v c ≤ v a)) {n : Nat} {l : List α}
    (hl : (run v k xs).lists[n]? = some l) :
    (∀ m, m < l.length → binSum v (l.take m) ≤ minL (run v k xs).sums) ∧
    (∀ c ∈ l.tail, v c ≤ (xs.map v).getD k 0) ∧ l.Pairwise (fun a c => v c ≤ v a) ∧ (∀ u ∈ l, u ∈ xs) := by
  have hmem := List.mem_of_getElem? hl
  obtain ⟨hperm, _, _⟩ := run_valid v hk xs
  exact ⟨run_prefInv v hk xs l hmem, run_tailInv hk hS (getD_spec v k hS) xs [] (by simp) l hmem,
    run_sortedInv hk xs hS l hmem, fun u hu => hperm.mem_iff.1 (List.mem_flatten.2 ⟨l, hmem, hu⟩)⟩

/-- the sum of the bins, read off at three given and the remaining fourth position -/
theorem sum_four (s : List Nat) (hs : s.length = 4) (a b c : Nat) (ha : a < 4) (hb : b < 4) (hc : c < 4)
    (hab : a ≠ b) (hac : a ≠ c) (hbc : b ≠ c) :
    ∃ d, d < 4 ∧ d ≠ a ∧ d ≠ b ∧ d ≠ c ∧ ∀ (hd : d < s.length),
      sumL s = s[a]'(by omega) + s[b]'(by omega) + s[c]'(by omega) + s[d] := by
  match s, hs with
  | [s0, s1, s2, s3], _ =>
    have ha' : a = 0 ∨ a = 1 ∨ a = 2 ∨ a = 3 := by omega
    have hb' : b = 0 ∨ b = 1 ∨ b = 2 ∨ b = 3 := by omega
    have hc' : c = 0 ∨ c = 1 ∨ c = 2 ∨ c = 3 := by omega
    rcases ha' with rfl | rfl | rfl | rfl <;> rcases hb' with rfl | rfl | rfl | rfl <;>
      rcases hc' with rfl | rfl | rfl | rfl <;>
      first
        | (exfalso; omega)
        | exact ⟨0, by omega, by omega, by omega, by omega, fun _ => by simp [sumL]; omega⟩
        | exact ⟨1, by omega, by omega, by omega, by omega, fun _ => by simp [sumL]; omega⟩
        | exact ⟨2, by omega, by omega, by omega, by omega, fun _ => by simp [sumL]; omega⟩
        | exact ⟨3, by omega, by omega, by omega, by omega, fun _ => by simp [sumL]; omega⟩

/-! ## 3. Removing a bin with at most one item -/

/-- a cover with `k + 2` bins of `d ++ rest`, `d` at most one value, yields a cover of `rest` with `k + 1` bins -/
theorem cover_drop_small {W k : Nat} {d rest : List Nat} (hd : d.length ≤ 1) (Q : List (List Nat))
    (hQk : Q.length = k + 2) (hQp : Q.flatten.Perm (d ++ rest)) (hQ : ∀ l ∈ Q, W ≤ sumL l) :
    ∃ Q' : List (List Nat), Q'.length = k + 1 ∧ Q'.flatten.Perm rest ∧ ∀ l ∈ Q', W ≤ sumL l := by
  match d, hd with
  | [], _ =>
    match Q, hQk with
    | l1 :: l2 :: Q2, hlen =>
      refine ⟨(l1 ++ l2) :: Q2, by simpa using hlen, by simpa [List.append_assoc] using hQp, ?_⟩
      intro l hl
      rcases List.mem_cons.1 hl with rfl | hl
      · have := hQ l1 (by simp); rw [Part.sumL_append]; omega
      · exact hQ l (by simp [hl])
  | [a], _ =>
    obtain ⟨l, hl, hal⟩ := List.mem_flatten.1 ((hQp.mem_iff (a := a)).2 (by simp))
    have pQ := List.perm_cons_erase hl
    have pa := List.perm_cons_erase hal
    have hlen1 : (Q.erase l).length = k + 1 := by
      have := pQ.length_eq; simp only [List.length_cons] at this; omega
    match hq : Q.erase l, hlen1 with
    | q :: Q2, hlen =>
      refine ⟨((l.erase a) ++ q) :: Q2, by simpa using hlen, ?_, ?_⟩
      · have h1 : Q.flatten.Perm (a :: (l.erase a ++ (Q.erase l).flatten)) := by
          refine pQ.flatten.trans ?_
          simp only [List.flatten_cons]
          exact pa.append_right _
        have h2 := (h1.symm.trans hQp)
        simp only [List.cons_append, List.nil_append] at h2
        have h3 := h2.cons_inv
        rw [hq] at h3
        simpa [List.append_assoc] using h3
      · intro l' hl'
        rcases List.mem_cons.1 hl' with rfl | hl'
        · have := hQ q (List.mem_of_mem_erase (by rw [hq]; simp))
          rw [Part.sumL_append]; omega
        · exact hQ l' (List.mem_of_mem_erase (by rw [hq]; simp [hl']))

/-- **Removing a bin with at most one item** that does not have the smallest sum: what is left is the LPT run,
    on one bin less, of a sublist, with the same smallest sum, and a cover loses one bin. -/
theorem peel_small_bin {v : α → Nat} {k' : Nat} (hk'pos : 0 < k') {xs : List α} (j : Nat) (hj : j < k' + 1)
    (hjne : argmin (run v (k' + 1) xs).sums ≠ j) {lj : List α}
    (hlj : (run v (k' + 1) xs).lists[j]? = some lj) (hlen : lj.length ≤ 1) {W : Nat} (Q : List (List Nat))
    (hQk : Q.length = k' + 1) (hQp : Q.flatten.Perm (xs.map v)) (hQ : ∀ l ∈ Q, W ≤ sumL l) :
    ∃ ys : List α, ys.Sublist xs ∧ minL (run v k' ys).sums = minL (run v (k' + 1) xs).sums ∧
      ∃ Q' : List (List Nat), Q'.length = k' ∧ Q'.flatten.Perm (ys.map v) ∧ ∀ l ∈ Q', W ≤ sumL l := by
  have hk : 0 < k' + 1 := by omega
  obtain ⟨hfperm, hflists, _⟩ := run_valid v hk xs
  have hfne := run_sums_ne_nil v hk xs
  have hjf : j < (run v (k' + 1) xs).lists.length := by omega
  have herase := run_eraseBin v k' j hj xs
  have hsums' : (run v k' (skipRun v j (Bins.new (k' + 1)) xs)).sums =
      (run v (k' + 1) xs).sums.eraseIdx j := by rw [← herase]; rfl
  have hlists' : (run v k' (skipRun v j (Bins.new (k' + 1)) xs)).lists =
      (run v (k' + 1) xs).lists.eraseIdx j := by rw [← herase]; rfl
  have hL' : minL (run v k' (skipRun v j (Bins.new (k' + 1)) xs)).sums =
      minL (run v (k' + 1) xs).sums := by rw [hsums']; exact minL_eraseIdx hjne hfne
  obtain ⟨hperm', _, _⟩ := run_valid v hk'pos (skipRun v j (Bins.new (k' + 1)) xs)
  rw [hlists'] at hperm'
  have hflat := hfperm.symm.trans (flatten_perm_getElem_eraseIdx _ j hjf)
  have hljl : (run v (k' + 1) xs).lists[j] = lj := by
    rw [List.getElem?_eq_getElem hjf] at hlj; simpa using hlj
  rw [hljl] at hflat
  have hvals : (xs.map v).Perm (lj.map v ++ ((run v (k' + 1) xs).lists.eraseIdx j).flatten.map v) := by
    simpa using hflat.map v
  obtain ⟨k'', rfl⟩ : ∃ k'', k' = k'' + 1 := ⟨k' - 1, by omega⟩
  obtain ⟨Q', hQ'k, hQ'p, hQ'⟩ := cover_drop_small (d := lj.map v) (by simpa using hlen) Q hQk
    (hQp.trans hvals) hQ
  exact ⟨_, skipRun_sublist v j xs _, hL', Q', hQ'k, hQ'p.trans (hperm'.map v), hQ'⟩


/-! ## 4. Four bins -/

/-- the mixed case of `run_maxmin_of_mixed` for four bins -/
theorem four_hmix {v : α → Nat} (P : List α) (x : α) (W : Nat) (Q : List (List Nat))
    (hS : (P ++ [x]).Pairwise (fun a c => v c ≤ v a)) (hQk : Q.length = 4)
    (hQp : Q.flatten.Perm ((P ++ [x]).map v)) (hQ : ∀ l ∈ Q, W ≤ sumL l)
    (hT : minL (run v 4 (P ++ [x])).sums ≠ minL (run v 4 P).sums + v x)
    (hy : 2 * ((P ++ [x]).map v).getD 4 0 ≤ minL (run v 4 (P ++ [x])).sums)
    (hbig : ∃ l ∈ (run v 4 (P ++ [x])).lists, 2 ≤ l.length ∧
      minL (run v 4 (P ++ [x])).sums + 4 * W / (4 * 4 - 2) < binSum v l)
    (hx : (4 * 4 - 2) * v x ≤ 4 * W) :
    3 * 4 * W + 2 * minL (run v 4 (P ++ [x])).sums ≤ 4 * 4 * minL (run v 4 (P ++ [x])).sums + W := by
  have hk : 0 < 4 := by decide
  simp only [show (4 * 4 - 2 : Nat) = 14 from rfl] at hbig hx
  apply Classical.byContradiction
  intro hcon
  have hL : 14 * minL (run v 4 (P ++ [x])).sums < 11 * W := by omega
  obtain ⟨hSP, _, hPx⟩ := List.pairwise_append.1 hS
  obtain ⟨j, i0, iB, lC', lM, preB, zB, hj4, hi04, hiB4, hi0j, hiBi0, hiBj, hi0def, hlC, hC', hlM, hMsum,
    hlB, hpreBne, hBbig⟩ := mixed_setup hk P x hT (4 * W / 14) (by omega) hbig
  obtain ⟨hperm, hlists, hcons⟩ := run_valid v hk (P ++ [x])
  have hc : (run v 4 (P ++ [x])).sums = (run v 4 (P ++ [x])).lists.map (binSum v) := hcons
  have hslen := run_sums_length v hk (P ++ [x])
  -- the fourth bin
  obtain ⟨iD, hiD4, hiDB, hiDj, hiDi0, hsum4⟩ :=
    sum_four _ hslen iB j i0 hiB4 hj4 hi04 hiBj hiBi0 (Ne.symm hi0j)
  have hsum4' := hsum4 (by omega)
  have hsumof : ∀ (n : Nat) (hn : n < 4) (l : List α), (run v 4 (P ++ [x])).lists[n]? = some l →
      (run v 4 (P ++ [x])).sums[n]'(by omega) = binSum v l := by
    intro n hn l hl
    rw [List.getElem?_eq_getElem (by omega)] at hl
    simp only [Option.some.injEq] at hl
    rw [← hl]; simp [hc]
  have hlD : (run v 4 (P ++ [x])).lists[iD]? = some (run v 4 (P ++ [x])).lists[iD] :=
    List.getElem?_eq_getElem (by omega)
  rw [hsumof iB hiB4 _ hlB, hsumof j hj4 _ hlC, hsumof i0 hi04 _ hlM, hsumof iD hiD4 _ hlD,
    run_sums_sum v hk (P ++ [x])] at hsum4'
  generalize (run v 4 (P ++ [x])).lists[iD] = lD at hlD hsum4'
  have htot := cover_total Q hQk hQp hQ
  have e : binSum v (P ++ [x]) = sumL ((P ++ [x]).map v) := rfl
  -- a bin with at most one item is removed
  by_cases hDlen : lD.length ≤ 1
  · obtain ⟨ys, hsub, hL', Q', hQ'k, hQ'p, hQ'⟩ :=
      peel_small_bin (k' := 3) (by decide) iD hiD4 (by rw [hi0def]; exact Ne.symm hiDi0) hlD hDlen Q hQk hQp hQ
    have key := run_maxmin_three ys (hS.sublist hsub) W Q' hQ'k hQ'p hQ'
    have hL'' : minL (run v 3 ys).sums = minL (run v 4 (P ++ [x])).sums := hL'
    rw [hL''] at key
    have := arith_exact_step (k' := 3) (by decide) key
    omega
  -- bin D
  have hDne : lD ≠ [] := by intro h0; rw [h0] at hDlen; simp at hDlen
  have hDsplit : lD = lD.dropLast ++ [lD.getLast hDne] := (List.dropLast_append_getLast hDne).symm
  generalize lD.dropLast = preD at hDsplit
  generalize lD.getLast hDne = zD at hDsplit
  subst hDsplit
  have hpreDne : preD ≠ [] := by
    intro h0; rw [h0] at hDlen; simp at hDlen
  have tail_last : ∀ (pre : List α) (z : α), pre ≠ [] → z ∈ (pre ++ [z]).tail := by
    intro pre z hne
    cases pre with
    | nil => exact absurd rfl hne
    | cons a t => simp
  -- facts about the four bins
  obtain ⟨pfB, tlB, soB, meB⟩ := bin_facts hk hS hlB
  obtain ⟨pfD, tlD, soD, meD⟩ := bin_facts hk hS hlD
  obtain ⟨pfC, tlC, soC, meC⟩ := bin_facts hk hS hlC
  obtain ⟨pfM, tlM, soM, meM⟩ := bin_facts hk hS hlM
  have hxmin : ∀ u ∈ P ++ [x], v x ≤ v u := by
    intro u hu
    rcases List.mem_append.1 hu with h | h
    · exact hPx u h x (by simp)
    · simp at h; rw [h]
  have ha2 := run_a2Inv hk (P ++ [x]) hS
  have hpB := pfB preB.length (by simp)
  rw [List.take_left' rfl] at hpB
  have hpD := pfD preD.length (by simp)
  rw [List.take_left' rfl] at hpD
  rw [List.pairwise_append] at soB soD
  have key := four_mixed (v := v) hL preB zB preD zD lC' x lM
    (by omega) (by omega) hC' hpB hpD hx
    (by have := tlB zB (tail_last preB zB hpreBne); omega)
    (by have := tlD zD (tail_last preD zD hpreDne); omega)
    (by omega)
    (fun u hu => hxmin u (meD u hu)) (fun u hu => hxmin u (meC u hu)) (fun u hu => hxmin u (meM u hu))
    (fun u hu => soB.2.2 u hu zB (by simp)) (fun u hu => soD.2.2 u hu zD (by simp))
    (ha2 iB i0 preB zB lM hiBi0 hlB hlM) (ha2 iB j preB zB _ hiBj hlB hlC)
    (ha2 iB iD preB zB _ (Ne.symm hiDB) hlB hlD)
    (ha2 iD i0 preD zD lM hiDi0 hlD hlM) (ha2 iD j preD zD _ hiDj hlD hlC)
    pfB pfD pfC pfM
    (fun c hc' => by have := tlB c hc'; omega) (fun c hc' => by have := tlD c hc'; omega)
    (fun c hc' => by have := tlC c hc'; omega) (fun c hc' => by have := tlM c hc'; omega)
  obtain ⟨kB, kD, kC, kM⟩ := key
  refine count_core (W := W) (k := 4) (vals := (P ++ [x]).map v)
    ((run v 4 (P ++ [x])).lists.map (List.map v)) Q (by simpa using hlists)
    (by rw [← List.map_flatten]; exact hperm.map v) hQk hQp
    (fun g hg => wt_cover (by omega) g (hQ g hg)) ?_
    ⟨_, List.mem_map_of_mem (List.mem_of_getElem? hlM), kM⟩
  intro l' hl'
  obtain ⟨l, hl, rfl⟩ := List.mem_map.1 hl'
  obtain ⟨n, hn, rfl⟩ := List.mem_iff_getElem.1 hl
  have hget : (run v 4 (P ++ [x])).lists[n]? = some (run v 4 (P ++ [x])).lists[n] :=
    List.getElem?_eq_getElem hn
  have hn4 : n = iB ∨ n = j ∨ n = i0 ∨ n = iD := by omega
  rcases hn4 with rfl | rfl | rfl | rfl
  · rw [hlB] at hget; rw [← Option.some.inj hget]; exact kB
  · rw [hlC] at hget; rw [← Option.some.inj hget]; exact kC
  · rw [hlM] at hget; rw [← Option.some.inj hget]; omega
  · rw [hlD] at hget; rw [← Option.some.inj hget]; exact kD

/-- **Four bins, exact constant `11/14`** for the LPT loop on an ordered list, against an arbitrary cover
    (`MaxMin3.run_maxmin_of_mixed` with the mixed cases `run_maxmin_two`, `run_maxmin_three`, `four_hmix`). -/
theorem run_maxmin_four {v : α → Nat} : ∀ (xs : List α), xs.Pairwise (fun a c => v c ≤ v a) →
    ∀ (W : Nat) (Q : List (List Nat)), Q.length = 4 → Q.flatten.Perm (xs.map v) → (∀ l ∈ Q, W ≤ sumL l) →
    3 * 4 * W + 2 * minL (run v 4 xs).sums ≤ 4 * 4 * minL (run v 4 xs).sums + W := by
  refine run_maxmin_of_mixed (v := v) 4 ?_ 4 (by decide) (Nat.le_refl _)
  intro k h2 hK P x W Q hS hQk hQp hQ hT hy hbig hx
  have hk : k = 2 ∨ k = 3 ∨ k = 4 := by omega
  rcases hk with rfl | rfl | rfl
  · exact run_maxmin_two _ hS W Q hQk hQp hQ
  · exact run_maxmin_three _ hS W Q hQk hQp hQ
  · exact four_hmix P x W Q hS hQk hQp hQ hT hy hbig hx

/-- **C08 for four bins (Csirik–Kellerer–Woeginger, `k = 4`)**: LPT's smallest sum is at least `11/14` of the
    optimal smallest sum. -/
theorem greedy_maxmin_four {v : α → Nat} {items : List α} {opt : Nat}
    (hopt : IsOptimalValue .maxSmallest 4 (items.map v) (-(opt : Int))) :
    11 * opt ≤ 14 * minL (greedy v 4 items).sums := by
  obtain ⟨W, hW, Q, hQk, hQp, hQ⟩ := cover_of_opt (by decide) hopt
  have hW' : W = opt := by exact_mod_cast hW
  subst hW'
  have key := run_maxmin_four (v := v) (sortDesc v items) (Part.sortDesc_sorted v items) W Q hQk
    (hQp.trans ((Part.sortDesc_perm v items).map v).symm) hQ
  rw [greedy_eq_run]
  omega

/-- non-vacuity and tightness: `[7,7,6,6,5,5,4,4,4,4,4]` on four bins: the optimum `{7,7}, {6,4,4}, {6,4,4}, {5,5,4}`
    has smallest sum `14`, LPT builds `{7,4,4}, {7,4,4}, {6,5,4}, {6,5}` with smallest sum `11`: `11·14 = 14·11` -/
theorem optmin_k4_tight :
    IsOptimalValue .maxSmallest 4 ([7, 7, 6, 6, 5, 5, 4, 4, 4, 4, 4].map id) (-((14 : Nat) : Int)) := by
  refine ⟨⟨[0, 0, 1, 2, 3, 3, 1, 1, 2, 2, 3], ⟨rfl, by decide⟩, by decide⟩, ?_⟩
  intro asg hasg
  obtain ⟨Q, hQk, hQp, hQs⟩ := assignment_partition hasg
  have h1 := length_mul_minL_le (sumsOf 4 ([7, 7, 6, 6, 5, 5, 4, 4, 4, 4, 4].map id) asg)
  rw [← hQs, ← sumL_flatten, Part.sumL_perm hQp, List.length_map, hQk] at h1
  simp only [Objective.value, Bool.false_eq_true, if_false]
  have : sumL ([7, 7, 6, 6, 5, 5, 4, 4, 4, 4, 4].map id) = 56 := by decide
  rw [← hQs]
  omega

example : 11 * 14 ≤ 14 * minL (greedy id 4 [7, 7, 6, 6, 5, 5, 4, 4, 4, 4, 4]).sums :=
  greedy_maxmin_four (v := id) optmin_k4_tight
example : 11 * 14 = 14 * minL (greedy id 4 [7, 7, 6, 6, 5, 5, 4, 4, 4, 4, 4]).sums := by decide

/-- non-vacuity of the mixed case: `[8,8,5,5,4,4,4,2,2]` on four bins, optimum `{8,2}, {8,2}, {5,5}, {4,4,4}` with
    smallest sum `10`; LPT builds `{8,4}, {8,2}, {5,4,2}, {5,4}` (smallest sum `9`): the last item `2` is small
    (`14·2 ≤ 4·10`), lands on the second bin (which then exceeds `9`), and the first bin exceeds `9` by
    `3 > 40/14` -/
theorem optmin_k4_mixed :
    IsOptimalValue .maxSmallest 4 ([8, 8, 5, 5, 4, 4, 4, 2, 2].map id) (-((10 : Nat) : Int)) := by
  refine ⟨⟨[0, 1, 2, 2, 3, 3, 3, 0, 1], ⟨rfl, by decide⟩, by decide⟩, ?_⟩
  intro asg hasg
  obtain ⟨Q, hQk, hQp, hQs⟩ := assignment_partition hasg
  have h1 := length_mul_minL_le (sumsOf 4 ([8, 8, 5, 5, 4, 4, 4, 2, 2].map id) asg)
  rw [← hQs, ← sumL_flatten, Part.sumL_perm hQp, List.length_map, hQk] at h1
  simp only [Objective.value, Bool.false_eq_true, if_false]
  have : sumL ([8, 8, 5, 5, 4, 4, 4, 2, 2].map id) = 42 := by decide
  rw [← hQs]
  omega

example : 11 * 10 ≤ 14 * minL (greedy id 4 [8, 8, 5, 5, 4, 4, 4, 2, 2]).sums :=
  greedy_maxmin_four (v := id) optmin_k4_mixed
example : minL (greedy id 4 [8, 8, 5, 5, 4, 4, 4, 2, 2]).sums = 9 := by decide

/-! ## 5. Every number of bins: what remains -/

/-- **C08 for every number of bins, reduced to the mixed case for `k ≥ 5`.**

    Requested:
      `theorem greedy_maxmin {v : α → Nat} {k : Nat} {items : List α} (hk : 0 < k) {opt : Nat}`
      `    (hopt : IsOptimalValue .maxSmallest k (items.map v) (-(opt : Int))) :`
      `    (3 * k - 1) * opt ≤ (4 * k - 2) * minL (greedy v k items).sums`
    This is proved for `k ≤ 4` (`MaxMin3.greedy_maxmin_two`, `MaxMin3.greedy_maxmin_three`, `greedy_maxmin_four`; take
    `K = 4`, then `hmix` is vacuous).  For `k ≥ 5` the hypothesis `hmix` is what is missing: in the LPT run on
    `P ++ [x]` (ordered) the smallest item `x` is `≤ k·W/(4k−2)` and was put on a bin that does not end with the
    smallest sum `L`, the `(k+1)`-th value is `≤ L/2`, and some bin with at least two items exceeds `L` by more than
    `k·W/(4k−2)`.  For `k ≤ 4` the total `≥ k·W` forces that all items but `x` are large; for `k ≥ 5` it does not,
    and one has to count the large items per bin and bound the total of the small ones simultaneously. -/
theorem greedy_maxmin_partial {v : α → Nat} (K : Nat)
    (hmix : ∀ k, 5 ≤ k → k ≤ K → ∀ (P : List α) (x : α) (W : Nat) (Q : List (List Nat)),
      (P ++ [x]).Pairwise (fun a c => v c ≤ v a) → Q.length = k → Q.flatten.Perm ((P ++ [x]).map v) →
      (∀ l ∈ Q, W ≤ sumL l) →
      minL (run v k (P ++ [x])).sums ≠ minL (run v k P).sums + v x →
      2 * ((P ++ [x]).map v).getD k 0 ≤ minL (run v k (P ++ [x])).sums →
      (∃ l ∈ (run v k (P ++ [x])).lists, 2 ≤ l.length ∧
        minL (run v k (P ++ [x])).sums + k * W / (4 * k - 2) < binSum v l) →
      (4 * k - 2) * v x ≤ k * W →
      3 * k * W + 2 * minL (run v k (P ++ [x])).sums ≤ 4 * k * minL (run v k (P ++ [x])).sums + W)
    {k : Nat} (hk : 0 < k) (hkK : k ≤ K) {items : List α} {opt : Nat}
    (hopt : IsOptimalValue .maxSmallest k (items.map v) (-(opt : Int))) :
    (3 * k - 1) * opt ≤ (4 * k - 2) * minL (greedy v k items).sums := by
  refine MaxMin3.greedy_maxmin_partial (v := v) K ?_ hk hkK hopt
  intro k' h2 hK P x W Q hS hQk hQp hQ hT hy hbig hx
  by_cases h5 : 5 ≤ k'
  · exact hmix k' h5 hK P x W Q hS hQk hQp hQ hT hy hbig hx
  · have hk' : k' = 2 ∨ k' = 3 ∨ k' = 4 := by omega
    rcases hk' with rfl | rfl | rfl
    · exact run_maxmin_two _ hS W Q hQk hQp hQ
    · exact run_maxmin_three _ hS W Q hQk hQp hQ
    · exact four_hmix P x W Q hS hQk hQp hQ hT hy hbig hx

/-- non-vacuity of `greedy_maxmin_partial`: for `K = 4` its hypothesis is vacuous -/
example : (3 * 4 - 1) * 14 ≤ (4 * 4 - 2) * minL (greedy id 4 [7, 7, 6, 6, 5, 5, 4, 4, 4, 4, 4]).sums :=
  greedy_maxmin_partial (v := id) 4 (fun k h5 hK => by omega) (by decide) (by decide) optmin_k4_tight

/-- **Max-min, ratio `3/4`, for at most four bins.**

    Requested: `3 * opt ≤ 4 * minL (greedy v k items).sums` for every `k` (Deuermeyer–Friesen–Langston).  For
    `k ≥ 5` this needs the mixed case of `greedy_maxmin_partial`, which is not formalised. -/
theorem greedy_maxmin_partial_three_quarters {v : α → Nat} {k : Nat} {items : List α} (hk : 0 < k) (hk4 : k ≤ 4)
    {opt : Nat} (hopt : IsOptimalValue .maxSmallest k (items.map v) (-(opt : Int))) :
    3 * opt ≤ 4 * minL (greedy v k items).sums := by
  by_cases h3 : k ≤ 3
  · exact MaxMin3.greedy_maxmin_partial_three_quarters hk h3 hopt
  · have : k = 4 := by omega
    subst this
    have := greedy_maxmin_four hopt
    omega

example : 3 * 14 ≤ 4 * minL (greedy id 4 [7, 7, 6, 6, 5, 5, 4, 4, 4, 4, 4]).sums :=
  greedy_maxmin_partial_three_quarters (v := id) (by decide) (by decide) optmin_k4_tight

/-! ## 6. Every number of bins, no tiny items: `OPT ≤ 8 · (smallest item)` -/

theorem Split.scale {v : α → Nat} {pre : List α} {c : α} {l : List α} (c0 : Nat) (h : Split v pre c l) :
    Split (fun a => c0 * v a) pre c l := by
  obtain ⟨m, hm, h1, h2, h3⟩ := h
  refine ⟨m, hm, ?_, fun u hu => Nat.mul_le_mul_left _ (h2 u hu), fun u hu => Nat.mul_le_mul_left _ (h3 u hu)⟩
  rw [Scale.binSum_scale, Scale.binSum_scale]
  exact Nat.mul_le_mul_left _ h1

/-- **A bin seen from a heavy bin `A = preA ++ [zA]`** (sum `> L + t`), when every item exceeds `L/2 − t`: after `zA`
    the bin has received at most one item (and none if its sum is `≤ L`), everything before is large; its weight
    is `≤ 3`, and `≤ 2` if its sum is `≤ L`. -/
theorem mixedR_bin {v : α → Nat} {W t L : Nat} (h2L : 2 * L < W + 2 * t) (hWt : W ≤ 4 * t) (htW : 2 * t ≤ W)
    (preA : List α) (zA : α) (hpA : binSum v preA ≤ L) (hA : L + t < binSum v preA + v zA)
    (hzA2 : 2 * v zA ≤ L) (l : List α) (hsp : Split v preA zA l)
    (hlow : ∀ u ∈ l, L < 2 * v u + 2 * t)
    (hpre : ∀ n, n < l.length → binSum v (l.take n) ≤ L) (htail : ∀ c ∈ l.tail, 2 * v c ≤ L) :
    wt W (l.map v) ≤ 3 ∧ (binSum v l ≤ L → wt W (l.map v) ≤ 2) := by
  obtain ⟨m, hm, s1, s2, s3⟩ := hsp
  have hlen : l.length ≤ m + 1 := by
    apply Nat.le_of_not_lt
    intro hlt
    have hsm := after_cut_small l hpre m hlt
    have := hlow _ (List.getElem_mem (show m < l.length by omega))
    omega
  rcases Nat.lt_or_ge m l.length with hmlt | hmge
  · -- exactly one item after the cut
    have hd : l.drop m = [l[m]] := by
      rw [List.drop_eq_getElem_cons hmlt, List.drop_eq_nil_of_le (by omega)]
    have hsplit : l = l.take m ++ [l[m]] := by
      conv_lhs => rw [← List.take_append_drop m l, hd]
    have hr := hlow _ (List.getElem_mem hmlt)
    have htake_le : binSum v (l.take m) ≤ L := hpre m hmlt
    have htne : l.take m ≠ [] := by
      intro h0
      have h00 : binSum v ([] : List α) = 0 := rfl
      rw [h0, h00] at s1
      omega
    have hm1 : 1 ≤ m := by
      rcases Nat.eq_zero_or_pos m with h0 | h
      · exfalso; apply htne; rw [h0]; rfl
      · exact h
    have hrtail : l[m] ∈ l.tail := by
      have hlt' : m - 1 < l.tail.length := by simp; omega
      have : l.tail[m - 1] = l[m] := by
        rw [List.getElem_tail]
        simp only [Nat.sub_add_cancel hm1]
      rw [← this]; exact List.getElem_mem hlt'
    have hr2 := htail _ hrtail
    have hT := wt_bin h2L hWt htW (l.take m)
      (fun n hn => by
        have hn' : n < m := by simpa [List.length_take] using (lt_of_lt_of_le hn (by simp))
        have := hpre n (by omega)
        rwa [List.take_take, Nat.min_eq_left (by omega)])
      (fun c hc => by
        have : c ∈ l.tail := by
          rw [hsplit]; exact mem_tail_append_left hc
        have := htail c this; omega)
      (fun c hc => by have := s3 c hc; omega)
    have e1 : decide (W ≤ 2 * v l[m]) = false := by simp; omega
    have e2 : decide (W ≤ v l[m]) = false := by simp; omega
    have hwx : wt W [v l[m]] = 1 := by simp [wt, e1, e2]
    have hw : wt W (l.map v) = wt W ((l.take m).map v) + 1 := by
      conv_lhs => rw [hsplit]
      rw [List.map_append, wt_append, List.map_cons, List.map_nil, hwx]
    constructor
    · have := hT.2 htake_le; omega
    · intro hle
      exfalso
      have hs := binSum_take_drop v l m
      rw [hd, Part.binSum_cons, Part.binSum_nil] at hs
      omega
  · -- nothing after the cut
    have ht : l.take m = l := List.take_of_length_le hmge
    rw [ht] at s3
    exact wt_bin h2L hWt htW l hpre (fun c hc => by have := htail c hc; omega)
      (fun c hc => by have := s3 c hc; omega)

/-- **The heavy-bin case when no item is tiny.**  In the final state of the LPT loop on an ordered list let some
    bin with at least two items exceed the smallest sum `L` by more than `k·W/(4k−2)`, let the `(k+1)`-th value be
    `≤ L/2`, and let every item be at least `W/8`.  Then the exact bound holds: seen from the heavy bin every other
    bin consists of large items plus at most one later item (`mixedR_bin`), so the bins weigh `≤ 3` and a bin of
    smallest sum `≤ 2` (`count_core`). -/
theorem low_mixed {v : α → Nat} {k : Nat} (hk : 0 < k) {xs : List α}
    (hS : xs.Pairwise (fun a c => v c ≤ v a)) {W : Nat} (Q : List (List Nat)) (hQk : Q.length = k)
    (hQp : Q.flatten.Perm (xs.map v)) (hQ : ∀ l ∈ Q, W ≤ sumL l)
    (hy : 2 * (xs.map v).getD k 0 ≤ minL (run v k xs).sums)
    (hbig : ∃ l ∈ (run v k xs).lists, 2 ≤ l.length ∧
      minL (run v k xs).sums + k * W / (4 * k - 2) < binSum v l)
    (hlow : ∀ a ∈ xs, W ≤ 8 * v a) :
    3 * k * W + 2 * minL (run v k xs).sums ≤ 4 * k * minL (run v k xs).sums + W := by
  apply Classical.byContradiction
  intro hcon
  obtain ⟨k', rfl⟩ : ∃ k', k = k' + 1 := ⟨k - 1, by omega⟩
  have ec : 4 * (k' + 1) - 2 = 4 * k' + 2 := by omega
  rw [ec] at hbig
  generalize hLdef : minL (run v (k' + 1) xs).sums = L at *
  have hLc : (4 * k' + 2) * L < (3 * k' + 2) * W := by
    have : 4 * (k' + 1) * L + W < 3 * (k' + 1) * W + 2 * L := by omega
    nlinarith
  have hc0 : 0 < 4 * k' + 2 := by omega
  have hW0 : 0 < W := by
    rcases Nat.eq_zero_or_pos W with h | h
    · subst h; simp at hLc
    · exact h
  obtain ⟨lB, hlB, hlen2, hBbig⟩ := hbig
  obtain ⟨hperm, hlists, hcons⟩ := run_valid v hk xs
  have hc : (run v (k' + 1) xs).sums = (run v (k' + 1) xs).lists.map (binSum v) := hcons
  have hne := run_sums_ne_nil v hk xs
  have hslen := run_sums_length v hk xs
  obtain ⟨iB, hiB, hiBl⟩ := List.mem_iff_getElem.1 hlB
  have hgetB : (run v (k' + 1) xs).lists[iB]? = some lB := by rw [List.getElem?_eq_getElem hiB, hiBl]
  -- split the heavy bin
  have hBne : lB ≠ [] := by intro h0; rw [h0] at hlen2; simp at hlen2
  have hBsplit : lB = lB.dropLast ++ [lB.getLast hBne] := (List.dropLast_append_getLast hBne).symm
  generalize lB.dropLast = preB at hBsplit
  generalize lB.getLast hBne = zB at hBsplit
  subst hBsplit
  have hpreBne : preB ≠ [] := by
    intro h0; rw [h0] at hlen2; simp at hlen2
  obtain ⟨pfB, tlB, soB, meB⟩ := bin_facts hk hS hgetB
  rw [hLdef] at pfB
  have hpB := pfB preB.length (by simp)
  rw [List.take_left' rfl] at hpB
  have hzBtail : zB ∈ (preB ++ [zB]).tail := by
    cases preB with
    | nil => exact absurd rfl hpreBne
    | cons a q => simp
  have hzB2 : 2 * v zB ≤ L := by have := tlB zB hzBtail; omega
  rw [Oracle.binSum_concat] at hBbig
  -- the scaled quantities
  have hdiv : (k' + 1) * W < (4 * k' + 2) * ((k' + 1) * W / (4 * k' + 2) + 1) :=
    Nat.lt_mul_div_succ _ hc0
  have hA' : (4 * k' + 2) * L + (k' + 1) * W <
      (4 * k' + 2) * binSum v preB + (4 * k' + 2) * v zB := by
    have h1 : L + (k' + 1) * W / (4 * k' + 2) + 1 ≤ binSum v preB + v zB := by omega
    have h2 := Nat.mul_le_mul_left (4 * k' + 2) h1
    rw [Nat.mul_add, Nat.mul_add, Nat.mul_add] at h2
    rw [Nat.mul_add] at hdiv
    omega
  have h2L' : 2 * ((4 * k' + 2) * L) < (4 * k' + 2) * W + 2 * ((k' + 1) * W) := by nlinarith
  have hWt' : (4 * k' + 2) * W ≤ 4 * ((k' + 1) * W) := by nlinarith
  have htW' : 2 * ((k' + 1) * W) ≤ (4 * k' + 2) * W := by nlinarith
  have hpB' : (4 * k' + 2) * binSum v preB ≤ (4 * k' + 2) * L := Nat.mul_le_mul_left _ hpB
  have hzB2' : 2 * ((4 * k' + 2) * v zB) ≤ (4 * k' + 2) * L := by
    have := Nat.mul_le_mul_left (4 * k' + 2) hzB2
    rw [Nat.mul_left_comm] at this
    exact this
  have ha2 := run_a2Inv hk xs hS
  -- every bin
  have hbin : ∀ (n : Nat) (l : List α), (run v (k' + 1) xs).lists[n]? = some l →
      wt W (l.map v) ≤ 3 ∧ (binSum v l ≤ L → wt W (l.map v) ≤ 2) := by
    intro n l hl
    obtain ⟨pf, tl, so, me⟩ := bin_facts hk hS hl
    rw [hLdef] at pf
    have pf' : ∀ m, m < l.length → binSum (fun a => (4 * k' + 2) * v a) (l.take m) ≤ (4 * k' + 2) * L := by
      intro m hm; rw [Scale.binSum_scale]; exact Nat.mul_le_mul_left _ (pf m hm)
    have tl' : ∀ c ∈ l.tail, 2 * ((4 * k' + 2) * v c) ≤ (4 * k' + 2) * L := by
      intro c hc'
      have h1 : 2 * v c ≤ L := by have := tl c hc'; omega
      have := Nat.mul_le_mul_left (4 * k' + 2) h1
      rw [Nat.mul_left_comm] at this
      exact this
    have e : l.map (fun a => (4 * k' + 2) * v a) = (l.map v).map ((4 * k' + 2) * ·) := by
      rw [List.map_map]; rfl
    have key : wt ((4 * k' + 2) * W) (l.map (fun a => (4 * k' + 2) * v a)) ≤ 3 ∧
        (binSum (fun a => (4 * k' + 2) * v a) l ≤ (4 * k' + 2) * L →
          wt ((4 * k' + 2) * W) (l.map (fun a => (4 * k' + 2) * v a)) ≤ 2) := by
      by_cases hn : n = iB
      · -- the heavy bin: all items large
        subst hn
        rw [hgetB] at hl
        have hl' := Option.some.inj hl
        subst hl'
        refine wt_bin h2L' hWt' htW' _ pf' (fun c hc' => by have := tl' c hc'; omega) ?_
        intro c hc'
        rw [List.pairwise_append] at soB
        have hzc : v zB ≤ v c := by
          rcases List.mem_append.1 hc' with h | h
          · exact soB.2.2 c h zB (by simp)
          · simp at h; rw [h]
        have := Nat.mul_le_mul_left (4 * k' + 2) hzc
        omega
      · have hsp : Split v preB zB l := ha2 iB n preB zB l (Ne.symm hn) hgetB hl
        refine mixedR_bin h2L' hWt' htW' preB zB (by rw [Scale.binSum_scale]; exact hpB')
          (by rw [Scale.binSum_scale]; exact hA') hzB2' l (hsp.scale _) ?_ pf' tl'
        intro u hu
        have h8 := hlow u (me u hu)
        have h9 := Nat.mul_le_mul_left k' h8
        nlinarith
    rw [e, wt_scale hc0, Scale.binSum_scale] at key
    exact ⟨key.1, fun h => key.2 (Nat.mul_le_mul_left _ h)⟩
  -- a bin of smallest sum
  have hi0 := Part.argmin_lt hne
  have hLi0 := Part.getElem_argmin hi0
  rw [hLdef] at hLi0
  have hget0 : (run v (k' + 1) xs).lists[argmin (run v (k' + 1) xs).sums]? =
      some (run v (k' + 1) xs).lists[argmin (run v (k' + 1) xs).sums] := List.getElem?_eq_getElem (by omega)
  have hM : binSum v (run v (k' + 1) xs).lists[argmin (run v (k' + 1) xs).sums] ≤ L := by
    rw [← hLi0]; simp [hc]
  refine count_core (W := W) (k := k' + 1) (vals := xs.map v)
    ((run v (k' + 1) xs).lists.map (List.map v)) Q (by simpa using hlists)
    (by rw [← List.map_flatten]; exact hperm.map v) hQk hQp
    (fun g hg => wt_cover hW0 g (hQ g hg)) ?_
    ⟨_, List.mem_map_of_mem (List.getElem_mem (show argmin (run v (k' + 1) xs).sums < _ by omega)),
      (hbin _ _ hget0).2 hM⟩
  intro l' hl'
  obtain ⟨l, hl, rfl⟩ := List.mem_map.1 hl'
  obtain ⟨n, hn, rfl⟩ := List.mem_iff_getElem.1 hl
  exact (hbin n _ (List.getElem?_eq_getElem hn)).1

theorem arith_onmin {k W x LP : Nat} (hk : 0 < k)
    (h : 3 * k * (W - x) + 2 * LP ≤ 4 * k * LP + (W - x)) :
    3 * k * W + 2 * (LP + x) ≤ 4 * k * (LP + x) + W := by
  obtain ⟨k', rfl⟩ : ∃ k', k = k' + 1 := ⟨k - 1, by omega⟩
  rcases Nat.lt_or_ge x W with hlt | hge
  · obtain ⟨W', rfl⟩ : ∃ W', W = W' + x := ⟨W - x, by omega⟩
    rw [Nat.add_sub_cancel] at h
    nlinarith
  · nlinarith

/-- **The exact constant for every number of bins when no item is tiny**: for the LPT loop on an ordered list all
    of whose values are at least `W/8`, against an arbitrary cover of level `W`. -/
theorem run_maxmin_low {v : α → Nat} : ∀ (k : Nat), 0 < k → ∀ (xs : List α),
    xs.Pairwise (fun a c => v c ≤ v a) → ∀ (W : Nat) (Q : List (List Nat)), Q.length = k →
    Q.flatten.Perm (xs.map v) → (∀ l ∈ Q, W ≤ sumL l) → (∀ a ∈ xs, W ≤ 8 * v a) →
    3 * k * W + 2 * minL (run v k xs).sums ≤ 4 * k * minL (run v k xs).sums + W := by
  intro k
  induction k with
  | zero => intro h; omega
  | succ k' ihk =>
    intro hk xs
    by_cases hk' : k' = 0
    · subst hk'
      intro hS W Q hQk hQp hQ _
      have hsp := run_spread hk hS Q hQk hQp hQ
      simp only [Nat.zero_add, Nat.one_mul, Nat.mul_one] at hsp ⊢
      omega
    have hk'pos : 0 < k' := Nat.pos_of_ne_zero hk'
    induction xs using Oracle.rev_induction with
    | nil =>
      intro _ W Q hQk hQp hQ _
      have := cover_nil_level hk Q hQk (by simpa using hQp) hQ
      subst this
      simp only [Nat.mul_zero, Nat.zero_add, Nat.add_zero]
      exact Nat.mul_le_mul_right _ (by omega)
    | snoc P x ih =>
      intro hS W Q hQk hQp hQ hlow
      obtain ⟨hSP, _, hPx⟩ := List.pairwise_append.1 hS
      by_cases hT : minL (run v (k' + 1) (P ++ [x])).sums = minL (run v (k' + 1) P).sums + v x
      · obtain ⟨Q', hQ'k, hQ'p, hQ'⟩ :=
          cover_remove (z := v x) (vals := P.map v) Q hQk (by simpa using hQp) hQ
        have key := ih hSP (W - v x) Q' hQ'k hQ'p hQ'
          (fun a ha => by have := hlow a (by simp [ha]); omega)
        rw [hT]
        exact arith_onmin hk key
      by_cases hy : minL (run v (k' + 1) (P ++ [x])).sums < 2 * ((P ++ [x]).map v).getD (k' + 1) 0
      · have hklt' := getD_pos_lt ((P ++ [x]).map v) (k' + 1) (by omega)
        have hklt : k' + 1 < (P ++ [x]).length := by simpa using hklt'
        have ey : ((P ++ [x]).map v).getD (k' + 1) 0 = v (P ++ [x])[k' + 1] := by
          rw [getD_eq_getElem' _ _ hklt', List.getElem_map]
        rw [ey] at hy
        obtain ⟨ys, hsub, hL', _, Q', hQ'k, hQ'p, hQ'⟩ :=
          peel_first_pair hk'pos hS hklt hy Q hQk hQp hQ
        have key := ihk hk'pos ys (hS.sublist hsub) W Q' hQ'k hQ'p hQ'
          (fun a ha => hlow a (hsub.subset ha))
        rw [hL'] at key
        exact arith_exact_step hk'pos key
      by_cases hcert : ∀ l ∈ (run v (k' + 1) (P ++ [x])).lists,
          l.length ≤ 1 ∨ binSum v l ≤ minL (run v (k' + 1) (P ++ [x])).sums +
            (k' + 1) * W / (4 * (k' + 1) - 2)
      · exact run_maxmin_cert hk Q hQk hQp hQ _ hcert
          (by rw [Nat.mul_comm]; exact Nat.div_mul_le_self _ _)
      · simp only [not_forall, not_or, Nat.not_le] at hcert
        obtain ⟨lB, hlB, hlen2, hBbig⟩ := hcert
        exact low_mixed hk hS Q hQk hQp hQ (by omega) ⟨lB, hlB, by omega, hBbig⟩ hlow

/-- **C08 for every number of bins when no item is tiny.**  If every item is at least `OPT/8`, LPT's smallest sum
    is at least `(3k−1)/(4k−2)` of the optimal smallest sum — the exact constant of Csirik, Kellerer and Woeginger.
    (Unconditionally the statement is `greedy_maxmin`, proved for `k ≤ 4`; see `greedy_maxmin_partial`.) -/
theorem greedy_maxmin_partial_eighth {v : α → Nat} {k : Nat} {items : List α} (hk : 0 < k) {opt : Nat}
    (hopt : IsOptimalValue .maxSmallest k (items.map v) (-(opt : Int)))
    (hlow : ∀ x ∈ items, opt ≤ 8 * v x) :
    (3 * k - 1) * opt ≤ (4 * k - 2) * minL (greedy v k items).sums := by
  obtain ⟨W, hW, Q, hQk, hQp, hQ⟩ := cover_of_opt hk hopt
  have hW' : W = opt := by exact_mod_cast hW
  subst hW'
  rw [greedy_eq_run]
  exact arith_final hk (run_maxmin_low k hk (sortDesc v items) (Part.sortDesc_sorted v items) W Q hQk
    (hQp.trans ((Part.sortDesc_perm v items).map v).symm) hQ
    (fun a ha => hlow a ((Part.sortDesc_perm v items).mem_iff.1 ha)))

/-- non-vacuity and tightness for five bins: `[9,9,8,8,7,7,6,6,5,5,5,5,5,5]`: the optimum
    `{9,9}, {8,5,5}, {8,5,5}, {7,6,5}, {7,6,5}` has smallest sum `18`, every item is `≥ 18/8`, LPT's smallest sum is
    `14`: `14·18 = 18·14` -/
theorem optmin_k5_tight :
    IsOptimalValue .maxSmallest 5 ([9, 9, 8, 8, 7, 7, 6, 6, 5, 5, 5, 5, 5, 5].map id) (-((18 : Nat) : Int)) := by
  refine ⟨⟨[0, 0, 1, 2, 3, 4, 3, 4, 1, 1, 2, 2, 3, 4], ⟨rfl, by decide⟩, by decide⟩, ?_⟩
  intro asg hasg
  obtain ⟨Q, hQk, hQp, hQs⟩ := assignment_partition hasg
  have h1 := length_mul_minL_le (sumsOf 5 ([9, 9, 8, 8, 7, 7, 6, 6, 5, 5, 5, 5, 5, 5].map id) asg)
  rw [← hQs, ← sumL_flatten, Part.sumL_perm hQp, List.length_map, hQk] at h1
  simp only [Objective.value, Bool.false_eq_true, if_false]
  have : sumL ([9, 9, 8, 8, 7, 7, 6, 6, 5, 5, 5, 5, 5, 5].map id) = 90 := by decide
  rw [← hQs]
  omega

example : (3 * 5 - 1) * 18 ≤ (4 * 5 - 2) * minL (greedy id 5 [9, 9, 8, 8, 7, 7, 6, 6, 5, 5, 5, 5, 5, 5]).sums :=
  greedy_maxmin_partial_eighth (v := id) (by decide) optmin_k5_tight (by decide)
example : (3 * 5 - 1) * 18 = (4 * 5 - 2) * minL (greedy id 5 [9, 9, 8, 8, 7, 7, 6, 6, 5, 5, 5, 5, 5, 5]).sums := by
  decide

end Prtpy.MaxMin4

/-
Axiom audit (Lean 4.33.0; output observed with the commands appended to a copy of this file):

#print axioms Prtpy.MaxMin4.greedy_maxmin_four
  -- 'Prtpy.MaxMin4.greedy_maxmin_four' depends on axioms: [propext, Classical.choice, Quot.sound]
#print axioms Prtpy.MaxMin4.run_maxmin_four
  -- 'Prtpy.MaxMin4.run_maxmin_four' depends on axioms: [propext, Classical.choice, Quot.sound]
#print axioms Prtpy.MaxMin4.four_hmix
  -- 'Prtpy.MaxMin4.four_hmix' depends on axioms: [propext, Classical.choice, Quot.sound]
#print axioms Prtpy.MaxMin4.four_mixed
  -- 'Prtpy.MaxMin4.four_mixed' depends on axioms: [propext, Classical.choice, Quot.sound]
#print axioms Prtpy.MaxMin4.greedy_maxmin_partial
  -- 'Prtpy.MaxMin4.greedy_maxmin_partial' depends on axioms: [propext, Classical.choice, Quot.sound]
#print axioms Prtpy.MaxMin4.greedy_maxmin_partial_three_quarters
  -- 'Prtpy.MaxMin4.greedy_maxmin_partial_three_quarters' depends on axioms: [propext, Classical.choice, Quot.sound]
#print axioms Prtpy.MaxMin4.peel_small_bin
  -- 'Prtpy.MaxMin4.peel_small_bin' depends on axioms: [propext, Classical.choice, Quot.sound]
#print axioms Prtpy.MaxMin4.greedy_maxmin_partial_eighth
  -- 'Prtpy.MaxMin4.greedy_maxmin_partial_eighth' depends on axioms: [propext, Classical.choice, Quot.sound]
#print axioms Prtpy.MaxMin4.run_maxmin_low
  -- 'Prtpy.MaxMin4.run_maxmin_low' depends on axioms: [propext, Classical.choice, Quot.sound]
#print axioms Prtpy.MaxMin4.low_mixed
  -- 'Prtpy.MaxMin4.low_mixed' depends on axioms: [propext, Classical.choice, Quot.sound]
-/
