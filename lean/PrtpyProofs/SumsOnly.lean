/-
  PrtpyProofs.SumsOnly — property C06 for the exact difference-minimisers: "choosing a cheaper output type never
  changes the answer".  In the library a sums-only output type runs the algorithm with the sums-only bins manager
  (`contents = false`: `all_combinations` de-duplicates on sorted sums and keeps no item lists), a partition output
  with the contents manager (`contents = true`).

  SINCE FIX F11 (snp/rnp call `ckkF`, not `ckk`) THIS FILE HOLDS ONLY §1 (without `ckk2_twoOK`) AND THE STATEMENTS
  ABOUT `ckk` (`ckk_real_optimal`, `ckk_two_sums_manager_independent`, `ckk_value_manager_independent`); `ckk2_twoOK`
  and §2–§5 for snp/rnpF are in PrtpyProofs/CKKFSwitch2.lean, same namespace, same names, same statements
  (PrtpyProofs/CKKF.lean, where the facts about `ckkF` are proved, imports this file for `Real`).

  §1  `Real`, `TwoOK`: what the callers of 2-way complete Karmarkar–Karp use, whatever the manager
      (`ckk2_twoOK`, from `CKKF.ckkF_real_optimal`, `CKKF.ckkF_sums_sorted`).
  §2  SNP with either manager: `snpRec_opt`, `snpRec_real`, **`snp_sums_optimal`** (`snp_optimal_any`).
  §3  RNP (after F10, `numbins ≤ 5`) with either manager: `rnpRecF_four_opt`, `rnpRecF_odd_opt`, `rnpRecF_odd_real`,
      **`rnpF_sums_optimal`** (`rnpF_optimal_any`).
  §4  the whole vector of sums does not depend on the manager (lock-step simulation; the 2-way search returns the
      *sorted* sums of a split of minimum difference, and these are unique): `ckk2_sums_eq`,
      **`snp_sums_manager_independent`**, **`rnpF_sums_manager_independent`**.
  §5  the value corollaries: **`snp_value_manager_independent`**, **`rnpF_value_manager_independent`**,
      **`ckk_value_manager_independent`**.
-/
import Prtpy
import PrtpyProofs.Part
import PrtpyProofs.Obj
import PrtpyProofs.Oracle
import PrtpyProofs.SNP
import PrtpyProofs.CKKValid
import PrtpyProofs.CKKOpt
import PrtpyProofs.SNPOpt
import PrtpyProofs.RNPF
import Mathlib.Data.List.Perm.Basic

namespace Prtpy.SumsOnly
open Prtpy
open Prtpy.SNPProofs (binSum_nil binSum_cons)
open Prtpy.SNPOpt (spread_perm value_minDiff)

variable {α : Type}

/-! ## 1. realisable sums; the 2-way sub-routine with either manager -/

/-- `sums` are the sums of some partition of `items` into `k` bins -/
def Real (v : α → Nat) (items : List α) (k : Nat) (sums : List Nat) : Prop :=
  ∃ L : List (List α), L.length = k ∧ L.flatten.Perm items ∧ L.map (binSum v) = sums

theorem real_of_partition {v : α → Nat} {items : List α} {k : Nat} {b : Bins α} (h : IsPartition v items k b) :
    Real v items k b.sums :=
  ⟨b.lists, h.2.1, h.1, h.2.2.symm⟩

theorem real_concat {v : α → Nat} {i1 i2 items : List α} {k1 k2 : Nat} {s1 s2 : List Nat}
    (h1 : Real v i1 k1 s1) (h2 : Real v i2 k2 s2) (hp : (i1 ++ i2).Perm items) :
    Real v items (k1 + k2) (s1 ++ s2) := by
  obtain ⟨L1, l1, p1, e1⟩ := h1
  obtain ⟨L2, l2, p2, e2⟩ := h2
  refine ⟨L1 ++ L2, by simp [l1, l2], ?_, by simp [e1, e2]⟩
  rw [List.flatten_append]
  exact (p1.append p2).trans hp

theorem real_perm_items {v : α → Nat} {items items' : List α} {k : Nat} {s : List Nat} (hp : items.Perm items')
    (h : Real v items k s) : Real v items' k s := by
  obtain ⟨L, l, p, e⟩ := h
  exact ⟨L, l, p.trans hp, e⟩

/-- the bins fixed so far, as realisable sums -/
theorem real_prior {v : α → Nat} {prior : Bins α} (hc : prior.Consistent v) :
    Real v prior.lists.flatten prior.lists.length prior.sums :=
  ⟨prior.lists, rfl, List.Perm.refl _, hc.symm⟩

/-- realisable sums are the sums of an assignment -/
theorem real_assignment {v : α → Nat} {items : List α} {k : Nat} {sums : List Nat} (h : Real v items k sums) :
    ∃ asg, IsAssignment k items.length asg ∧ sumsOf k (items.map v) asg = sums := by
  obtain ⟨L, l, p, e⟩ := h
  obtain ⟨asg, h1, h2⟩ := Oracle.partition_sums_assignment v items ⟨L.map (binSum v), L⟩
    (SNPOpt.lists_isPartition v l p)
  exact ⟨asg, h1, h2.trans e⟩

/-- sums of an assignment are realisable -/
theorem real_of_assignment {v : α → Nat} {items : List α} {k : Nat} {sums asg : List Nat}
    (h : IsAssignment k items.length asg) (hs : sumsOf k (items.map v) asg = sums) : Real v items k sums := by
  obtain ⟨L, l, p, e⟩ := SNPOpt.assignment_lists v items h
  exact ⟨L, l, p, e.trans hs⟩

/-- realisable sums whose spread is at most that of every list of `k` bins holding the items are optimal -/
theorem optimal_of_le {v : α → Nat} {items : List α} {k : Nat} {sums : List Nat} (hreal : Real v items k sums)
    (hle : ∀ L : List (List α), L.length = k → L.flatten.Perm items → spread sums ≤ spread (L.map (binSum v))) :
    IsOptimalValue .minDiff k (items.map v) (Objective.minDiff.value sums false) := by
  refine ⟨?_, ?_⟩
  · obtain ⟨asg, h1, h2⟩ := real_assignment hreal
    exact ⟨asg, by simpa using h1, by rw [h2]⟩
  · intro asg hasg
    rw [List.length_map] at hasg
    obtain ⟨L, hl, hp, hs⟩ := SNPOpt.assignment_lists v items hasg
    rw [value_minDiff, value_minDiff, ← hs]
    exact_mod_cast hle L hl hp

/-- … and conversely -/
theorem le_of_optimal {v : α → Nat} {items : List α} {k : Nat} {sums : List Nat}
    (hopt : IsOptimalValue .minDiff k (items.map v) (Objective.minDiff.value sums false))
    {L : List (List α)} (hl : L.length = k) (hp : L.flatten.Perm items) :
    spread sums ≤ spread (L.map (binSum v)) := by
  have h := Oracle.optimal_le_partition hopt (SNPOpt.lists_isPartition v hl hp)
  rw [value_minDiff, value_minDiff] at h
  exact_mod_cast h

/-- **What SNP and RNP use of the 2-way search**: the two sums returned are those of a split of the items, and no
    split has a smaller difference. -/
def TwoOK (v : α → Nat) (items : List α) (two : Bins α) : Prop :=
  Real v items 2 two.sums ∧
    ∀ L : List (List α), L.length = 2 → L.flatten.Perm items → spread two.sums ≤ spread (L.map (binSum v))

/-- complete Karmarkar–Karp returns its sums in ascending order, with either manager -/
theorem ckk_sums_sorted {v nm : α → Nat} [BEq α] {k : Nat} {c : Bool} {items : List α} {fuel : Nat} {b : Bins α}
    (h : ckk v nm k c items fuel = .ok b) : b.sums.Pairwise (· ≤ ·) := by
  unfold ckk at h
  simp only [] at h
  split at h
  · cases h
  · split at h
    · cases h
    · cases h
      exact Part.sortAsc_sums_sorted _

/-- complete Karmarkar–Karp with either manager: realisable sums of minimum difference -/
theorem ckk_real_optimal {v nm : α → Nat} [BEq α] [LawfulBEq α] {k : Nat} (c : Bool) {items : List α} {fuel : Nat}
    {b : Bins α} (hk : 0 < k) (hne : items ≠ []) (h : ckk v nm k c items fuel = .ok b) :
    Real v items k b.sums ∧ IsOptimalValue .minDiff k (items.map v) (Objective.minDiff.value b.sums false) := by
  cases c with
  | true => exact ⟨real_of_partition (CKKValid.ckk_isPartition hk h), CKKOpt.ckk_optimal hk hne h⟩
  | false =>
    obtain ⟨asg, h1, h2⟩ := CKKValid.ckk_sums_valid hk h
    exact ⟨real_of_assignment h1 h2, CKKOpt.ckk_sums_optimal hk hne h⟩

/- **the 2-way search as SNP/RNP call it, with either manager**: `ckk2_twoOK` is in PrtpyProofs/CKKFSwitch2.lean
   (same namespace), from `CKKF.ckkF_real_optimal` and `CKKF.ckkF_sums_sorted` (since fix F11 `ckk2` is `ckkF … 2 …`). -/

/-- the two sums, and their total -/
theorem two_sums {v : α → Nat} {items : List α} {s : List Nat} (h : Real v items 2 s) :
    ∃ a b, s = [a, b] ∧ a + b = binSum v items := by
  obtain ⟨L, hl, hp, rfl⟩ := h
  match L, hl with
  | [X, Y], _ =>
    refine ⟨binSum v X, binSum v Y, rfl, ?_⟩
    rw [← Part.binSum_perm v hp]
    simp

/-- what an optimal 2-way split of `Z` knows about any other split `l, l'` of `Z` -/
theorem two_pair {v : α → Nat} {Z l l' : List α} {two : Bins α} (h : TwoOK v Z two) (hp : (l ++ l').Perm Z) :
    ∃ a b, two.sums = [a, b] ∧ a + b = binSum v l + binSum v l' ∧
      spread [a, b] ≤ spread [binSum v l, binSum v l'] := by
  obtain ⟨a, b, hab, hsum⟩ := two_sums h.1
  refine ⟨a, b, hab, ?_, ?_⟩
  · rw [hsum, ← Part.binSum_perm v hp, SNPProofs.binSum_append]
  · have := h.2 [l, l'] rfl (by simpa using hp)
    rw [hab] at this
    exact this

/-- the optimal 2-way split of the remaining items is the best completion of any fixed prior sums -/
theorem two_le {v : α → Nat} {rem : List α} {two : Bins α} (h : TwoOK v rem two) (P : List Nat)
    (L : List (List α)) (hl : L.length = 2) (hp : L.flatten.Perm rem) :
    spread (two.sums ++ P) ≤ spread (L.map (binSum v) ++ P) := by
  match L, hl with
  | [l, l'], _ =>
    obtain ⟨a, b, hab, hsum, hsp⟩ := two_pair (l := l) (l' := l') h (by simpa using hp)
    rw [hab]
    exact SNPOpt.two_way_spread P hsum hsp

/-- an optimal 2-way split of `l ++ l'` has both sums between the bounds of the sums of `l` and `l'` -/
theorem two_bounds {v : α → Nat} {Z l l' : List α} {two : Bins α} (h : TwoOK v Z two) (hp : (l ++ l').Perm Z)
    {lo hi : Nat} (h1 : lo ≤ binSum v l) (h2 : lo ≤ binSum v l') (h3 : binSum v l ≤ hi) (h4 : binSum v l' ≤ hi) :
    ∃ a b, two.sums = [a, b] ∧ (lo ≤ a ∧ a ≤ hi) ∧ (lo ≤ b ∧ b ≤ hi) := by
  obtain ⟨a, b, hab, hsum, hsp⟩ := two_pair h hp
  refine ⟨a, b, hab, ?_⟩
  rw [SNPOpt.spread_pair, SNPOpt.spread_pair] at hsp
  omega

/-- **the sorted sums of a 2-way split of minimum difference are unique** -/
theorem twoOK_sums_eq {v : α → Nat} {items : List α} {two two' : Bins α} (h : TwoOK v items two)
    (hs : two.sums.Pairwise (· ≤ ·)) (h' : TwoOK v items two') (hs' : two'.sums.Pairwise (· ≤ ·)) :
    two.sums = two'.sums := by
  obtain ⟨L, hl, hp, hL⟩ := h.1
  obtain ⟨L', hl', hp', hL'⟩ := h'.1
  have e1 := h.2 L' hl' hp'
  have e2 := h'.2 L hl hp
  rw [hL'] at e1
  rw [hL] at e2
  obtain ⟨a, b, hab, hsum⟩ := two_sums h.1
  obtain ⟨a', b', hab', hsum'⟩ := two_sums h'.1
  rw [hab] at hs e1 e2 ⊢
  rw [hab'] at hs' e1 e2 ⊢
  rw [SNPOpt.spread_pair, SNPOpt.spread_pair] at e1 e2
  have o1 : a ≤ b := by simpa using hs
  have o2 : a' ≤ b' := by simpa using hs'
  have : a = a' ∧ b = b' := by omega
  rw [this.1, this.2]

/-! ## 2.–4. (moved) SNP and RNP with either manager; the vector of sums does not depend on the manager

  Everything that rests on `ckk2_twoOK` — `snpRec_opt`, `snpRec_real`, `snp_optimal_any`, **`snp_sums_optimal`**,
  the `rnpRecF_*` lemmas, `rnpF_optimal_any`, **`rnpF_sums_optimal`**, `ckk2_sums_eq`, `treeFold_sim`, `foldE_sim`,
  `snpRec_sim`, **`snp_sums_manager_independent`**, `rnpRecF_sim`, **`rnpF_sums_manager_independent`** — is in
  PrtpyProofs/CKKFSwitch2.lean, same namespace `Prtpy.SumsOnly`, same names and statements. -/

/-! ## 4'. 2-way complete Karmarkar–Karp as it was before fix F11 (`ckk`) -/

/-- by-product: 2-way complete Karmarkar–Karp (the code before F11) returns the same vector of sums with either
    manager (for the code after F11 and any number of bins: `CKKF.ckkF_sums_manager_independent`) -/
theorem ckk_two_sums_manager_independent {v nm : α → Nat} [BEq α] [LawfulBEq α] {items : List α}
    {fuel₁ fuel₂ : Nat} {b₁ b₂ : Bins α} (hne : items ≠ []) (h₁ : ckk v nm 2 true items fuel₁ = .ok b₁)
    (h₂ : ckk v nm 2 false items fuel₂ = .ok b₂) : b₂.sums = b₁.sums := by
  obtain ⟨hr₁, ho₁⟩ := ckk_real_optimal true (by omega) hne h₁
  obtain ⟨hr₂, ho₂⟩ := ckk_real_optimal false (by omega) hne h₂
  exact twoOK_sums_eq ⟨hr₂, fun L hl hp => le_of_optimal ho₂ hl hp⟩ (ckk_sums_sorted h₂)
    ⟨hr₁, fun L hl hp => le_of_optimal ho₁ hl hp⟩ (ckk_sums_sorted h₁)

example : (⟨[15, 15], [[], []]⟩ : Bins Nat).sums = (⟨[15, 15], [[4, 5, 6], [7, 8]]⟩ : Bins Nat).sums :=
  ckk_two_sums_manager_independent (v := id) (nm := id) (items := [4, 5, 6, 7, 8]) (fuel₁ := 100) (fuel₂ := 100)
    (by decide) rfl rfl

/-! ## 5. C06: the value does not depend on the manager

  `snp_value_manager_independent`, `snp_value_any`, `rnpF_value_manager_independent`, `rnpF_value_any` are in
  PrtpyProofs/CKKFSwitch2.lean (same namespace); what follows is about `ckk`, the code before fix F11. -/

/-- a successful run of complete Karmarkar–Karp had items to work on -/
theorem ckk_ne_nil {v nm : α → Nat} [BEq α] {k : Nat} {c : Bool} {items : List α} {fuel : Nat} {b : Bins α}
    (h : ckk v nm k c items fuel = .ok b) : items ≠ [] := by
  rintro rfl
  unfold ckk at h
  simp only [] at h
  rw [CKKOpt.ckkRun_empty] at h
  split at h <;> cases h

/-- **C06 for complete Karmarkar–Karp**, any number of bins: the difference returned is the same with either
    manager (both are the optimum) -/
theorem ckk_value_manager_independent {v nm : α → Nat} [BEq α] [LawfulBEq α] {k : Nat} {items : List α}
    {fuel₁ fuel₂ : Nat} {b₁ b₂ : Bins α} (hk : 0 < k) (h₁ : ckk v nm k true items fuel₁ = .ok b₁)
    (h₂ : ckk v nm k false items fuel₂ = .ok b₂) : spread b₁.sums = spread b₂.sums := by
  have hne := ckk_ne_nil h₁
  have := Oracle.isOptimalValue_unique (CKKOpt.ckk_optimal hk hne h₁) (CKKOpt.ckk_sums_optimal hk hne h₂)
  rw [value_minDiff, value_minDiff] at this
  exact_mod_cast this

example : spread (⟨[8, 11, 11], [[8], [5, 6], [4, 7]]⟩ : Bins Nat).sums
    = spread (⟨[8, 11, 11], [[], [], []]⟩ : Bins Nat).sums :=
  ckk_value_manager_independent (v := id) (nm := id) (k := 3) (items := [4, 5, 6, 7, 8])
    (fuel₁ := 100) (fuel₂ := 100) (by decide) rfl rfl

end Prtpy.SumsOnly

/-
Exhaustive test that preceded the proofs of §4 (`#eval`, all multisets of at most 7 values in 1..9, fuel 100000):
`snp … true` and `snp … false` return the same `sums` for k ∈ {2, 3, 4}; `rnpF … true` and `rnpF … false` for
k ∈ {2, 3, 4, 5}; `ckk … true` and `ckk … false` for k ∈ {2, 3, 4} (at most 6 values): no counterexample.  For SNP
and RNP this is now `snp_sums_manager_independent` / `rnpF_sums_manager_independent`; for `ckk` with three or more
bins only the value is proved equal (`ckk_value_manager_independent`), the equality of the vectors is observed.

Axiom audit (output of `#print axioms` observed with `lake env lean`):

#print axioms Prtpy.SumsOnly.ckk_two_sums_manager_independent
  'Prtpy.SumsOnly.ckk_two_sums_manager_independent' depends on axioms: [propext, Classical.choice, Quot.sound]
#print axioms Prtpy.SumsOnly.ckk_value_manager_independent
  'Prtpy.SumsOnly.ckk_value_manager_independent' depends on axioms: [propext, Classical.choice, Quot.sound]
-/
