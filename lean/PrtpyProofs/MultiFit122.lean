/-
  PrtpyProofs.MultiFit122 — towards the `1.22` ratio of multifit (Coffman, Garey, Johnson 1978).

  The unconditional theorem `multifit_ratio_122` (`61/50 + 2^−it` for every `k`) is **open**.  Proved here:

  A. Ratios of multifit (all through `MaxMin.multifit_ratio_of_ffdFits`):
     * `multifit_ratio_k`: `(5k − 2)/(4k − 1) + 2^−it` for every `k` — a constant below `5/4` for each fixed `k`
       (`8/7` for `k = 2`, which is the exact value; `13/11, 6/5, 23/19, 28/23, 11/9, …`; the limit is `5/4`);
     * `multifit_ratio_11_9_small_k`: `11/9 + 2^−it` for `k ≤ 7`;
     * `multifit_ratio_122_small_k`: `61/50 + 2^−it` for `k ≤ 6`;
     * `multifit_ratio_122_partial`: `61/50 + 2^−it` for every `k`, for inputs without an item strictly between
       `0.22·OPT` and `0.26·OPT`.
     The corresponding statements about first-fit-decreasing: `ffd_fold_fits_k`, `ffd_fold_fits_122_small_k`,
     `ffd_fold_fits_of_no_band` (and the `ffd_fits_*`, `ffdFits_*` forms).

  B. The structure of a counter-example of first-fit-decreasing with capacity `B ≥ T` (`CE`: `k` bins with the
     structure of a first-fit-decreasing packing, an item `a`, not larger than any packed item, that fits into
     no bin, although everything fits into `k` bins of capacity `T`):
     * `ce_large`, `ce_volume`: `B − T < a`, sharply `k·(B + 1 − T) ≤ (k − 1)·a`;
     * `ce_first`: the first bin starts with the largest item `f`; either it can be dropped (it dominates the
       bin of `f` in the `T`-schedule) or `f + 2a ≤ T`;  `ce_reduce_to_tight`: hence a suffix of the bins is a
       *tight* counter-example (`Tight`: all items `≤ T − 2a`);
     * `tight_bin_length`, `tight_two`, `tight_three_le`, `tight_count`, `items_per_bin`: bins of a tight
       counter-example hold more than `c` items if `c·(T − 2a) + a ≤ B`; at least two; `3a ≤ T`; not
       (`T < 4a` and `2T − 3a ≤ B`);
     * `ce_band`: **the failing item lies in the band `B − T < a` and (`4a ≤ T` or `B + 3a < 2T`)**; for
       `B = 1.22·T`: `0.22·T < a < 0.26·T`  (`ffd_core'`: the band is empty for `B > 5/4·T − 1`).

  C. The full rule of first-fit-decreasing as a static property of the bins (`FFDStrong`: bins sorted; an item
     of a later bin, together with the items of an earlier bin that are at least as large, exceeds `B`):
     `ffdStrong_fold` (the loop produces it), `FFDStrong.eraseIdx`, `ffdInv_of_strong`; strong counter-examples
     `SCE`, `STight`, `sce_reduce_to_tight`, `ffd_overflow_sce` (a failing run yields one).

  D. Domination (Coffman, Garey, Johnson): `ce_dominating_bin`, `ce_drop_of_small_opt_bin`: a bin of a
     `T`-schedule with at most two items is dominated by a bin of the packing, and dropping that bin leaves a
     counter-example (value-level tools `packable_replace_head`, `packable_of_dom_single`,
     `packable_of_dom_pair`).  Irreducible counter-examples (`Irred`, `exists_irred`): `irred_tight`,
     `irred_opt_bins` (**every bin of every `T`-schedule holds at least three items**), `irred_card`;
     `ffd_overflow_irred` collects everything for a failing run.
-/
import Mathlib.Tactic.Linarith
import Mathlib.Tactic.Ring
import Mathlib.Tactic.Positivity
import Prtpy
import PrtpyProofs.Part
import PrtpyProofs.Fit
import PrtpyProofs.Oracle
import PrtpyProofs.LPT43
import PrtpyProofs.MaxMin
import PrtpyProofs.MaxMin2
open Prtpy

namespace Prtpy.MultiFit122
open Prtpy.LPT43 Prtpy.MaxMin Prtpy.MaxMin2

variable {α : Type}

/-! ## 1. Counter-examples of first-fit-decreasing with capacity `B` -/

/-- A counter-example: `k` bins `LL` with the structure of a first-fit-decreasing packing for capacity `B`, an
    item `a`, not larger than any packed item, that fits into no bin, while the packed items together with `a`
    fit into `k` bins of capacity `T`. -/
structure CE (v : α → Nat) (T B k : Nat) (LL : List (List α)) (a : α) : Prop where
  len : LL.length = k
  inv : FFDInv v B LL
  nofit : ∀ l ∈ LL, B < binSum v l + v a
  amin : ∀ p ∈ LL.flatten, v a ≤ v p
  pack : Packable T k ((LL.flatten ++ [a]).map v)

/-- a tight counter-example: moreover every packed item is at most `T − 2a` -/
structure Tight (v : α → Nat) (T B k : Nat) (LL : List (List α)) (a : α) : Prop extends CE v T B k LL a where
  top : ∀ p ∈ LL.flatten, v p + 2 * v a ≤ T

theorem CE.pos {v : α → Nat} {T B k : Nat} {LL : List (List α)} {a : α} (h : CE v T B k LL a) : 0 < k := by
  rcases Nat.eq_zero_or_pos k with rfl | hk
  · obtain ⟨Q, hQk, hQp, _⟩ := packable_partition h.pack
    have : Q = [] := List.length_eq_zero_iff.1 hQk
    subst this
    have := hQp.length_eq
    simp at this
  · exact hk

theorem CE.item_le {v : α → Nat} {T B k : Nat} {LL : List (List α)} {a : α} (h : CE v T B k LL a) : v a ≤ T :=
  packable_item_le h.pack (by simp)

/-- **Volume.**  The failing item of a counter-example exceeds `B − T`: otherwise every bin is filled above `T`. -/
theorem ce_large {v : α → Nat} {T B k : Nat} {LL : List (List α)} {a : α} (h : CE v T B k LL a) :
    B < v a + T := by
  apply Nat.lt_of_not_le
  intro ha
  have hk := h.pos
  have h1 : ∀ s ∈ LL.map (binSum v), T + 1 ≤ s + 0 := by
    intro s hs
    obtain ⟨l, hl, rfl⟩ := List.mem_map.1 hs
    have := h.nofit l hl
    omega
  have h2 := Part.length_mul_le_sumL _ (T + 1) 0 h1
  rw [Fit.sumL_map_binSum] at h2
  have h3 := packable_sum h.pack
  rw [List.map_append, Part.sumL_append] at h3
  simp only [List.length_map, h.len] at h2
  have e1 : binSum v LL.flatten = sumL (LL.flatten.map v) := rfl
  have e2 : k * (T + 1) = k * T + k := by ring
  omega

/-- a bin of capacity `T < (c + 1) · m` holds at most `c` items `≥ m` -/
theorem items_per_bin {T m c : Nat} {l : List Nat} (hm : ∀ y ∈ l, m ≤ y) (hT : T < (c + 1) * m)
    (hl : sumL l ≤ T) : l.length ≤ c := by
  have h1 := Part.length_mul_le_sumL l m 0 (fun y hy => by have := hm y hy; omega)
  apply Nat.le_of_not_lt
  intro hlt
  have h2 : (c + 1) * m ≤ l.length * m := Nat.mul_le_mul_right m hlt
  omega

theorem binSum_le_length_mul {v : α → Nat} {M : Nat} : ∀ (l : List α), (∀ p ∈ l, v p ≤ M) →
    binSum v l ≤ l.length * M := by
  intro l
  induction l with
  | nil => intro _; simp [binSum, sumL]
  | cons x t ih =>
    intro h
    have h1 := h x (by simp)
    have h2 := ih (fun p hp => h p (by simp [hp]))
    simp only [binSum, List.map_cons, sumL, List.length_cons] at h2 ⊢
    have e : (t.length + 1) * M = t.length * M + M := by ring
    omega

/-- the invariant of first-fit-decreasing survives dropping the first bin -/
theorem ffdInv_tail {v : α → Nat} {B : Nat} {l0 : List α} {LL : List (List α)} (hI : FFDInv v B (l0 :: LL)) :
    FFDInv v B LL := by
  intro i j l p hij hl hpl
  have := hI (i + 1) (j + 1) l p (by omega) (by simpa using hl) hpl
  simpa using this

/-- **The first bin.**  In a counter-example with capacity `B ≥ T` the first bin starts with the largest item
    `f`.  If `f` shares its bin of the `T`-schedule with at most one item, the first bin of the packing dominates
    that bin, and dropping it leaves a counter-example with one bin less; otherwise `f + 2a ≤ T`. -/
theorem ce_first {v : α → Nat} {T B k : Nat} (hTB : T ≤ B) {LL : List (List α)} {a : α}
    (h : CE v T B (k + 1) LL a) :
    ∃ f tl LL', LL = (f :: tl) :: LL' ∧ (∀ p ∈ LL.flatten, v p ≤ v f) ∧
      (CE v T B k LL' a ∨ v f + 2 * v a ≤ T) := by
  obtain ⟨hlen, hI, hno, hmin, hp⟩ := h
  have haT : v a ≤ T := packable_item_le hp (by simp)
  match LL, hlen with
  | l0 :: LL', hlen =>
  have hlen' : LL'.length = k := by simpa using hlen
  have h0 := hno l0 (by simp)
  obtain ⟨f, tl, rfl⟩ : ∃ f tl, l0 = f :: tl := by
    cases l0 with
    | nil => simp only [binSum, List.map_nil, sumL] at h0; omega
    | cons f tl => exact ⟨f, tl, rfl⟩
  have hfirst : ∀ j l p, ((f :: tl) :: LL')[j]? = some l → p ∈ l →
      v p ≤ v f ∧ (0 < j → v f + v p ≤ B → ∃ y ∈ tl, v p ≤ v y) := by
    intro j l p hl hpl
    obtain ⟨f', tl', e, h1, h2⟩ := hI 0 j l p (Nat.zero_le _) hl hpl
    simp only [List.getElem?_cons_zero, Option.some.injEq, List.cons.injEq] at e
    obtain ⟨rfl, rfl⟩ := e
    exact ⟨h1, h2⟩
  have hfmax : ∀ p ∈ ((f :: tl) :: LL').flatten, v p ≤ v f := by
    intro p hp
    obtain ⟨l, hl, hpl⟩ := List.mem_flatten.1 hp
    obtain ⟨j, hj, rfl⟩ := List.mem_iff_getElem.1 hl
    exact (hfirst j _ p (List.getElem?_eq_getElem hj) hpl).1
  refine ⟨f, tl, LL', rfl, hfmax, ?_⟩
  obtain ⟨Q, hQk, hQp, hQ⟩ := packable_partition hp
  have hQp' : Q.flatten.Perm (v f :: (tl.map v ++ (LL'.flatten ++ [a]).map v)) := by
    refine hQp.trans ?_
    simp [List.map_append]
  have hge : ∀ u ∈ Q.flatten, v a ≤ u := by
    intro u hu
    obtain ⟨p, hp, rfl⟩ := List.mem_map.1 (hQp.mem_iff.1 hu)
    rcases List.mem_append.1 hp with hp | hp
    · exact hmin p hp
    · simp only [List.mem_singleton] at hp; subst hp; exact Nat.le_refl _
  by_cases hsm : ∀ O ∈ Q, v f ∈ O → O.length ≤ 2
  · left
    have hp' : Packable T k ((LL'.flatten ++ [a]).map v) := by
      refine pack_drop_bin Q hQk hQp' hQ hsm ?_
      intro p hp hfp
      obtain ⟨p', hp', rfl⟩ := List.mem_map.1 hp
      rcases List.mem_append.1 hp' with hp' | hp'
      · obtain ⟨l, hl, hpl⟩ := List.mem_flatten.1 hp'
        obtain ⟨j, hj, rfl⟩ := List.mem_iff_getElem.1 hl
        obtain ⟨y, hy, hpy⟩ := (hfirst (j + 1) _ p' (by simp [List.getElem?_eq_getElem hj]) hpl).2
          (by omega) (by omega)
        exact ⟨v y, List.mem_map_of_mem hy, hpy⟩
      · simp only [List.mem_singleton] at hp'
        subst hp'
        cases tl with
        | nil => simp only [binSum, List.map_cons, List.map_nil, sumL] at h0; omega
        | cons y t =>
          exact ⟨v y, by simp, hmin y (by simp)⟩
    exact ⟨hlen', ffdInv_tail hI, fun l hl => hno l (List.mem_cons_of_mem _ hl),
      fun p hp => hmin p (by simp [hp]), hp'⟩
  · right
    have hex : ∃ O ∈ Q, v f ∈ O ∧ 3 ≤ O.length := by
      apply Classical.byContradiction
      intro hno'
      apply hsm
      intro O hO hfO
      apply Nat.le_of_not_lt
      intro hlt
      exact hno' ⟨O, hO, hfO, hlt⟩
    obtain ⟨O, hO, hfO, hOlen⟩ := hex
    have pO := List.perm_cons_erase hfO
    have h1 := hQ O hO
    rw [Part.sumL_perm pO] at h1
    have hlen2 : 2 ≤ (O.erase (v f)).length := by
      have := pO.length_eq; simp only [List.length_cons] at this; omega
    have hmemO : ∀ u ∈ O.erase (v f), v a ≤ u := fun u hu =>
      hge u (List.mem_flatten.2 ⟨O, hO, List.mem_of_mem_erase hu⟩)
    match hOe : O.erase (v f), hlen2 with
    | p :: q :: r, _ =>
      rw [hOe] at h1 hmemO
      have := hmemO p (by simp)
      have := hmemO q (by simp)
      simp only [sumL] at h1
      omega

/-- **Reduction to a tight counter-example.**  Dropping dominated first bins one after the other, every
    counter-example (with `B ≥ T`) contains a tight one: a suffix of its bins, with the same failing item, in
    which every item is at most `T − 2a`. -/
theorem ce_reduce_to_tight {v : α → Nat} {T B : Nat} (hTB : T ≤ B) {a : α} :
    ∀ (k : Nat) (LL : List (List α)), CE v T B k LL a →
      ∃ k' LL', k' ≤ k ∧ LL' <:+ LL ∧ Tight v T B k' LL' a := by
  intro k
  induction k with
  | zero => intro LL h; exact absurd h.pos (Nat.lt_irrefl _)
  | succ k ih =>
    intro LL h
    obtain ⟨f, tl, LL', rfl, hmax, h1 | h1⟩ := ce_first hTB h
    · obtain ⟨k', L2, hk', hsuf, ht⟩ := ih LL' h1
      exact ⟨k', L2, by omega, hsuf.trans (List.suffix_cons _ _), ht⟩
    · exact ⟨k + 1, _, Nat.le_refl _, List.suffix_refl _, h, fun p hp => by have := hmax p hp; omega⟩

/-- in a tight counter-example every bin holds more than `c` items as long as `c` items of size `T − 2a` and the
    item `a` fit into the capacity -/
theorem tight_bin_length {v : α → Nat} {T B k : Nat} {LL : List (List α)} {a : α} (h : Tight v T B k LL a)
    {c : Nat} (hc : c * (T - 2 * v a) + v a ≤ B) : ∀ l ∈ LL, c + 1 ≤ l.length := by
  intro l hl
  apply Nat.succ_le_of_lt
  apply Nat.lt_of_not_le
  intro hle
  have h1 := h.nofit l hl
  have h2 : binSum v l ≤ l.length * (T - 2 * v a) :=
    binSum_le_length_mul l (fun p hp => by
      have := h.top p (List.mem_flatten.2 ⟨l, hl, hp⟩); omega)
  have h3 : l.length * (T - 2 * v a) ≤ c * (T - 2 * v a) := Nat.mul_le_mul_right _ hle
  omega

/-- every bin of a tight counter-example (with `B ≥ T`) holds at least two items -/
theorem tight_two {v : α → Nat} {T B k : Nat} (hTB : T ≤ B) {LL : List (List α)} {a : α}
    (h : Tight v T B k LL a) : ∀ l ∈ LL, 2 ≤ l.length := by
  apply tight_bin_length h (c := 1)
  have := h.toCE.item_le
  omega

/-- a tight counter-example has `3a ≤ T` (it has a bin, the bin has an item) -/
theorem tight_three_le {v : α → Nat} {T B k : Nat} (hTB : T ≤ B) {LL : List (List α)} {a : α}
    (h : Tight v T B k LL a) : 3 * v a ≤ T := by
  have hk := h.toCE.pos
  have hlen := h.len
  cases LL with
  | nil => simp only [List.length_nil] at hlen; omega
  | cons l LL' =>
    have h2 := tight_two hTB h l (by simp)
    cases l with
    | nil => simp at h2
    | cons p t =>
      have h3 := h.top p (by simp)
      have h4 := h.amin p (by simp)
      omega

/-- **Counting.**  No tight counter-example has `T < 4a` and `2T − 3a ≤ B`: every bin of the packing would hold
    three items, every bin of the `T`-schedule at most three, and `a` is one more. -/
theorem tight_count {v : α → Nat} {T B k : Nat} (hTB : T ≤ B) {LL : List (List α)} {a : α}
    (h : Tight v T B k LL a) (ha : T < 4 * v a) (hB : 2 * T ≤ B + 3 * v a) : False := by
  have h3 : ∀ l ∈ LL, 2 + 1 ≤ l.length := by
    apply tight_bin_length h
    have := h.toCE.item_le
    omega
  obtain ⟨Q, hQk, hQp, hQ⟩ := packable_partition h.pack
  have hge : ∀ u ∈ Q.flatten, v a ≤ u := by
    intro u hu
    obtain ⟨p, hp, rfl⟩ := List.mem_map.1 (hQp.mem_iff.1 hu)
    rcases List.mem_append.1 hp with hp | hp
    · exact h.amin p hp
    · simp only [List.mem_singleton] at hp; subst hp; exact Nat.le_refl _
  have c1 := mul_le_flatten_length 3 _ h3
  have c2 := flatten_length_le_mul 3 Q (fun l hl =>
    items_per_bin (c := 3) (fun y hy => hge y (List.mem_flatten.2 ⟨l, hl, hy⟩)) (by omega) (hQ l hl))
  have c3 := hQp.length_eq
  simp only [List.length_map, List.length_append, List.length_cons, List.length_nil] at c1 c3
  rw [hQk] at c2
  rw [h.len] at c1
  omega

/-- **The band.**  The failing item `a` of a counter-example of first-fit-decreasing with capacity `B ≥ T`
    satisfies `B − T < a`, and `4a ≤ T` or `B + 3a < 2T`.  (For `B = 5/4·T` the band is empty: `MaxMin2.ffd_core`;
    for `B = 1.22·T` it is `0.22·T < a < 0.26·T`.) -/
theorem ce_band {v : α → Nat} {T B k : Nat} (hTB : T ≤ B) {LL : List (List α)} {a : α}
    (h : CE v T B k LL a) : B < v a + T ∧ (4 * v a ≤ T ∨ B + 3 * v a < 2 * T) := by
  refine ⟨ce_large h, ?_⟩
  obtain ⟨k', LL', _, _, ht⟩ := ce_reduce_to_tight hTB k LL h
  rcases Nat.lt_or_ge T (4 * v a) with h4 | h4
  · right
    apply Nat.lt_of_not_le
    intro hB
    exact tight_count hTB ht h4 hB
  · exact Or.inl h4

/-- `MaxMin2.ffd_core` again, from the band -/
theorem ffd_core' {v : α → Nat} {T B : Nat} (hB : 5 * T < 4 * (B + 1)) {a : α} {k : Nat} {LL : List (List α)}
    (h : CE v T B k LL a) : False := by
  obtain ⟨h1, h2⟩ := ce_band (by omega) h
  omega

/-! ## 2. First-fit-decreasing fits when no item lies in the band -/

section Multifit
variable (v : α → Nat)

/-- the item `x` is outside the band of the capacities `T ≤ B` -/
def OutOfBand (T B : Nat) (x : α) : Prop := v x + T ≤ B ∨ (T < 4 * v x ∧ 2 * T ≤ B + 3 * v x)

theorem not_ce_of_outOfBand {T B k : Nat} (hTB : T ≤ B) {LL : List (List α)} {a : α}
    (ha : OutOfBand v T B a) : ¬ CE v T B k LL a := by
  intro h
  obtain ⟨h1, h2⟩ := ce_band hTB h
  rcases ha with ha | ⟨ha, hb⟩ <;> omega

/-- **First-fit-decreasing with capacity `B ≥ T` fits into `k` bins** whenever the values fit into `k` bins of
    capacity `T` and no item lies in the band. -/
theorem ffd_fold_fits_of_no_band {k : Nat} (hk : 0 < k) {T B : Nat} (hTB : T ≤ B) :
    ∀ xs : List α, xs.Pairwise (fun a c => v c ≤ v a) → Packable T k (xs.map v) → (∀ x ∈ xs, v x ≤ B) →
      (∀ x ∈ xs, OutOfBand v T B x) →
      (xs.foldl (ffStep v B) (Bins.new 1)).lists.length ≤ k := by
  intro xs
  induction xs using Oracle.rev_induction with
  | nil => intro _ _ _ _; simp [Bins.new]; omega
  | snoc P x ih =>
    intro hS hp hall hband
    obtain ⟨hS1, _, hS2⟩ := List.pairwise_append.1 hS
    have hpP : Packable T k (P.map v) := by rw [List.map_append] at hp; exact packable_prefix _ hp
    have hallP : ∀ y ∈ P, v y ≤ B := fun y hy => hall y (by simp [hy])
    have hih := ih hS1 hpP hallP (fun y hy => hband y (by simp [hy]))
    have hinv : Fit.Inv v B P (P.foldl (ffStep v B) (Bins.new 1)) := by
      simpa using Fit.inv_foldl (ffStep v B) (Fit.ffStep_step v B) P [] (Bins.new 1) hallP (Fit.inv_init v B)
    have hI := ffdInv_fold P hS1 hallP
    rw [List.foldl_append, List.foldl_cons, List.foldl_nil]
    rcases Fit.ffStep_step v B (P.foldl (ffStep v B) (Bins.new 1)) x with ⟨i, _, _, e⟩ | ⟨hno, e⟩
    · rw [e]; simpa using hih
    · rw [e, Fit.addEmpty_add v _ x hinv.len]
      simp only [List.length_append, List.length_cons, List.length_nil]
      apply Nat.succ_le_of_lt
      apply Nat.lt_of_le_of_ne hih
      intro hlen
      have hc := hinv.cons
      apply not_ce_of_outOfBand v hTB (hband x (by simp)) (k := k)
        (LL := (P.foldl (ffStep v B) (Bins.new 1)).lists)
      refine ⟨hlen, hI, ?_, ?_, ?_⟩
      · intro l hl
        have hmem : binSum v l ∈ (P.foldl (ffStep v B) (Bins.new 1)).sums := by
          rw [hc]; exact List.mem_map_of_mem hl
        have := hno _ hmem
        omega
      · intro p hp'
        exact hS2 p (hinv.perm.mem_iff.1 hp') x (by simp)
      · exact packable_perm ((hinv.perm.append_right [x]).map v).symm hp

theorem ffd_fits_of_no_band {k : Nat} (hk : 0 < k) {xs : List α}
    (hS : xs.Pairwise (fun a c => v c ≤ v a)) {T : Nat} (hp : Packable T k (xs.map v)) {B : Nat}
    (hTB : T ≤ B) (hband : ∀ x ∈ xs, OutOfBand v T B x) {b : Bins α} (h : ffOnline v B xs = .ok b) :
    b.lists.length ≤ k := by
  simp only [ffOnline, Fit.ffLoop_eq] at h
  have hall := Fit.gen_ok_all_le h
  rw [Fit.genLoop_ok v B _ xs _ hall] at h
  cases h
  exact ffd_fold_fits_of_no_band v hk hTB xs hS hp hall hband

/-- `FfdFits (61/50)` for inputs without an item strictly between `0.22·OPT` and `0.26·OPT` -/
theorem ffdFits_122_of_no_band {k : Nat} (hk : 0 < k) {items : List α} {opt : Int}
    (hopt : IsOptimalValue .minLargest k (items.map v) opt)
    (hband : ∀ x ∈ items, 50 * (v x : Int) ≤ 11 * opt ∨ 13 * opt ≤ 50 * (v x : Int))
    {ρ : Rat} (hρ : 61 / 50 ≤ ρ) :
    FfdFits v k (sortDesc v items) ρ opt := by
  obtain ⟨T, rfl, hp⟩ := packable_of_opt hopt
  have hsp := Part.sortDesc_perm v items
  have hp' : Packable T k ((sortDesc v items).map v) := packable_perm (hsp.map v).symm hp
  have hM : ∀ x ∈ sortDesc v items, v x ≤ T :=
    fun x hx => packable_item_le hp' (List.mem_map_of_mem hx)
  intro c hc
  have hT0 : (0 : Rat) ≤ (T : Rat) := by positivity
  have hc' : 61 / 50 * (T : Rat) ≤ c := by
    push_cast at hc
    nlinarith
  obtain ⟨b', e', _, q2, _⟩ := Part.ffOnline_of_cap v (sortDesc v items) hM c (by linarith)
  refine ⟨b'.sums.length, by simp only [ffCount, e']; rfl, ?_⟩
  rw [Part.consistent_length v q2]
  have hTB : T ≤ floorNat c := Part.le_floorNat T c (by linarith)
  refine ffd_fits_of_no_band v hk (Part.sortDesc_sorted v items) hp' hTB ?_ e'
  intro x hx
  have hx' : x ∈ items := hsp.mem_iff.1 hx
  rcases hband x hx' with h1 | h1
  · left
    have h1' : 50 * v x ≤ 11 * T := by exact_mod_cast h1
    apply Part.le_floorNat
    have h2 : (50 : Rat) * (v x : Rat) ≤ 11 * (T : Rat) := by exact_mod_cast h1'
    push_cast
    linarith
  · have h1' : 13 * T ≤ 50 * v x := by exact_mod_cast h1
    rcases Nat.eq_zero_or_pos T with hT | hT
    · left
      have := hM x hx
      omega
    · right
      refine ⟨by omega, ?_⟩
      have h2 : (13 : Rat) * (T : Rat) ≤ 50 * (v x : Rat) := by exact_mod_cast h1'
      rcases Nat.le_total (3 * v x) (2 * T) with h4 | h4
      · have h3 : 2 * T - 3 * v x ≤ floorNat c := by
          apply Part.le_floorNat
          rw [Nat.cast_sub h4]
          push_cast
          linarith
        omega
      · omega

/-- **Multifit, `61/50 + 2^−it`, partial.**  The bound claimed by the documentation, for inputs without an item
    strictly between `0.22·OPT` and `0.26·OPT`.

    The original statement (open):
    `theorem multifit_ratio_122 (hk : 0 < k) (hopt : IsOptimalValue .minLargest k (items.map v) opt)
       (h : multifit v k items it = .ok b) : ((maxL b.sums : Nat) : Rat) ≤ (61 / 50 + 1 / 2 ^ it) * opt`.
    Missing: the case analysis of Coffman, Garey and Johnson for a failing item in the band
    `0.22·OPT < a < 0.26·OPT` (`ce_band`), where the bins of the optimal schedule hold up to four items. -/
theorem multifit_ratio_122_partial {k : Nat} {items : List α} {it : Nat} {b : Bins α} (hk : 0 < k) {opt : Int}
    (hopt : IsOptimalValue .minLargest k (items.map v) opt)
    (hband : ∀ x ∈ items, 50 * (v x : Int) ≤ 11 * opt ∨ 13 * opt ≤ 50 * (v x : Int))
    (h : multifit v k items it = .ok b) :
    ((maxL b.sums : Nat) : Rat) ≤ (61 / 50 + 1 / 2 ^ it) * opt :=
  multifit_ratio_of_ffdFits v hk hopt (by norm_num) (ffdFits_122_of_no_band v hk hopt hband (le_refl _)) h

end Multifit

/-! ## 3. The full first-fit-decreasing rule as a static property of the bins -/

/-- The bins `Ls` satisfy the rule of first-fit-decreasing for capacity `B`:
    * every bin lists its items in non-increasing order (the order of arrival);
    * an item `p` of bin `j` did not fit into an earlier bin `i` when it arrived: the items of bin `i` that are
      at least as large as `p` (a superset of what bin `i` held at that time), together with `p`, exceed `B`.
    This is stronger than `MaxMin2.FFDInv` (`ffdInv_of_strong`). -/
structure FFDStrong (v : α → Nat) (B : Nat) (Ls : List (List α)) : Prop where
  sorted : ∀ l ∈ Ls, l.Pairwise (fun x y => v y ≤ v x)
  rule : ∀ (i j : Nat) (li lj : List α) (p : α), i < j → Ls[i]? = some li → Ls[j]? = some lj → p ∈ lj →
    B < binSum v (li.filter (fun y => decide (v p ≤ v y))) + v p

theorem getElem?_modify_some {β : Type} {f : β → β} {L : List β} {i j : Nat} {l : β}
    (h : (L.modify i f)[j]? = some l) : ∃ l0, L[j]? = some l0 ∧ l = if i = j then f l0 else l0 := by
  rw [List.getElem?_modify] at h
  cases hj : L[j]? with
  | none => rw [hj] at h; simp at h
  | some l0 =>
    rw [hj] at h
    simp only [Option.map_eq_map, Option.map_some, Option.some.injEq] at h
    exact ⟨l0, rfl, h.symm⟩

theorem ffdStrong_step {v : α → Nat} {B : Nat} {seen : List α} {b : Bins α} (h : Fit.Inv v B seen b)
    (hI : FFDStrong v B b.lists) {x : α} (hmin : ∀ a ∈ seen, v x ≤ v a) :
    FFDStrong v B (ffStep v B b x).lists := by
  have hlen := h.len
  have hmemseen : ∀ l ∈ b.lists, ∀ a ∈ l, v x ≤ v a := fun l hl a ha =>
    hmin a (h.perm.mem_iff.1 (List.mem_flatten.2 ⟨l, hl, ha⟩))
  -- a bin without room for `x`: the rule for `x`
  have hrule : ∀ i (hi : i < b.sums.length) li, b.lists[i]? = some li → ¬ b.sums[i] + v x ≤ B →
      B < binSum v (li.filter (fun y => decide (v x ≤ v y))) + v x := by
    intro i hi li hli hno
    have hi' : i < b.lists.length := by omega
    have hs : b.sums[i] = binSum v li := by
      have hc := h.cons
      have e : li = b.lists[i] := by
        rw [List.getElem?_eq_getElem hi'] at hli; exact (Option.some.inj hli).symm
      subst e
      simp [hc]
    have hf : li.filter (fun y => decide (v x ≤ v y)) = li := by
      apply List.filter_eq_self.2
      intro a ha
      simpa using hmemseen li (List.mem_of_getElem? hli) a ha
    rw [hf]; omega
  rcases Fit.ffStep_spec' v B b x with ⟨i0, hi0, hfit, hfirst, e⟩ | ⟨hno, e⟩
  · rw [e, Part.add_lists]
    constructor
    · intro l hl
      obtain ⟨j, hj, rfl⟩ := List.mem_iff_getElem.1 hl
      obtain ⟨l0, hl0, el⟩ := getElem?_modify_some (List.getElem?_eq_getElem hj)
      rw [el]
      have hs0 := hI.sorted l0 (List.mem_of_getElem? hl0)
      split
      · rw [List.pairwise_append]
        refine ⟨hs0, List.pairwise_singleton _ _, fun a ha c hc => ?_⟩
        simp only [List.mem_singleton] at hc; subst hc
        exact hmemseen l0 (List.mem_of_getElem? hl0) a ha
      · exact hs0
    · intro i j li lj p hij hli hlj hp
      obtain ⟨li0, hli0, eli⟩ := getElem?_modify_some hli
      obtain ⟨lj0, hlj0, elj⟩ := getElem?_modify_some hlj
      have hmono : binSum v (li0.filter (fun y => decide (v p ≤ v y))) ≤
          binSum v (li.filter (fun y => decide (v p ≤ v y))) := by
        rw [eli]; split
        · rw [List.filter_append, Fit.binSum_append]; omega
        · exact Nat.le_refl _
      have hold : p ∈ lj0 ∨ (i0 = j ∧ p = x) := by
        rw [elj] at hp
        by_cases e0 : i0 = j
        · rw [if_pos e0] at hp
          rcases List.mem_append.1 hp with h1 | h1
          · exact Or.inl h1
          · exact Or.inr ⟨e0, by simpa using h1⟩
        · rw [if_neg e0] at hp; exact Or.inl hp
      rcases hold with hp0 | ⟨rfl, rfl⟩
      · have := hI.rule i j li0 lj0 p hij hli0 hlj0 hp0
        omega
      · have hi : i < b.sums.length := by omega
        have := hrule i hi li0 hli0 (hfirst i hij)
        omega
  · rw [e, Fit.addEmpty_add v b x hlen]
    constructor
    · intro l hl
      simp only at hl
      rcases List.mem_append.1 hl with hl | hl
      · exact hI.sorted l hl
      · simp only [List.mem_singleton] at hl; subst hl; exact List.pairwise_singleton _ _
    · intro i j li lj p hij hli hlj hp
      simp only at hli hlj
      rcases Nat.lt_or_ge j b.lists.length with hjl | hjl
      · rw [List.getElem?_append_left hjl] at hlj
        rw [List.getElem?_append_left (by omega)] at hli
        exact hI.rule i j li lj p hij hli hlj hp
      · have hjeq : j = b.lists.length := by
          have := (List.getElem?_eq_some_iff.1 hlj).1
          simp only [List.length_append, List.length_cons, List.length_nil] at this
          omega
        subst hjeq
        rw [List.getElem?_concat_length] at hlj
        cases hlj
        have hpx : p = x := by simpa using hp
        subst hpx
        rw [List.getElem?_append_left hij] at hli
        have hi : i < b.sums.length := by omega
        exact hrule i hi li hli (hno _ (List.getElem_mem hi))

theorem ffdStrong_init (v : α → Nat) (B : Nat) : FFDStrong v B (Bins.new 1 : Bins α).lists := by
  constructor
  · intro l hl
    simp only [Bins.new, List.replicate_one, List.mem_singleton] at hl
    subst hl; exact List.Pairwise.nil
  · intro i j li lj p hij _ hlj _
    simp only [Bins.new, List.replicate_one] at hlj
    cases j with
    | zero => omega
    | succ j => simp at hlj

/-- the first-fit loop on a non-increasing list produces bins that satisfy the full rule -/
theorem ffdStrong_fold {v : α → Nat} {B : Nat} : ∀ xs : List α, xs.Pairwise (fun a c => v c ≤ v a) →
    (∀ x ∈ xs, v x ≤ B) → FFDStrong v B (xs.foldl (ffStep v B) (Bins.new 1)).lists := by
  intro xs
  induction xs using Oracle.rev_induction with
  | nil => intro _ _; exact ffdStrong_init v B
  | snoc P x ih =>
    intro hS hall
    obtain ⟨hS1, _, hS2⟩ := List.pairwise_append.1 hS
    have hallP : ∀ y ∈ P, v y ≤ B := fun y hy => hall y (by simp [hy])
    have hinv : Fit.Inv v B P (P.foldl (ffStep v B) (Bins.new 1)) := by
      simpa using Fit.inv_foldl (ffStep v B) (Fit.ffStep_step v B) P [] (Bins.new 1) hallP (Fit.inv_init v B)
    rw [List.foldl_append, List.foldl_cons, List.foldl_nil]
    exact ffdStrong_step hinv (ih hS1 hallP) (fun a ha => hS2 a ha x (by simp))

/-- the rule survives the removal of a bin -/
theorem FFDStrong.eraseIdx {v : α → Nat} {B : Nat} {Ls : List (List α)} (h : FFDStrong v B Ls) (m : Nat) :
    FFDStrong v B (Ls.eraseIdx m) := by
  constructor
  · intro l hl; exact h.sorted l (List.mem_of_mem_eraseIdx hl)
  · intro i j li lj p hij hli hlj hp
    rw [List.getElem?_eraseIdx] at hli hlj
    by_cases h1 : j < m
    · rw [if_pos h1] at hlj
      rw [if_pos (by omega)] at hli
      exact h.rule i j li lj p hij hli hlj hp
    · rw [if_neg h1] at hlj
      by_cases h2 : i < m
      · rw [if_pos h2] at hli
        exact h.rule i (j + 1) li lj p (by omega) hli hlj hp
      · rw [if_neg h2] at hli
        exact h.rule (i + 1) (j + 1) li lj p (by omega) hli hlj hp

theorem FFDStrong.tail {v : α → Nat} {B : Nat} {l0 : List α} {Ls : List (List α)}
    (h : FFDStrong v B (l0 :: Ls)) : FFDStrong v B Ls := by
  simpa using h.eraseIdx 0

/-- `MaxMin2.FFDInv` also survives the removal of a bin -/
theorem ffdInv_eraseIdx {v : α → Nat} {B : Nat} {Ls : List (List α)} (h : FFDInv v B Ls) (m : Nat) :
    FFDInv v B (Ls.eraseIdx m) := by
  intro i j l p hij hl hp
  rw [List.getElem?_eraseIdx] at hl
  rw [List.getElem?_eraseIdx]
  by_cases h1 : j < m
  · rw [if_pos h1] at hl
    rw [if_pos (by omega)]
    exact h i j l p hij hl hp
  · rw [if_neg h1] at hl
    by_cases h2 : i < m
    · rw [if_pos h2]
      obtain ⟨f, tl, e, a1, a2⟩ := h i (j + 1) l p (by omega) hl hp
      exact ⟨f, tl, e, a1, fun _ => a2 (by omega)⟩
    · rw [if_neg h2]
      obtain ⟨f, tl, e, a1, a2⟩ := h (i + 1) (j + 1) l p (by omega) hl hp
      exact ⟨f, tl, e, a1, fun hlt => a2 (by omega)⟩

theorem binSum_pos_exists {v : α → Nat} : ∀ (l : List α), 0 < binSum v l → ∃ y, y ∈ l := by
  intro l h
  cases l with
  | nil => simp [binSum, sumL] at h
  | cons y t => exact ⟨y, by simp⟩

/-- the full rule implies the structure invariant used by `MaxMin2.ffd_core` (for items `≤ B`) -/
theorem ffdInv_of_strong {v : α → Nat} {B : Nat} {Ls : List (List α)} (h : FFDStrong v B Ls)
    (hB : ∀ p ∈ Ls.flatten, v p ≤ B) : FFDInv v B Ls := by
  intro i j l p hij hl hp
  have hpB : v p ≤ B := hB p (List.mem_flatten.2 ⟨l, List.mem_of_getElem? hl, hp⟩)
  rcases Nat.lt_or_ge i j with hlt | hge
  · have hjlen := (List.getElem?_eq_some_iff.1 hl).1
    have hi : i < Ls.length := by omega
    have hli : Ls[i]? = some Ls[i] := List.getElem?_eq_getElem hi
    have hr := h.rule i j Ls[i] l p hlt hli hl hp
    have hsort := h.sorted Ls[i] (List.getElem_mem hi)
    cases hLi : Ls[i] with
    | nil =>
      rw [hLi] at hr
      simp only [List.filter_nil, binSum, List.map_nil, sumL] at hr
      omega
    | cons f tl =>
      rw [hLi] at hr hsort
      have hf : v p ≤ v f := by
        obtain ⟨y, hy⟩ := binSum_pos_exists (v := v) ((f :: tl).filter (fun y => decide (v p ≤ v y))) (by omega)
        obtain ⟨hy1, hy2⟩ := List.mem_filter.1 hy
        have hy2' : v p ≤ v y := by simpa using hy2
        rcases List.mem_cons.1 hy1 with rfl | hy1
        · exact hy2'
        · exact Nat.le_trans hy2' ((List.pairwise_cons.1 hsort).1 y hy1)
      refine ⟨f, tl, by rw [hli, hLi], hf, fun _ hfp => ?_⟩
      rw [List.filter_cons_of_pos (by simpa using hf)] at hr
      simp only [binSum, List.map_cons, sumL] at hr
      obtain ⟨y, hy⟩ := binSum_pos_exists (v := v) (tl.filter (fun y => decide (v p ≤ v y)))
        (by simp only [binSum]; omega)
      obtain ⟨hy1, hy2⟩ := List.mem_filter.1 hy
      exact ⟨y, hy1, by simpa using hy2⟩
  · have : i = j := by omega
    subst this
    have hsort := h.sorted l (List.mem_of_getElem? hl)
    cases l with
    | nil => simp at hp
    | cons f tl =>
      refine ⟨f, tl, hl, ?_, fun hlt => absurd hlt (Nat.lt_irrefl _)⟩
      rcases List.mem_cons.1 hp with rfl | hp
      · exact Nat.le_refl _
      · exact (List.pairwise_cons.1 hsort).1 p hp

/-! ### Strong counter-examples -/

/-- a counter-example whose bins satisfy the full first-fit-decreasing rule, all items being `≤ B` -/
structure SCE (v : α → Nat) (T B k : Nat) (LL : List (List α)) (a : α) : Prop where
  len : LL.length = k
  strong : FFDStrong v B LL
  leB : ∀ p ∈ LL.flatten, v p ≤ B
  nofit : ∀ l ∈ LL, B < binSum v l + v a
  amin : ∀ p ∈ LL.flatten, v a ≤ v p
  pack : Packable T k ((LL.flatten ++ [a]).map v)

theorem SCE.toCE {v : α → Nat} {T B k : Nat} {LL : List (List α)} {a : α} (h : SCE v T B k LL a) :
    CE v T B k LL a :=
  ⟨h.len, ffdInv_of_strong h.strong h.leB, h.nofit, h.amin, h.pack⟩

/-- a strong counter-example that is moreover tight (all items `≤ T − 2a`) -/
structure STight (v : α → Nat) (T B k : Nat) (LL : List (List α)) (a : α) : Prop extends SCE v T B k LL a where
  top : ∀ p ∈ LL.flatten, v p + 2 * v a ≤ T

theorem STight.toTight {v : α → Nat} {T B k : Nat} {LL : List (List α)} {a : α} (h : STight v T B k LL a) :
    Tight v T B k LL a :=
  ⟨h.toSCE.toCE, h.top⟩

/-- **Reduction to a tight strong counter-example** (`ce_reduce_to_tight` with the full rule) -/
theorem sce_reduce_to_tight {v : α → Nat} {T B : Nat} (hTB : T ≤ B) {a : α} :
    ∀ (k : Nat) (LL : List (List α)), SCE v T B k LL a →
      ∃ k' LL', k' ≤ k ∧ LL' <:+ LL ∧ STight v T B k' LL' a := by
  intro k
  induction k with
  | zero => intro LL h; exact absurd h.toCE.pos (Nat.lt_irrefl _)
  | succ k ih =>
    intro LL h
    obtain ⟨f, tl, LL', rfl, hmax, h1 | h1⟩ := ce_first hTB h.toCE
    · have h' : SCE v T B k LL' a :=
        ⟨h1.len, h.strong.tail, fun p hp => h.leB p (by simp [hp]), h1.nofit, h1.amin, h1.pack⟩
      obtain ⟨k', L2, hk', hsuf, ht⟩ := ih LL' h'
      exact ⟨k', L2, by omega, hsuf.trans (List.suffix_cons _ _), ht⟩
    · exact ⟨k + 1, _, Nat.le_refl _, List.suffix_refl _, h, fun p hp => by have := hmax p hp; omega⟩


/-! ## 4. Bins of the `T`-schedule with at most two items are dominated

In a counter-example every bin `O` of a `T`-schedule with at most two items is dominated by a bin of the packing;
dropping that bin (and `O`) leaves a counter-example with one bin less.  Hence in an *irreducible* counter-example
(no bin can be dropped) every bin of every `T`-schedule holds at least three items (Coffman, Garey, Johnson). -/

/-- making an item smaller keeps a schedule feasible -/
theorem packable_replace_head {T k x x' : Nat} {X : List Nat} (hx : x' ≤ x) (h : Packable T k (x :: X)) :
    Packable T k (x' :: X) := by
  obtain ⟨Q, hQk, hQp, hQ⟩ := packable_partition h
  obtain ⟨g, hg, hxg⟩ := List.mem_flatten.1 ((hQp.mem_iff (a := x)).2 (by simp))
  have pQ := List.perm_cons_erase hg
  have pg := List.perm_cons_erase hxg
  have p1 : (g.erase x ++ (Q.erase g).flatten).Perm X := by
    have h1 : Q.flatten.Perm (x :: (g.erase x ++ (Q.erase g).flatten)) := by
      refine pQ.flatten.trans ?_
      simp only [List.flatten_cons]
      exact pg.append_right _
    exact (h1.symm.trans hQp).cons_inv
  refine partition_packable ((x' :: g.erase x) :: Q.erase g) ?_ ?_ ?_
  · have := pQ.length_eq; simp only [List.length_cons] at this ⊢; omega
  · simp only [List.flatten_cons, List.cons_append]
    exact List.Perm.cons x' p1
  · intro l hl
    rcases List.mem_cons.1 hl with rfl | hl
    · have := hQ g hg; rw [Part.sumL_perm pg] at this; simp only [sumL] at this ⊢; omega
    · exact hQ l (List.mem_of_mem_erase hl)

/-- delete the part `L` of a schedule except for one value `e`, which is replaced by the smaller `p` -/
theorem packable_finish {T k e p : Nat} {X L R : List Nat} (h : Packable T k X) (hp : X.Perm (L ++ R))
    (he : e ∈ L) (hpe : p ≤ e) : Packable T k (p :: R) := by
  have pL := List.perm_cons_erase he
  have h1 : Packable T k (e :: (L.erase e ++ R)) := packable_perm (hp.trans (pL.append_right R)) h
  have h2 := packable_replace_head hpe h1
  have h3 : Packable T k (L.erase e ++ (p :: R)) := packable_perm List.perm_middle.symm h2
  exact packable_drop_left h3

theorem dom_rest {L L'' L1 : List Nat} {u w y z : Nat} (hL : L.Perm (u :: w :: L'')) (hyu : y ≤ u)
    (hzw : z ≤ w) (h1 : L.Perm (z :: L1)) : ∃ e ∈ L1, y ≤ e := by
  by_cases huz : u = z
  · subst huz
    have : (w :: L'').Perm L1 := (hL.symm.trans h1).cons_inv
    exact ⟨w, this.mem_iff.1 (by simp), by omega⟩
  · have hu : u ∈ z :: L1 := h1.mem_iff.1 (hL.mem_iff.2 (by simp))
    rcases List.mem_cons.1 hu with h | h
    · exact absurd h huz
    · exact ⟨u, h, hyu⟩

/-- the values `L ++ R` are scheduled as `y :: X`, and `L` holds a value `u ≥ y`: then `R` alone fits into the
    bins of `X` -/
theorem packable_of_dom_single {T k y u : Nat} {X L R : List Nat} (h : Packable T k X)
    (hp : (y :: X).Perm (L ++ R)) (hu : u ∈ L) (hyu : y ≤ u) : Packable T k R := by
  have hy : y ∈ L ++ R := hp.mem_iff.1 (by simp)
  rcases List.mem_append.1 hy with hy | hy
  · have pL := List.perm_cons_erase hy
    have p1 : X.Perm (L.erase y ++ R) := (hp.trans (pL.append_right R)).cons_inv
    exact packable_drop_left (packable_perm p1 h)
  · have pR := List.perm_cons_erase hy
    have p1 : X.Perm (L ++ R.erase y) :=
      (hp.trans ((List.Perm.append_left L pR).trans List.perm_middle)).cons_inv
    exact packable_perm pR.symm (packable_finish h p1 hu hyu)

/-- the values `L ++ R` are scheduled as `y :: z :: X`, and `L` holds two values `u ≥ y`, `w ≥ z`: then `R`
    alone fits into the bins of `X` -/
theorem packable_of_dom_pair {T k y z u w : Nat} {X L L'' R : List Nat} (h : Packable T k X)
    (hp : (y :: z :: X).Perm (L ++ R)) (hL : L.Perm (u :: w :: L'')) (hyu : y ≤ u) (hzw : z ≤ w) :
    Packable T k R := by
  have hy : y ∈ L ++ R := hp.mem_iff.1 (by simp)
  rcases List.mem_append.1 hy with hy | hy
  · have pL := List.perm_cons_erase hy
    have p1 : (z :: X).Perm (L.erase y ++ R) := (hp.trans (pL.append_right R)).cons_inv
    have hz : z ∈ L.erase y ++ R := p1.mem_iff.1 (by simp)
    rcases List.mem_append.1 hz with hz | hz
    · have pL1 := List.perm_cons_erase hz
      have p2 : X.Perm ((L.erase y).erase z ++ R) := (p1.trans (pL1.append_right R)).cons_inv
      exact packable_drop_left (packable_perm p2 h)
    · have pR := List.perm_cons_erase hz
      have p2 : X.Perm (L.erase y ++ R.erase z) :=
        (p1.trans ((List.Perm.append_left _ pR).trans List.perm_middle)).cons_inv
      obtain ⟨e, he, hze⟩ := dom_rest (hL.trans (List.Perm.swap w u L'')) hzw hyu pL
      exact packable_perm pR.symm (packable_finish h p2 he hze)
  · have pR := List.perm_cons_erase hy
    have p1 : (z :: X).Perm (L ++ R.erase y) :=
      (hp.trans ((List.Perm.append_left L pR).trans List.perm_middle)).cons_inv
    have hz : z ∈ L ++ R.erase y := p1.mem_iff.1 (by simp)
    rcases List.mem_append.1 hz with hz | hz
    · have pL := List.perm_cons_erase hz
      have p2 : X.Perm (L.erase z ++ R.erase y) := (p1.trans (pL.append_right _)).cons_inv
      obtain ⟨e, he, hye⟩ := dom_rest hL hyu hzw pL
      exact packable_perm pR.symm (packable_finish h p2 he hye)
    · have pR1 := List.perm_cons_erase hz
      have p2 : X.Perm (L ++ (R.erase y).erase z) :=
        (p1.trans ((List.Perm.append_left L pR1).trans List.perm_middle)).cons_inv
      have p3 : X.Perm (u :: w :: (L'' ++ (R.erase y).erase z)) := p2.trans (hL.append_right _)
      have h1 := packable_replace_head hyu (packable_perm p3 h)
      have h2 := packable_replace_head hzw (packable_perm (List.Perm.swap w y _) h1)
      have h3 : Packable T k (L'' ++ (y :: z :: (R.erase y).erase z)) := by
        refine packable_perm ?_ h2
        refine (List.Perm.swap y z _).trans ?_
        refine (List.Perm.cons y List.perm_middle.symm).trans ?_
        exact List.perm_middle.symm
      have h4 := packable_drop_left h3
      exact packable_perm ((List.Perm.cons y pR1.symm).trans pR.symm) h4

theorem exists_least {P : Nat → Prop} : ∀ n, P n → ∃ m, P m ∧ ∀ i < m, ¬ P i := by
  intro n
  induction n using Nat.strongRecOn with
  | _ n ih =>
    intro hn
    by_cases h : ∃ i < n, P i
    · obtain ⟨i, hi, hPi⟩ := h
      exact ih i hi hPi
    · exact ⟨n, hn, fun i hi hPi => h ⟨i, hi, hPi⟩⟩

/-- all values, split into those of bin `j` and the rest -/
theorem ce_split {LL : List (List α)} {j : Nat} {l : List α} (hl : LL[j]? = some l) (a : α) (v : α → Nat) :
    ((LL.flatten ++ [a]).map v).Perm (l.map v ++ ((LL.eraseIdx j).flatten ++ [a]).map v) := by
  obtain ⟨hj, rfl⟩ := List.getElem?_eq_some_iff.1 hl
  have p1 := flatten_perm_getElem_eraseIdx LL j hj
  have e : ((LL[j] ++ (LL.eraseIdx j).flatten) ++ [a]).map v =
      LL[j].map v ++ ((LL.eraseIdx j).flatten ++ [a]).map v := by simp
  rw [← e]
  exact (p1.append_right [a]).map v

/-- dropping bin `j` from a counter-example leaves a counter-example as soon as the rest is feasible -/
theorem ce_erase {v : α → Nat} {T B k : Nat} {LL : List (List α)} {a : α} (h : CE v T B (k + 1) LL a)
    {j : Nat} (hj : j < LL.length) (hp : Packable T k (((LL.eraseIdx j).flatten ++ [a]).map v)) :
    CE v T B k (LL.eraseIdx j) a := by
  refine ⟨?_, ffdInv_eraseIdx h.inv j, fun l hl => h.nofit l (List.mem_of_mem_eraseIdx hl), ?_, hp⟩
  · rw [List.length_eraseIdx, if_pos hj, h.len]; rfl
  · intro p hp'
    obtain ⟨l, hl, hpl⟩ := List.mem_flatten.1 hp'
    exact h.amin p (List.mem_flatten.2 ⟨l, List.mem_of_mem_eraseIdx hl, hpl⟩)

/-- every value is at most the first item of some bin -/
theorem ce_head_ge {v : α → Nat} {T B k : Nat} (hTB : T ≤ B) {LL : List (List α)} {a : α}
    (h : CE v T B k LL a) {y : Nat} (hy : y ∈ (LL.flatten ++ [a]).map v) :
    ∃ (j : Nat) (f : α) (tl : List α), LL[j]? = some (f :: tl) ∧ y ≤ v f := by
  obtain ⟨P, hP, rfl⟩ := List.mem_map.1 hy
  rcases List.mem_append.1 hP with hP | hP
  · obtain ⟨l, hl, hPl⟩ := List.mem_flatten.1 hP
    obtain ⟨j, hj, rfl⟩ := List.mem_iff_getElem.1 hl
    obtain ⟨f, tl, e, h1, _⟩ := h.inv j j _ P (Nat.le_refl _) (List.getElem?_eq_getElem hj) hPl
    exact ⟨j, f, tl, e, h1⟩
  · simp only [List.mem_singleton] at hP; subst hP
    have hk := h.pos
    have h0 : 0 < LL.length := by rw [h.len]; exact hk
    have hnf := h.nofit LL[0] (List.getElem_mem h0)
    have haT := h.item_le
    cases hl : LL[0] with
    | nil => rw [hl] at hnf; simp only [binSum, List.map_nil, sumL] at hnf; omega
    | cons f tl =>
      refine ⟨0, f, tl, by rw [List.getElem?_eq_getElem h0, hl], ?_⟩
      exact h.amin f (List.mem_flatten.2 ⟨LL[0], List.getElem_mem h0, by rw [hl]; simp⟩)

/-- **A dominating bin for a pair.**  If two values `y ≥ z` with `y + z ≤ T` occur among the values of a
    counter-example, the first bin that holds an item of value `y` or `z` starts with an item `≥ y` and holds a
    further item `≥ z`. -/
theorem ce_dominating_bin {v : α → Nat} {T B k : Nat} (hTB : T ≤ B) {LL : List (List α)} {a : α}
    (h : CE v T B k LL a) {y z : Nat} {X : List Nat} (hzy : z ≤ y) (hsum : y + z ≤ T)
    (hperm : ((LL.flatten ++ [a]).map v).Perm (y :: z :: X)) :
    ∃ (j : Nat) (f : α) (tl : List α), LL[j]? = some (f :: tl) ∧ y ≤ v f ∧ ∃ w ∈ tl, z ≤ v w := by
  have hval : ∀ c : Nat, c ∈ (LL.flatten ++ [a]).map v →
      c = v a ∨ ∃ (j : Nat) (l : List α) (p : α), LL[j]? = some l ∧ p ∈ l ∧ v p = c := by
    intro c hc
    obtain ⟨P, hP, rfl⟩ := List.mem_map.1 hc
    rcases List.mem_append.1 hP with hP | hP
    · obtain ⟨l, hl, hPl⟩ := List.mem_flatten.1 hP
      obtain ⟨j, hj, rfl⟩ := List.mem_iff_getElem.1 hl
      exact Or.inr ⟨j, _, P, List.getElem?_eq_getElem hj, hPl, rfl⟩
    · simp only [List.mem_singleton] at hP; subst hP; exact Or.inl rfl
  by_cases hex : ∃ (j : Nat) (l : List α) (p : α), LL[j]? = some l ∧ p ∈ l ∧ (v p = y ∨ v p = z)
  · obtain ⟨j0, hj0⟩ := hex
    obtain ⟨j, ⟨l, p, hl, hpl, hpv⟩, hleast⟩ :=
      exists_least (P := fun (j : Nat) => ∃ (l : List α) (p : α), LL[j]? = some l ∧ p ∈ l ∧ (v p = y ∨ v p = z)) j0 hj0
    obtain ⟨f, tl, e, hpf, _⟩ := h.inv j j l p (Nat.le_refl _) hl hpl
    rw [hl] at e
    cases e
    have hfy : y ≤ v f := by
      rcases hval y (hperm.mem_iff.2 (by simp)) with hya | ⟨j', l', p', hl', hp', hv'⟩
      · rw [hya]; exact h.amin f (List.mem_flatten.2 ⟨_, List.mem_of_getElem? hl, by simp⟩)
      · rcases Nat.lt_or_ge j' j with hlt | hge
        · exact absurd ⟨l', p', hl', hp', Or.inl hv'⟩ (hleast j' hlt)
        · obtain ⟨f', tl', e', h1, _⟩ := h.inv j j' l' p' hge hl' hp'
          rw [hl] at e'
          cases e'
          omega
    refine ⟨j, f, tl, hl, hfy, ?_⟩
    apply Classical.byContradiction
    intro hno
    have hno' : ∀ w ∈ tl, v w < z := fun w hw => Nat.lt_of_not_le (fun hle => hno ⟨w, hw, hle⟩)
    have hfy' : v f = y := by
      rcases List.mem_cons.1 hpl with hpe | hpt
      · rw [hpe] at hpv
        rcases hpv with h1 | h1 <;> omega
      · have := hno' p hpt
        rcases hpv with h1 | h1 <;> omega
    have p2 : ((LL.flatten ++ [a]).map v).Perm
        (v f :: (tl.map v ++ ((LL.eraseIdx j).flatten ++ [a]).map v)) := ce_split hl a v
    rw [hfy'] at p2
    have hz : z ∈ tl.map v ++ ((LL.eraseIdx j).flatten ++ [a]).map v :=
      ((p2.symm.trans hperm).cons_inv).mem_iff.2 (by simp)
    rcases List.mem_append.1 hz with hz | hz
    · obtain ⟨w, hw, hwz⟩ := List.mem_map.1 hz
      have := hno' w hw
      omega
    · obtain ⟨P', hP', hPz⟩ := List.mem_map.1 hz
      rcases List.mem_append.1 hP' with hP' | hP'
      · obtain ⟨l', hl', hPl'⟩ := List.mem_flatten.1 hP'
        obtain ⟨i, hij, hli⟩ := List.mem_eraseIdx_iff_getElem?.1 hl'
        rcases Nat.lt_or_ge i j with hlt | hge
        · exact hleast i hlt ⟨l', P', hli, hPl', Or.inr hPz⟩
        · obtain ⟨f', tl', e', h1, h2⟩ := h.inv j i l' P' hge hli hPl'
          rw [hl] at e'
          cases e'
          obtain ⟨w, hw, hle⟩ := h2 (by omega) (by omega)
          have := hno' w hw
          omega
      · simp only [List.mem_singleton] at hP'
        subst hP'
        have hnf := h.nofit (f :: tl) (List.mem_of_getElem? hl)
        simp only [binSum, List.map_cons, sumL] at hnf
        have hpos : 0 < binSum v tl := by simp only [binSum]; omega
        obtain ⟨w, hw⟩ := binSum_pos_exists tl hpos
        have h1 := hno' w hw
        have h2 := h.amin w (List.mem_flatten.2 ⟨_, List.mem_of_getElem? hl, by simp [hw]⟩)
        omega
  · exfalso
    have hya : y = v a := by
      rcases hval y (hperm.mem_iff.2 (by simp)) with hya | ⟨j', l', p', hl', hp', hv'⟩
      · exact hya
      · exact absurd ⟨j', l', p', hl', hp', Or.inl hv'⟩ hex
    have p2 : ((LL.flatten ++ [a]).map v).Perm (v a :: LL.flatten.map v) := by
      rw [List.map_append]; exact List.perm_append_comm
    rw [← hya] at p2
    have hz : z ∈ LL.flatten.map v := ((p2.symm.trans hperm).cons_inv).mem_iff.2 (by simp)
    obtain ⟨P', hP', hv⟩ := List.mem_map.1 hz
    obtain ⟨l, hl, hPl⟩ := List.mem_flatten.1 hP'
    obtain ⟨j, hj, rfl⟩ := List.mem_iff_getElem.1 hl
    exact hex ⟨j, _, P', List.getElem?_eq_getElem hj, hPl, Or.inr hv⟩

/-- the pair case of `ce_drop_of_small_opt_bin` -/
theorem ce_drop_pair {v : α → Nat} {T B k : Nat} (hTB : T ≤ B) {LL : List (List α)} {a : α}
    (h : CE v T B (k + 1) LL a) {y z : Nat} {X : List Nat} (hzy : z ≤ y) (hsum : y + z ≤ T)
    (hX : Packable T k X) (hperm : ((LL.flatten ++ [a]).map v).Perm (y :: z :: X)) :
    ∃ j, j < LL.length ∧ CE v T B k (LL.eraseIdx j) a := by
  obtain ⟨j, f, tl, hl, hfy, w, hw, hzw⟩ := ce_dominating_bin hTB h hzy hsum hperm
  have hj : j < LL.length := (List.getElem?_eq_some_iff.1 hl).1
  refine ⟨j, hj, ce_erase h hj ?_⟩
  obtain ⟨s, t, rfl⟩ := List.append_of_mem hw
  have hL : ((f :: (s ++ w :: t)).map v).Perm (v f :: v w :: (s.map v ++ t.map v)) := by
    simp only [List.map_cons, List.map_append]
    exact List.Perm.cons _ List.perm_middle
  exact packable_of_dom_pair hX (hperm.symm.trans (ce_split hl a v)) hL hfy hzw

/-- **Dropping a dominated bin.**  If a `T`-schedule of a counter-example (`B ≥ T`) has a bin `O` with at most
    two values, some bin of the packing can be dropped: the rest is a counter-example with one bin less. -/
theorem ce_drop_of_small_opt_bin {v : α → Nat} {T B k : Nat} (hTB : T ≤ B) {LL : List (List α)} {a : α}
    (h : CE v T B (k + 1) LL a) (Q : List (List Nat)) (hQk : Q.length = k + 1)
    (hQp : Q.flatten.Perm ((LL.flatten ++ [a]).map v)) (hQ : ∀ l ∈ Q, sumL l ≤ T) {O : List Nat}
    (hO : O ∈ Q) (hlen : O.length ≤ 2) : ∃ j, j < LL.length ∧ CE v T B k (LL.eraseIdx j) a := by
  have pQ := List.perm_cons_erase hO
  have hX : Packable T k (Q.erase O).flatten := by
    refine partition_packable (Q.erase O) ?_ (List.Perm.refl _) (fun l hl => hQ l (List.mem_of_mem_erase hl))
    have := pQ.length_eq; simp only [List.length_cons] at this; omega
  have hOX : ((LL.flatten ++ [a]).map v).Perm (O ++ (Q.erase O).flatten) := by
    refine hQp.symm.trans ?_
    have := pQ.flatten
    simpa only [List.flatten_cons] using this
  match O, hlen, hOX with
  | [], _, hOX =>
    have h0 : 0 < LL.length := by rw [h.len]; omega
    refine ⟨0, h0, ce_erase h h0 ?_⟩
    have p1 := hOX.symm.trans (ce_split (List.getElem?_eq_getElem h0) a v)
    exact packable_drop_left (packable_perm p1 hX)
  | [y], _, hOX =>
    obtain ⟨j, f, tl, hl, hfy⟩ := ce_head_ge hTB h (y := y) (hOX.mem_iff.2 (by simp))
    have hj : j < LL.length := (List.getElem?_eq_some_iff.1 hl).1
    refine ⟨j, hj, ce_erase h hj ?_⟩
    exact packable_of_dom_single hX (hOX.symm.trans (ce_split hl a v)) (u := v f) (by simp) hfy
  | [y, z], _, hOX =>
    have hs : y + z ≤ T := by
      have := hQ _ hO; simp only [sumL] at this; omega
    rcases Nat.le_total z y with hzy | hyz
    · exact ce_drop_pair hTB h hzy hs hX hOX
    · exact ce_drop_pair hTB h hyz (by omega) hX (hOX.trans (List.Perm.swap z y _))
  | _ :: _ :: _ :: _, hlen, _ => simp at hlen

theorem sce_drop_of_small_opt_bin {v : α → Nat} {T B k : Nat} (hTB : T ≤ B) {LL : List (List α)} {a : α}
    (h : SCE v T B (k + 1) LL a) (Q : List (List Nat)) (hQk : Q.length = k + 1)
    (hQp : Q.flatten.Perm ((LL.flatten ++ [a]).map v)) (hQ : ∀ l ∈ Q, sumL l ≤ T) {O : List Nat}
    (hO : O ∈ Q) (hlen : O.length ≤ 2) : ∃ j, j < LL.length ∧ SCE v T B k (LL.eraseIdx j) a := by
  obtain ⟨j, hj, hc⟩ := ce_drop_of_small_opt_bin hTB h.toCE Q hQk hQp hQ hO hlen
  refine ⟨j, hj, hc.len, h.strong.eraseIdx j, ?_, hc.nofit, hc.amin, hc.pack⟩
  intro p hp
  obtain ⟨l, hl, hpl⟩ := List.mem_flatten.1 hp
  exact h.leB p (List.mem_flatten.2 ⟨l, List.mem_of_mem_eraseIdx hl, hpl⟩)

/-! ### Irreducible counter-examples -/

/-- a strong counter-example from which no bin can be dropped -/
def Irred (v : α → Nat) (T B k : Nat) (LL : List (List α)) (a : α) : Prop :=
  SCE v T B k LL a ∧ ∀ j, j < LL.length → ¬ SCE v T B (k - 1) (LL.eraseIdx j) a

/-- every strong counter-example contains an irreducible one (some of its bins, in the same order, the same
    failing item) -/
theorem exists_irred {v : α → Nat} {T B : Nat} {a : α} : ∀ (k : Nat) (LL : List (List α)),
    SCE v T B k LL a → ∃ k' LL', k' ≤ k ∧ LL'.Sublist LL ∧ Irred v T B k' LL' a := by
  intro k
  induction k with
  | zero => intro LL h; exact absurd h.toCE.pos (Nat.lt_irrefl _)
  | succ k ih =>
    intro LL h
    by_cases hred : ∃ j, j < LL.length ∧ SCE v T B k (LL.eraseIdx j) a
    · obtain ⟨j, _, hj⟩ := hred
      obtain ⟨k', L2, hk', hsub, hi⟩ := ih _ hj
      exact ⟨k', L2, by omega, hsub.trans (List.eraseIdx_sublist LL j), hi⟩
    · exact ⟨k + 1, LL, Nat.le_refl _, List.Sublist.refl _, h, fun j hj hs => hred ⟨j, hj, hs⟩⟩

/-- an irreducible counter-example (with `B ≥ T`) is tight -/
theorem irred_tight {v : α → Nat} {T B k : Nat} (hTB : T ≤ B) {LL : List (List α)} {a : α}
    (h : Irred v T B k LL a) : STight v T B k LL a := by
  obtain ⟨hs, hirr⟩ := h
  cases k with
  | zero => exact absurd hs.toCE.pos (Nat.lt_irrefl _)
  | succ k =>
    obtain ⟨f, tl, LL', rfl, hmax, h1 | h1⟩ := ce_first hTB hs.toCE
    · exfalso
      refine hirr 0 (by simp) ?_
      simp only [Nat.add_sub_cancel, List.eraseIdx_cons_zero]
      exact ⟨h1.len, hs.strong.tail, fun p hp => hs.leB p (by simp [hp]), h1.nofit, h1.amin, h1.pack⟩
    · exact ⟨hs, fun p hp => by have := hmax p hp; omega⟩

/-- **Every bin of every `T`-schedule of an irreducible counter-example holds at least three items.** -/
theorem irred_opt_bins {v : α → Nat} {T B k : Nat} (hTB : T ≤ B) {LL : List (List α)} {a : α}
    (h : Irred v T B k LL a) (Q : List (List Nat)) (hQk : Q.length = k)
    (hQp : Q.flatten.Perm ((LL.flatten ++ [a]).map v)) (hQ : ∀ l ∈ Q, sumL l ≤ T) :
    ∀ O ∈ Q, 3 ≤ O.length := by
  intro O hO
  apply Nat.le_of_not_lt
  intro hlt
  obtain ⟨hs, hirr⟩ := h
  cases k with
  | zero => exact absurd hs.toCE.pos (Nat.lt_irrefl _)
  | succ k =>
    obtain ⟨j, hj, hc⟩ := sce_drop_of_small_opt_bin hTB hs Q hQk hQp hQ hO (by omega)
    exact hirr j hj (by simpa using hc)

/-- an irreducible counter-example with `k` bins has at least `3k` items (the failing item included) -/
theorem irred_card {v : α → Nat} {T B k : Nat} (hTB : T ≤ B) {LL : List (List α)} {a : α}
    (h : Irred v T B k LL a) : 3 * k ≤ LL.flatten.length + 1 := by
  obtain ⟨Q, hQk, hQp, hQ⟩ := packable_partition h.1.pack
  have h3 := irred_opt_bins hTB h Q hQk hQp hQ
  have c1 := mul_le_flatten_length 3 Q h3
  have c3 := hQp.length_eq
  simp only [List.length_map, List.length_append, List.length_cons, List.length_nil] at c3
  rw [hQk] at c1
  omega

/-! ## 5. From a failing run to a counter-example -/

section Overflow
variable (v : α → Nat)

/-- **From a failing run to a strong counter-example.**  If first-fit-decreasing with capacity `B` needs more
    than `k` bins for values that fit into `k` bins of capacity `T`, then for some prefix `P ++ [a]` of the list
    the `k` bins packed from `P` and the item `a` form a strong counter-example. -/
theorem ffd_overflow_sce {k : Nat} (hk : 0 < k) {T B : Nat} :
    ∀ xs : List α, xs.Pairwise (fun a c => v c ≤ v a) → Packable T k (xs.map v) → (∀ x ∈ xs, v x ≤ B) →
      k < (xs.foldl (ffStep v B) (Bins.new 1)).lists.length →
      ∃ (P : List α) (a : α) (S : List α), xs = P ++ a :: S ∧
        SCE v T B k (P.foldl (ffStep v B) (Bins.new 1)).lists a := by
  intro xs
  induction xs using Oracle.rev_induction with
  | nil => intro _ _ _ h; simp [Bins.new] at h; omega
  | snoc P x ih =>
    intro hS hp hall hover
    obtain ⟨hS1, _, hS2⟩ := List.pairwise_append.1 hS
    have hpP : Packable T k (P.map v) := by rw [List.map_append] at hp; exact packable_prefix _ hp
    have hallP : ∀ y ∈ P, v y ≤ B := fun y hy => hall y (by simp [hy])
    by_cases hP : k < (P.foldl (ffStep v B) (Bins.new 1)).lists.length
    · obtain ⟨P', a, S, e, r⟩ := ih hS1 hpP hallP hP
      exact ⟨P', a, S ++ [x], by rw [e]; simp, r⟩
    · have hinv : Fit.Inv v B P (P.foldl (ffStep v B) (Bins.new 1)) := by
        simpa using Fit.inv_foldl (ffStep v B) (Fit.ffStep_step v B) P [] (Bins.new 1) hallP (Fit.inv_init v B)
      have hI := ffdStrong_fold P hS1 hallP
      rw [List.foldl_append, List.foldl_cons, List.foldl_nil] at hover
      rcases Fit.ffStep_step v B (P.foldl (ffStep v B) (Bins.new 1)) x with ⟨i, _, _, e⟩ | ⟨hno, e⟩
      · rw [e] at hover; simp at hover; omega
      · rw [e, Fit.addEmpty_add v _ x hinv.len] at hover
        simp only [List.length_append, List.length_cons, List.length_nil] at hover
        have hlen : (P.foldl (ffStep v B) (Bins.new 1)).lists.length = k := by omega
        have hc := hinv.cons
        refine ⟨P, x, [], rfl, hlen, hI, ?_, ?_, ?_, ?_⟩
        · intro p hp'; exact hallP p (hinv.perm.mem_iff.1 hp')
        · intro l hl
          have hmem : binSum v l ∈ (P.foldl (ffStep v B) (Bins.new 1)).sums := by
            rw [hc]; exact List.mem_map_of_mem hl
          have := hno _ hmem
          omega
        · intro p hp'
          exact hS2 p (hinv.perm.mem_iff.1 hp') x (by simp)
        · exact packable_perm ((hinv.perm.append_right [x]).map v).symm hp

/-- **From a failing run to an irreducible counter-example**: some of the bins of a prefix of the run, and an
    item `a` of the list, with all the structure proved above: tight, the failing item in the band, every bin of
    the packing with at least two items, every bin of every `T`-schedule with at least three. -/
theorem ffd_overflow_irred {k : Nat} (hk : 0 < k) {T B : Nat} (hTB : T ≤ B) {xs : List α}
    (hS : xs.Pairwise (fun a c => v c ≤ v a)) (hp : Packable T k (xs.map v)) (hall : ∀ x ∈ xs, v x ≤ B)
    (hover : k < (xs.foldl (ffStep v B) (Bins.new 1)).lists.length) :
    ∃ a ∈ xs, ∃ k' LL, k' ≤ k ∧ Irred v T B k' LL a ∧ STight v T B k' LL a ∧
      (B < v a + T ∧ (4 * v a ≤ T ∨ B + 3 * v a < 2 * T)) ∧ 3 * v a ≤ T ∧
      (∀ l ∈ LL, 2 ≤ l.length) ∧ 3 * k' ≤ LL.flatten.length + 1 := by
  obtain ⟨P, a, S, e, hs⟩ := ffd_overflow_sce v hk xs hS hp hall hover
  obtain ⟨k', LL, hk', _, hi⟩ := exists_irred k _ hs
  have ht := irred_tight hTB hi
  exact ⟨a, by rw [e]; simp, k', LL, hk', hi, ht, ce_band hTB hi.1.toCE, tight_three_le hTB ht.toTight,
    tight_two hTB ht.toTight, irred_card hTB hi⟩

end Overflow

/-! ## 6. At most six bins: `61/50` unconditionally -/

/-- **Volume, sharp form**: `k · (B + 1 − T) ≤ (k − 1) · a` -/
theorem ce_volume {v : α → Nat} {T B k : Nat} {LL : List (List α)} {a : α} (h : CE v T B k LL a) :
    k * (B + 1) + v a ≤ k * T + k * v a := by
  have h1 : ∀ s ∈ LL.map (binSum v), B + 1 ≤ s + v a := by
    intro s hs
    obtain ⟨l, hl, rfl⟩ := List.mem_map.1 hs
    have := h.nofit l hl
    omega
  have h2 := Part.length_mul_le_sumL _ (B + 1) (v a) h1
  rw [Fit.sumL_map_binSum] at h2
  have h3 := packable_sum h.pack
  rw [List.map_append, Part.sumL_append] at h3
  simp only [List.length_map, h.len] at h2
  have e1 : binSum v LL.flatten = sumL (LL.flatten.map v) := rfl
  simp only [List.map_cons, List.map_nil, sumL] at h3
  omega

/-- no tight counter-example with at most six bins for a capacity `B > 61/50 · T − 1`: the sharp volume bound
    gives `a > 6/5 · 0.22 · T = 0.264 · T`, the counting argument `a < 0.26 · T` -/
theorem tight_small_k {v : α → Nat} {T B k : Nat} (hTB : T ≤ B) (hB : 61 * T < 50 * (B + 1)) (hk : k ≤ 6)
    {LL : List (List α)} {a : α} (h : Tight v T B k LL a) : False := by
  have hpos := h.toCE.pos
  have hvol := ce_volume h.toCE
  have h3 := tight_three_le hTB h
  by_cases hc : T < 4 * v a ∧ 2 * T ≤ B + 3 * v a
  · exact tight_count hTB h hc.1 hc.2
  · have hk' : k = 1 ∨ k = 2 ∨ k = 3 ∨ k = 4 ∨ k = 5 ∨ k = 6 := by omega
    rcases hk' with rfl | rfl | rfl | rfl | rfl | rfl <;> omega

section SmallK
variable (v : α → Nat)

/-- **First-fit-decreasing with capacity above `61/50 · T` fits into `k ≤ 6` bins** whenever the values fit into
    `k` bins of capacity `T`. -/
theorem ffd_fold_fits_122_small_k {k : Nat} (hk : 0 < k) (hk6 : k ≤ 6) {T B : Nat} (hTB : T ≤ B)
    (hB : 61 * T < 50 * (B + 1)) :
    ∀ xs : List α, xs.Pairwise (fun a c => v c ≤ v a) → Packable T k (xs.map v) → (∀ x ∈ xs, v x ≤ B) →
      (xs.foldl (ffStep v B) (Bins.new 1)).lists.length ≤ k := by
  intro xs hS hp hall
  apply Nat.le_of_not_lt
  intro hover
  obtain ⟨P, a, S, _, hs⟩ := ffd_overflow_sce v hk xs hS hp hall hover
  obtain ⟨k', LL', hk', _, ht⟩ := sce_reduce_to_tight hTB k _ hs
  exact tight_small_k hTB hB (by omega) ht.toTight

theorem ffd_fits_122_small_k {k : Nat} (hk : 0 < k) (hk6 : k ≤ 6) {xs : List α}
    (hS : xs.Pairwise (fun a c => v c ≤ v a)) {T : Nat} (hp : Packable T k (xs.map v)) {B : Nat}
    (hTB : T ≤ B) (hB : 61 * T < 50 * (B + 1)) {b : Bins α} (h : ffOnline v B xs = .ok b) :
    b.lists.length ≤ k := by
  simp only [ffOnline, Fit.ffLoop_eq] at h
  have hall := Fit.gen_ok_all_le h
  rw [Fit.genLoop_ok v B _ xs _ hall] at h
  cases h
  exact ffd_fold_fits_122_small_k v hk hk6 hTB hB xs hS hp hall

/-- `FfdFits ρ` for every `ρ ≥ 61/50` and at most six bins -/
theorem ffdFits_122_small_k {k : Nat} (hk : 0 < k) (hk6 : k ≤ 6) {items : List α} {opt : Int}
    (hopt : IsOptimalValue .minLargest k (items.map v) opt) {ρ : Rat} (hρ : 61 / 50 ≤ ρ) :
    FfdFits v k (sortDesc v items) ρ opt := by
  obtain ⟨T, rfl, hp⟩ := packable_of_opt hopt
  have hsp := Part.sortDesc_perm v items
  have hp' : Packable T k ((sortDesc v items).map v) := packable_perm (hsp.map v).symm hp
  have hM : ∀ x ∈ sortDesc v items, v x ≤ T :=
    fun x hx => packable_item_le hp' (List.mem_map_of_mem hx)
  intro c hc
  have hT0 : (0 : Rat) ≤ (T : Rat) := by positivity
  have hc' : 61 / 50 * (T : Rat) ≤ c := by
    push_cast at hc
    nlinarith
  obtain ⟨b', e', _, q2, _⟩ := Part.ffOnline_of_cap v (sortDesc v items) hM c (by linarith)
  refine ⟨b'.sums.length, by simp only [ffCount, e']; rfl, ?_⟩
  rw [Part.consistent_length v q2]
  have hTB : T ≤ floorNat c := Part.le_floorNat T c (by linarith)
  have hB := Part.lt_floorNat_succ (61 * T) 100 c (by omega) (by push_cast; linarith)
  exact ffd_fits_122_small_k v hk hk6 (Part.sortDesc_sorted v items) hp' hTB (by omega) e'

/-- **Multifit, `61/50 + 2^−it`, for at most six bins** (unconditional in the input).  For `k ≥ 7` the statement
    is open, see `multifit_ratio_122_partial`. -/
theorem multifit_ratio_122_small_k {k : Nat} {items : List α} {it : Nat} {b : Bins α} (hk : 0 < k)
    (hk6 : k ≤ 6) {opt : Int} (hopt : IsOptimalValue .minLargest k (items.map v) opt)
    (h : multifit v k items it = .ok b) :
    ((maxL b.sums : Nat) : Rat) ≤ (61 / 50 + 1 / 2 ^ it) * opt :=
  multifit_ratio_of_ffdFits v hk hopt (by norm_num) (ffdFits_122_small_k v hk hk6 hopt (le_refl _)) h

end SmallK

/-! ## 6b. Every number of bins: the ratio `(5k − 2)/(4k − 1)`

The same two bounds for `k` bins: the sharp volume bound `a ≥ k/(k−1) · (B + 1 − T)` and the counting bound
`B + 3a < 2T` are incompatible as soon as `B + 1 > (5k − 2)/(4k − 1) · T`.  The constant is `8/7` for `k = 2` (the
exact value of Coffman, Garey and Johnson), `11/9` for `k = 7`, and tends to `5/4`. -/

theorem tight_volume_mono {v : α → Nat} {T B k k' : Nat} {LL : List (List α)} {a : α}
    (h : Tight v T B k' LL a) (hkk : k' ≤ k) : k * (B + 1) + v a ≤ k * T + k * v a := by
  have hpos := h.toCE.pos
  have hvol := ce_volume h.toCE
  obtain ⟨d, rfl⟩ := Nat.exists_eq_add_of_le hkk
  have hD : B + 1 ≤ T + v a := by
    apply Nat.le_of_not_lt
    intro hlt
    have h0 : T + v a + 1 ≤ B + 1 := by omega
    have h1 := Nat.mul_le_mul_left k' h0
    have e1 : k' * (T + v a + 1) = k' * T + k' * v a + k' := by ring
    omega
  have h2 := Nat.mul_le_mul_left d hD
  have e2 : (k' + d) * (B + 1) = k' * (B + 1) + d * (B + 1) := by ring
  have e3 : (k' + d) * T = k' * T + d * T := by ring
  have e4 : (k' + d) * v a = k' * v a + d * v a := by ring
  have e5 : d * (T + v a) = d * T + d * v a := by ring
  omega

/-- no tight counter-example with at most `k` bins for a capacity `B` with
    `(5k − 2) · T < (4k − 1) · (B + 1)` -/
theorem tight_k {v : α → Nat} {T B k k' : Nat} (hTB : T ≤ B) (hk : 0 < k)
    (hB : 5 * k * T + (B + 1) < 4 * k * (B + 1) + 2 * T) {LL : List (List α)} {a : α}
    (h : Tight v T B k' LL a) (hkk : k' ≤ k) : False := by
  have hV := tight_volume_mono h hkk
  obtain ⟨j, rfl⟩ : ∃ j, k = j + 1 := ⟨k - 1, by omega⟩
  have e1 : (j + 1) * (B + 1) = j * (B + 1) + (B + 1) := by ring
  have e2 : (j + 1) * T = j * T + T := by ring
  have e3 : (j + 1) * v a = j * v a + v a := by ring
  have e5 : 5 * (j + 1) * T = 5 * (j * T) + 5 * T := by ring
  have e6 : 4 * (j + 1) * (B + 1) = 4 * (j * (B + 1)) + 4 * (B + 1) := by ring
  apply tight_count hTB h
  · apply Nat.lt_of_not_le
    intro hle
    have h1 := Nat.mul_le_mul_left j hle
    have e4 : j * (4 * v a) = 4 * (j * v a) := by ring
    omega
  · apply Nat.le_of_not_lt
    intro hlt
    have hle : B + 1 + 3 * v a ≤ 2 * T := by omega
    have h1 := Nat.mul_le_mul_left j hle
    have e4 : j * (B + 1 + 3 * v a) = j * (B + 1) + 3 * (j * v a) := by ring
    have e7 : j * (2 * T) = 2 * (j * T) := by ring
    omega

theorem lt_floorNat_add_one (q : Rat) : q < ((floorNat q : Nat) : Rat) + 1 := by
  have h1 := Rat.lt_floor_add_one q
  push_cast at h1
  have h2 : q.floor ≤ ((floorNat q : Nat) : Int) := by unfold floorNat; omega
  have h3 : ((q.floor : Int) : Rat) ≤ (((floorNat q : Nat) : Int) : Rat) := by exact_mod_cast h2
  have h4 : (((floorNat q : Nat) : Int) : Rat) = ((floorNat q : Nat) : Rat) := by norm_cast
  linarith

section EveryK
variable (v : α → Nat)

/-- **First-fit-decreasing with capacity above `(5k − 2)/(4k − 1) · T` fits into `k` bins** whenever the values
    fit into `k` bins of capacity `T`. -/
theorem ffd_fold_fits_k {k : Nat} (hk : 0 < k) {T B : Nat} (hTB : T ≤ B)
    (hB : 5 * k * T + (B + 1) < 4 * k * (B + 1) + 2 * T) :
    ∀ xs : List α, xs.Pairwise (fun a c => v c ≤ v a) → Packable T k (xs.map v) → (∀ x ∈ xs, v x ≤ B) →
      (xs.foldl (ffStep v B) (Bins.new 1)).lists.length ≤ k := by
  intro xs hS hp hall
  apply Nat.le_of_not_lt
  intro hover
  obtain ⟨P, a, S, _, hs⟩ := ffd_overflow_sce v hk xs hS hp hall hover
  obtain ⟨k', LL', hk', _, ht⟩ := sce_reduce_to_tight hTB k _ hs
  exact tight_k hTB hk hB ht.toTight hk'

theorem ffd_fits_k {k : Nat} (hk : 0 < k) {xs : List α}
    (hS : xs.Pairwise (fun a c => v c ≤ v a)) {T : Nat} (hp : Packable T k (xs.map v)) {B : Nat}
    (hTB : T ≤ B) (hB : 5 * k * T + (B + 1) < 4 * k * (B + 1) + 2 * T) {b : Bins α}
    (h : ffOnline v B xs = .ok b) : b.lists.length ≤ k := by
  simp only [ffOnline, Fit.ffLoop_eq] at h
  have hall := Fit.gen_ok_all_le h
  rw [Fit.genLoop_ok v B _ xs _ hall] at h
  cases h
  exact ffd_fold_fits_k v hk hTB hB xs hS hp hall

/-- `FfdFits ρ` for every `ρ ≥ (5k − 2)/(4k − 1)` -/
theorem ffdFits_k {k : Nat} (hk : 0 < k) {items : List α} {opt : Int}
    (hopt : IsOptimalValue .minLargest k (items.map v) opt) {ρ : Rat}
    (hρ : (5 * (k : Rat) - 2) / (4 * (k : Rat) - 1) ≤ ρ) :
    FfdFits v k (sortDesc v items) ρ opt := by
  obtain ⟨T, rfl, hp⟩ := packable_of_opt hopt
  have hsp := Part.sortDesc_perm v items
  have hp' : Packable T k ((sortDesc v items).map v) := packable_perm (hsp.map v).symm hp
  have hM : ∀ x ∈ sortDesc v items, v x ≤ T :=
    fun x hx => packable_item_le hp' (List.mem_map_of_mem hx)
  intro c hc
  have hT0 : (0 : Rat) ≤ (T : Rat) := by positivity
  have hk1 : (1 : Rat) ≤ (k : Rat) := by exact_mod_cast hk
  have hden : (0 : Rat) < 4 * (k : Rat) - 1 := by linarith
  have hρ1 : (1 : Rat) ≤ (5 * (k : Rat) - 2) / (4 * (k : Rat) - 1) := by
    rw [le_div_iff₀ hden]; linarith
  have hc1 : ρ * (T : Rat) ≤ c := by push_cast at hc; exact hc
  have hc' : (5 * (k : Rat) - 2) / (4 * (k : Rat) - 1) * (T : Rat) ≤ c :=
    le_trans (mul_le_mul_of_nonneg_right hρ hT0) hc1
  have hTc : (T : Rat) ≤ c := by nlinarith
  obtain ⟨b', e', _, q2, _⟩ := Part.ffOnline_of_cap v (sortDesc v items) hM c hTc
  refine ⟨b'.sums.length, by simp only [ffCount, e']; rfl, ?_⟩
  rw [Part.consistent_length v q2]
  have hTB : T ≤ floorNat c := Part.le_floorNat T c hTc
  have hlt := lt_floorNat_add_one c
  have h1 : (5 * (k : Rat) - 2) / (4 * (k : Rat) - 1) * (T : Rat) < ((floorNat c : Nat) : Rat) + 1 :=
    lt_of_le_of_lt hc' hlt
  have h2 : (5 * (k : Rat) - 2) * (T : Rat) < (((floorNat c : Nat) : Rat) + 1) * (4 * (k : Rat) - 1) := by
    have e : (5 * (k : Rat) - 2) / (4 * (k : Rat) - 1) * (T : Rat) =
        ((5 * (k : Rat) - 2) * (T : Rat)) / (4 * (k : Rat) - 1) := by ring
    rw [e, div_lt_iff₀ hden] at h1
    exact h1
  have hB : 5 * k * T + (floorNat c + 1) < 4 * k * (floorNat c + 1) + 2 * T := by
    have : ((5 * k * T + (floorNat c + 1) : Nat) : Rat) < ((4 * k * (floorNat c + 1) + 2 * T : Nat) : Rat) := by
      push_cast; linarith
    exact_mod_cast this
  exact ffd_fits_k v hk (Part.sortDesc_sorted v items) hp' hTB hB e'

/-- **Multifit, every `k`: `(5k − 2)/(4k − 1) + 2^−it`.**  The constant is below `5/4` for every `k`
    (`8/7, 13/11, 6/5, 23/19, 28/23, 11/9, …`). -/
theorem multifit_ratio_k {k : Nat} {items : List α} {it : Nat} {b : Bins α} (hk : 0 < k) {opt : Int}
    (hopt : IsOptimalValue .minLargest k (items.map v) opt) (h : multifit v k items it = .ok b) :
    ((maxL b.sums : Nat) : Rat) ≤ ((5 * (k : Rat) - 2) / (4 * (k : Rat) - 1) + 1 / 2 ^ it) * opt := by
  have hk1 : (1 : Rat) ≤ (k : Rat) := by exact_mod_cast hk
  have hden : (0 : Rat) < 4 * (k : Rat) - 1 := by linarith
  have hρ1 : (1 : Rat) ≤ (5 * (k : Rat) - 2) / (4 * (k : Rat) - 1) := by
    rw [le_div_iff₀ hden]; linarith
  exact multifit_ratio_of_ffdFits v hk hopt hρ1 (ffdFits_k v hk hopt (le_refl _)) h

/-- **Multifit, at most seven bins: `11/9 + 2^−it`.** -/
theorem multifit_ratio_11_9_small_k {k : Nat} {items : List α} {it : Nat} {b : Bins α} (hk : 0 < k)
    (hk7 : k ≤ 7) {opt : Int} (hopt : IsOptimalValue .minLargest k (items.map v) opt)
    (h : multifit v k items it = .ok b) :
    ((maxL b.sums : Nat) : Rat) ≤ (11 / 9 + 1 / 2 ^ it) * opt := by
  have hk1 : (1 : Rat) ≤ (k : Rat) := by exact_mod_cast hk
  have hk7' : (k : Rat) ≤ 7 := by exact_mod_cast hk7
  have hden : (0 : Rat) < 4 * (k : Rat) - 1 := by linarith
  have hρ : (5 * (k : Rat) - 2) / (4 * (k : Rat) - 1) ≤ 11 / 9 := by
    rw [div_le_iff₀ hden]; linarith
  exact multifit_ratio_of_ffdFits v hk hopt (by norm_num) (ffdFits_k v hk hopt hρ) h

end EveryK

/-! ## 7. Non-vacuity -/

/-- a tight strong counter-example: first-fit-decreasing with capacity `7` packs `[3, 3, 2, 2, 2]` into
    `[3, 3], [2, 2, 2]`, a further item `2` fits nowhere, although `[3, 2, 2], [3, 2, 2]` is a schedule with
    `T = 7`; the failing item lies in the band (`7 − 7 < 2`, `7 + 3·2 < 2·7`) -/
theorem stight_example : STight id 7 7 2 [[3, 3], [2, 2, 2]] 2 := by
  refine ⟨⟨rfl, ?_, by decide, by decide, by decide, ?_⟩, by decide⟩
  · have := ffdStrong_fold (v := id) (B := 7) [3, 3, 2, 2, 2] (by decide) (by decide)
    exact this
  · exact partition_packable [[3, 2, 2], [3, 2, 2]] rfl (by decide) (by decide)

example : 7 < id 2 + 7 ∧ (4 * id 2 ≤ 7 ∨ 7 + 3 * id 2 < 2 * 7) :=
  ce_band (Nat.le_refl _) stight_example.toSCE.toCE

example : ∀ l ∈ [[3, 3], [2, 2, 2]], 2 ≤ l.length :=
  tight_two (Nat.le_refl _) stight_example.toTight

/-- the same run, seen from the loop: `[3, 3, 2, 2, 2, 2]` needs three bins of capacity `7` -/
example : ∃ a ∈ [3, 3, 2, 2, 2, 2], ∃ k' LL, k' ≤ 2 ∧ Irred id 7 7 k' LL a ∧ STight id 7 7 k' LL a ∧
    (7 < id a + 7 ∧ (4 * id a ≤ 7 ∨ 7 + 3 * id a < 2 * 7)) ∧ 3 * id a ≤ 7 ∧
    (∀ l ∈ LL, 2 ≤ l.length) ∧ 3 * k' ≤ LL.flatten.length + 1 :=
  ffd_overflow_irred id (by decide) (Nat.le_refl _) (by decide)
    (partition_packable [[3, 2, 2], [3, 2, 2]] rfl (by decide) (by decide)) (by decide) (by decide)

/-- capacity `61` for `T = 50` is below `5/4 · 50`, the band is `{12}`: `[20, 20, 15, 15, 15, 15]` (two bins of
    `50`) has no item in it -/
example : ([20, 20, 15, 15, 15, 15].foldl (ffStep id 61) (Bins.new 1)).lists.length ≤ 2 :=
  ffd_fold_fits_of_no_band id (by decide) (T := 50) (by decide) _ (by decide)
    (partition_packable [[20, 15, 15], [20, 15, 15]] rfl (by decide) (by decide)) (by decide)
    (by simp [OutOfBand])

/-- `[3, 3, 2, 2, 2]` on two bins, optimal largest sum `6` (`LPT43.opt_33222`): all items are `≥ 0.26 · 6` -/
example : FfdFits id 2 (sortDesc id [3, 3, 2, 2, 2]) (61 / 50) ((6 : Int) : Rat) :=
  ffdFits_122_of_no_band id (by decide) opt_33222 (by decide) (le_refl _)

example : ∃ b, multifit id 2 [3, 3, 2, 2, 2] 10 = .ok b ∧
    ((maxL b.sums : Nat) : Rat) ≤ (61 / 50 + 1 / 2 ^ 10) * ((6 : Int) : Rat) := by
  obtain ⟨b, h, _⟩ := Part.multifit_perm (v := id) (k := 2) (items := [3, 3, 2, 2, 2]) (it := 10)
    (by decide) (by decide)
  exact ⟨b, h, multifit_ratio_122_partial id (by decide) opt_33222 (by decide) h⟩

example : ∃ b, multifit id 2 [3, 3, 2, 2, 2] 10 = .ok b ∧
    ((maxL b.sums : Nat) : Rat) ≤ (61 / 50 + 1 / 2 ^ 10) * ((6 : Int) : Rat) := by
  obtain ⟨b, h, _⟩ := Part.multifit_perm (v := id) (k := 2) (items := [3, 3, 2, 2, 2]) (it := 10)
    (by decide) (by decide)
  exact ⟨b, h, multifit_ratio_122_small_k id (by decide) (by decide) opt_33222 h⟩

/-- `61 · 50 < 50 · 62`: capacity `61` for `T = 50`, three bins -/
example : ([30, 25, 25, 20, 20, 15, 15].foldl (ffStep id 61) (Bins.new 1)).lists.length ≤ 3 :=
  ffd_fold_fits_122_small_k id (by decide) (by decide) (T := 50) (by decide) (by decide) _ (by decide)
    (partition_packable [[30, 20], [25, 25], [20, 15, 15]] rfl (by decide) (by decide)) (by decide)

/-- dropping a dominated bin: the schedule `[6], [3, 2, 2], [3, 2, 2]` has a bin with one item -/
example : ∃ j, j < 3 ∧ CE id 7 7 2 (([[6], [3, 3], [2, 2, 2]] : List (List Nat)).eraseIdx j) 2 := by
  have hs : SCE id 7 7 3 [[6], [3, 3], [2, 2, 2]] 2 := by
    refine ⟨rfl, ?_, by decide, by decide, by decide, ?_⟩
    · have := ffdStrong_fold (v := id) (B := 7) [6, 3, 3, 2, 2, 2] (by decide) (by decide)
      exact this
    · exact partition_packable [[6], [3, 2, 2], [3, 2, 2]] rfl (by decide) (by decide)
  exact ce_drop_of_small_opt_bin (Nat.le_refl _) hs.toCE [[6], [3, 2, 2], [3, 2, 2]] rfl (by decide)
    (by decide) (O := [6]) (by decide) (by decide)

/-- `k = 2`: the ratio `8/7` -/
example : ∃ b, multifit id 2 [3, 3, 2, 2, 2] 10 = .ok b ∧
    ((maxL b.sums : Nat) : Rat) ≤ ((5 * ((2 : Nat) : Rat) - 2) / (4 * ((2 : Nat) : Rat) - 1) + 1 / 2 ^ 10) *
      ((6 : Int) : Rat) := by
  obtain ⟨b, h, _⟩ := Part.multifit_perm (v := id) (k := 2) (items := [3, 3, 2, 2, 2]) (it := 10)
    (by decide) (by decide)
  exact ⟨b, h, multifit_ratio_k id (by decide) opt_33222 h⟩

example : ∃ b, multifit id 2 [3, 3, 2, 2, 2] 10 = .ok b ∧
    ((maxL b.sums : Nat) : Rat) ≤ (11 / 9 + 1 / 2 ^ 10) * ((6 : Int) : Rat) := by
  obtain ⟨b, h, _⟩ := Part.multifit_perm (v := id) (k := 2) (items := [3, 3, 2, 2, 2]) (it := 10)
    (by decide) (by decide)
  exact ⟨b, h, multifit_ratio_11_9_small_k id (by decide) (by decide) opt_33222 h⟩

/-- `k = 2`, `T = 7`, `B = 8 = 8/7 · 7`: `5·2·7 + 9 = 79 < 4·2·9 + 14 = 86`; with `B = 7` the inequality fails
    (`78 < 78`), and so does first-fit-decreasing (`stight_example`) -/
example : ([3, 3, 2, 2, 2, 2].foldl (ffStep id 8) (Bins.new 1)).lists.length ≤ 2 :=
  ffd_fold_fits_k id (by decide) (T := 7) (by decide) (by decide) _ (by decide)
    (partition_packable [[3, 2, 2], [3, 2, 2]] rfl (by decide) (by decide)) (by decide)

end Prtpy.MultiFit122

/-
#print axioms Prtpy.MultiFit122.ce_band
#print axioms Prtpy.MultiFit122.ffd_fold_fits_of_no_band
#print axioms Prtpy.MultiFit122.multifit_ratio_122_partial
#print axioms Prtpy.MultiFit122.multifit_ratio_122_small_k
#print axioms Prtpy.MultiFit122.ffdStrong_fold
#print axioms Prtpy.MultiFit122.ce_drop_of_small_opt_bin
#print axioms Prtpy.MultiFit122.irred_opt_bins
#print axioms Prtpy.MultiFit122.ffd_overflow_irred
#print axioms Prtpy.MultiFit122.multifit_ratio_k
#print axioms Prtpy.MultiFit122.multifit_ratio_11_9_small_k
#print axioms Prtpy.MultiFit122.stight_example

observed output (each of the eleven):
'Prtpy.MultiFit122.<name>' depends on axioms: [propext, Classical.choice, Quot.sound]
-/
