/-
  PrtpyProofs.MultiFit122 — towards the `1.22` ratio of multifit (Coffman, Garey, Johnson 1978).

  What is proved here (the unconditional `61/50` theorem is **open**, see the end of the file):

  * the structure of a counter-example of first-fit-decreasing with capacity `B ≥ T` (`CE`): `k` bins with the
    structure of a first-fit-decreasing packing, an item `a` (not larger than any packed item) that fits into no
    bin, although everything fits into `k` bins of capacity `T`:
      - `ce_large`: `B − T < a` (volume);
      - `ce_first`: the first bin starts with the largest item `f`; either the first bin can be dropped (it
        dominates the bin of `f` in the `T`-schedule), leaving a counter-example with `k − 1` bins, or
        `f + 2a ≤ T`;
      - `ce_reduce_to_tight`: hence a suffix of the bins is a *tight* counter-example (`Tight`: all items
        `≤ T − 2a`);
      - `tight_bin_length`: in a tight counter-example every bin holds more than `c` items whenever
        `c·(T − 2a) + a ≤ B` (so: at least two items, and at least three if `2T − 3a ≤ B`);
      - `items_per_bin`: a bin of capacity `T < (c+1)·m` holds at most `c` items `≥ m`;
      - `ce_band`: **the failing item lies in the band `B − T < a`, and (`4a ≤ T` or `B + 3a < 2T`)**.
        For `B = 1.22·T` the band is `0.22·T < a < 0.26·T`.
  * `ffd_fold_fits_of_no_band`, `ffd_fits_of_no_band`: first-fit-decreasing with capacity `B ≥ T` needs at most
    `k` bins if no item lies in the band;
  * `ffdFits_122_of_no_band` and `multifit_ratio_122_partial`: the `61/50 + 2^−it` ratio of multifit for inputs
    without an item strictly between `0.22·OPT` and `0.26·OPT`.
-/
import Mathlib.Tactic.Linarith
import Mathlib.Tactic.Ring
import Mathlib.Tactic.Positivity
import Prtpy
import PrtpyProofs.Part
import PrtpyProofs.Fit
import PrtpyProofs.Oracle
import PrtpyProofs.LPT43
import PrtpyProofs.MaxMin
import PrtpyProofs.MaxMin2
open Prtpy

namespace Prtpy.MultiFit122
open Prtpy.LPT43 Prtpy.MaxMin Prtpy.MaxMin2

variable {α : Type}

/-! ## 1. Counter-examples of first-fit-decreasing with capacity `B` -/

/-- A counter-example: `k` bins `LL` with the structure of a first-fit-decreasing packing for capacity `B`, an
    item `a`, not larger than any packed item, that fits into no bin, while the packed items together with `a`
    fit into `k` bins of capacity `T`. -/
structure CE (v : α → Nat) (T B k : Nat) (LL : List (List α)) (a : α) : Prop where
  len : LL.length = k
  inv : FFDInv v B LL
  nofit : ∀ l ∈ LL, B < binSum v l + v a
  amin : ∀ p ∈ LL.flatten, v a ≤ v p
  pack : Packable T k ((LL.flatten ++ [a]).map v)

/-- a tight counter-example: moreover every packed item is at most `T − 2a` -/
structure Tight (v : α → Nat) (T B k : Nat) (LL : List (List α)) (a : α) : Prop extends CE v T B k LL a where
  top : ∀ p ∈ LL.flatten, v p + 2 * v a ≤ T

theorem CE.pos {v : α → Nat} {T B k : Nat} {LL : List (List α)} {a : α} (h : CE v T B k LL a) : 0 < k := by
  rcases Nat.eq_zero_or_pos k with rfl | hk
  · obtain ⟨Q, hQk, hQp, _⟩ := packable_partition h.pack
    have : Q = [] := List.length_eq_zero_iff.1 hQk
    subst this
    have := hQp.length_eq
    simp at this
  · exact hk

theorem CE.item_le {v : α → Nat} {T B k : Nat} {LL : List (List α)} {a : α} (h : CE v T B k LL a) : v a ≤ T :=
  packable_item_le h.pack (by simp)

/-- **Volume.**  The failing item of a counter-example exceeds `B − T`: otherwise every bin is filled above `T`. -/
theorem ce_large {v : α → Nat} {T B k : Nat} {LL : List (List α)} {a : α} (h : CE v T B k LL a) :
    B < v a + T := by
  apply Nat.lt_of_not_le
  intro ha
  have hk := h.pos
  have h1 : ∀ s ∈ LL.map (binSum v), T + 1 ≤ s + 0 := by
    intro s hs
    obtain ⟨l, hl, rfl⟩ := List.mem_map.1 hs
    have := h.nofit l hl
    omega
  have h2 := Part.length_mul_le_sumL _ (T + 1) 0 h1
  rw [Fit.sumL_map_binSum] at h2
  have h3 := packable_sum h.pack
  rw [List.map_append, Part.sumL_append] at h3
  simp only [List.length_map, h.len] at h2
  have e1 : binSum v LL.flatten = sumL (LL.flatten.map v) := rfl
  have e2 : k * (T + 1) = k * T + k := by ring
  omega

/-- a bin of capacity `T < (c + 1) · m` holds at most `c` items `≥ m` -/
theorem items_per_bin {T m c : Nat} {l : List Nat} (hm : ∀ y ∈ l, m ≤ y) (hT : T < (c + 1) * m)
    (hl : sumL l ≤ T) : l.length ≤ c := by
  have h1 := Part.length_mul_le_sumL l m 0 (fun y hy => by have := hm y hy; omega)
  apply Nat.le_of_not_lt
  intro hlt
  have h2 : (c + 1) * m ≤ l.length * m := Nat.mul_le_mul_right m hlt
  omega

theorem binSum_le_length_mul {v : α → Nat} {M : Nat} : ∀ (l : List α), (∀ p ∈ l, v p ≤ M) →
    binSum v l ≤ l.length * M := by
  intro l
  induction l with
  | nil => intro _; simp [binSum, sumL]
  | cons x t ih =>
    intro h
    have h1 := h x (by simp)
    have h2 := ih (fun p hp => h p (by simp [hp]))
    simp only [binSum, List.map_cons, sumL, List.length_cons] at h2 ⊢
    have e : (t.length + 1) * M = t.length * M + M := by ring
    omega

/-- the invariant of first-fit-decreasing survives dropping the first bin -/
theorem ffdInv_tail {v : α → Nat} {B : Nat} {l0 : List α} {LL : List (List α)} (hI : FFDInv v B (l0 :: LL)) :
    FFDInv v B LL := by
  intro i j l p hij hl hpl
  have := hI (i + 1) (j + 1) l p (by omega) (by simpa using hl) hpl
  simpa using this

/-- **The first bin.**  In a counter-example with capacity `B ≥ T` the first bin starts with the largest item
    `f`.  If `f` shares its bin of the `T`-schedule with at most one item, the first bin of the packing dominates
    that bin, and dropping it leaves a counter-example with one bin less; otherwise `f + 2a ≤ T`. -/
theorem ce_first {v : α → Nat} {T B k : Nat} (hTB : T ≤ B) {LL : List (List α)} {a : α}
    (h : CE v T B (k + 1) LL a) :
    ∃ f tl LL', LL = (f :: tl) :: LL' ∧ (∀ p ∈ LL.flatten, v p ≤ v f) ∧
      (CE v T B k LL' a ∨ v f + 2 * v a ≤ T) := by
  obtain ⟨hlen, hI, hno, hmin, hp⟩ := h
  have haT : v a ≤ T := packable_item_le hp (by simp)
  match LL, hlen with
  | l0 :: LL', hlen =>
  have hlen' : LL'.length = k := by simpa using hlen
  have h0 := hno l0 (by simp)
  obtain ⟨f, tl, rfl⟩ : ∃ f tl, l0 = f :: tl := by
    cases l0 with
    | nil => simp only [binSum, List.map_nil, sumL] at h0; omega
    | cons f tl => exact ⟨f, tl, rfl⟩
  have hfirst : ∀ j l p, ((f :: tl) :: LL')[j]? = some l → p ∈ l →
      v p ≤ v f ∧ (0 < j → v f + v p ≤ B → ∃ y ∈ tl, v p ≤ v y) := by
    intro j l p hl hpl
    obtain ⟨f', tl', e, h1, h2⟩ := hI 0 j l p (Nat.zero_le _) hl hpl
    simp only [List.getElem?_cons_zero, Option.some.injEq, List.cons.injEq] at e
    obtain ⟨rfl, rfl⟩ := e
    exact ⟨h1, h2⟩
  have hfmax : ∀ p ∈ ((f :: tl) :: LL').flatten, v p ≤ v f := by
    intro p hp
    obtain ⟨l, hl, hpl⟩ := List.mem_flatten.1 hp
    obtain ⟨j, hj, rfl⟩ := List.mem_iff_getElem.1 hl
    exact (hfirst j _ p (List.getElem?_eq_getElem hj) hpl).1
  refine ⟨f, tl, LL', rfl, hfmax, ?_⟩
  obtain ⟨Q, hQk, hQp, hQ⟩ := packable_partition hp
  have hQp' : Q.flatten.Perm (v f :: (tl.map v ++ (LL'.flatten ++ [a]).map v)) := by
    refine hQp.trans ?_
    simp [List.map_append]
  have hge : ∀ u ∈ Q.flatten, v a ≤ u := by
    intro u hu
    obtain ⟨p, hp, rfl⟩ := List.mem_map.1 (hQp.mem_iff.1 hu)
    rcases List.mem_append.1 hp with hp | hp
    · exact hmin p hp
    · simp only [List.mem_singleton] at hp; subst hp; exact Nat.le_refl _
  by_cases hsm : ∀ O ∈ Q, v f ∈ O → O.length ≤ 2
  · left
    have hp' : Packable T k ((LL'.flatten ++ [a]).map v) := by
      refine pack_drop_bin Q hQk hQp' hQ hsm ?_
      intro p hp hfp
      obtain ⟨p', hp', rfl⟩ := List.mem_map.1 hp
      rcases List.mem_append.1 hp' with hp' | hp'
      · obtain ⟨l, hl, hpl⟩ := List.mem_flatten.1 hp'
        obtain ⟨j, hj, rfl⟩ := List.mem_iff_getElem.1 hl
        obtain ⟨y, hy, hpy⟩ := (hfirst (j + 1) _ p' (by simp [List.getElem?_eq_getElem hj]) hpl).2
          (by omega) (by omega)
        exact ⟨v y, List.mem_map_of_mem hy, hpy⟩
      · simp only [List.mem_singleton] at hp'
        subst hp'
        cases tl with
        | nil => simp only [binSum, List.map_cons, List.map_nil, sumL] at h0; omega
        | cons y t =>
          exact ⟨v y, by simp, hmin y (by simp)⟩
    exact ⟨hlen', ffdInv_tail hI, fun l hl => hno l (List.mem_cons_of_mem _ hl),
      fun p hp => hmin p (by simp [hp]), hp'⟩
  · right
    have hex : ∃ O ∈ Q, v f ∈ O ∧ 3 ≤ O.length := by
      apply Classical.byContradiction
      intro hno'
      apply hsm
      intro O hO hfO
      apply Nat.le_of_not_lt
      intro hlt
      exact hno' ⟨O, hO, hfO, hlt⟩
    obtain ⟨O, hO, hfO, hOlen⟩ := hex
    have pO := List.perm_cons_erase hfO
    have h1 := hQ O hO
    rw [Part.sumL_perm pO] at h1
    have hlen2 : 2 ≤ (O.erase (v f)).length := by
      have := pO.length_eq; simp only [List.length_cons] at this; omega
    have hmemO : ∀ u ∈ O.erase (v f), v a ≤ u := fun u hu =>
      hge u (List.mem_flatten.2 ⟨O, hO, List.mem_of_mem_erase hu⟩)
    match hOe : O.erase (v f), hlen2 with
    | p :: q :: r, _ =>
      rw [hOe] at h1 hmemO
      have := hmemO p (by simp)
      have := hmemO q (by simp)
      simp only [sumL] at h1
      omega

/-- **Reduction to a tight counter-example.**  Dropping dominated first bins one after the other, every
    counter-example (with `B ≥ T`) contains a tight one: a suffix of its bins, with the same failing item, in
    which every item is at most `T − 2a`. -/
theorem ce_reduce_to_tight {v : α → Nat} {T B : Nat} (hTB : T ≤ B) {a : α} :
    ∀ (k : Nat) (LL : List (List α)), CE v T B k LL a →
      ∃ k' LL', k' ≤ k ∧ LL' <:+ LL ∧ Tight v T B k' LL' a := by
  intro k
  induction k with
  | zero => intro LL h; exact absurd h.pos (Nat.lt_irrefl _)
  | succ k ih =>
    intro LL h
    obtain ⟨f, tl, LL', rfl, hmax, h1 | h1⟩ := ce_first hTB h
    · obtain ⟨k', L2, hk', hsuf, ht⟩ := ih LL' h1
      exact ⟨k', L2, by omega, hsuf.trans (List.suffix_cons _ _), ht⟩
    · exact ⟨k + 1, _, Nat.le_refl _, List.suffix_refl _, h, fun p hp => by have := hmax p hp; omega⟩

/-- in a tight counter-example every bin holds more than `c` items as long as `c` items of size `T − 2a` and the
    item `a` fit into the capacity -/
theorem tight_bin_length {v : α → Nat} {T B k : Nat} {LL : List (List α)} {a : α} (h : Tight v T B k LL a)
    {c : Nat} (hc : c * (T - 2 * v a) + v a ≤ B) : ∀ l ∈ LL, c + 1 ≤ l.length := by
  intro l hl
  apply Nat.succ_le_of_lt
  apply Nat.lt_of_not_le
  intro hle
  have h1 := h.nofit l hl
  have h2 : binSum v l ≤ l.length * (T - 2 * v a) :=
    binSum_le_length_mul l (fun p hp => by
      have := h.top p (List.mem_flatten.2 ⟨l, hl, hp⟩); omega)
  have h3 : l.length * (T - 2 * v a) ≤ c * (T - 2 * v a) := Nat.mul_le_mul_right _ hle
  omega

/-- every bin of a tight counter-example (with `B ≥ T`) holds at least two items -/
theorem tight_two {v : α → Nat} {T B k : Nat} (hTB : T ≤ B) {LL : List (List α)} {a : α}
    (h : Tight v T B k LL a) : ∀ l ∈ LL, 2 ≤ l.length := by
  apply tight_bin_length h (c := 1)
  have := h.toCE.item_le
  omega

/-- a tight counter-example has `3a ≤ T` (it has a bin, the bin has an item) -/
theorem tight_three_le {v : α → Nat} {T B k : Nat} (hTB : T ≤ B) {LL : List (List α)} {a : α}
    (h : Tight v T B k LL a) : 3 * v a ≤ T := by
  have hk := h.toCE.pos
  have hlen := h.len
  cases LL with
  | nil => simp only [List.length_nil] at hlen; omega
  | cons l LL' =>
    have h2 := tight_two hTB h l (by simp)
    cases l with
    | nil => simp at h2
    | cons p t =>
      have h3 := h.top p (by simp)
      have h4 := h.amin p (by simp)
      omega

/-- **Counting.**  No tight counter-example has `T < 4a` and `2T − 3a ≤ B`: every bin of the packing would hold
    three items, every bin of the `T`-schedule at most three, and `a` is one more. -/
theorem tight_count {v : α → Nat} {T B k : Nat} (hTB : T ≤ B) {LL : List (List α)} {a : α}
    (h : Tight v T B k LL a) (ha : T < 4 * v a) (hB : 2 * T ≤ B + 3 * v a) : False := by
  have h3 : ∀ l ∈ LL, 2 + 1 ≤ l.length := by
    apply tight_bin_length h
    have := h.toCE.item_le
    omega
  obtain ⟨Q, hQk, hQp, hQ⟩ := packable_partition h.pack
  have hge : ∀ u ∈ Q.flatten, v a ≤ u := by
    intro u hu
    obtain ⟨p, hp, rfl⟩ := List.mem_map.1 (hQp.mem_iff.1 hu)
    rcases List.mem_append.1 hp with hp | hp
    · exact h.amin p hp
    · simp only [List.mem_singleton] at hp; subst hp; exact Nat.le_refl _
  have c1 := mul_le_flatten_length 3 _ h3
  have c2 := flatten_length_le_mul 3 Q (fun l hl =>
    items_per_bin (c := 3) (fun y hy => hge y (List.mem_flatten.2 ⟨l, hl, hy⟩)) (by omega) (hQ l hl))
  have c3 := hQp.length_eq
  simp only [List.length_map, List.length_append, List.length_cons, List.length_nil] at c1 c3
  rw [hQk] at c2
  rw [h.len] at c1
  omega

/-- **The band.**  The failing item `a` of a counter-example of first-fit-decreasing with capacity `B ≥ T`
    satisfies `B − T < a`, and `4a ≤ T` or `B + 3a < 2T`.  (For `B = 5/4·T` the band is empty: `MaxMin2.ffd_core`;
    for `B = 1.22·T` it is `0.22·T < a < 0.26·T`.) -/
theorem ce_band {v : α → Nat} {T B k : Nat} (hTB : T ≤ B) {LL : List (List α)} {a : α}
    (h : CE v T B k LL a) : B < v a + T ∧ (4 * v a ≤ T ∨ B + 3 * v a < 2 * T) := by
  refine ⟨ce_large h, ?_⟩
  obtain ⟨k', LL', _, _, ht⟩ := ce_reduce_to_tight hTB k LL h
  rcases Nat.lt_or_ge T (4 * v a) with h4 | h4
  · right
    apply Nat.lt_of_not_le
    intro hB
    exact tight_count hTB ht h4 hB
  · exact Or.inl h4

/-- `MaxMin2.ffd_core` again, from the band -/
theorem ffd_core' {v : α → Nat} {T B : Nat} (hB : 5 * T < 4 * (B + 1)) {a : α} {k : Nat} {LL : List (List α)}
    (h : CE v T B k LL a) : False := by
  obtain ⟨h1, h2⟩ := ce_band (by omega) h
  omega

/-! ## 2. First-fit-decreasing fits when no item lies in the band -/

section Multifit
variable (v : α → Nat)

/-- the item `x` is outside the band of the capacities `T ≤ B` -/
def OutOfBand (T B : Nat) (x : α) : Prop := v x + T ≤ B ∨ (T < 4 * v x ∧ 2 * T ≤ B + 3 * v x)

theorem not_ce_of_outOfBand {T B k : Nat} (hTB : T ≤ B) {LL : List (List α)} {a : α}
    (ha : OutOfBand v T B a) : ¬ CE v T B k LL a := by
  intro h
  obtain ⟨h1, h2⟩ := ce_band hTB h
  rcases ha with ha | ⟨ha, hb⟩ <;> omega

/-- **First-fit-decreasing with capacity `B ≥ T` fits into `k` bins** whenever the values fit into `k` bins of
    capacity `T` and no item lies in the band. -/
theorem ffd_fold_fits_of_no_band {k : Nat} (hk : 0 < k) {T B : Nat} (hTB : T ≤ B) :
    ∀ xs : List α, xs.Pairwise (fun a c => v c ≤ v a) → Packable T k (xs.map v) → (∀ x ∈ xs, v x ≤ B) →
      (∀ x ∈ xs, OutOfBand v T B x) →
      (xs.foldl (ffStep v B) (Bins.new 1)).lists.length ≤ k := by
  intro xs
  induction xs using Oracle.rev_induction with
  | nil => intro _ _ _ _; simp [Bins.new]; omega
  | snoc P x ih =>
    intro hS hp hall hband
    obtain ⟨hS1, _, hS2⟩ := List.pairwise_append.1 hS
    have hpP : Packable T k (P.map v) := by rw [List.map_append] at hp; exact packable_prefix _ hp
    have hallP : ∀ y ∈ P, v y ≤ B := fun y hy => hall y (by simp [hy])
    have hih := ih hS1 hpP hallP (fun y hy => hband y (by simp [hy]))
    have hinv : Fit.Inv v B P (P.foldl (ffStep v B) (Bins.new 1)) := by
      simpa using Fit.inv_foldl (ffStep v B) (Fit.ffStep_step v B) P [] (Bins.new 1) hallP (Fit.inv_init v B)
    have hI := ffdInv_fold P hS1 hallP
    rw [List.foldl_append, List.foldl_cons, List.foldl_nil]
    rcases Fit.ffStep_step v B (P.foldl (ffStep v B) (Bins.new 1)) x with ⟨i, _, _, e⟩ | ⟨hno, e⟩
    · rw [e]; simpa using hih
    · rw [e, Fit.addEmpty_add v _ x hinv.len]
      simp only [List.length_append, List.length_cons, List.length_nil]
      apply Nat.succ_le_of_lt
      apply Nat.lt_of_le_of_ne hih
      intro hlen
      have hc := hinv.cons
      apply not_ce_of_outOfBand v hTB (hband x (by simp)) (k := k)
        (LL := (P.foldl (ffStep v B) (Bins.new 1)).lists)
      refine ⟨hlen, hI, ?_, ?_, ?_⟩
      · intro l hl
        have hmem : binSum v l ∈ (P.foldl (ffStep v B) (Bins.new 1)).sums := by
          rw [hc]; exact List.mem_map_of_mem hl
        have := hno _ hmem
        omega
      · intro p hp'
        exact hS2 p (hinv.perm.mem_iff.1 hp') x (by simp)
      · exact packable_perm ((hinv.perm.append_right [x]).map v).symm hp

theorem ffd_fits_of_no_band {k : Nat} (hk : 0 < k) {xs : List α}
    (hS : xs.Pairwise (fun a c => v c ≤ v a)) {T : Nat} (hp : Packable T k (xs.map v)) {B : Nat}
    (hTB : T ≤ B) (hband : ∀ x ∈ xs, OutOfBand v T B x) {b : Bins α} (h : ffOnline v B xs = .ok b) :
    b.lists.length ≤ k := by
  simp only [ffOnline, Fit.ffLoop_eq] at h
  have hall := Fit.gen_ok_all_le h
  rw [Fit.genLoop_ok v B _ xs _ hall] at h
  cases h
  exact ffd_fold_fits_of_no_band v hk hTB xs hS hp hall hband

/-- `FfdFits (61/50)` for inputs without an item strictly between `0.22·OPT` and `0.26·OPT` -/
theorem ffdFits_122_of_no_band {k : Nat} (hk : 0 < k) {items : List α} {opt : Int}
    (hopt : IsOptimalValue .minLargest k (items.map v) opt)
    (hband : ∀ x ∈ items, 50 * (v x : Int) ≤ 11 * opt ∨ 13 * opt ≤ 50 * (v x : Int))
    {ρ : Rat} (hρ : 61 / 50 ≤ ρ) :
    FfdFits v k (sortDesc v items) ρ opt := by
  obtain ⟨T, rfl, hp⟩ := packable_of_opt hopt
  have hsp := Part.sortDesc_perm v items
  have hp' : Packable T k ((sortDesc v items).map v) := packable_perm (hsp.map v).symm hp
  have hM : ∀ x ∈ sortDesc v items, v x ≤ T :=
    fun x hx => packable_item_le hp' (List.mem_map_of_mem hx)
  intro c hc
  have hT0 : (0 : Rat) ≤ (T : Rat) := by positivity
  have hc' : 61 / 50 * (T : Rat) ≤ c := by
    push_cast at hc
    nlinarith
  obtain ⟨b', e', _, q2, _⟩ := Part.ffOnline_of_cap v (sortDesc v items) hM c (by linarith)
  refine ⟨b'.sums.length, by simp only [ffCount, e']; rfl, ?_⟩
  rw [Part.consistent_length v q2]
  have hTB : T ≤ floorNat c := Part.le_floorNat T c (by linarith)
  refine ffd_fits_of_no_band v hk (Part.sortDesc_sorted v items) hp' hTB ?_ e'
  intro x hx
  have hx' : x ∈ items := hsp.mem_iff.1 hx
  rcases hband x hx' with h1 | h1
  · left
    have h1' : 50 * v x ≤ 11 * T := by exact_mod_cast h1
    apply Part.le_floorNat
    have h2 : (50 : Rat) * (v x : Rat) ≤ 11 * (T : Rat) := by exact_mod_cast h1'
    push_cast
    linarith
  · have h1' : 13 * T ≤ 50 * v x := by exact_mod_cast h1
    rcases Nat.eq_zero_or_pos T with hT | hT
    · left
      have := hM x hx
      omega
    · right
      refine ⟨by omega, ?_⟩
      have h2 : (13 : Rat) * (T : Rat) ≤ 50 * (v x : Rat) := by exact_mod_cast h1'
      rcases Nat.le_total (3 * v x) (2 * T) with h4 | h4
      · have h3 : 2 * T - 3 * v x ≤ floorNat c := by
          apply Part.le_floorNat
          rw [Nat.cast_sub h4]
          push_cast
          linarith
        omega
      · omega

/-- **Multifit, `61/50 + 2^−it`, partial.**  The bound claimed by the documentation, for inputs without an item
    strictly between `0.22·OPT` and `0.26·OPT`.

    The original statement (open):
    `theorem multifit_ratio_122 (hk : 0 < k) (hopt : IsOptimalValue .minLargest k (items.map v) opt)
       (h : multifit v k items it = .ok b) : ((maxL b.sums : Nat) : Rat) ≤ (61 / 50 + 1 / 2 ^ it) * opt`.
    Missing: the case analysis of Coffman, Garey and Johnson for a failing item in the band
    `0.22·OPT < a < 0.26·OPT` (`ce_band`), where the bins of the optimal schedule hold up to four items. -/
theorem multifit_ratio_122_partial {k : Nat} {items : List α} {it : Nat} {b : Bins α} (hk : 0 < k) {opt : Int}
    (hopt : IsOptimalValue .minLargest k (items.map v) opt)
    (hband : ∀ x ∈ items, 50 * (v x : Int) ≤ 11 * opt ∨ 13 * opt ≤ 50 * (v x : Int))
    (h : multifit v k items it = .ok b) :
    ((maxL b.sums : Nat) : Rat) ≤ (61 / 50 + 1 / 2 ^ it) * opt :=
  multifit_ratio_of_ffdFits v hk hopt (by norm_num) (ffdFits_122_of_no_band v hk hopt hband (le_refl _)) h

end Multifit

/-! ## 3. The full first-fit-decreasing rule as a static property of the bins -/

/-- The bins `Ls` satisfy the rule of first-fit-decreasing for capacity `B`:
    * every bin lists its items in non-increasing order (the order of arrival);
    * an item `p` of bin `j` did not fit into an earlier bin `i` when it arrived: the items of bin `i` that are
      at least as large as `p` (a superset of what bin `i` held at that time), together with `p`, exceed `B`.
    This is stronger than `MaxMin2.FFDInv` (`ffdInv_of_strong`). -/
structure FFDStrong (v : α → Nat) (B : Nat) (Ls : List (List α)) : Prop where
  sorted : ∀ l ∈ Ls, l.Pairwise (fun x y => v y ≤ v x)
  rule : ∀ (i j : Nat) (li lj : List α) (p : α), i < j → Ls[i]? = some li → Ls[j]? = some lj → p ∈ lj →
    B < binSum v (li.filter (fun y => decide (v p ≤ v y))) + v p

theorem getElem?_modify_some {β : Type} {f : β → β} {L : List β} {i j : Nat} {l : β}
    (h : (L.modify i f)[j]? = some l) : ∃ l0, L[j]? = some l0 ∧ l = if i = j then f l0 else l0 := by
  rw [List.getElem?_modify] at h
  cases hj : L[j]? with
  | none => rw [hj] at h; simp at h
  | some l0 =>
    rw [hj] at h
    simp only [Option.map_eq_map, Option.map_some, Option.some.injEq] at h
    exact ⟨l0, rfl, h.symm⟩

theorem ffdStrong_step {v : α → Nat} {B : Nat} {seen : List α} {b : Bins α} (h : Fit.Inv v B seen b)
    (hI : FFDStrong v B b.lists) {x : α} (hmin : ∀ a ∈ seen, v x ≤ v a) :
    FFDStrong v B (ffStep v B b x).lists := by
  have hlen := h.len
  have hmemseen : ∀ l ∈ b.lists, ∀ a ∈ l, v x ≤ v a := fun l hl a ha =>
    hmin a (h.perm.mem_iff.1 (List.mem_flatten.2 ⟨l, hl, ha⟩))
  -- a bin without room for `x`: the rule for `x`
  have hrule : ∀ i (hi : i < b.sums.length) li, b.lists[i]? = some li → ¬ b.sums[i] + v x ≤ B →
      B < binSum v (li.filter (fun y => decide (v x ≤ v y))) + v x := by
    intro i hi li hli hno
    have hi' : i < b.lists.length := by omega
    have hs : b.sums[i] = binSum v li := by
      have hc := h.cons
      have e : li = b.lists[i] := by
        rw [List.getElem?_eq_getElem hi'] at hli; exact (Option.some.inj hli).symm
      subst e
      simp [hc]
    have hf : li.filter (fun y => decide (v x ≤ v y)) = li := by
      apply List.filter_eq_self.2
      intro a ha
      simpa using hmemseen li (List.mem_of_getElem? hli) a ha
    rw [hf]; omega
  rcases Fit.ffStep_spec' v B b x with ⟨i0, hi0, hfit, hfirst, e⟩ | ⟨hno, e⟩
  · rw [e, Part.add_lists]
    constructor
    · intro l hl
      obtain ⟨j, hj, rfl⟩ := List.mem_iff_getElem.1 hl
      obtain ⟨l0, hl0, el⟩ := getElem?_modify_some (List.getElem?_eq_getElem hj)
      rw [el]
      have hs0 := hI.sorted l0 (List.mem_of_getElem? hl0)
      split
      · rw [List.pairwise_append]
        refine ⟨hs0, List.pairwise_singleton _ _, fun a ha c hc => ?_⟩
        simp only [List.mem_singleton] at hc; subst hc
        exact hmemseen l0 (List.mem_of_getElem? hl0) a ha
      · exact hs0
    · intro i j li lj p hij hli hlj hp
      obtain ⟨li0, hli0, eli⟩ := getElem?_modify_some hli
      obtain ⟨lj0, hlj0, elj⟩ := getElem?_modify_some hlj
      have hmono : binSum v (li0.filter (fun y => decide (v p ≤ v y))) ≤
          binSum v (li.filter (fun y => decide (v p ≤ v y))) := by
        rw [eli]; split
        · rw [List.filter_append, Fit.binSum_append]; omega
        · exact Nat.le_refl _
      have hold : p ∈ lj0 ∨ (i0 = j ∧ p = x) := by
        rw [elj] at hp
        by_cases e0 : i0 = j
        · rw [if_pos e0] at hp
          rcases List.mem_append.1 hp with h1 | h1
          · exact Or.inl h1
          · exact Or.inr ⟨e0, by simpa using h1⟩
        · rw [if_neg e0] at hp; exact Or.inl hp
      rcases hold with hp0 | ⟨rfl, rfl⟩
      · have := hI.rule i j li0 lj0 p hij hli0 hlj0 hp0
        omega
      · have hi : i < b.sums.length := by omega
        have := hrule i hi li0 hli0 (hfirst i hij)
        omega
  · rw [e, Fit.addEmpty_add v b x hlen]
    constructor
    · intro l hl
      simp only at hl
      rcases List.mem_append.1 hl with hl | hl
      · exact hI.sorted l hl
      · simp only [List.mem_singleton] at hl; subst hl; exact List.pairwise_singleton _ _
    · intro i j li lj p hij hli hlj hp
      simp only at hli hlj
      rcases Nat.lt_or_ge j b.lists.length with hjl | hjl
      · rw [List.getElem?_append_left hjl] at hlj
        rw [List.getElem?_append_left (by omega)] at hli
        exact hI.rule i j li lj p hij hli hlj hp
      · have hjeq : j = b.lists.length := by
          have := (List.getElem?_eq_some_iff.1 hlj).1
          simp only [List.length_append, List.length_cons, List.length_nil] at this
          omega
        subst hjeq
        rw [List.getElem?_concat_length] at hlj
        cases hlj
        have hpx : p = x := by simpa using hp
        subst hpx
        rw [List.getElem?_append_left hij] at hli
        have hi : i < b.sums.length := by omega
        exact hrule i hi li hli (hno _ (List.getElem_mem hi))

theorem ffdStrong_init (v : α → Nat) (B : Nat) : FFDStrong v B (Bins.new 1 : Bins α).lists := by
  constructor
  · intro l hl
    simp only [Bins.new, List.replicate_one, List.mem_singleton] at hl
    subst hl; exact List.Pairwise.nil
  · intro i j li lj p hij _ hlj _
    simp only [Bins.new, List.replicate_one] at hlj
    cases j with
    | zero => omega
    | succ j => simp at hlj

/-- the first-fit loop on a non-increasing list produces bins that satisfy the full rule -/
theorem ffdStrong_fold {v : α → Nat} {B : Nat} : ∀ xs : List α, xs.Pairwise (fun a c => v c ≤ v a) →
    (∀ x ∈ xs, v x ≤ B) → FFDStrong v B (xs.foldl (ffStep v B) (Bins.new 1)).lists := by
  intro xs
  induction xs using Oracle.rev_induction with
  | nil => intro _ _; exact ffdStrong_init v B
  | snoc P x ih =>
    intro hS hall
    obtain ⟨hS1, _, hS2⟩ := List.pairwise_append.1 hS
    have hallP : ∀ y ∈ P, v y ≤ B := fun y hy => hall y (by simp [hy])
    have hinv : Fit.Inv v B P (P.foldl (ffStep v B) (Bins.new 1)) := by
      simpa using Fit.inv_foldl (ffStep v B) (Fit.ffStep_step v B) P [] (Bins.new 1) hallP (Fit.inv_init v B)
    rw [List.foldl_append, List.foldl_cons, List.foldl_nil]
    exact ffdStrong_step hinv (ih hS1 hallP) (fun a ha => hS2 a ha x (by simp))

/-- the rule survives the removal of a bin -/
theorem FFDStrong.eraseIdx {v : α → Nat} {B : Nat} {Ls : List (List α)} (h : FFDStrong v B Ls) (m : Nat) :
    FFDStrong v B (Ls.eraseIdx m) := by
  constructor
  · intro l hl; exact h.sorted l (List.mem_of_mem_eraseIdx hl)
  · intro i j li lj p hij hli hlj hp
    rw [List.getElem?_eraseIdx] at hli hlj
    by_cases h1 : j < m
    · rw [if_pos h1] at hlj
      rw [if_pos (by omega)] at hli
      exact h.rule i j li lj p hij hli hlj hp
    · rw [if_neg h1] at hlj
      by_cases h2 : i < m
      · rw [if_pos h2] at hli
        exact h.rule i (j + 1) li lj p (by omega) hli hlj hp
      · rw [if_neg h2] at hli
        exact h.rule (i + 1) (j + 1) li lj p (by omega) hli hlj hp

theorem FFDStrong.tail {v : α → Nat} {B : Nat} {l0 : List α} {Ls : List (List α)}
    (h : FFDStrong v B (l0 :: Ls)) : FFDStrong v B Ls := by
  simpa using h.eraseIdx 0

/-- `MaxMin2.FFDInv` also survives the removal of a bin -/
theorem ffdInv_eraseIdx {v : α → Nat} {B : Nat} {Ls : List (List α)} (h : FFDInv v B Ls) (m : Nat) :
    FFDInv v B (Ls.eraseIdx m) := by
  intro i j l p hij hl hp
  rw [List.getElem?_eraseIdx] at hl
  rw [List.getElem?_eraseIdx]
  by_cases h1 : j < m
  · rw [if_pos h1] at hl
    rw [if_pos (by omega)]
    exact h i j l p hij hl hp
  · rw [if_neg h1] at hl
    by_cases h2 : i < m
    · rw [if_pos h2]
      obtain ⟨f, tl, e, a1, a2⟩ := h i (j + 1) l p (by omega) hl hp
      exact ⟨f, tl, e, a1, fun _ => a2 (by omega)⟩
    · rw [if_neg h2]
      obtain ⟨f, tl, e, a1, a2⟩ := h (i + 1) (j + 1) l p (by omega) hl hp
      exact ⟨f, tl, e, a1, fun hlt => a2 (by omega)⟩

theorem binSum_pos_exists {v : α → Nat} : ∀ (l : List α), 0 < binSum v l → ∃ y, y ∈ l := by
  intro l h
  cases l with
  | nil => simp [binSum, sumL] at h
  | cons y t => exact ⟨y, by simp⟩

/-- the full rule implies the structure invariant used by `MaxMin2.ffd_core` (for items `≤ B`) -/
theorem ffdInv_of_strong {v : α → Nat} {B : Nat} {Ls : List (List α)} (h : FFDStrong v B Ls)
    (hB : ∀ p ∈ Ls.flatten, v p ≤ B) : FFDInv v B Ls := by
  intro i j l p hij hl hp
  have hpB : v p ≤ B := hB p (List.mem_flatten.2 ⟨l, List.mem_of_getElem? hl, hp⟩)
  rcases Nat.lt_or_ge i j with hlt | hge
  · have hjlen := (List.getElem?_eq_some_iff.1 hl).1
    have hi : i < Ls.length := by omega
    have hli : Ls[i]? = some Ls[i] := List.getElem?_eq_getElem hi
    have hr := h.rule i j Ls[i] l p hlt hli hl hp
    have hsort := h.sorted Ls[i] (List.getElem_mem hi)
    cases hLi : Ls[i] with
    | nil =>
      rw [hLi] at hr
      simp only [List.filter_nil, binSum, List.map_nil, sumL] at hr
      omega
    | cons f tl =>
      rw [hLi] at hr hsort
      have hf : v p ≤ v f := by
        obtain ⟨y, hy⟩ := binSum_pos_exists (v := v) ((f :: tl).filter (fun y => decide (v p ≤ v y))) (by omega)
        obtain ⟨hy1, hy2⟩ := List.mem_filter.1 hy
        have hy2' : v p ≤ v y := by simpa using hy2
        rcases List.mem_cons.1 hy1 with rfl | hy1
        · exact hy2'
        · exact Nat.le_trans hy2' ((List.pairwise_cons.1 hsort).1 y hy1)
      refine ⟨f, tl, by rw [hli, hLi], hf, fun _ hfp => ?_⟩
      rw [List.filter_cons_of_pos (by simpa using hf)] at hr
      simp only [binSum, List.map_cons, sumL] at hr
      obtain ⟨y, hy⟩ := binSum_pos_exists (v := v) (tl.filter (fun y => decide (v p ≤ v y)))
        (by simp only [binSum]; omega)
      obtain ⟨hy1, hy2⟩ := List.mem_filter.1 hy
      exact ⟨y, hy1, by simpa using hy2⟩
  · have : i = j := by omega
    subst this
    have hsort := h.sorted l (List.mem_of_getElem? hl)
    cases l with
    | nil => simp at hp
    | cons f tl =>
      refine ⟨f, tl, hl, ?_, fun hlt => absurd hlt (Nat.lt_irrefl _)⟩
      rcases List.mem_cons.1 hp with rfl | hp
      · exact Nat.le_refl _
      · exact (List.pairwise_cons.1 hsort).1 p hp

/-! ### Strong counter-examples -/

/-- a counter-example whose bins satisfy the full first-fit-decreasing rule, all items being `≤ B` -/
structure SCE (v : α → Nat) (T B k : Nat) (LL : List (List α)) (a : α) : Prop where
  len : LL.length = k
  strong : FFDStrong v B LL
  leB : ∀ p ∈ LL.flatten, v p ≤ B
  nofit : ∀ l ∈ LL, B < binSum v l + v a
  amin : ∀ p ∈ LL.flatten, v a ≤ v p
  pack : Packable T k ((LL.flatten ++ [a]).map v)

theorem SCE.toCE {v : α → Nat} {T B k : Nat} {LL : List (List α)} {a : α} (h : SCE v T B k LL a) :
    CE v T B k LL a :=
  ⟨h.len, ffdInv_of_strong h.strong h.leB, h.nofit, h.amin, h.pack⟩

/-- a strong counter-example that is moreover tight (all items `≤ T − 2a`) -/
structure STight (v : α → Nat) (T B k : Nat) (LL : List (List α)) (a : α) : Prop extends SCE v T B k LL a where
  top : ∀ p ∈ LL.flatten, v p + 2 * v a ≤ T

theorem STight.toTight {v : α → Nat} {T B k : Nat} {LL : List (List α)} {a : α} (h : STight v T B k LL a) :
    Tight v T B k LL a :=
  ⟨h.toSCE.toCE, h.top⟩

/-- **Reduction to a tight strong counter-example** (`ce_reduce_to_tight` with the full rule) -/
theorem sce_reduce_to_tight {v : α → Nat} {T B : Nat} (hTB : T ≤ B) {a : α} :
    ∀ (k : Nat) (LL : List (List α)), SCE v T B k LL a →
      ∃ k' LL', k' ≤ k ∧ LL' <:+ LL ∧ STight v T B k' LL' a := by
  intro k
  induction k with
  | zero => intro LL h; exact absurd h.toCE.pos (Nat.lt_irrefl _)
  | succ k ih =>
    intro LL h
    obtain ⟨f, tl, LL', rfl, hmax, h1 | h1⟩ := ce_first hTB h.toCE
    · have h' : SCE v T B k LL' a :=
        ⟨h1.len, h.strong.tail, fun p hp => h.leB p (by simp [hp]), h1.nofit, h1.amin, h1.pack⟩
      obtain ⟨k', L2, hk', hsuf, ht⟩ := ih LL' h'
      exact ⟨k', L2, by omega, hsuf.trans (List.suffix_cons _ _), ht⟩
    · exact ⟨k + 1, _, Nat.le_refl _, List.suffix_refl _, h, fun p hp => by have := hmax p hp; omega⟩

section Overflow
variable (v : α → Nat)

/-- **From a failing run to a tight strong counter-example.**  If first-fit-decreasing with capacity `B ≥ T`
    needs more than `k` bins for values that fit into `k` bins of capacity `T`, there are an item `a` of the
    list and bins `LL` (a suffix of the bins of some prefix of the run) forming a tight strong counter-example;
    in particular `a` lies in the band. -/
theorem ffd_overflow_tight {k : Nat} (hk : 0 < k) {T B : Nat} (hTB : T ≤ B) :
    ∀ xs : List α, xs.Pairwise (fun a c => v c ≤ v a) → Packable T k (xs.map v) → (∀ x ∈ xs, v x ≤ B) →
      k < (xs.foldl (ffStep v B) (Bins.new 1)).lists.length →
      ∃ a ∈ xs, ∃ k' LL, k' ≤ k ∧ STight v T B k' LL a := by
  intro xs
  induction xs using Oracle.rev_induction with
  | nil => intro _ _ _ h; simp [Bins.new] at h; omega
  | snoc P x ih =>
    intro hS hp hall hover
    obtain ⟨hS1, _, hS2⟩ := List.pairwise_append.1 hS
    have hpP : Packable T k (P.map v) := by rw [List.map_append] at hp; exact packable_prefix _ hp
    have hallP : ∀ y ∈ P, v y ≤ B := fun y hy => hall y (by simp [hy])
    by_cases hP : k < (P.foldl (ffStep v B) (Bins.new 1)).lists.length
    · obtain ⟨a, ha, r⟩ := ih hS1 hpP hallP hP
      exact ⟨a, by simp [ha], r⟩
    · have hinv : Fit.Inv v B P (P.foldl (ffStep v B) (Bins.new 1)) := by
        simpa using Fit.inv_foldl (ffStep v B) (Fit.ffStep_step v B) P [] (Bins.new 1) hallP (Fit.inv_init v B)
      have hI := ffdStrong_fold P hS1 hallP
      rw [List.foldl_append, List.foldl_cons, List.foldl_nil] at hover
      rcases Fit.ffStep_step v B (P.foldl (ffStep v B) (Bins.new 1)) x with ⟨i, _, _, e⟩ | ⟨hno, e⟩
      · rw [e] at hover; simp at hover; omega
      · rw [e, Fit.addEmpty_add v _ x hinv.len] at hover
        simp only [List.length_append, List.length_cons, List.length_nil] at hover
        have hlen : (P.foldl (ffStep v B) (Bins.new 1)).lists.length = k := by omega
        have hc := hinv.cons
        have hsce : SCE v T B k (P.foldl (ffStep v B) (Bins.new 1)).lists x := by
          refine ⟨hlen, hI, ?_, ?_, ?_, ?_⟩
          · intro p hp'; exact hallP p (hinv.perm.mem_iff.1 hp')
          · intro l hl
            have hmem : binSum v l ∈ (P.foldl (ffStep v B) (Bins.new 1)).sums := by
              rw [hc]; exact List.mem_map_of_mem hl
            have := hno _ hmem
            omega
          · intro p hp'
            exact hS2 p (hinv.perm.mem_iff.1 hp') x (by simp)
          · exact packable_perm ((hinv.perm.append_right [x]).map v).symm hp
        obtain ⟨k', LL', hk', _, ht⟩ := sce_reduce_to_tight hTB k _ hsce
        exact ⟨x, by simp, k', LL', hk', ht⟩

end Overflow

end Prtpy.MultiFit122
