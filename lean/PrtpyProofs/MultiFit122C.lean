/-
  PrtpyProofs.MultiFit122C — continuation of PrtpyProofs.MultiFit122 / MultiFit122B (multifit's `1.22` ratio,
  Coffman, Garey, Johnson 1978).  The unconditional theorem for every `k` is still **open**; this file extends the
  unconditional ranges:

  * `multifit_ratio_122_k11`: **`61/50 + 2^−it` for `k ≤ 11`** (`ffdFits_122_k11`; from `irred_nine_false`,
    `irred_ten_false`, `irred_eleven_false`; also `multifit_ratio_122_k10`, `multifit_ratio_122_k9`);
  * `multifit_ratio_11_9_k11`: `11/9 + 2^−it` for `k ≤ 11` (also `multifit_ratio_11_9_k10`);
  * `multifit_ratio_16_13_k16`: `16/13 + 2^−it` for `k ≤ 16` (also `multifit_ratio_16_13_k14`);
  * `multifit_ratio_6_5_k6`: `6/5 + 2^−it` for `k ≤ 6`;
  all from `irred_count_false`: no irreducible counter-example (bins within the capacity) with 9 bins for
  `B > 61/50·T − 1`, with 10 bins for `B > 11/9·T − 1`, with 13 or 14 bins for `B > 16/13·T − 1`, with 6 bins for
  `B > 6/5·T − 1`.

  The argument is a counting argument on *tiny* values (`x + B + 2a < 2T`) and *big* values (`B + a < x + T`), with
  no case distinction on the shape of the packing: bins of the packing hold 2, 3 or 4 items, bins of the
  `T`-schedule 3 or 4, so `#(bins of two) + #(T-bins of four) = #(bins of four) + 1`.  A bin of two holds two big
  items; a `T`-bin with a big value holds two tiny values, a `T`-bin of four holds four: there are at least
  `4·#(bins of four) + 4` tiny values, one of which may be the failing item.  In the packing tiny items sit in bins
  of four and in bins of three; by the full rule and the window of the levels all items after a bin of three are
  at most its smallest item (this is where `k` is limited), so after the first bin of three with a tiny item
  everything is tiny, and a bin of three tiny items is filled too low: at most `4·#(bins of four) + 2` tiny items
  are packed.

  For `61/50` and `k = 10` (`irred_ten_false`) a bin of three may be followed by a larger item; see the section
  "Ten bins".  For `k = 11` (`irred_eleven_false`) bins of five items are excluded by the window
  instead of the capacity.  What fails for `k = 12`: an `omega` step of the heavy-bin analysis (not investigated
  further; the window for two bins no longer excludes two heavy bins from `k = 13` on).
-/
import Mathlib.Tactic.Linarith
import Mathlib.Tactic.Ring
import Mathlib.Tactic.SplitIfs
import Prtpy
import PrtpyProofs.MultiFit122B
open Prtpy

namespace Prtpy.MultiFit122C
open Prtpy.LPT43 Prtpy.MaxMin Prtpy.MaxMin2 Prtpy.MultiFit122 Prtpy.MultiFit122B

variable {α : Type}

/-- a *big* value: `> B − T + a` -/
def bigV (T B a : Nat) (x : Nat) : Bool := decide (B + a < x + T)

/-! ## Sums over the bins -/

theorem countP_flatten_ge_two {β : Type} (P : β → Bool) : ∀ (L : List (List β)),
    (∀ l ∈ L, l.length = 2 → ∀ x ∈ l, P x = true) →
    2 * L.countP (fun l => decide (l.length = 2)) ≤ L.flatten.countP P := by
  intro L
  induction L with
  | nil => intro _; simp
  | cons l L ih =>
    intro h
    have h2 := ih (fun l' hl' => h l' (List.mem_cons_of_mem _ hl'))
    simp only [List.flatten_cons, List.countP_append, List.countP_cons]
    by_cases hc : l.length = 2
    · have := List.countP_eq_length.2 (h l List.mem_cons_self hc)
      simp [hc, -List.countP_flatten]
      omega
    · simp [hc, -List.countP_flatten]
      omega

theorem countP_flatten_le_four {β : Type} (P : β → Bool) : ∀ (L : List (List β)),
    (∀ l ∈ L, l.countP P ≤ 4 * (if l.length = 4 then 1 else 0)) →
    L.flatten.countP P ≤ 4 * L.countP (fun l => decide (l.length = 4)) := by
  intro L
  induction L with
  | nil => intro _; simp
  | cons l L ih =>
    intro h
    have h2 := ih (fun l' hl' => h l' (List.mem_cons_of_mem _ hl'))
    have h1 := h l List.mem_cons_self
    simp only [List.flatten_cons, List.countP_append, List.countP_cons]
    by_cases hc : l.length = 4
    · rw [if_pos hc] at h1
      simp [hc, -List.countP_flatten]
      omega
    · rw [if_neg hc] at h1
      simp [hc, -List.countP_flatten]
      omega

theorem countP_flatten_opt (big tiny : Nat → Bool) : ∀ (Q : List (List Nat)),
    (∀ O ∈ Q, 2 * O.countP big + 4 * (if O.length = 4 then 1 else 0) ≤ O.countP tiny) →
    2 * Q.flatten.countP big + 4 * Q.countP (fun l => decide (l.length = 4)) ≤ Q.flatten.countP tiny := by
  intro Q
  induction Q with
  | nil => intro _; simp
  | cons O Q ih =>
    intro h
    have h2 := ih (fun l' hl' => h l' (List.mem_cons_of_mem _ hl'))
    have h1 := h O List.mem_cons_self
    simp only [List.flatten_cons, List.countP_append, List.countP_cons]
    by_cases hc : O.length = 4
    · rw [if_pos hc] at h1
      simp [hc, -List.countP_flatten]
      omega
    · rw [if_neg hc] at h1
      simp [hc, -List.countP_flatten]
      omega

theorem count_three_four {β : Type} : ∀ (Ls : List (List β)), (∀ l ∈ Ls, l.length = 3 ∨ l.length = 4) →
    Ls.flatten.length = 3 * Ls.length + Ls.countP (fun l => decide (l.length = 4)) := by
  intro Ls
  induction Ls with
  | nil => intro _; simp
  | cons l Ls ih =>
    intro h
    have h1 := h l List.mem_cons_self
    have h2 := ih (fun l' hl' => h l' (List.mem_cons_of_mem _ hl'))
    simp only [List.flatten_cons, List.length_append, List.length_cons, List.countP_cons]
    rcases h1 with hc | hc <;> simp [hc, -List.length_flatten] <;> omega

/-! ## Nine bins -/

set_option maxHeartbeats 1600000 in
/-- **No irreducible counter-example** (bins within the capacity) with nine bins for a capacity
    `B > 61/50 · T − 1`; likewise with 10 bins for `B > 11/9 · T − 1`, with 13 or 14 bins for `B > 16/13 · T − 1`,
    with 6 bins for `B > 6/5 · T − 1`. -/
theorem irred_count_false {v : α → Nat} {T B k : Nat} (hTB : T ≤ B)
    (hcase : (61 * T < 50 * (B + 1) ∧ k = 9) ∨ (11 * T < 9 * (B + 1) ∧ k = 10) ∨
      (16 * T < 13 * (B + 1) ∧ (k = 13 ∨ k = 14)) ∨ (6 * T < 5 * (B + 1) ∧ k = 6))
    {LL : List (List α)} {a : α} (h : Irred v T B k LL a) (hcap : ∀ l ∈ LL, binSum v l ≤ B) : False := by
  rcases hcase with ⟨hB, rfl⟩ | ⟨hB, rfl⟩ | ⟨hB, rfl | rfl⟩ | ⟨hB, rfl⟩
  all_goals
    have ht := irred_tight hTB h
    have hce := h.1.toCE
    have hvol := ce_volume hce
    have h3a := tight_three_le hTB ht.toTight
    have haT := hce.item_le
    have hband := ce_band hTB hce
    have hwin := fun l (hl : l ∈ LL) => ce_level_window hce hl
    simp only [Nat.add_one_sub_one] at hwin
    have hmin : ∀ l ∈ LL, ∀ p ∈ l, v a ≤ v p :=
      fun l hl p hp => hce.amin p (List.mem_flatten.2 ⟨l, hl, hp⟩)
    have htop : ∀ l ∈ LL, ∀ p ∈ l, v p + 2 * v a ≤ T :=
      fun l hl p hp => ht.top p (List.mem_flatten.2 ⟨l, hl, hp⟩)
    -- the bins of the packing hold 2, 3 or 4 items
    have h24 : ∀ l ∈ LL, 2 ≤ l.length ∧ l.length ≤ 4 := fun l hl =>
      ⟨tight_two hTB ht.toTight l hl, bin_le_four (by omega) (hmin l hl) (hcap l hl)⟩
    have hcLL := count_two_four LL h24
    rw [hce.len] at hcLL
    -- the schedule: bins of 3 or 4 values
    obtain ⟨Q, hQk, hQp, hQ⟩ := packable_partition hce.pack
    have hQ3 := irred_opt_bins hTB h Q hQk hQp hQ
    have hge : ∀ O ∈ Q, ∀ u ∈ O, v a ≤ u := by
      intro O hO u hu
      obtain ⟨p, hp, rfl⟩ := List.mem_map.1 (hQp.mem_iff.1 (List.mem_flatten.2 ⟨O, hO, hu⟩))
      rcases List.mem_append.1 hp with hp | hp
      · exact hce.amin p hp
      · simp only [List.mem_singleton] at hp; subst hp; exact Nat.le_refl _
    have hQ34 : ∀ O ∈ Q, O.length = 3 ∨ O.length = 4 := by
      intro O hO
      have h1 := hQ3 O hO
      have h2 := items_per_bin (c := 4) (hge O hO) (by omega) (hQ O hO)
      omega
    have hcQ := count_three_four Q hQ34
    rw [hQk] at hcQ
    have hlenQ := hQp.length_eq
    simp only [List.length_map, List.length_append, List.length_cons, List.length_nil] at hlenQ
    -- tiny values against big values in the schedule
    have hoptbin : ∀ O ∈ Q, 2 * O.countP (bigV T B (v a)) + 4 * (if O.length = 4 then 1 else 0) ≤
        O.countP (tinyV T B (v a)) := by
      intro O hO
      have hs := hQ O hO
      have hg := hge O hO
      rcases hQ34 O hO with h3 | h4
      · match O, h3, hs, hg with
        | [x, y, z], _, hs, hg =>
          have := hg x (by simp)
          have := hg y (by simp)
          have := hg z (by simp)
          simp only [sumL] at hs
          simp only [List.countP_cons, List.countP_nil, bigV, tinyV, decide_eq_true_eq, List.length_cons,
            List.length_nil]
          split_ifs <;> omega
      · match O, h4, hs, hg with
        | [x, y, z, u], _, hs, hg =>
          have := hg x (by simp)
          have := hg y (by simp)
          have := hg z (by simp)
          have := hg u (by simp)
          simp only [sumL] at hs
          have tx : tinyV T B (v a) x = true := by simp only [tinyV, decide_eq_true_eq]; omega
          have ty : tinyV T B (v a) y = true := by simp only [tinyV, decide_eq_true_eq]; omega
          have tz : tinyV T B (v a) z = true := by simp only [tinyV, decide_eq_true_eq]; omega
          have tu : tinyV T B (v a) u = true := by simp only [tinyV, decide_eq_true_eq]; omega
          have bx : bigV T B (v a) x = false := by simp only [bigV, decide_eq_false_iff_not]; omega
          have by' : bigV T B (v a) y = false := by simp only [bigV, decide_eq_false_iff_not]; omega
          have bz : bigV T B (v a) z = false := by simp only [bigV, decide_eq_false_iff_not]; omega
          have bu : bigV T B (v a) u = false := by simp only [bigV, decide_eq_false_iff_not]; omega
          simp [tx, ty, tz, tu, bx, by', bz, bu]
    have hopt := countP_flatten_opt (bigV T B (v a)) (tinyV T B (v a)) Q hoptbin
    -- big items in the packing
    have hbigLL := countP_flatten_ge_two (fun x => bigV T B (v a) (v x)) LL (by
      intro l hl h2 p hp
      match l, h2, hl, hp with
      | [x, y], _, hl, hp =>
        obtain ⟨bx, by'⟩ := tight_pair_big ht.toTight hl
        simp only [List.mem_cons, List.not_mem_nil, or_false] at hp
        simp only [bigV, decide_eq_true_eq]
        rcases hp with rfl | rfl
        · exact bx
        · exact by')
    have hbigAll : LL.flatten.countP (fun x => bigV T B (v a) (v x)) ≤ Q.flatten.countP (bigV T B (v a)) := by
      rw [hQp.countP_eq, List.map_append, List.countP_append, List.countP_map]
      exact Nat.le_add_right _ _
    have htinyAll : Q.flatten.countP (tinyV T B (v a)) ≤
        LL.flatten.countP (fun x => tinyV T B (v a) (v x)) + 1 := by
      rw [hQp.countP_eq, List.map_append, List.countP_append, List.countP_map]
      have e2' : ([a].map v).countP (tinyV T B (v a)) ≤ 1 := by
        have := List.countP_le_length (p := tinyV T B (v a)) (l := [a].map v)
        simpa using this
      have e3' : LL.flatten.countP (tinyV T B (v a) ∘ v) =
          LL.flatten.countP (fun x => tinyV T B (v a) (v x)) := rfl
      omega
    -- a bin of three tiny items is filled too low
    have hbeta : ∀ x y z : α, [x, y, z] ∈ LL →
        ¬ (v x + B + 2 * v a < 2 * T ∧ v y + B + 2 * v a < 2 * T ∧ v z + B + 2 * v a < 2 * T) := by
      intro x y z hl ⟨t1, t2, t3⟩
      have hnf := hce.nofit _ hl
      simp only [binSum, List.map_cons, List.map_nil, sumL] at hnf
      omega
    -- all items after a bin of three are at most its smallest item
    have halpha : ∀ (j : Nat) (hh s w : α), LL[j]? = some [hh, s, w] → v s ≤ v hh ∧ v w ≤ v s ∧
        ∀ (i : Nat) (l : List α) (q : α), j < i → LL[i]? = some l → q ∈ l → v q ≤ v w := by
      intro j hh s w hl1
      have hl1mem := List.mem_of_getElem? hl1
      have hsort := ht.strong.sorted _ hl1mem
      have hs1 : v s ≤ v hh := (List.pairwise_cons.1 hsort).1 s (by simp)
      have hs2 : v w ≤ v s := (List.pairwise_cons.1 (List.pairwise_cons.1 hsort).2).1 w (by simp)
      refine ⟨hs1, hs2, ?_⟩
      intro i l q hij hli hq
      have hwin1 := hwin _ hl1mem
      simp only [binSum, List.map_cons, List.map_nil, sumL] at hwin1
      have hwa := hmin _ hl1mem w (by simp)
      have hh1 := htop _ hl1mem hh (by simp)
      have hq1 := htop l (List.mem_of_getElem? hli) q hq
      apply Nat.le_of_not_lt
      intro hlt
      have hr := ht.strong.rule j i [hh, s, w] l q hij hl1 hli hq
      have hnw : ¬ v q ≤ v w := by omega
      by_cases c1 : v q ≤ v hh <;> by_cases c2 : v q ≤ v s <;>
        simp [c1, c2, hnw, binSum, sumL] at hr <;> omega
    -- at most `4·#(bins of four) + 2` tiny items are packed
    have hpacked : LL.flatten.countP (fun x => tinyV T B (v a) (v x)) ≤
        4 * LL.countP (fun l => decide (l.length = 4)) + 2 := by
      -- the bound for a bin that is not the first bin of three with a tiny item
      have hfour : ∀ l : List α, l.length = 4 →
          l.countP (fun x => tinyV T B (v a) (v x)) ≤ 4 * (if l.length = 4 then 1 else 0) := by
        intro l h4
        have := List.countP_le_length (p := fun x => tinyV T B (v a) (v x)) (l := l)
        rw [if_pos h4]; omega
      have htwo : ∀ l ∈ LL, l.length = 2 →
          l.countP (fun x => tinyV T B (v a) (v x)) ≤ 4 * (if l.length = 4 then 1 else 0) := by
        intro l hl h2
        have : l.countP (fun x => tinyV T B (v a) (v x)) = 0 := by
          rw [List.countP_eq_zero]
          intro p hp
          match l, h2, hl, hp with
          | [x, y], _, hl, hp =>
            obtain ⟨bx, by'⟩ := tight_pair_big ht.toTight hl
            simp only [List.mem_cons, List.not_mem_nil, or_false] at hp
            simp only [tinyV, decide_eq_true_eq]
            rcases hp with rfl | rfl <;> omega
        omega
      by_cases hex : ∃ (j : Nat) (l : List α) (p : α), LL[j]? = some l ∧ l.length = 3 ∧ p ∈ l ∧
          v p + B + 2 * v a < 2 * T
      · obtain ⟨j0, hj0⟩ := hex
        obtain ⟨j, ⟨l1, p, hl1, hl1len, hpl, hpt⟩, hleast⟩ :=
          exists_least (P := fun (j : Nat) => ∃ (l : List α) (p : α), LL[j]? = some l ∧ l.length = 3 ∧ p ∈ l ∧
            v p + B + 2 * v a < 2 * T) j0 hj0
        match l1, hl1len, hl1, hpl with
        | [hh, s, w], _, hl1, hpl =>
        obtain ⟨hs1, hs2, hal⟩ := halpha j hh s w hl1
        have hwt : v w + B + 2 * v a < 2 * T := by
          simp only [List.mem_cons, List.not_mem_nil, or_false] at hpl
          rcases hpl with rfl | rfl | rfl <;> omega
        have hj : j < LL.length := (List.getElem?_eq_some_iff.1 hl1).1
        have hLj : LL[j] = [hh, s, w] := (List.getElem?_eq_some_iff.1 hl1).2
        have hother : ∀ l ∈ LL.eraseIdx j,
            l.countP (fun x => tinyV T B (v a) (v x)) ≤ 4 * (if l.length = 4 then 1 else 0) := by
          intro l hl
          obtain ⟨i, hij, hli⟩ := List.mem_eraseIdx_iff_getElem?.1 hl
          have hlm := List.mem_of_getElem? hli
          have hlen := h24 l hlm
          have hc : l.length = 2 ∨ l.length = 3 ∨ l.length = 4 := by omega
          rcases hc with h2 | h3 | h4
          · exact htwo l hlm h2
          · rcases Nat.lt_or_ge i j with hlt | hge'
            · have : l.countP (fun x => tinyV T B (v a) (v x)) = 0 := by
                rw [List.countP_eq_zero]
                intro q hq
                simp only [tinyV, decide_eq_true_eq]
                intro hqt
                exact hleast i hlt ⟨l, q, hli, h3, hq, hqt⟩
              omega
            · exfalso
              have hji : j < i := by omega
              match l, h3, hli, hlm with
              | [x, y, z], _, hli, hlm =>
                have := hal i _ x hji hli (by simp)
                have := hal i _ y hji hli (by simp)
                have := hal i _ z hji hli (by simp)
                exact hbeta x y z hlm ⟨by omega, by omega, by omega⟩
          · exact hfour l h4
        have p1 := flatten_perm_getElem_eraseIdx LL j hj
        rw [p1.countP_eq, List.countP_append, hLj]
        have c1 := countP_flatten_le_four (fun x => tinyV T B (v a) (v x)) (LL.eraseIdx j) hother
        have c2 : (LL.eraseIdx j).countP (fun l => decide (l.length = 4)) ≤
            LL.countP (fun l => decide (l.length = 4)) := (List.eraseIdx_sublist LL j).countP_le
        have c3 : [hh, s, w].countP (fun x => tinyV T B (v a) (v x)) ≤ 2 := by
          apply Nat.le_of_not_lt
          intro h3'
          have hle := List.countP_le_length (p := fun x => tinyV T B (v a) (v x)) (l := [hh, s, w])
          simp only [List.length_cons, List.length_nil] at hle
          have heq : [hh, s, w].countP (fun x => tinyV T B (v a) (v x)) = [hh, s, w].length := by
            simp only [List.length_cons, List.length_nil]; omega
          have hall := List.countP_eq_length.1 heq
          have t1 := hall hh (by simp)
          have t2 := hall s (by simp)
          have t3 := hall w (by simp)
          simp only [tinyV, decide_eq_true_eq] at t1 t2 t3
          exact hbeta hh s w (List.mem_of_getElem? hl1) ⟨t1, t2, t3⟩
        omega
      · have hallb : ∀ l ∈ LL,
            l.countP (fun x => tinyV T B (v a) (v x)) ≤ 4 * (if l.length = 4 then 1 else 0) := by
          intro l hl
          have hlen := h24 l hl
          have hc : l.length = 2 ∨ l.length = 3 ∨ l.length = 4 := by omega
          rcases hc with h2 | h3 | h4
          · exact htwo l hl h2
          · have : l.countP (fun x => tinyV T B (v a) (v x)) = 0 := by
              rw [List.countP_eq_zero]
              intro q hq
              simp only [tinyV, decide_eq_true_eq]
              intro hqt
              obtain ⟨i, hi, rfl⟩ := List.mem_iff_getElem.1 hl
              exact hex ⟨i, _, q, List.getElem?_eq_getElem hi, h3, hq, hqt⟩
            omega
          · exact hfour l h4
        have := countP_flatten_le_four (fun x => tinyV T B (v a) (v x)) LL hallb
        omega
    omega

theorem irred_nine_false {v : α → Nat} {T B : Nat} (hTB : T ≤ B) (hB : 61 * T < 50 * (B + 1))
    {LL : List (List α)} {a : α} (h : Irred v T B 9 LL a) (hcap : ∀ l ∈ LL, binSum v l ≤ B) : False :=
  irred_count_false hTB (Or.inl ⟨hB, rfl⟩) h hcap

/-! ## Ten bins

For ten bins a bin of three `(h, s, w)` may be *heavy*: followed by an item `q > w`; then `h + s + q > B`, `q ≤ s`.
By the window for two bins at most one bin of three is heavy.  If the first bin of three with a tiny item is
heavy, it holds one tiny item; the next bin of three with a tiny item `(x, y, t)` is not heavy and holds only one,
since otherwise `x` would not have been put behind `h, s`: again at most `4·#(bins of four) + 2` tiny items. -/

/-- the window for two bins -/
theorem ce_level_window2 {v : α → Nat} {T B k : Nat} {LL : List (List α)} {a : α} (h : CE v T B k LL a)
    {i j : Nat} (hij : i < j) {l l' : List α} (hl : LL[i]? = some l) (hl' : LL[j]? = some l') :
    binSum v l + binSum v l' + (k - 2) * (B + 1) + v a ≤ k * T + (k - 2) * v a := by
  obtain ⟨hj, rfl⟩ := List.getElem?_eq_some_iff.1 hl'
  have p1 := flatten_perm_getElem_eraseIdx LL j hj
  have hi' : i < (LL.eraseIdx j).length := by rw [List.length_eraseIdx, if_pos hj]; omega
  have hLi : (LL.eraseIdx j)[i]? = some l := by rw [List.getElem?_eraseIdx, if_pos hij]; exact hl
  obtain ⟨_, e⟩ := List.getElem?_eq_some_iff.1 hLi
  have p2 := flatten_perm_getElem_eraseIdx (LL.eraseIdx j) i hi'
  rw [e] at p2
  have hlenR : ((LL.eraseIdx j).eraseIdx i).length = k - 2 := by
    rw [List.length_eraseIdx, if_pos hi', List.length_eraseIdx, if_pos hj, h.len]; omega
  have h1 : ∀ x ∈ ((LL.eraseIdx j).eraseIdx i).map (binSum v), B + 1 ≤ x + v a := by
    intro x hx
    obtain ⟨l0, hl0, rfl⟩ := List.mem_map.1 hx
    have := h.nofit l0 (List.mem_of_mem_eraseIdx (List.mem_of_mem_eraseIdx hl0))
    omega
  have h2 := Part.length_mul_le_sumL _ (B + 1) (v a) h1
  rw [Fit.sumL_map_binSum] at h2
  simp only [List.length_map, hlenR] at h2
  have h3 := packable_sum h.pack
  rw [List.map_append, Part.sumL_append] at h3
  simp only [List.map_cons, List.map_nil, sumL] at h3
  have e1 : sumL (LL.flatten.map v) = binSum v LL[j] + (binSum v l + binSum v ((LL.eraseIdx j).eraseIdx i).flatten) := by
    have q1 : sumL (LL.flatten.map v) = sumL ((LL[j] ++ (LL.eraseIdx j).flatten).map v) := Part.sumL_perm (p1.map v)
    have q2 : sumL ((LL.eraseIdx j).flatten.map v) =
        sumL ((l ++ ((LL.eraseIdx j).eraseIdx i).flatten).map v) := Part.sumL_perm (p2.map v)
    rw [q1, List.map_append, Part.sumL_append, q2, List.map_append, Part.sumL_append]
    rfl
  omega

set_option maxHeartbeats 1600000 in
/-- **No irreducible counter-example with ten bins** for a capacity `B > 61/50 · T − 1` (bins within the
    capacity). -/
theorem irred_ten_false {v : α → Nat} {T B : Nat} (hTB : T ≤ B) (hB : 61 * T < 50 * (B + 1))
    {LL : List (List α)} {a : α} (h : Irred v T B 10 LL a) (hcap : ∀ l ∈ LL, binSum v l ≤ B) : False := by
  have ht := irred_tight hTB h
  have hce := h.1.toCE
  have hvol := ce_volume hce
  have h3a := tight_three_le hTB ht.toTight
  have haT := hce.item_le
  have hband := ce_band hTB hce
  have hwin := fun l (hl : l ∈ LL) => ce_level_window hce hl
  simp only [Nat.add_one_sub_one] at hwin
  have hmin : ∀ l ∈ LL, ∀ p ∈ l, v a ≤ v p :=
    fun l hl p hp => hce.amin p (List.mem_flatten.2 ⟨l, hl, hp⟩)
  have htop : ∀ l ∈ LL, ∀ p ∈ l, v p + 2 * v a ≤ T :=
    fun l hl p hp => ht.top p (List.mem_flatten.2 ⟨l, hl, hp⟩)
  -- the bins of the packing hold 2, 3 or 4 items
  have h24 : ∀ l ∈ LL, 2 ≤ l.length ∧ l.length ≤ 4 := fun l hl =>
    ⟨tight_two hTB ht.toTight l hl, bin_le_four (by omega) (hmin l hl) (hcap l hl)⟩
  have hcLL := count_two_four LL h24
  rw [hce.len] at hcLL
  -- the schedule: bins of 3 or 4 values
  obtain ⟨Q, hQk, hQp, hQ⟩ := packable_partition hce.pack
  have hQ3 := irred_opt_bins hTB h Q hQk hQp hQ
  have hge : ∀ O ∈ Q, ∀ u ∈ O, v a ≤ u := by
    intro O hO u hu
    obtain ⟨p, hp, rfl⟩ := List.mem_map.1 (hQp.mem_iff.1 (List.mem_flatten.2 ⟨O, hO, hu⟩))
    rcases List.mem_append.1 hp with hp | hp
    · exact hce.amin p hp
    · simp only [List.mem_singleton] at hp; subst hp; exact Nat.le_refl _
  have hQ34 : ∀ O ∈ Q, O.length = 3 ∨ O.length = 4 := by
    intro O hO
    have h1 := hQ3 O hO
    have h2 := items_per_bin (c := 4) (hge O hO) (by omega) (hQ O hO)
    omega
  have hcQ := count_three_four Q hQ34
  rw [hQk] at hcQ
  have hlenQ := hQp.length_eq
  simp only [List.length_map, List.length_append, List.length_cons, List.length_nil] at hlenQ
  -- tiny values against big values in the schedule
  have hoptbin : ∀ O ∈ Q, 2 * O.countP (bigV T B (v a)) + 4 * (if O.length = 4 then 1 else 0) ≤
      O.countP (tinyV T B (v a)) := by
    intro O hO
    have hs := hQ O hO
    have hg := hge O hO
    rcases hQ34 O hO with h3 | h4
    · match O, h3, hs, hg with
      | [x, y, z], _, hs, hg =>
        have := hg x (by simp)
        have := hg y (by simp)
        have := hg z (by simp)
        simp only [sumL] at hs
        simp only [List.countP_cons, List.countP_nil, bigV, tinyV, decide_eq_true_eq, List.length_cons,
          List.length_nil]
        split_ifs <;> omega
    · match O, h4, hs, hg with
      | [x, y, z, u], _, hs, hg =>
        have := hg x (by simp)
        have := hg y (by simp)
        have := hg z (by simp)
        have := hg u (by simp)
        simp only [sumL] at hs
        have tx : tinyV T B (v a) x = true := by simp only [tinyV, decide_eq_true_eq]; omega
        have ty : tinyV T B (v a) y = true := by simp only [tinyV, decide_eq_true_eq]; omega
        have tz : tinyV T B (v a) z = true := by simp only [tinyV, decide_eq_true_eq]; omega
        have tu : tinyV T B (v a) u = true := by simp only [tinyV, decide_eq_true_eq]; omega
        have bx : bigV T B (v a) x = false := by simp only [bigV, decide_eq_false_iff_not]; omega
        have by' : bigV T B (v a) y = false := by simp only [bigV, decide_eq_false_iff_not]; omega
        have bz : bigV T B (v a) z = false := by simp only [bigV, decide_eq_false_iff_not]; omega
        have bu : bigV T B (v a) u = false := by simp only [bigV, decide_eq_false_iff_not]; omega
        simp [tx, ty, tz, tu, bx, by', bz, bu]
  have hopt := countP_flatten_opt (bigV T B (v a)) (tinyV T B (v a)) Q hoptbin
  -- big items in the packing
  have hbigLL := countP_flatten_ge_two (fun x => bigV T B (v a) (v x)) LL (by
    intro l hl h2 p hp
    match l, h2, hl, hp with
    | [x, y], _, hl, hp =>
      obtain ⟨bx, by'⟩ := tight_pair_big ht.toTight hl
      simp only [List.mem_cons, List.not_mem_nil, or_false] at hp
      simp only [bigV, decide_eq_true_eq]
      rcases hp with rfl | rfl
      · exact bx
      · exact by')
  have hbigAll : LL.flatten.countP (fun x => bigV T B (v a) (v x)) ≤ Q.flatten.countP (bigV T B (v a)) := by
    rw [hQp.countP_eq, List.map_append, List.countP_append, List.countP_map]
    exact Nat.le_add_right _ _
  have htinyAll : Q.flatten.countP (tinyV T B (v a)) ≤
      LL.flatten.countP (fun x => tinyV T B (v a) (v x)) + 1 := by
    rw [hQp.countP_eq, List.map_append, List.countP_append, List.countP_map]
    have e2' : ([a].map v).countP (tinyV T B (v a)) ≤ 1 := by
      have := List.countP_le_length (p := tinyV T B (v a)) (l := [a].map v)
      simpa using this
    have e3' : LL.flatten.countP (tinyV T B (v a) ∘ v) =
        LL.flatten.countP (fun x => tinyV T B (v a) (v x)) := rfl
    omega
  -- a bin of three tiny items is filled too low
  have hbeta : ∀ x y z : α, [x, y, z] ∈ LL →
      ¬ (v x + B + 2 * v a < 2 * T ∧ v y + B + 2 * v a < 2 * T ∧ v z + B + 2 * v a < 2 * T) := by
    intro x y z hl ⟨t1, t2, t3⟩
    have hnf := hce.nofit _ hl
    simp only [binSum, List.map_cons, List.map_nil, sumL] at hnf
    omega
  -- an item after a bin of three is at most its smallest item, or the bin is heavy
  have halpha2 : ∀ (j : Nat) (hh s w : α), LL[j]? = some [hh, s, w] → v s ≤ v hh ∧ v w ≤ v s ∧
      ∀ (i : Nat) (l : List α) (q : α), j < i → LL[i]? = some l → q ∈ l →
        v q ≤ v w ∨ (B < v hh + v s + v q ∧ v q ≤ v s) := by
    intro j hh s w hl1
    have hl1mem := List.mem_of_getElem? hl1
    have hsort := ht.strong.sorted _ hl1mem
    have hs1 : v s ≤ v hh := (List.pairwise_cons.1 hsort).1 s (by simp)
    have hs2 : v w ≤ v s := (List.pairwise_cons.1 (List.pairwise_cons.1 hsort).2).1 w (by simp)
    refine ⟨hs1, hs2, ?_⟩
    intro i l q hij hli hq
    have hh1 := htop _ hl1mem hh (by simp)
    have hq1 := htop l (List.mem_of_getElem? hli) q hq
    by_cases hlt : v q ≤ v w
    · exact Or.inl hlt
    · right
      have hr := ht.strong.rule j i [hh, s, w] l q hij hl1 hli hq
      by_cases c1 : v q ≤ v hh <;> by_cases c2 : v q ≤ v s <;>
        simp [c1, c2, hlt, binSum, sumL] at hr <;> omega
  -- at most `4·#(bins of four) + 2` tiny items are packed
  have hpacked : LL.flatten.countP (fun x => tinyV T B (v a) (v x)) ≤
      4 * LL.countP (fun l => decide (l.length = 4)) + 2 := by
    -- the bound for a bin that is not the first bin of three with a tiny item
    have hfour : ∀ l : List α, l.length = 4 →
        l.countP (fun x => tinyV T B (v a) (v x)) ≤ 4 * (if l.length = 4 then 1 else 0) := by
      intro l h4
      have := List.countP_le_length (p := fun x => tinyV T B (v a) (v x)) (l := l)
      rw [if_pos h4]; omega
    have htwo : ∀ l ∈ LL, l.length = 2 →
        l.countP (fun x => tinyV T B (v a) (v x)) ≤ 4 * (if l.length = 4 then 1 else 0) := by
      intro l hl h2
      have : l.countP (fun x => tinyV T B (v a) (v x)) = 0 := by
        rw [List.countP_eq_zero]
        intro p hp
        match l, h2, hl, hp with
        | [x, y], _, hl, hp =>
          obtain ⟨bx, by'⟩ := tight_pair_big ht.toTight hl
          simp only [List.mem_cons, List.not_mem_nil, or_false] at hp
          simp only [tinyV, decide_eq_true_eq]
          rcases hp with rfl | rfl <;> omega
      omega
    by_cases hex : ∃ (j : Nat) (l : List α) (p : α), LL[j]? = some l ∧ l.length = 3 ∧ p ∈ l ∧
        v p + B + 2 * v a < 2 * T
    · obtain ⟨j0, hj0⟩ := hex
      obtain ⟨j, ⟨l1, p, hl1, hl1len, hpl, hpt⟩, hleast⟩ :=
        exists_least (P := fun (j : Nat) => ∃ (l : List α) (p : α), LL[j]? = some l ∧ l.length = 3 ∧ p ∈ l ∧
          v p + B + 2 * v a < 2 * T) j0 hj0
      match l1, hl1len, hl1, hpl with
      | [hh, s, w], _, hl1, hpl =>
      obtain ⟨hs1, hs2, hal2⟩ := halpha2 j hh s w hl1
      have hwt : v w + B + 2 * v a < 2 * T := by
        simp only [List.mem_cons, List.not_mem_nil, or_false] at hpl
        rcases hpl with rfl | rfl | rfl <;> omega
      have hj : j < LL.length := (List.getElem?_eq_some_iff.1 hl1).1
      have hLj : LL[j] = [hh, s, w] := (List.getElem?_eq_some_iff.1 hl1).2
      have hjmem := List.mem_of_getElem? hl1
      have hwinj := hwin _ hjmem
      simp only [binSum, List.map_cons, List.map_nil, sumL] at hwinj
      have hwa := hmin _ hjmem w (by simp)
      have hh1 := htop _ hjmem hh (by simp)
      have c3 : [hh, s, w].countP (fun x => tinyV T B (v a) (v x)) ≤ 2 := by
        apply Nat.le_of_not_lt
        intro h3'
        have hle := List.countP_le_length (p := fun x => tinyV T B (v a) (v x)) (l := [hh, s, w])
        simp only [List.length_cons, List.length_nil] at hle
        have heq : [hh, s, w].countP (fun x => tinyV T B (v a) (v x)) = [hh, s, w].length := by
          simp only [List.length_cons, List.length_nil]; omega
        have hall := List.countP_eq_length.1 heq
        have t1 := hall hh (by simp)
        have t2 := hall s (by simp)
        have t3 := hall w (by simp)
        simp only [tinyV, decide_eq_true_eq] at t1 t2 t3
        exact hbeta hh s w hjmem ⟨t1, t2, t3⟩
      -- the bound for the bins that are neither `j` nor (later) `j'`
      have hbnd : ∀ (jj : Nat), j ≤ jj →
          (∀ (i : Nat) (l : List α), j < i → i < jj → LL[i]? = some l → l.length = 3 →
            ∀ q ∈ l, ¬ (v q + B + 2 * v a < 2 * T)) →
          (∀ (i : Nat) (l : List α), jj < i → LL[i]? = some l → l.length = 3 →
            l.countP (fun x => tinyV T B (v a) (v x)) = 0) →
          ∀ (i0 : Nat) (l : List α), LL[i0]? = some l → i0 ≠ j → i0 ≠ jj →
            l.countP (fun x => tinyV T B (v a) (v x)) ≤ 4 * (if l.length = 4 then 1 else 0) := by
        intro jj hjj hmid hafter i0 l hli hne1 hne2
        have hlm := List.mem_of_getElem? hli
        have hlen := h24 l hlm
        have hc : l.length = 2 ∨ l.length = 3 ∨ l.length = 4 := by omega
        rcases hc with h2 | h3 | h4
        · exact htwo l hlm h2
        · have : l.countP (fun x => tinyV T B (v a) (v x)) = 0 := by
            rcases Nat.lt_or_ge i0 j with hlt | hge'
            · rw [List.countP_eq_zero]
              intro q hq
              simp only [tinyV, decide_eq_true_eq]
              intro hqt
              exact hleast i0 hlt ⟨l, q, hli, h3, hq, hqt⟩
            · rcases Nat.lt_or_ge i0 jj with hlt2 | hge2
              · rw [List.countP_eq_zero]
                intro q hq
                simp only [tinyV, decide_eq_true_eq]
                exact hmid i0 l (by omega) hlt2 hli h3 q hq
              · exact hafter i0 l (by omega) hli h3
          omega
        · exact hfour l h4
      by_cases hA : ∀ (i : Nat) (l : List α) (q : α), j < i → LL[i]? = some l → q ∈ l → v q ≤ v w
      · -- everything after bin `j` is tiny
        have hother : ∀ l ∈ LL.eraseIdx j,
            l.countP (fun x => tinyV T B (v a) (v x)) ≤ 4 * (if l.length = 4 then 1 else 0) := by
          intro l hl
          obtain ⟨i, hij, hli⟩ := List.mem_eraseIdx_iff_getElem?.1 hl
          refine hbnd j (Nat.le_refl _) (fun i l h1 h2 => by omega) ?_ i l hli hij hij
          intro i l hji hli h3
          exfalso
          have hlm := List.mem_of_getElem? hli
          match l, h3, hli, hlm with
          | [x, y, z], _, hli, hlm =>
            have := hA i _ x hji hli (by simp)
            have := hA i _ y hji hli (by simp)
            have := hA i _ z hji hli (by simp)
            exact hbeta x y z hlm ⟨by omega, by omega, by omega⟩
        have p1 := flatten_perm_getElem_eraseIdx LL j hj
        rw [p1.countP_eq, List.countP_append, hLj]
        have c1 := countP_flatten_le_four (fun x => tinyV T B (v a) (v x)) (LL.eraseIdx j) hother
        have c2 : (LL.eraseIdx j).countP (fun l => decide (l.length = 4)) ≤
            LL.countP (fun l => decide (l.length = 4)) := (List.eraseIdx_sublist LL j).countP_le
        omega
      · -- bin `j` is heavy: a later item is larger than `w`
        have hviol : ∃ q : α, B < v hh + v s + v q ∧ v q ≤ v s := by
          apply Classical.byContradiction
          intro hno
          apply hA
          intro i l q hji hli hq
          rcases hal2 i l q hji hli hq with h1 | h1
          · exact h1
          · exact absurd ⟨q, h1⟩ hno
        obtain ⟨q0, hq01, hq02⟩ := hviol
        have c3' : [hh, s, w].countP (fun x => tinyV T B (v a) (v x)) ≤ 1 := by
          have t1 : tinyV T B (v a) (v hh) = false := by
            simp only [tinyV, decide_eq_false_iff_not]; omega
          have t2 : tinyV T B (v a) (v s) = false := by
            simp only [tinyV, decide_eq_false_iff_not]; omega
          have e : [hh, s, w].countP (fun x => tinyV T B (v a) (v x)) =
              [w].countP (fun x => tinyV T B (v a) (v x)) := by
            simp [List.countP_cons, t1, t2]
          have := List.countP_le_length (p := fun x => tinyV T B (v a) (v x)) (l := [w])
          simp only [List.length_cons, List.length_nil] at this
          omega
        by_cases hex2 : ∃ (j' : Nat) (l : List α) (p : α), j < j' ∧ LL[j']? = some l ∧ l.length = 3 ∧ p ∈ l ∧
            v p + B + 2 * v a < 2 * T
        · obtain ⟨j0', hj0'⟩ := hex2
          obtain ⟨j', ⟨l2, p2, hjj', hl2, hl2len, hp2l, hp2t⟩, hleast2⟩ :=
            exists_least (P := fun (j' : Nat) => ∃ (l : List α) (p : α), j < j' ∧ LL[j']? = some l ∧
              l.length = 3 ∧ p ∈ l ∧ v p + B + 2 * v a < 2 * T) j0' hj0'
          match l2, hl2len, hl2, hp2l with
          | [x, y, t], _, hl2, hp2l =>
          obtain ⟨hx1, hx2, hal2'⟩ := halpha2 j' x y t hl2
          have htt : v t + B + 2 * v a < 2 * T := by
            simp only [List.mem_cons, List.not_mem_nil, or_false] at hp2l
            rcases hp2l with rfl | rfl | rfl <;> omega
          have hj' : j' < LL.length := (List.getElem?_eq_some_iff.1 hl2).1
          have hLj' : LL[j'] = [x, y, t] := (List.getElem?_eq_some_iff.1 hl2).2
          have hl2mem := List.mem_of_getElem? hl2
          have hwin2 := ce_level_window2 hce hjj' hl1 hl2
          simp only [binSum, List.map_cons, List.map_nil, sumL] at hwin2
          have hta := hmin _ hl2mem t (by simp)
          have hnf2 := hce.nofit _ hl2mem
          simp only [binSum, List.map_cons, List.map_nil, sumL] at hnf2
          -- everything after bin `j'` is tiny
          have hB' : ∀ (i : Nat) (l : List α) (q : α), j' < i → LL[i]? = some l → q ∈ l → v q ≤ v t := by
            intro i l q hji hli hq
            rcases hal2' i l q hji hli hq with h1 | ⟨h1, h2⟩
            · exact h1
            · exfalso; omega
          -- `y` is not tiny
          have hy : ¬ (v y + B + 2 * v a < 2 * T) := by
            intro hyt
            rcases hal2 j' _ x hjj' hl2 (by simp) with h1 | ⟨h1, h2⟩
            · exact hbeta x y t hl2mem ⟨by omega, hyt, htt⟩
            · omega
          have c4 : [x, y, t].countP (fun x => tinyV T B (v a) (v x)) ≤ 1 := by
            have t1 : tinyV T B (v a) (v x) = false := by
              simp only [tinyV, decide_eq_false_iff_not]; omega
            have t2 : tinyV T B (v a) (v y) = false := by
              simp only [tinyV, decide_eq_false_iff_not]; omega
            have e : [x, y, t].countP (fun x => tinyV T B (v a) (v x)) =
                [t].countP (fun x => tinyV T B (v a) (v x)) := by
              simp [List.countP_cons, t1, t2]
            have := List.countP_le_length (p := fun x => tinyV T B (v a) (v x)) (l := [t])
            simp only [List.length_cons, List.length_nil] at this
            omega
          have hb2 := hbnd j' (by omega)
            (fun i l h1 h2 hli h3 q hq hqt => hleast2 i h2 ⟨l, q, h1, hli, h3, hq, hqt⟩)
            (by
              intro i l hji hli h3
              exfalso
              have hlm := List.mem_of_getElem? hli
              match l, h3, hli, hlm with
              | [x', y', z'], _, hli, hlm =>
                have := hB' i _ x' hji hli (by simp)
                have := hB' i _ y' hji hli (by simp)
                have := hB' i _ z' hji hli (by simp)
                exact hbeta x' y' z' hlm ⟨by omega, by omega, by omega⟩)
          -- split off bin `j'`, then bin `j`
          have p1 := flatten_perm_getElem_eraseIdx LL j' hj'
          have hjL' : j < (LL.eraseIdx j').length := by
            rw [List.length_eraseIdx, if_pos hj']; omega
          have hL'j : (LL.eraseIdx j')[j]? = some [hh, s, w] := by
            rw [List.getElem?_eraseIdx, if_pos hjj']; exact hl1
          have hL'j' : (LL.eraseIdx j')[j] = [hh, s, w] := (List.getElem?_eq_some_iff.1 hL'j).2
          have p2 := flatten_perm_getElem_eraseIdx (LL.eraseIdx j') j hjL'
          have hother : ∀ l ∈ (LL.eraseIdx j').eraseIdx j,
              l.countP (fun x => tinyV T B (v a) (v x)) ≤ 4 * (if l.length = 4 then 1 else 0) := by
            intro l hl
            obtain ⟨i, hij, hli⟩ := List.mem_eraseIdx_iff_getElem?.1 hl
            rw [List.getElem?_eraseIdx] at hli
            by_cases hi : i < j'
            · rw [if_pos hi] at hli
              exact hb2 i l hli hij (by omega)
            · rw [if_neg hi] at hli
              exact hb2 (i + 1) l hli (by omega) (by omega)
          rw [p1.countP_eq, List.countP_append, hLj', p2.countP_eq, List.countP_append, hL'j']
          have c1 := countP_flatten_le_four (fun x => tinyV T B (v a) (v x)) _ hother
          have c2 : ((LL.eraseIdx j').eraseIdx j).countP (fun l => decide (l.length = 4)) ≤
              LL.countP (fun l => decide (l.length = 4)) :=
            ((List.eraseIdx_sublist (LL.eraseIdx j') j).trans (List.eraseIdx_sublist LL j')).countP_le
          omega
        · -- no further bin of three with a tiny item
          have hother : ∀ l ∈ LL.eraseIdx j,
              l.countP (fun x => tinyV T B (v a) (v x)) ≤ 4 * (if l.length = 4 then 1 else 0) := by
            intro l hl
            obtain ⟨i, hij, hli⟩ := List.mem_eraseIdx_iff_getElem?.1 hl
            refine hbnd j (Nat.le_refl _) (fun i l h1 h2 => by omega) ?_ i l hli hij hij
            intro i l hji hli h3
            rw [List.countP_eq_zero]
            intro q hq
            simp only [tinyV, decide_eq_true_eq]
            intro hqt
            exact hex2 ⟨i, l, q, hji, hli, h3, hq, hqt⟩
          have p1 := flatten_perm_getElem_eraseIdx LL j hj
          rw [p1.countP_eq, List.countP_append, hLj]
          have c1 := countP_flatten_le_four (fun x => tinyV T B (v a) (v x)) (LL.eraseIdx j) hother
          have c2 : (LL.eraseIdx j).countP (fun l => decide (l.length = 4)) ≤
              LL.countP (fun l => decide (l.length = 4)) := (List.eraseIdx_sublist LL j).countP_le
          omega
    · have hallb : ∀ l ∈ LL,
          l.countP (fun x => tinyV T B (v a) (v x)) ≤ 4 * (if l.length = 4 then 1 else 0) := by
        intro l hl
        have hlen := h24 l hl
        have hc : l.length = 2 ∨ l.length = 3 ∨ l.length = 4 := by omega
        rcases hc with h2 | h3 | h4
        · exact htwo l hl h2
        · have : l.countP (fun x => tinyV T B (v a) (v x)) = 0 := by
            rw [List.countP_eq_zero]
            intro q hq
            simp only [tinyV, decide_eq_true_eq]
            intro hqt
            obtain ⟨i, hi, rfl⟩ := List.mem_iff_getElem.1 hl
            exact hex ⟨i, _, q, List.getElem?_eq_getElem hi, h3, hq, hqt⟩
          omega
        · exact hfour l h4
      have := countP_flatten_le_four (fun x => tinyV T B (v a) (v x)) LL hallb
      omega
  omega

set_option maxHeartbeats 1600000 in
/-- **No irreducible counter-example with eleven bins** for a capacity `B > 61/50 · T − 1`.  (Here the capacity
    may reach `5a`; bins of five items are excluded by the window of the levels.) -/
theorem irred_eleven_false {v : α → Nat} {T B : Nat} (hTB : T ≤ B) (hB : 61 * T < 50 * (B + 1))
    {LL : List (List α)} {a : α} (h : Irred v T B 11 LL a) (hcap : ∀ l ∈ LL, binSum v l ≤ B) : False := by
  have ht := irred_tight hTB h
  have hce := h.1.toCE
  have hvol := ce_volume hce
  have h3a := tight_three_le hTB ht.toTight
  have haT := hce.item_le
  have hband := ce_band hTB hce
  have hwin := fun l (hl : l ∈ LL) => ce_level_window hce hl
  simp only [Nat.add_one_sub_one] at hwin
  have hmin : ∀ l ∈ LL, ∀ p ∈ l, v a ≤ v p :=
    fun l hl p hp => hce.amin p (List.mem_flatten.2 ⟨l, hl, hp⟩)
  have htop : ∀ l ∈ LL, ∀ p ∈ l, v p + 2 * v a ≤ T :=
    fun l hl p hp => ht.top p (List.mem_flatten.2 ⟨l, hl, hp⟩)
  -- the bins of the packing hold 2, 3 or 4 items
  have _ := hcap
  have h24 : ∀ l ∈ LL, 2 ≤ l.length ∧ l.length ≤ 4 := by
    intro l hl
    refine ⟨tight_two hTB ht.toTight l hl, ?_⟩
    apply Nat.le_of_not_lt
    intro h5
    have h1 := Part.length_mul_le_sumL (l.map v) (v a) 0 (fun y hy => by
      obtain ⟨p, hp, rfl⟩ := List.mem_map.1 hy
      have := hmin l hl p hp; omega)
    have h2 := hwin l hl
    have h3 : 5 * v a ≤ l.length * v a := Nat.mul_le_mul_right _ h5
    simp only [List.length_map] at h1
    have e : binSum v l = sumL (l.map v) := rfl
    omega
  have hcLL := count_two_four LL h24
  rw [hce.len] at hcLL
  -- the schedule: bins of 3 or 4 values
  obtain ⟨Q, hQk, hQp, hQ⟩ := packable_partition hce.pack
  have hQ3 := irred_opt_bins hTB h Q hQk hQp hQ
  have hge : ∀ O ∈ Q, ∀ u ∈ O, v a ≤ u := by
    intro O hO u hu
    obtain ⟨p, hp, rfl⟩ := List.mem_map.1 (hQp.mem_iff.1 (List.mem_flatten.2 ⟨O, hO, hu⟩))
    rcases List.mem_append.1 hp with hp | hp
    · exact hce.amin p hp
    · simp only [List.mem_singleton] at hp; subst hp; exact Nat.le_refl _
  have hQ34 : ∀ O ∈ Q, O.length = 3 ∨ O.length = 4 := by
    intro O hO
    have h1 := hQ3 O hO
    have h2 := items_per_bin (c := 4) (hge O hO) (by omega) (hQ O hO)
    omega
  have hcQ := count_three_four Q hQ34
  rw [hQk] at hcQ
  have hlenQ := hQp.length_eq
  simp only [List.length_map, List.length_append, List.length_cons, List.length_nil] at hlenQ
  -- tiny values against big values in the schedule
  have hoptbin : ∀ O ∈ Q, 2 * O.countP (bigV T B (v a)) + 4 * (if O.length = 4 then 1 else 0) ≤
      O.countP (tinyV T B (v a)) := by
    intro O hO
    have hs := hQ O hO
    have hg := hge O hO
    rcases hQ34 O hO with h3 | h4
    · match O, h3, hs, hg with
      | [x, y, z], _, hs, hg =>
        have := hg x (by simp)
        have := hg y (by simp)
        have := hg z (by simp)
        simp only [sumL] at hs
        simp only [List.countP_cons, List.countP_nil, bigV, tinyV, decide_eq_true_eq, List.length_cons,
          List.length_nil]
        split_ifs <;> omega
    · match O, h4, hs, hg with
      | [x, y, z, u], _, hs, hg =>
        have := hg x (by simp)
        have := hg y (by simp)
        have := hg z (by simp)
        have := hg u (by simp)
        simp only [sumL] at hs
        have tx : tinyV T B (v a) x = true := by simp only [tinyV, decide_eq_true_eq]; omega
        have ty : tinyV T B (v a) y = true := by simp only [tinyV, decide_eq_true_eq]; omega
        have tz : tinyV T B (v a) z = true := by simp only [tinyV, decide_eq_true_eq]; omega
        have tu : tinyV T B (v a) u = true := by simp only [tinyV, decide_eq_true_eq]; omega
        have bx : bigV T B (v a) x = false := by simp only [bigV, decide_eq_false_iff_not]; omega
        have by' : bigV T B (v a) y = false := by simp only [bigV, decide_eq_false_iff_not]; omega
        have bz : bigV T B (v a) z = false := by simp only [bigV, decide_eq_false_iff_not]; omega
        have bu : bigV T B (v a) u = false := by simp only [bigV, decide_eq_false_iff_not]; omega
        simp [tx, ty, tz, tu, bx, by', bz, bu]
  have hopt := countP_flatten_opt (bigV T B (v a)) (tinyV T B (v a)) Q hoptbin
  -- big items in the packing
  have hbigLL := countP_flatten_ge_two (fun x => bigV T B (v a) (v x)) LL (by
    intro l hl h2 p hp
    match l, h2, hl, hp with
    | [x, y], _, hl, hp =>
      obtain ⟨bx, by'⟩ := tight_pair_big ht.toTight hl
      simp only [List.mem_cons, List.not_mem_nil, or_false] at hp
      simp only [bigV, decide_eq_true_eq]
      rcases hp with rfl | rfl
      · exact bx
      · exact by')
  have hbigAll : LL.flatten.countP (fun x => bigV T B (v a) (v x)) ≤ Q.flatten.countP (bigV T B (v a)) := by
    rw [hQp.countP_eq, List.map_append, List.countP_append, List.countP_map]
    exact Nat.le_add_right _ _
  have htinyAll : Q.flatten.countP (tinyV T B (v a)) ≤
      LL.flatten.countP (fun x => tinyV T B (v a) (v x)) + 1 := by
    rw [hQp.countP_eq, List.map_append, List.countP_append, List.countP_map]
    have e2' : ([a].map v).countP (tinyV T B (v a)) ≤ 1 := by
      have := List.countP_le_length (p := tinyV T B (v a)) (l := [a].map v)
      simpa using this
    have e3' : LL.flatten.countP (tinyV T B (v a) ∘ v) =
        LL.flatten.countP (fun x => tinyV T B (v a) (v x)) := rfl
    omega
  -- a bin of three tiny items is filled too low
  have hbeta : ∀ x y z : α, [x, y, z] ∈ LL →
      ¬ (v x + B + 2 * v a < 2 * T ∧ v y + B + 2 * v a < 2 * T ∧ v z + B + 2 * v a < 2 * T) := by
    intro x y z hl ⟨t1, t2, t3⟩
    have hnf := hce.nofit _ hl
    simp only [binSum, List.map_cons, List.map_nil, sumL] at hnf
    omega
  -- an item after a bin of three is at most its smallest item, or the bin is heavy
  have halpha2 : ∀ (j : Nat) (hh s w : α), LL[j]? = some [hh, s, w] → v s ≤ v hh ∧ v w ≤ v s ∧
      ∀ (i : Nat) (l : List α) (q : α), j < i → LL[i]? = some l → q ∈ l →
        v q ≤ v w ∨ (B < v hh + v s + v q ∧ v q ≤ v s) := by
    intro j hh s w hl1
    have hl1mem := List.mem_of_getElem? hl1
    have hsort := ht.strong.sorted _ hl1mem
    have hs1 : v s ≤ v hh := (List.pairwise_cons.1 hsort).1 s (by simp)
    have hs2 : v w ≤ v s := (List.pairwise_cons.1 (List.pairwise_cons.1 hsort).2).1 w (by simp)
    refine ⟨hs1, hs2, ?_⟩
    intro i l q hij hli hq
    have hh1 := htop _ hl1mem hh (by simp)
    have hq1 := htop l (List.mem_of_getElem? hli) q hq
    by_cases hlt : v q ≤ v w
    · exact Or.inl hlt
    · right
      have hr := ht.strong.rule j i [hh, s, w] l q hij hl1 hli hq
      by_cases c1 : v q ≤ v hh <;> by_cases c2 : v q ≤ v s <;>
        simp [c1, c2, hlt, binSum, sumL] at hr <;> omega
  -- at most `4·#(bins of four) + 2` tiny items are packed
  have hpacked : LL.flatten.countP (fun x => tinyV T B (v a) (v x)) ≤
      4 * LL.countP (fun l => decide (l.length = 4)) + 2 := by
    -- the bound for a bin that is not the first bin of three with a tiny item
    have hfour : ∀ l : List α, l.length = 4 →
        l.countP (fun x => tinyV T B (v a) (v x)) ≤ 4 * (if l.length = 4 then 1 else 0) := by
      intro l h4
      have := List.countP_le_length (p := fun x => tinyV T B (v a) (v x)) (l := l)
      rw [if_pos h4]; omega
    have htwo : ∀ l ∈ LL, l.length = 2 →
        l.countP (fun x => tinyV T B (v a) (v x)) ≤ 4 * (if l.length = 4 then 1 else 0) := by
      intro l hl h2
      have : l.countP (fun x => tinyV T B (v a) (v x)) = 0 := by
        rw [List.countP_eq_zero]
        intro p hp
        match l, h2, hl, hp with
        | [x, y], _, hl, hp =>
          obtain ⟨bx, by'⟩ := tight_pair_big ht.toTight hl
          simp only [List.mem_cons, List.not_mem_nil, or_false] at hp
          simp only [tinyV, decide_eq_true_eq]
          rcases hp with rfl | rfl <;> omega
      omega
    by_cases hex : ∃ (j : Nat) (l : List α) (p : α), LL[j]? = some l ∧ l.length = 3 ∧ p ∈ l ∧
        v p + B + 2 * v a < 2 * T
    · obtain ⟨j0, hj0⟩ := hex
      obtain ⟨j, ⟨l1, p, hl1, hl1len, hpl, hpt⟩, hleast⟩ :=
        exists_least (P := fun (j : Nat) => ∃ (l : List α) (p : α), LL[j]? = some l ∧ l.length = 3 ∧ p ∈ l ∧
          v p + B + 2 * v a < 2 * T) j0 hj0
      match l1, hl1len, hl1, hpl with
      | [hh, s, w], _, hl1, hpl =>
      obtain ⟨hs1, hs2, hal2⟩ := halpha2 j hh s w hl1
      have hwt : v w + B + 2 * v a < 2 * T := by
        simp only [List.mem_cons, List.not_mem_nil, or_false] at hpl
        rcases hpl with rfl | rfl | rfl <;> omega
      have hj : j < LL.length := (List.getElem?_eq_some_iff.1 hl1).1
      have hLj : LL[j] = [hh, s, w] := (List.getElem?_eq_some_iff.1 hl1).2
      have hjmem := List.mem_of_getElem? hl1
      have hwinj := hwin _ hjmem
      simp only [binSum, List.map_cons, List.map_nil, sumL] at hwinj
      have hwa := hmin _ hjmem w (by simp)
      have hh1 := htop _ hjmem hh (by simp)
      have c3 : [hh, s, w].countP (fun x => tinyV T B (v a) (v x)) ≤ 2 := by
        apply Nat.le_of_not_lt
        intro h3'
        have hle := List.countP_le_length (p := fun x => tinyV T B (v a) (v x)) (l := [hh, s, w])
        simp only [List.length_cons, List.length_nil] at hle
        have heq : [hh, s, w].countP (fun x => tinyV T B (v a) (v x)) = [hh, s, w].length := by
          simp only [List.length_cons, List.length_nil]; omega
        have hall := List.countP_eq_length.1 heq
        have t1 := hall hh (by simp)
        have t2 := hall s (by simp)
        have t3 := hall w (by simp)
        simp only [tinyV, decide_eq_true_eq] at t1 t2 t3
        exact hbeta hh s w hjmem ⟨t1, t2, t3⟩
      -- the bound for the bins that are neither `j` nor (later) `j'`
      have hbnd : ∀ (jj : Nat), j ≤ jj →
          (∀ (i : Nat) (l : List α), j < i → i < jj → LL[i]? = some l → l.length = 3 →
            ∀ q ∈ l, ¬ (v q + B + 2 * v a < 2 * T)) →
          (∀ (i : Nat) (l : List α), jj < i → LL[i]? = some l → l.length = 3 →
            l.countP (fun x => tinyV T B (v a) (v x)) = 0) →
          ∀ (i0 : Nat) (l : List α), LL[i0]? = some l → i0 ≠ j → i0 ≠ jj →
            l.countP (fun x => tinyV T B (v a) (v x)) ≤ 4 * (if l.length = 4 then 1 else 0) := by
        intro jj hjj hmid hafter i0 l hli hne1 hne2
        have hlm := List.mem_of_getElem? hli
        have hlen := h24 l hlm
        have hc : l.length = 2 ∨ l.length = 3 ∨ l.length = 4 := by omega
        rcases hc with h2 | h3 | h4
        · exact htwo l hlm h2
        · have : l.countP (fun x => tinyV T B (v a) (v x)) = 0 := by
            rcases Nat.lt_or_ge i0 j with hlt | hge'
            · rw [List.countP_eq_zero]
              intro q hq
              simp only [tinyV, decide_eq_true_eq]
              intro hqt
              exact hleast i0 hlt ⟨l, q, hli, h3, hq, hqt⟩
            · rcases Nat.lt_or_ge i0 jj with hlt2 | hge2
              · rw [List.countP_eq_zero]
                intro q hq
                simp only [tinyV, decide_eq_true_eq]
                exact hmid i0 l (by omega) hlt2 hli h3 q hq
              · exact hafter i0 l (by omega) hli h3
          omega
        · exact hfour l h4
      by_cases hA : ∀ (i : Nat) (l : List α) (q : α), j < i → LL[i]? = some l → q ∈ l → v q ≤ v w
      · -- everything after bin `j` is tiny
        have hother : ∀ l ∈ LL.eraseIdx j,
            l.countP (fun x => tinyV T B (v a) (v x)) ≤ 4 * (if l.length = 4 then 1 else 0) := by
          intro l hl
          obtain ⟨i, hij, hli⟩ := List.mem_eraseIdx_iff_getElem?.1 hl
          refine hbnd j (Nat.le_refl _) (fun i l h1 h2 => by omega) ?_ i l hli hij hij
          intro i l hji hli h3
          exfalso
          have hlm := List.mem_of_getElem? hli
          match l, h3, hli, hlm with
          | [x, y, z], _, hli, hlm =>
            have := hA i _ x hji hli (by simp)
            have := hA i _ y hji hli (by simp)
            have := hA i _ z hji hli (by simp)
            exact hbeta x y z hlm ⟨by omega, by omega, by omega⟩
        have p1 := flatten_perm_getElem_eraseIdx LL j hj
        rw [p1.countP_eq, List.countP_append, hLj]
        have c1 := countP_flatten_le_four (fun x => tinyV T B (v a) (v x)) (LL.eraseIdx j) hother
        have c2 : (LL.eraseIdx j).countP (fun l => decide (l.length = 4)) ≤
            LL.countP (fun l => decide (l.length = 4)) := (List.eraseIdx_sublist LL j).countP_le
        omega
      · -- bin `j` is heavy: a later item is larger than `w`
        have hviol : ∃ q : α, B < v hh + v s + v q ∧ v q ≤ v s := by
          apply Classical.byContradiction
          intro hno
          apply hA
          intro i l q hji hli hq
          rcases hal2 i l q hji hli hq with h1 | h1
          · exact h1
          · exact absurd ⟨q, h1⟩ hno
        obtain ⟨q0, hq01, hq02⟩ := hviol
        have c3' : [hh, s, w].countP (fun x => tinyV T B (v a) (v x)) ≤ 1 := by
          have t1 : tinyV T B (v a) (v hh) = false := by
            simp only [tinyV, decide_eq_false_iff_not]; omega
          have t2 : tinyV T B (v a) (v s) = false := by
            simp only [tinyV, decide_eq_false_iff_not]; omega
          have e : [hh, s, w].countP (fun x => tinyV T B (v a) (v x)) =
              [w].countP (fun x => tinyV T B (v a) (v x)) := by
            simp [List.countP_cons, t1, t2]
          have := List.countP_le_length (p := fun x => tinyV T B (v a) (v x)) (l := [w])
          simp only [List.length_cons, List.length_nil] at this
          omega
        by_cases hex2 : ∃ (j' : Nat) (l : List α) (p : α), j < j' ∧ LL[j']? = some l ∧ l.length = 3 ∧ p ∈ l ∧
            v p + B + 2 * v a < 2 * T
        · obtain ⟨j0', hj0'⟩ := hex2
          obtain ⟨j', ⟨l2, p2, hjj', hl2, hl2len, hp2l, hp2t⟩, hleast2⟩ :=
            exists_least (P := fun (j' : Nat) => ∃ (l : List α) (p : α), j < j' ∧ LL[j']? = some l ∧
              l.length = 3 ∧ p ∈ l ∧ v p + B + 2 * v a < 2 * T) j0' hj0'
          match l2, hl2len, hl2, hp2l with
          | [x, y, t], _, hl2, hp2l =>
          obtain ⟨hx1, hx2, hal2'⟩ := halpha2 j' x y t hl2
          have htt : v t + B + 2 * v a < 2 * T := by
            simp only [List.mem_cons, List.not_mem_nil, or_false] at hp2l
            rcases hp2l with rfl | rfl | rfl <;> omega
          have hj' : j' < LL.length := (List.getElem?_eq_some_iff.1 hl2).1
          have hLj' : LL[j'] = [x, y, t] := (List.getElem?_eq_some_iff.1 hl2).2
          have hl2mem := List.mem_of_getElem? hl2
          have hwin2 := ce_level_window2 hce hjj' hl1 hl2
          simp only [binSum, List.map_cons, List.map_nil, sumL] at hwin2
          have hta := hmin _ hl2mem t (by simp)
          have hnf2 := hce.nofit _ hl2mem
          simp only [binSum, List.map_cons, List.map_nil, sumL] at hnf2
          -- everything after bin `j'` is tiny
          have hB' : ∀ (i : Nat) (l : List α) (q : α), j' < i → LL[i]? = some l → q ∈ l → v q ≤ v t := by
            intro i l q hji hli hq
            rcases hal2' i l q hji hli hq with h1 | ⟨h1, h2⟩
            · exact h1
            · exfalso; omega
          -- `y` is not tiny
          have hy : ¬ (v y + B + 2 * v a < 2 * T) := by
            intro hyt
            rcases hal2 j' _ x hjj' hl2 (by simp) with h1 | ⟨h1, h2⟩
            · exact hbeta x y t hl2mem ⟨by omega, hyt, htt⟩
            · omega
          have c4 : [x, y, t].countP (fun x => tinyV T B (v a) (v x)) ≤ 1 := by
            have t1 : tinyV T B (v a) (v x) = false := by
              simp only [tinyV, decide_eq_false_iff_not]; omega
            have t2 : tinyV T B (v a) (v y) = false := by
              simp only [tinyV, decide_eq_false_iff_not]; omega
            have e : [x, y, t].countP (fun x => tinyV T B (v a) (v x)) =
                [t].countP (fun x => tinyV T B (v a) (v x)) := by
              simp [List.countP_cons, t1, t2]
            have := List.countP_le_length (p := fun x => tinyV T B (v a) (v x)) (l := [t])
            simp only [List.length_cons, List.length_nil] at this
            omega
          have hb2 := hbnd j' (by omega)
            (fun i l h1 h2 hli h3 q hq hqt => hleast2 i h2 ⟨l, q, h1, hli, h3, hq, hqt⟩)
            (by
              intro i l hji hli h3
              exfalso
              have hlm := List.mem_of_getElem? hli
              match l, h3, hli, hlm with
              | [x', y', z'], _, hli, hlm =>
                have := hB' i _ x' hji hli (by simp)
                have := hB' i _ y' hji hli (by simp)
                have := hB' i _ z' hji hli (by simp)
                exact hbeta x' y' z' hlm ⟨by omega, by omega, by omega⟩)
          -- split off bin `j'`, then bin `j`
          have p1 := flatten_perm_getElem_eraseIdx LL j' hj'
          have hjL' : j < (LL.eraseIdx j').length := by
            rw [List.length_eraseIdx, if_pos hj']; omega
          have hL'j : (LL.eraseIdx j')[j]? = some [hh, s, w] := by
            rw [List.getElem?_eraseIdx, if_pos hjj']; exact hl1
          have hL'j' : (LL.eraseIdx j')[j] = [hh, s, w] := (List.getElem?_eq_some_iff.1 hL'j).2
          have p2 := flatten_perm_getElem_eraseIdx (LL.eraseIdx j') j hjL'
          have hother : ∀ l ∈ (LL.eraseIdx j').eraseIdx j,
              l.countP (fun x => tinyV T B (v a) (v x)) ≤ 4 * (if l.length = 4 then 1 else 0) := by
            intro l hl
            obtain ⟨i, hij, hli⟩ := List.mem_eraseIdx_iff_getElem?.1 hl
            rw [List.getElem?_eraseIdx] at hli
            by_cases hi : i < j'
            · rw [if_pos hi] at hli
              exact hb2 i l hli hij (by omega)
            · rw [if_neg hi] at hli
              exact hb2 (i + 1) l hli (by omega) (by omega)
          rw [p1.countP_eq, List.countP_append, hLj', p2.countP_eq, List.countP_append, hL'j']
          have c1 := countP_flatten_le_four (fun x => tinyV T B (v a) (v x)) _ hother
          have c2 : ((LL.eraseIdx j').eraseIdx j).countP (fun l => decide (l.length = 4)) ≤
              LL.countP (fun l => decide (l.length = 4)) :=
            ((List.eraseIdx_sublist (LL.eraseIdx j') j).trans (List.eraseIdx_sublist LL j')).countP_le
          omega
        · -- no further bin of three with a tiny item
          have hother : ∀ l ∈ LL.eraseIdx j,
              l.countP (fun x => tinyV T B (v a) (v x)) ≤ 4 * (if l.length = 4 then 1 else 0) := by
            intro l hl
            obtain ⟨i, hij, hli⟩ := List.mem_eraseIdx_iff_getElem?.1 hl
            refine hbnd j (Nat.le_refl _) (fun i l h1 h2 => by omega) ?_ i l hli hij hij
            intro i l hji hli h3
            rw [List.countP_eq_zero]
            intro q hq
            simp only [tinyV, decide_eq_true_eq]
            intro hqt
            exact hex2 ⟨i, l, q, hji, hli, h3, hq, hqt⟩
          have p1 := flatten_perm_getElem_eraseIdx LL j hj
          rw [p1.countP_eq, List.countP_append, hLj]
          have c1 := countP_flatten_le_four (fun x => tinyV T B (v a) (v x)) (LL.eraseIdx j) hother
          have c2 : (LL.eraseIdx j).countP (fun l => decide (l.length = 4)) ≤
              LL.countP (fun l => decide (l.length = 4)) := (List.eraseIdx_sublist LL j).countP_le
          omega
    · have hallb : ∀ l ∈ LL,
          l.countP (fun x => tinyV T B (v a) (v x)) ≤ 4 * (if l.length = 4 then 1 else 0) := by
        intro l hl
        have hlen := h24 l hl
        have hc : l.length = 2 ∨ l.length = 3 ∨ l.length = 4 := by omega
        rcases hc with h2 | h3 | h4
        · exact htwo l hl h2
        · have : l.countP (fun x => tinyV T B (v a) (v x)) = 0 := by
            rw [List.countP_eq_zero]
            intro q hq
            simp only [tinyV, decide_eq_true_eq]
            intro hqt
            obtain ⟨i, hi, rfl⟩ := List.mem_iff_getElem.1 hl
            exact hex ⟨i, _, q, List.getElem?_eq_getElem hi, h3, hq, hqt⟩
          omega
        · exact hfour l h4
      have := countP_flatten_le_four (fun x => tinyV T B (v a) (v x)) LL hallb
      omega
  omega

set_option maxHeartbeats 1600000 in
/-- the same for eleven bins and a capacity `B > 11/9 · T − 1` -/
theorem irred_eleven_false_11_9 {v : α → Nat} {T B : Nat} (hTB : T ≤ B) (hB : 11 * T < 9 * (B + 1))
    {LL : List (List α)} {a : α} (h : Irred v T B 11 LL a) (hcap : ∀ l ∈ LL, binSum v l ≤ B) : False := by
  have ht := irred_tight hTB h
  have hce := h.1.toCE
  have hvol := ce_volume hce
  have h3a := tight_three_le hTB ht.toTight
  have haT := hce.item_le
  have hband := ce_band hTB hce
  have hwin := fun l (hl : l ∈ LL) => ce_level_window hce hl
  simp only [Nat.add_one_sub_one] at hwin
  have hmin : ∀ l ∈ LL, ∀ p ∈ l, v a ≤ v p :=
    fun l hl p hp => hce.amin p (List.mem_flatten.2 ⟨l, hl, hp⟩)
  have htop : ∀ l ∈ LL, ∀ p ∈ l, v p + 2 * v a ≤ T :=
    fun l hl p hp => ht.top p (List.mem_flatten.2 ⟨l, hl, hp⟩)
  -- the bins of the packing hold 2, 3 or 4 items
  have h24 : ∀ l ∈ LL, 2 ≤ l.length ∧ l.length ≤ 4 := fun l hl =>
    ⟨tight_two hTB ht.toTight l hl, bin_le_four (by omega) (hmin l hl) (hcap l hl)⟩
  have hcLL := count_two_four LL h24
  rw [hce.len] at hcLL
  -- the schedule: bins of 3 or 4 values
  obtain ⟨Q, hQk, hQp, hQ⟩ := packable_partition hce.pack
  have hQ3 := irred_opt_bins hTB h Q hQk hQp hQ
  have hge : ∀ O ∈ Q, ∀ u ∈ O, v a ≤ u := by
    intro O hO u hu
    obtain ⟨p, hp, rfl⟩ := List.mem_map.1 (hQp.mem_iff.1 (List.mem_flatten.2 ⟨O, hO, hu⟩))
    rcases List.mem_append.1 hp with hp | hp
    · exact hce.amin p hp
    · simp only [List.mem_singleton] at hp; subst hp; exact Nat.le_refl _
  have hQ34 : ∀ O ∈ Q, O.length = 3 ∨ O.length = 4 := by
    intro O hO
    have h1 := hQ3 O hO
    have h2 := items_per_bin (c := 4) (hge O hO) (by omega) (hQ O hO)
    omega
  have hcQ := count_three_four Q hQ34
  rw [hQk] at hcQ
  have hlenQ := hQp.length_eq
  simp only [List.length_map, List.length_append, List.length_cons, List.length_nil] at hlenQ
  -- tiny values against big values in the schedule
  have hoptbin : ∀ O ∈ Q, 2 * O.countP (bigV T B (v a)) + 4 * (if O.length = 4 then 1 else 0) ≤
      O.countP (tinyV T B (v a)) := by
    intro O hO
    have hs := hQ O hO
    have hg := hge O hO
    rcases hQ34 O hO with h3 | h4
    · match O, h3, hs, hg with
      | [x, y, z], _, hs, hg =>
        have := hg x (by simp)
        have := hg y (by simp)
        have := hg z (by simp)
        simp only [sumL] at hs
        simp only [List.countP_cons, List.countP_nil, bigV, tinyV, decide_eq_true_eq, List.length_cons,
          List.length_nil]
        split_ifs <;> omega
    · match O, h4, hs, hg with
      | [x, y, z, u], _, hs, hg =>
        have := hg x (by simp)
        have := hg y (by simp)
        have := hg z (by simp)
        have := hg u (by simp)
        simp only [sumL] at hs
        have tx : tinyV T B (v a) x = true := by simp only [tinyV, decide_eq_true_eq]; omega
        have ty : tinyV T B (v a) y = true := by simp only [tinyV, decide_eq_true_eq]; omega
        have tz : tinyV T B (v a) z = true := by simp only [tinyV, decide_eq_true_eq]; omega
        have tu : tinyV T B (v a) u = true := by simp only [tinyV, decide_eq_true_eq]; omega
        have bx : bigV T B (v a) x = false := by simp only [bigV, decide_eq_false_iff_not]; omega
        have by' : bigV T B (v a) y = false := by simp only [bigV, decide_eq_false_iff_not]; omega
        have bz : bigV T B (v a) z = false := by simp only [bigV, decide_eq_false_iff_not]; omega
        have bu : bigV T B (v a) u = false := by simp only [bigV, decide_eq_false_iff_not]; omega
        simp [tx, ty, tz, tu, bx, by', bz, bu]
  have hopt := countP_flatten_opt (bigV T B (v a)) (tinyV T B (v a)) Q hoptbin
  -- big items in the packing
  have hbigLL := countP_flatten_ge_two (fun x => bigV T B (v a) (v x)) LL (by
    intro l hl h2 p hp
    match l, h2, hl, hp with
    | [x, y], _, hl, hp =>
      obtain ⟨bx, by'⟩ := tight_pair_big ht.toTight hl
      simp only [List.mem_cons, List.not_mem_nil, or_false] at hp
      simp only [bigV, decide_eq_true_eq]
      rcases hp with rfl | rfl
      · exact bx
      · exact by')
  have hbigAll : LL.flatten.countP (fun x => bigV T B (v a) (v x)) ≤ Q.flatten.countP (bigV T B (v a)) := by
    rw [hQp.countP_eq, List.map_append, List.countP_append, List.countP_map]
    exact Nat.le_add_right _ _
  have htinyAll : Q.flatten.countP (tinyV T B (v a)) ≤
      LL.flatten.countP (fun x => tinyV T B (v a) (v x)) + 1 := by
    rw [hQp.countP_eq, List.map_append, List.countP_append, List.countP_map]
    have e2' : ([a].map v).countP (tinyV T B (v a)) ≤ 1 := by
      have := List.countP_le_length (p := tinyV T B (v a)) (l := [a].map v)
      simpa using this
    have e3' : LL.flatten.countP (tinyV T B (v a) ∘ v) =
        LL.flatten.countP (fun x => tinyV T B (v a) (v x)) := rfl
    omega
  -- a bin of three tiny items is filled too low
  have hbeta : ∀ x y z : α, [x, y, z] ∈ LL →
      ¬ (v x + B + 2 * v a < 2 * T ∧ v y + B + 2 * v a < 2 * T ∧ v z + B + 2 * v a < 2 * T) := by
    intro x y z hl ⟨t1, t2, t3⟩
    have hnf := hce.nofit _ hl
    simp only [binSum, List.map_cons, List.map_nil, sumL] at hnf
    omega
  -- an item after a bin of three is at most its smallest item, or the bin is heavy
  have halpha2 : ∀ (j : Nat) (hh s w : α), LL[j]? = some [hh, s, w] → v s ≤ v hh ∧ v w ≤ v s ∧
      ∀ (i : Nat) (l : List α) (q : α), j < i → LL[i]? = some l → q ∈ l →
        v q ≤ v w ∨ (B < v hh + v s + v q ∧ v q ≤ v s) := by
    intro j hh s w hl1
    have hl1mem := List.mem_of_getElem? hl1
    have hsort := ht.strong.sorted _ hl1mem
    have hs1 : v s ≤ v hh := (List.pairwise_cons.1 hsort).1 s (by simp)
    have hs2 : v w ≤ v s := (List.pairwise_cons.1 (List.pairwise_cons.1 hsort).2).1 w (by simp)
    refine ⟨hs1, hs2, ?_⟩
    intro i l q hij hli hq
    have hh1 := htop _ hl1mem hh (by simp)
    have hq1 := htop l (List.mem_of_getElem? hli) q hq
    by_cases hlt : v q ≤ v w
    · exact Or.inl hlt
    · right
      have hr := ht.strong.rule j i [hh, s, w] l q hij hl1 hli hq
      by_cases c1 : v q ≤ v hh <;> by_cases c2 : v q ≤ v s <;>
        simp [c1, c2, hlt, binSum, sumL] at hr <;> omega
  -- at most `4·#(bins of four) + 2` tiny items are packed
  have hpacked : LL.flatten.countP (fun x => tinyV T B (v a) (v x)) ≤
      4 * LL.countP (fun l => decide (l.length = 4)) + 2 := by
    -- the bound for a bin that is not the first bin of three with a tiny item
    have hfour : ∀ l : List α, l.length = 4 →
        l.countP (fun x => tinyV T B (v a) (v x)) ≤ 4 * (if l.length = 4 then 1 else 0) := by
      intro l h4
      have := List.countP_le_length (p := fun x => tinyV T B (v a) (v x)) (l := l)
      rw [if_pos h4]; omega
    have htwo : ∀ l ∈ LL, l.length = 2 →
        l.countP (fun x => tinyV T B (v a) (v x)) ≤ 4 * (if l.length = 4 then 1 else 0) := by
      intro l hl h2
      have : l.countP (fun x => tinyV T B (v a) (v x)) = 0 := by
        rw [List.countP_eq_zero]
        intro p hp
        match l, h2, hl, hp with
        | [x, y], _, hl, hp =>
          obtain ⟨bx, by'⟩ := tight_pair_big ht.toTight hl
          simp only [List.mem_cons, List.not_mem_nil, or_false] at hp
          simp only [tinyV, decide_eq_true_eq]
          rcases hp with rfl | rfl <;> omega
      omega
    by_cases hex : ∃ (j : Nat) (l : List α) (p : α), LL[j]? = some l ∧ l.length = 3 ∧ p ∈ l ∧
        v p + B + 2 * v a < 2 * T
    · obtain ⟨j0, hj0⟩ := hex
      obtain ⟨j, ⟨l1, p, hl1, hl1len, hpl, hpt⟩, hleast⟩ :=
        exists_least (P := fun (j : Nat) => ∃ (l : List α) (p : α), LL[j]? = some l ∧ l.length = 3 ∧ p ∈ l ∧
          v p + B + 2 * v a < 2 * T) j0 hj0
      match l1, hl1len, hl1, hpl with
      | [hh, s, w], _, hl1, hpl =>
      obtain ⟨hs1, hs2, hal2⟩ := halpha2 j hh s w hl1
      have hwt : v w + B + 2 * v a < 2 * T := by
        simp only [List.mem_cons, List.not_mem_nil, or_false] at hpl
        rcases hpl with rfl | rfl | rfl <;> omega
      have hj : j < LL.length := (List.getElem?_eq_some_iff.1 hl1).1
      have hLj : LL[j] = [hh, s, w] := (List.getElem?_eq_some_iff.1 hl1).2
      have hjmem := List.mem_of_getElem? hl1
      have hwinj := hwin _ hjmem
      simp only [binSum, List.map_cons, List.map_nil, sumL] at hwinj
      have hwa := hmin _ hjmem w (by simp)
      have hh1 := htop _ hjmem hh (by simp)
      have c3 : [hh, s, w].countP (fun x => tinyV T B (v a) (v x)) ≤ 2 := by
        apply Nat.le_of_not_lt
        intro h3'
        have hle := List.countP_le_length (p := fun x => tinyV T B (v a) (v x)) (l := [hh, s, w])
        simp only [List.length_cons, List.length_nil] at hle
        have heq : [hh, s, w].countP (fun x => tinyV T B (v a) (v x)) = [hh, s, w].length := by
          simp only [List.length_cons, List.length_nil]; omega
        have hall := List.countP_eq_length.1 heq
        have t1 := hall hh (by simp)
        have t2 := hall s (by simp)
        have t3 := hall w (by simp)
        simp only [tinyV, decide_eq_true_eq] at t1 t2 t3
        exact hbeta hh s w hjmem ⟨t1, t2, t3⟩
      -- the bound for the bins that are neither `j` nor (later) `j'`
      have hbnd : ∀ (jj : Nat), j ≤ jj →
          (∀ (i : Nat) (l : List α), j < i → i < jj → LL[i]? = some l → l.length = 3 →
            ∀ q ∈ l, ¬ (v q + B + 2 * v a < 2 * T)) →
          (∀ (i : Nat) (l : List α), jj < i → LL[i]? = some l → l.length = 3 →
            l.countP (fun x => tinyV T B (v a) (v x)) = 0) →
          ∀ (i0 : Nat) (l : List α), LL[i0]? = some l → i0 ≠ j → i0 ≠ jj →
            l.countP (fun x => tinyV T B (v a) (v x)) ≤ 4 * (if l.length = 4 then 1 else 0) := by
        intro jj hjj hmid hafter i0 l hli hne1 hne2
        have hlm := List.mem_of_getElem? hli
        have hlen := h24 l hlm
        have hc : l.length = 2 ∨ l.length = 3 ∨ l.length = 4 := by omega
        rcases hc with h2 | h3 | h4
        · exact htwo l hlm h2
        · have : l.countP (fun x => tinyV T B (v a) (v x)) = 0 := by
            rcases Nat.lt_or_ge i0 j with hlt | hge'
            · rw [List.countP_eq_zero]
              intro q hq
              simp only [tinyV, decide_eq_true_eq]
              intro hqt
              exact hleast i0 hlt ⟨l, q, hli, h3, hq, hqt⟩
            · rcases Nat.lt_or_ge i0 jj with hlt2 | hge2
              · rw [List.countP_eq_zero]
                intro q hq
                simp only [tinyV, decide_eq_true_eq]
                exact hmid i0 l (by omega) hlt2 hli h3 q hq
              · exact hafter i0 l (by omega) hli h3
          omega
        · exact hfour l h4
      by_cases hA : ∀ (i : Nat) (l : List α) (q : α), j < i → LL[i]? = some l → q ∈ l → v q ≤ v w
      · -- everything after bin `j` is tiny
        have hother : ∀ l ∈ LL.eraseIdx j,
            l.countP (fun x => tinyV T B (v a) (v x)) ≤ 4 * (if l.length = 4 then 1 else 0) := by
          intro l hl
          obtain ⟨i, hij, hli⟩ := List.mem_eraseIdx_iff_getElem?.1 hl
          refine hbnd j (Nat.le_refl _) (fun i l h1 h2 => by omega) ?_ i l hli hij hij
          intro i l hji hli h3
          exfalso
          have hlm := List.mem_of_getElem? hli
          match l, h3, hli, hlm with
          | [x, y, z], _, hli, hlm =>
            have := hA i _ x hji hli (by simp)
            have := hA i _ y hji hli (by simp)
            have := hA i _ z hji hli (by simp)
            exact hbeta x y z hlm ⟨by omega, by omega, by omega⟩
        have p1 := flatten_perm_getElem_eraseIdx LL j hj
        rw [p1.countP_eq, List.countP_append, hLj]
        have c1 := countP_flatten_le_four (fun x => tinyV T B (v a) (v x)) (LL.eraseIdx j) hother
        have c2 : (LL.eraseIdx j).countP (fun l => decide (l.length = 4)) ≤
            LL.countP (fun l => decide (l.length = 4)) := (List.eraseIdx_sublist LL j).countP_le
        omega
      · -- bin `j` is heavy: a later item is larger than `w`
        have hviol : ∃ q : α, B < v hh + v s + v q ∧ v q ≤ v s := by
          apply Classical.byContradiction
          intro hno
          apply hA
          intro i l q hji hli hq
          rcases hal2 i l q hji hli hq with h1 | h1
          · exact h1
          · exact absurd ⟨q, h1⟩ hno
        obtain ⟨q0, hq01, hq02⟩ := hviol
        have c3' : [hh, s, w].countP (fun x => tinyV T B (v a) (v x)) ≤ 1 := by
          have t1 : tinyV T B (v a) (v hh) = false := by
            simp only [tinyV, decide_eq_false_iff_not]; omega
          have t2 : tinyV T B (v a) (v s) = false := by
            simp only [tinyV, decide_eq_false_iff_not]; omega
          have e : [hh, s, w].countP (fun x => tinyV T B (v a) (v x)) =
              [w].countP (fun x => tinyV T B (v a) (v x)) := by
            simp [List.countP_cons, t1, t2]
          have := List.countP_le_length (p := fun x => tinyV T B (v a) (v x)) (l := [w])
          simp only [List.length_cons, List.length_nil] at this
          omega
        by_cases hex2 : ∃ (j' : Nat) (l : List α) (p : α), j < j' ∧ LL[j']? = some l ∧ l.length = 3 ∧ p ∈ l ∧
            v p + B + 2 * v a < 2 * T
        · obtain ⟨j0', hj0'⟩ := hex2
          obtain ⟨j', ⟨l2, p2, hjj', hl2, hl2len, hp2l, hp2t⟩, hleast2⟩ :=
            exists_least (P := fun (j' : Nat) => ∃ (l : List α) (p : α), j < j' ∧ LL[j']? = some l ∧
              l.length = 3 ∧ p ∈ l ∧ v p + B + 2 * v a < 2 * T) j0' hj0'
          match l2, hl2len, hl2, hp2l with
          | [x, y, t], _, hl2, hp2l =>
          obtain ⟨hx1, hx2, hal2'⟩ := halpha2 j' x y t hl2
          have htt : v t + B + 2 * v a < 2 * T := by
            simp only [List.mem_cons, List.not_mem_nil, or_false] at hp2l
            rcases hp2l with rfl | rfl | rfl <;> omega
          have hj' : j' < LL.length := (List.getElem?_eq_some_iff.1 hl2).1
          have hLj' : LL[j'] = [x, y, t] := (List.getElem?_eq_some_iff.1 hl2).2
          have hl2mem := List.mem_of_getElem? hl2
          have hwin2 := ce_level_window2 hce hjj' hl1 hl2
          simp only [binSum, List.map_cons, List.map_nil, sumL] at hwin2
          have hta := hmin _ hl2mem t (by simp)
          have hnf2 := hce.nofit _ hl2mem
          simp only [binSum, List.map_cons, List.map_nil, sumL] at hnf2
          -- everything after bin `j'` is tiny
          have hB' : ∀ (i : Nat) (l : List α) (q : α), j' < i → LL[i]? = some l → q ∈ l → v q ≤ v t := by
            intro i l q hji hli hq
            rcases hal2' i l q hji hli hq with h1 | ⟨h1, h2⟩
            · exact h1
            · exfalso; omega
          -- `y` is not tiny
          have hy : ¬ (v y + B + 2 * v a < 2 * T) := by
            intro hyt
            rcases hal2 j' _ x hjj' hl2 (by simp) with h1 | ⟨h1, h2⟩
            · exact hbeta x y t hl2mem ⟨by omega, hyt, htt⟩
            · omega
          have c4 : [x, y, t].countP (fun x => tinyV T B (v a) (v x)) ≤ 1 := by
            have t1 : tinyV T B (v a) (v x) = false := by
              simp only [tinyV, decide_eq_false_iff_not]; omega
            have t2 : tinyV T B (v a) (v y) = false := by
              simp only [tinyV, decide_eq_false_iff_not]; omega
            have e : [x, y, t].countP (fun x => tinyV T B (v a) (v x)) =
                [t].countP (fun x => tinyV T B (v a) (v x)) := by
              simp [List.countP_cons, t1, t2]
            have := List.countP_le_length (p := fun x => tinyV T B (v a) (v x)) (l := [t])
            simp only [List.length_cons, List.length_nil] at this
            omega
          have hb2 := hbnd j' (by omega)
            (fun i l h1 h2 hli h3 q hq hqt => hleast2 i h2 ⟨l, q, h1, hli, h3, hq, hqt⟩)
            (by
              intro i l hji hli h3
              exfalso
              have hlm := List.mem_of_getElem? hli
              match l, h3, hli, hlm with
              | [x', y', z'], _, hli, hlm =>
                have := hB' i _ x' hji hli (by simp)
                have := hB' i _ y' hji hli (by simp)
                have := hB' i _ z' hji hli (by simp)
                exact hbeta x' y' z' hlm ⟨by omega, by omega, by omega⟩)
          -- split off bin `j'`, then bin `j`
          have p1 := flatten_perm_getElem_eraseIdx LL j' hj'
          have hjL' : j < (LL.eraseIdx j').length := by
            rw [List.length_eraseIdx, if_pos hj']; omega
          have hL'j : (LL.eraseIdx j')[j]? = some [hh, s, w] := by
            rw [List.getElem?_eraseIdx, if_pos hjj']; exact hl1
          have hL'j' : (LL.eraseIdx j')[j] = [hh, s, w] := (List.getElem?_eq_some_iff.1 hL'j).2
          have p2 := flatten_perm_getElem_eraseIdx (LL.eraseIdx j') j hjL'
          have hother : ∀ l ∈ (LL.eraseIdx j').eraseIdx j,
              l.countP (fun x => tinyV T B (v a) (v x)) ≤ 4 * (if l.length = 4 then 1 else 0) := by
            intro l hl
            obtain ⟨i, hij, hli⟩ := List.mem_eraseIdx_iff_getElem?.1 hl
            rw [List.getElem?_eraseIdx] at hli
            by_cases hi : i < j'
            · rw [if_pos hi] at hli
              exact hb2 i l hli hij (by omega)
            · rw [if_neg hi] at hli
              exact hb2 (i + 1) l hli (by omega) (by omega)
          rw [p1.countP_eq, List.countP_append, hLj', p2.countP_eq, List.countP_append, hL'j']
          have c1 := countP_flatten_le_four (fun x => tinyV T B (v a) (v x)) _ hother
          have c2 : ((LL.eraseIdx j').eraseIdx j).countP (fun l => decide (l.length = 4)) ≤
              LL.countP (fun l => decide (l.length = 4)) :=
            ((List.eraseIdx_sublist (LL.eraseIdx j') j).trans (List.eraseIdx_sublist LL j')).countP_le
          omega
        · -- no further bin of three with a tiny item
          have hother : ∀ l ∈ LL.eraseIdx j,
              l.countP (fun x => tinyV T B (v a) (v x)) ≤ 4 * (if l.length = 4 then 1 else 0) := by
            intro l hl
            obtain ⟨i, hij, hli⟩ := List.mem_eraseIdx_iff_getElem?.1 hl
            refine hbnd j (Nat.le_refl _) (fun i l h1 h2 => by omega) ?_ i l hli hij hij
            intro i l hji hli h3
            rw [List.countP_eq_zero]
            intro q hq
            simp only [tinyV, decide_eq_true_eq]
            intro hqt
            exact hex2 ⟨i, l, q, hji, hli, h3, hq, hqt⟩
          have p1 := flatten_perm_getElem_eraseIdx LL j hj
          rw [p1.countP_eq, List.countP_append, hLj]
          have c1 := countP_flatten_le_four (fun x => tinyV T B (v a) (v x)) (LL.eraseIdx j) hother
          have c2 : (LL.eraseIdx j).countP (fun l => decide (l.length = 4)) ≤
              LL.countP (fun l => decide (l.length = 4)) := (List.eraseIdx_sublist LL j).countP_le
          omega
    · have hallb : ∀ l ∈ LL,
          l.countP (fun x => tinyV T B (v a) (v x)) ≤ 4 * (if l.length = 4 then 1 else 0) := by
        intro l hl
        have hlen := h24 l hl
        have hc : l.length = 2 ∨ l.length = 3 ∨ l.length = 4 := by omega
        rcases hc with h2 | h3 | h4
        · exact htwo l hl h2
        · have : l.countP (fun x => tinyV T B (v a) (v x)) = 0 := by
            rw [List.countP_eq_zero]
            intro q hq
            simp only [tinyV, decide_eq_true_eq]
            intro hqt
            obtain ⟨i, hi, rfl⟩ := List.mem_iff_getElem.1 hl
            exact hex ⟨i, _, q, List.getElem?_eq_getElem hi, h3, hq, hqt⟩
          omega
        · exact hfour l h4
      have := countP_flatten_le_four (fun x => tinyV T B (v a) (v x)) LL hallb
      omega
  omega

set_option maxHeartbeats 1600000 in
/-- the same for 15 or 16 bins and a capacity `B > 16/13 · T − 1` -/
theorem irred_count2_false_16_13 {v : α → Nat} {T B k : Nat} (hTB : T ≤ B) (hB : 16 * T < 13 * (B + 1))
    (hk : k = 15 ∨ k = 16)
    {LL : List (List α)} {a : α} (h : Irred v T B k LL a) (hcap : ∀ l ∈ LL, binSum v l ≤ B) : False := by
  rcases hk with rfl | rfl
  all_goals
    have ht := irred_tight hTB h
    have hce := h.1.toCE
    have hvol := ce_volume hce
    have h3a := tight_three_le hTB ht.toTight
    have haT := hce.item_le
    have hband := ce_band hTB hce
    have hwin := fun l (hl : l ∈ LL) => ce_level_window hce hl
    simp only [Nat.add_one_sub_one] at hwin
    have hmin : ∀ l ∈ LL, ∀ p ∈ l, v a ≤ v p :=
      fun l hl p hp => hce.amin p (List.mem_flatten.2 ⟨l, hl, hp⟩)
    have htop : ∀ l ∈ LL, ∀ p ∈ l, v p + 2 * v a ≤ T :=
      fun l hl p hp => ht.top p (List.mem_flatten.2 ⟨l, hl, hp⟩)
    -- the bins of the packing hold 2, 3 or 4 items
    have h24 : ∀ l ∈ LL, 2 ≤ l.length ∧ l.length ≤ 4 := fun l hl =>
      ⟨tight_two hTB ht.toTight l hl, bin_le_four (by omega) (hmin l hl) (hcap l hl)⟩
    have hcLL := count_two_four LL h24
    rw [hce.len] at hcLL
    -- the schedule: bins of 3 or 4 values
    obtain ⟨Q, hQk, hQp, hQ⟩ := packable_partition hce.pack
    have hQ3 := irred_opt_bins hTB h Q hQk hQp hQ
    have hge : ∀ O ∈ Q, ∀ u ∈ O, v a ≤ u := by
      intro O hO u hu
      obtain ⟨p, hp, rfl⟩ := List.mem_map.1 (hQp.mem_iff.1 (List.mem_flatten.2 ⟨O, hO, hu⟩))
      rcases List.mem_append.1 hp with hp | hp
      · exact hce.amin p hp
      · simp only [List.mem_singleton] at hp; subst hp; exact Nat.le_refl _
    have hQ34 : ∀ O ∈ Q, O.length = 3 ∨ O.length = 4 := by
      intro O hO
      have h1 := hQ3 O hO
      have h2 := items_per_bin (c := 4) (hge O hO) (by omega) (hQ O hO)
      omega
    have hcQ := count_three_four Q hQ34
    rw [hQk] at hcQ
    have hlenQ := hQp.length_eq
    simp only [List.length_map, List.length_append, List.length_cons, List.length_nil] at hlenQ
    -- tiny values against big values in the schedule
    have hoptbin : ∀ O ∈ Q, 2 * O.countP (bigV T B (v a)) + 4 * (if O.length = 4 then 1 else 0) ≤
        O.countP (tinyV T B (v a)) := by
      intro O hO
      have hs := hQ O hO
      have hg := hge O hO
      rcases hQ34 O hO with h3 | h4
      · match O, h3, hs, hg with
        | [x, y, z], _, hs, hg =>
          have := hg x (by simp)
          have := hg y (by simp)
          have := hg z (by simp)
          simp only [sumL] at hs
          simp only [List.countP_cons, List.countP_nil, bigV, tinyV, decide_eq_true_eq, List.length_cons,
            List.length_nil]
          split_ifs <;> omega
      · match O, h4, hs, hg with
        | [x, y, z, u], _, hs, hg =>
          have := hg x (by simp)
          have := hg y (by simp)
          have := hg z (by simp)
          have := hg u (by simp)
          simp only [sumL] at hs
          have tx : tinyV T B (v a) x = true := by simp only [tinyV, decide_eq_true_eq]; omega
          have ty : tinyV T B (v a) y = true := by simp only [tinyV, decide_eq_true_eq]; omega
          have tz : tinyV T B (v a) z = true := by simp only [tinyV, decide_eq_true_eq]; omega
          have tu : tinyV T B (v a) u = true := by simp only [tinyV, decide_eq_true_eq]; omega
          have bx : bigV T B (v a) x = false := by simp only [bigV, decide_eq_false_iff_not]; omega
          have by' : bigV T B (v a) y = false := by simp only [bigV, decide_eq_false_iff_not]; omega
          have bz : bigV T B (v a) z = false := by simp only [bigV, decide_eq_false_iff_not]; omega
          have bu : bigV T B (v a) u = false := by simp only [bigV, decide_eq_false_iff_not]; omega
          simp [tx, ty, tz, tu, bx, by', bz, bu]
    have hopt := countP_flatten_opt (bigV T B (v a)) (tinyV T B (v a)) Q hoptbin
    -- big items in the packing
    have hbigLL := countP_flatten_ge_two (fun x => bigV T B (v a) (v x)) LL (by
      intro l hl h2 p hp
      match l, h2, hl, hp with
      | [x, y], _, hl, hp =>
        obtain ⟨bx, by'⟩ := tight_pair_big ht.toTight hl
        simp only [List.mem_cons, List.not_mem_nil, or_false] at hp
        simp only [bigV, decide_eq_true_eq]
        rcases hp with rfl | rfl
        · exact bx
        · exact by')
    have hbigAll : LL.flatten.countP (fun x => bigV T B (v a) (v x)) ≤ Q.flatten.countP (bigV T B (v a)) := by
      rw [hQp.countP_eq, List.map_append, List.countP_append, List.countP_map]
      exact Nat.le_add_right _ _
    have htinyAll : Q.flatten.countP (tinyV T B (v a)) ≤
        LL.flatten.countP (fun x => tinyV T B (v a) (v x)) + 1 := by
      rw [hQp.countP_eq, List.map_append, List.countP_append, List.countP_map]
      have e2' : ([a].map v).countP (tinyV T B (v a)) ≤ 1 := by
        have := List.countP_le_length (p := tinyV T B (v a)) (l := [a].map v)
        simpa using this
      have e3' : LL.flatten.countP (tinyV T B (v a) ∘ v) =
          LL.flatten.countP (fun x => tinyV T B (v a) (v x)) := rfl
      omega
    -- a bin of three tiny items is filled too low
    have hbeta : ∀ x y z : α, [x, y, z] ∈ LL →
        ¬ (v x + B + 2 * v a < 2 * T ∧ v y + B + 2 * v a < 2 * T ∧ v z + B + 2 * v a < 2 * T) := by
      intro x y z hl ⟨t1, t2, t3⟩
      have hnf := hce.nofit _ hl
      simp only [binSum, List.map_cons, List.map_nil, sumL] at hnf
      omega
    -- an item after a bin of three is at most its smallest item, or the bin is heavy
    have halpha2 : ∀ (j : Nat) (hh s w : α), LL[j]? = some [hh, s, w] → v s ≤ v hh ∧ v w ≤ v s ∧
        ∀ (i : Nat) (l : List α) (q : α), j < i → LL[i]? = some l → q ∈ l →
          v q ≤ v w ∨ (B < v hh + v s + v q ∧ v q ≤ v s) := by
      intro j hh s w hl1
      have hl1mem := List.mem_of_getElem? hl1
      have hsort := ht.strong.sorted _ hl1mem
      have hs1 : v s ≤ v hh := (List.pairwise_cons.1 hsort).1 s (by simp)
      have hs2 : v w ≤ v s := (List.pairwise_cons.1 (List.pairwise_cons.1 hsort).2).1 w (by simp)
      refine ⟨hs1, hs2, ?_⟩
      intro i l q hij hli hq
      have hh1 := htop _ hl1mem hh (by simp)
      have hq1 := htop l (List.mem_of_getElem? hli) q hq
      by_cases hlt : v q ≤ v w
      · exact Or.inl hlt
      · right
        have hr := ht.strong.rule j i [hh, s, w] l q hij hl1 hli hq
        by_cases c1 : v q ≤ v hh <;> by_cases c2 : v q ≤ v s <;>
          simp [c1, c2, hlt, binSum, sumL] at hr <;> omega
    -- at most `4·#(bins of four) + 2` tiny items are packed
    have hpacked : LL.flatten.countP (fun x => tinyV T B (v a) (v x)) ≤
        4 * LL.countP (fun l => decide (l.length = 4)) + 2 := by
      -- the bound for a bin that is not the first bin of three with a tiny item
      have hfour : ∀ l : List α, l.length = 4 →
          l.countP (fun x => tinyV T B (v a) (v x)) ≤ 4 * (if l.length = 4 then 1 else 0) := by
        intro l h4
        have := List.countP_le_length (p := fun x => tinyV T B (v a) (v x)) (l := l)
        rw [if_pos h4]; omega
      have htwo : ∀ l ∈ LL, l.length = 2 →
          l.countP (fun x => tinyV T B (v a) (v x)) ≤ 4 * (if l.length = 4 then 1 else 0) := by
        intro l hl h2
        have : l.countP (fun x => tinyV T B (v a) (v x)) = 0 := by
          rw [List.countP_eq_zero]
          intro p hp
          match l, h2, hl, hp with
          | [x, y], _, hl, hp =>
            obtain ⟨bx, by'⟩ := tight_pair_big ht.toTight hl
            simp only [List.mem_cons, List.not_mem_nil, or_false] at hp
            simp only [tinyV, decide_eq_true_eq]
            rcases hp with rfl | rfl <;> omega
        omega
      by_cases hex : ∃ (j : Nat) (l : List α) (p : α), LL[j]? = some l ∧ l.length = 3 ∧ p ∈ l ∧
          v p + B + 2 * v a < 2 * T
      · obtain ⟨j0, hj0⟩ := hex
        obtain ⟨j, ⟨l1, p, hl1, hl1len, hpl, hpt⟩, hleast⟩ :=
          exists_least (P := fun (j : Nat) => ∃ (l : List α) (p : α), LL[j]? = some l ∧ l.length = 3 ∧ p ∈ l ∧
            v p + B + 2 * v a < 2 * T) j0 hj0
        match l1, hl1len, hl1, hpl with
        | [hh, s, w], _, hl1, hpl =>
        obtain ⟨hs1, hs2, hal2⟩ := halpha2 j hh s w hl1
        have hwt : v w + B + 2 * v a < 2 * T := by
          simp only [List.mem_cons, List.not_mem_nil, or_false] at hpl
          rcases hpl with rfl | rfl | rfl <;> omega
        have hj : j < LL.length := (List.getElem?_eq_some_iff.1 hl1).1
        have hLj : LL[j] = [hh, s, w] := (List.getElem?_eq_some_iff.1 hl1).2
        have hjmem := List.mem_of_getElem? hl1
        have hwinj := hwin _ hjmem
        simp only [binSum, List.map_cons, List.map_nil, sumL] at hwinj
        have hwa := hmin _ hjmem w (by simp)
        have hh1 := htop _ hjmem hh (by simp)
        have c3 : [hh, s, w].countP (fun x => tinyV T B (v a) (v x)) ≤ 2 := by
          apply Nat.le_of_not_lt
          intro h3'
          have hle := List.countP_le_length (p := fun x => tinyV T B (v a) (v x)) (l := [hh, s, w])
          simp only [List.length_cons, List.length_nil] at hle
          have heq : [hh, s, w].countP (fun x => tinyV T B (v a) (v x)) = [hh, s, w].length := by
            simp only [List.length_cons, List.length_nil]; omega
          have hall := List.countP_eq_length.1 heq
          have t1 := hall hh (by simp)
          have t2 := hall s (by simp)
          have t3 := hall w (by simp)
          simp only [tinyV, decide_eq_true_eq] at t1 t2 t3
          exact hbeta hh s w hjmem ⟨t1, t2, t3⟩
        -- the bound for the bins that are neither `j` nor (later) `j'`
        have hbnd : ∀ (jj : Nat), j ≤ jj →
            (∀ (i : Nat) (l : List α), j < i → i < jj → LL[i]? = some l → l.length = 3 →
              ∀ q ∈ l, ¬ (v q + B + 2 * v a < 2 * T)) →
            (∀ (i : Nat) (l : List α), jj < i → LL[i]? = some l → l.length = 3 →
              l.countP (fun x => tinyV T B (v a) (v x)) = 0) →
            ∀ (i0 : Nat) (l : List α), LL[i0]? = some l → i0 ≠ j → i0 ≠ jj →
              l.countP (fun x => tinyV T B (v a) (v x)) ≤ 4 * (if l.length = 4 then 1 else 0) := by
          intro jj hjj hmid hafter i0 l hli hne1 hne2
          have hlm := List.mem_of_getElem? hli
          have hlen := h24 l hlm
          have hc : l.length = 2 ∨ l.length = 3 ∨ l.length = 4 := by omega
          rcases hc with h2 | h3 | h4
          · exact htwo l hlm h2
          · have : l.countP (fun x => tinyV T B (v a) (v x)) = 0 := by
              rcases Nat.lt_or_ge i0 j with hlt | hge'
              · rw [List.countP_eq_zero]
                intro q hq
                simp only [tinyV, decide_eq_true_eq]
                intro hqt
                exact hleast i0 hlt ⟨l, q, hli, h3, hq, hqt⟩
              · rcases Nat.lt_or_ge i0 jj with hlt2 | hge2
                · rw [List.countP_eq_zero]
                  intro q hq
                  simp only [tinyV, decide_eq_true_eq]
                  exact hmid i0 l (by omega) hlt2 hli h3 q hq
                · exact hafter i0 l (by omega) hli h3
            omega
          · exact hfour l h4
        by_cases hA : ∀ (i : Nat) (l : List α) (q : α), j < i → LL[i]? = some l → q ∈ l → v q ≤ v w
        · -- everything after bin `j` is tiny
          have hother : ∀ l ∈ LL.eraseIdx j,
              l.countP (fun x => tinyV T B (v a) (v x)) ≤ 4 * (if l.length = 4 then 1 else 0) := by
            intro l hl
            obtain ⟨i, hij, hli⟩ := List.mem_eraseIdx_iff_getElem?.1 hl
            refine hbnd j (Nat.le_refl _) (fun i l h1 h2 => by omega) ?_ i l hli hij hij
            intro i l hji hli h3
            exfalso
            have hlm := List.mem_of_getElem? hli
            match l, h3, hli, hlm with
            | [x, y, z], _, hli, hlm =>
              have := hA i _ x hji hli (by simp)
              have := hA i _ y hji hli (by simp)
              have := hA i _ z hji hli (by simp)
              exact hbeta x y z hlm ⟨by omega, by omega, by omega⟩
          have p1 := flatten_perm_getElem_eraseIdx LL j hj
          rw [p1.countP_eq, List.countP_append, hLj]
          have c1 := countP_flatten_le_four (fun x => tinyV T B (v a) (v x)) (LL.eraseIdx j) hother
          have c2 : (LL.eraseIdx j).countP (fun l => decide (l.length = 4)) ≤
              LL.countP (fun l => decide (l.length = 4)) := (List.eraseIdx_sublist LL j).countP_le
          omega
        · -- bin `j` is heavy: a later item is larger than `w`
          have hviol : ∃ q : α, B < v hh + v s + v q ∧ v q ≤ v s := by
            apply Classical.byContradiction
            intro hno
            apply hA
            intro i l q hji hli hq
            rcases hal2 i l q hji hli hq with h1 | h1
            · exact h1
            · exact absurd ⟨q, h1⟩ hno
          obtain ⟨q0, hq01, hq02⟩ := hviol
          have c3' : [hh, s, w].countP (fun x => tinyV T B (v a) (v x)) ≤ 1 := by
            have t1 : tinyV T B (v a) (v hh) = false := by
              simp only [tinyV, decide_eq_false_iff_not]; omega
            have t2 : tinyV T B (v a) (v s) = false := by
              simp only [tinyV, decide_eq_false_iff_not]; omega
            have e : [hh, s, w].countP (fun x => tinyV T B (v a) (v x)) =
                [w].countP (fun x => tinyV T B (v a) (v x)) := by
              simp [List.countP_cons, t1, t2]
            have := List.countP_le_length (p := fun x => tinyV T B (v a) (v x)) (l := [w])
            simp only [List.length_cons, List.length_nil] at this
            omega
          by_cases hex2 : ∃ (j' : Nat) (l : List α) (p : α), j < j' ∧ LL[j']? = some l ∧ l.length = 3 ∧ p ∈ l ∧
              v p + B + 2 * v a < 2 * T
          · obtain ⟨j0', hj0'⟩ := hex2
            obtain ⟨j', ⟨l2, p2, hjj', hl2, hl2len, hp2l, hp2t⟩, hleast2⟩ :=
              exists_least (P := fun (j' : Nat) => ∃ (l : List α) (p : α), j < j' ∧ LL[j']? = some l ∧
                l.length = 3 ∧ p ∈ l ∧ v p + B + 2 * v a < 2 * T) j0' hj0'
            match l2, hl2len, hl2, hp2l with
            | [x, y, t], _, hl2, hp2l =>
            obtain ⟨hx1, hx2, hal2'⟩ := halpha2 j' x y t hl2
            have htt : v t + B + 2 * v a < 2 * T := by
              simp only [List.mem_cons, List.not_mem_nil, or_false] at hp2l
              rcases hp2l with rfl | rfl | rfl <;> omega
            have hj' : j' < LL.length := (List.getElem?_eq_some_iff.1 hl2).1
            have hLj' : LL[j'] = [x, y, t] := (List.getElem?_eq_some_iff.1 hl2).2
            have hl2mem := List.mem_of_getElem? hl2
            have hwin2 := ce_level_window2 hce hjj' hl1 hl2
            simp only [binSum, List.map_cons, List.map_nil, sumL] at hwin2
            have hta := hmin _ hl2mem t (by simp)
            have hnf2 := hce.nofit _ hl2mem
            simp only [binSum, List.map_cons, List.map_nil, sumL] at hnf2
            -- everything after bin `j'` is tiny
            have hB' : ∀ (i : Nat) (l : List α) (q : α), j' < i → LL[i]? = some l → q ∈ l → v q ≤ v t := by
              intro i l q hji hli hq
              rcases hal2' i l q hji hli hq with h1 | ⟨h1, h2⟩
              · exact h1
              · exfalso; omega
            -- `y` is not tiny
            have hy : ¬ (v y + B + 2 * v a < 2 * T) := by
              intro hyt
              rcases hal2 j' _ x hjj' hl2 (by simp) with h1 | ⟨h1, h2⟩
              · exact hbeta x y t hl2mem ⟨by omega, hyt, htt⟩
              · omega
            have c4 : [x, y, t].countP (fun x => tinyV T B (v a) (v x)) ≤ 1 := by
              have t1 : tinyV T B (v a) (v x) = false := by
                simp only [tinyV, decide_eq_false_iff_not]; omega
              have t2 : tinyV T B (v a) (v y) = false := by
                simp only [tinyV, decide_eq_false_iff_not]; omega
              have e : [x, y, t].countP (fun x => tinyV T B (v a) (v x)) =
                  [t].countP (fun x => tinyV T B (v a) (v x)) := by
                simp [List.countP_cons, t1, t2]
              have := List.countP_le_length (p := fun x => tinyV T B (v a) (v x)) (l := [t])
              simp only [List.length_cons, List.length_nil] at this
              omega
            have hb2 := hbnd j' (by omega)
              (fun i l h1 h2 hli h3 q hq hqt => hleast2 i h2 ⟨l, q, h1, hli, h3, hq, hqt⟩)
              (by
                intro i l hji hli h3
                exfalso
                have hlm := List.mem_of_getElem? hli
                match l, h3, hli, hlm with
                | [x', y', z'], _, hli, hlm =>
                  have := hB' i _ x' hji hli (by simp)
                  have := hB' i _ y' hji hli (by simp)
                  have := hB' i _ z' hji hli (by simp)
                  exact hbeta x' y' z' hlm ⟨by omega, by omega, by omega⟩)
            -- split off bin `j'`, then bin `j`
            have p1 := flatten_perm_getElem_eraseIdx LL j' hj'
            have hjL' : j < (LL.eraseIdx j').length := by
              rw [List.length_eraseIdx, if_pos hj']; omega
            have hL'j : (LL.eraseIdx j')[j]? = some [hh, s, w] := by
              rw [List.getElem?_eraseIdx, if_pos hjj']; exact hl1
            have hL'j' : (LL.eraseIdx j')[j] = [hh, s, w] := (List.getElem?_eq_some_iff.1 hL'j).2
            have p2 := flatten_perm_getElem_eraseIdx (LL.eraseIdx j') j hjL'
            have hother : ∀ l ∈ (LL.eraseIdx j').eraseIdx j,
                l.countP (fun x => tinyV T B (v a) (v x)) ≤ 4 * (if l.length = 4 then 1 else 0) := by
              intro l hl
              obtain ⟨i, hij, hli⟩ := List.mem_eraseIdx_iff_getElem?.1 hl
              rw [List.getElem?_eraseIdx] at hli
              by_cases hi : i < j'
              · rw [if_pos hi] at hli
                exact hb2 i l hli hij (by omega)
              · rw [if_neg hi] at hli
                exact hb2 (i + 1) l hli (by omega) (by omega)
            rw [p1.countP_eq, List.countP_append, hLj', p2.countP_eq, List.countP_append, hL'j']
            have c1 := countP_flatten_le_four (fun x => tinyV T B (v a) (v x)) _ hother
            have c2 : ((LL.eraseIdx j').eraseIdx j).countP (fun l => decide (l.length = 4)) ≤
                LL.countP (fun l => decide (l.length = 4)) :=
              ((List.eraseIdx_sublist (LL.eraseIdx j') j).trans (List.eraseIdx_sublist LL j')).countP_le
            omega
          · -- no further bin of three with a tiny item
            have hother : ∀ l ∈ LL.eraseIdx j,
                l.countP (fun x => tinyV T B (v a) (v x)) ≤ 4 * (if l.length = 4 then 1 else 0) := by
              intro l hl
              obtain ⟨i, hij, hli⟩ := List.mem_eraseIdx_iff_getElem?.1 hl
              refine hbnd j (Nat.le_refl _) (fun i l h1 h2 => by omega) ?_ i l hli hij hij
              intro i l hji hli h3
              rw [List.countP_eq_zero]
              intro q hq
              simp only [tinyV, decide_eq_true_eq]
              intro hqt
              exact hex2 ⟨i, l, q, hji, hli, h3, hq, hqt⟩
            have p1 := flatten_perm_getElem_eraseIdx LL j hj
            rw [p1.countP_eq, List.countP_append, hLj]
            have c1 := countP_flatten_le_four (fun x => tinyV T B (v a) (v x)) (LL.eraseIdx j) hother
            have c2 : (LL.eraseIdx j).countP (fun l => decide (l.length = 4)) ≤
                LL.countP (fun l => decide (l.length = 4)) := (List.eraseIdx_sublist LL j).countP_le
            omega
      · have hallb : ∀ l ∈ LL,
            l.countP (fun x => tinyV T B (v a) (v x)) ≤ 4 * (if l.length = 4 then 1 else 0) := by
          intro l hl
          have hlen := h24 l hl
          have hc : l.length = 2 ∨ l.length = 3 ∨ l.length = 4 := by omega
          rcases hc with h2 | h3 | h4
          · exact htwo l hl h2
          · have : l.countP (fun x => tinyV T B (v a) (v x)) = 0 := by
              rw [List.countP_eq_zero]
              intro q hq
              simp only [tinyV, decide_eq_true_eq]
              intro hqt
              obtain ⟨i, hi, rfl⟩ := List.mem_iff_getElem.1 hl
              exact hex ⟨i, _, q, List.getElem?_eq_getElem hi, h3, hq, hqt⟩
            omega
          · exact hfour l h4
        have := countP_flatten_le_four (fun x => tinyV T B (v a) (v x)) LL hallb
        omega
    omega

section NineBins
variable (v : α → Nat)

/-- **Multifit, `61/50 + 2^−it`, for at most nine bins** (unconditional in the input). -/
theorem ffdFits_122_k9 {k : Nat} (hk : 0 < k) (hk9 : k ≤ 9) {items : List α} {opt : Int}
    (hopt : IsOptimalValue .minLargest k (items.map v) opt) {ρ : Rat} (hρ : 61 / 50 ≤ ρ) :
    FfdFits v k (sortDesc v items) ρ opt := by
  refine ffdFits_of_no_irred v hk hopt (p := 61) (q := 50) (by decide) (by decide) (by norm_num; exact hρ) ?_
  intro T B hTB hB k' hk' LL a hi hcap
  rcases Nat.lt_or_ge k' 7 with h6 | h7
  · exact tight_small_k hTB hB (by omega) (irred_tight hTB hi).toTight
  · rcases Nat.lt_or_ge k' 9 with h8 | h9
    · exact irred_seven_eight_false (by omega) hTB hB hi hcap
    · have : k' = 9 := by omega
      subst this
      exact irred_nine_false hTB hB hi hcap

theorem multifit_ratio_122_k9 {k : Nat} {items : List α} {it : Nat} {b : Bins α} (hk : 0 < k)
    (hk9 : k ≤ 9) {opt : Int} (hopt : IsOptimalValue .minLargest k (items.map v) opt)
    (h : multifit v k items it = .ok b) :
    ((maxL b.sums : Nat) : Rat) ≤ (61 / 50 + 1 / 2 ^ it) * opt :=
  multifit_ratio_of_ffdFits v hk hopt (by norm_num) (ffdFits_122_k9 v hk hk9 hopt (le_refl _)) h

/-- `FfdFits ρ` for every `ρ ≥ 61/50` and at most ten bins -/
theorem ffdFits_122_k10 {k : Nat} (hk : 0 < k) (hk10 : k ≤ 10) {items : List α} {opt : Int}
    (hopt : IsOptimalValue .minLargest k (items.map v) opt) {ρ : Rat} (hρ : 61 / 50 ≤ ρ) :
    FfdFits v k (sortDesc v items) ρ opt := by
  refine ffdFits_of_no_irred v hk hopt (p := 61) (q := 50) (by decide) (by decide) (by norm_num; exact hρ) ?_
  intro T B hTB hB k' hk' LL a hi hcap
  rcases Nat.lt_or_ge k' 7 with h6 | h7
  · exact tight_small_k hTB hB (by omega) (irred_tight hTB hi).toTight
  · rcases Nat.lt_or_ge k' 9 with h8 | h9
    · exact irred_seven_eight_false (by omega) hTB hB hi hcap
    · rcases Nat.lt_or_ge k' 10 with h9' | h10
      · have : k' = 9 := by omega
        subst this
        exact irred_nine_false hTB hB hi hcap
      · have : k' = 10 := by omega
        subst this
        exact irred_ten_false hTB hB hi hcap

/-- **Multifit, `61/50 + 2^−it`, for at most ten bins** (unconditional in the input). -/
theorem multifit_ratio_122_k10 {k : Nat} {items : List α} {it : Nat} {b : Bins α} (hk : 0 < k)
    (hk10 : k ≤ 10) {opt : Int} (hopt : IsOptimalValue .minLargest k (items.map v) opt)
    (h : multifit v k items it = .ok b) :
    ((maxL b.sums : Nat) : Rat) ≤ (61 / 50 + 1 / 2 ^ it) * opt :=
  multifit_ratio_of_ffdFits v hk hopt (by norm_num) (ffdFits_122_k10 v hk hk10 hopt (le_refl _)) h

/-- `FfdFits ρ` for every `ρ ≥ 61/50` and at most eleven bins -/
theorem ffdFits_122_k11 {k : Nat} (hk : 0 < k) (hk11 : k ≤ 11) {items : List α} {opt : Int}
    (hopt : IsOptimalValue .minLargest k (items.map v) opt) {ρ : Rat} (hρ : 61 / 50 ≤ ρ) :
    FfdFits v k (sortDesc v items) ρ opt := by
  refine ffdFits_of_no_irred v hk hopt (p := 61) (q := 50) (by decide) (by decide) (by norm_num; exact hρ) ?_
  intro T B hTB hB k' hk' LL a hi hcap
  rcases Nat.lt_or_ge k' 7 with h6 | h7
  · exact tight_small_k hTB hB (by omega) (irred_tight hTB hi).toTight
  · rcases Nat.lt_or_ge k' 9 with h8 | h9
    · exact irred_seven_eight_false (by omega) hTB hB hi hcap
    · have hc : k' = 9 ∨ k' = 10 ∨ k' = 11 := by omega
      rcases hc with rfl | rfl | rfl
      · exact irred_nine_false hTB hB hi hcap
      · exact irred_ten_false hTB hB hi hcap
      · exact irred_eleven_false hTB hB hi hcap

/-- **Multifit, `61/50 + 2^−it`, for at most eleven bins** (unconditional in the input). -/
theorem multifit_ratio_122_k11 {k : Nat} {items : List α} {it : Nat} {b : Bins α} (hk : 0 < k)
    (hk11 : k ≤ 11) {opt : Int} (hopt : IsOptimalValue .minLargest k (items.map v) opt)
    (h : multifit v k items it = .ok b) :
    ((maxL b.sums : Nat) : Rat) ≤ (61 / 50 + 1 / 2 ^ it) * opt :=
  multifit_ratio_of_ffdFits v hk hopt (by norm_num) (ffdFits_122_k11 v hk hk11 hopt (le_refl _)) h

/-- **Multifit, `11/9 + 2^−it`, for at most ten bins.** -/
theorem multifit_ratio_11_9_k10 {k : Nat} {items : List α} {it : Nat} {b : Bins α} (hk : 0 < k)
    (hk10 : k ≤ 10) {opt : Int} (hopt : IsOptimalValue .minLargest k (items.map v) opt)
    (h : multifit v k items it = .ok b) :
    ((maxL b.sums : Nat) : Rat) ≤ (11 / 9 + 1 / 2 ^ it) * opt := by
  refine multifit_ratio_of_ffdFits v hk hopt (by norm_num) ?_ h
  refine ffdFits_of_no_irred v hk hopt (p := 11) (q := 9) (by decide) (by decide) (by norm_num) ?_
  intro T B hTB hB k' hk' LL a hi hcap
  rcases Nat.lt_or_ge k' 8 with h7 | h8
  · exact tight_k hTB (k := 7) (by decide) (by omega) (irred_tight hTB hi).toTight (by omega)
  · rcases Nat.lt_or_ge k' 10 with h9 | h10
    · exact irred_window_false hTB (Or.inr (Or.inl ⟨hB, by omega⟩)) hi hcap
    · exact irred_count_false hTB (Or.inr (Or.inl ⟨hB, by omega⟩)) hi hcap

/-- **Multifit, `16/13 + 2^−it`, for at most fourteen bins.** -/
theorem multifit_ratio_16_13_k14 {k : Nat} {items : List α} {it : Nat} {b : Bins α} (hk : 0 < k)
    (hk14 : k ≤ 14) {opt : Int} (hopt : IsOptimalValue .minLargest k (items.map v) opt)
    (h : multifit v k items it = .ok b) :
    ((maxL b.sums : Nat) : Rat) ≤ (16 / 13 + 1 / 2 ^ it) * opt := by
  refine multifit_ratio_of_ffdFits v hk hopt (by norm_num) ?_ h
  refine ffdFits_of_no_irred v hk hopt (p := 16) (q := 13) (by decide) (by decide) (by norm_num) ?_
  intro T B hTB hB k' hk' LL a hi hcap
  rcases Nat.lt_or_ge k' 11 with h10 | h11
  · exact tight_k hTB (k := 10) (by decide) (by omega) (irred_tight hTB hi).toTight (by omega)
  · rcases Nat.lt_or_ge k' 13 with h12 | h13
    · exact irred_window_false hTB (Or.inr (Or.inr (Or.inl ⟨hB, by omega⟩))) hi hcap
    · exact irred_count_false hTB (Or.inr (Or.inr (Or.inl ⟨hB, by omega⟩))) hi hcap

/-- **Multifit, `6/5 + 2^−it`, for at most six bins.** -/
theorem multifit_ratio_6_5_k6 {k : Nat} {items : List α} {it : Nat} {b : Bins α} (hk : 0 < k)
    (hk6 : k ≤ 6) {opt : Int} (hopt : IsOptimalValue .minLargest k (items.map v) opt)
    (h : multifit v k items it = .ok b) :
    ((maxL b.sums : Nat) : Rat) ≤ (6 / 5 + 1 / 2 ^ it) * opt := by
  refine multifit_ratio_of_ffdFits v hk hopt (by norm_num) ?_ h
  refine ffdFits_of_no_irred v hk hopt (p := 6) (q := 5) (by decide) (by decide) (by norm_num) ?_
  intro T B hTB hB k' hk' LL a hi hcap
  rcases Nat.lt_or_ge k' 5 with h4 | h5
  · exact tight_k hTB (k := 4) (by decide) (by omega) (irred_tight hTB hi).toTight (by omega)
  · rcases Nat.lt_or_ge k' 6 with h5' | h6
    · exact irred_window_false hTB (Or.inr (Or.inr (Or.inr ⟨hB, by omega⟩))) hi hcap
    · exact irred_count_false hTB (Or.inr (Or.inr (Or.inr ⟨hB, by omega⟩))) hi hcap

/-- **Multifit, `11/9 + 2^−it`, for at most eleven bins.** -/
theorem multifit_ratio_11_9_k11 {k : Nat} {items : List α} {it : Nat} {b : Bins α} (hk : 0 < k)
    (hk11 : k ≤ 11) {opt : Int} (hopt : IsOptimalValue .minLargest k (items.map v) opt)
    (h : multifit v k items it = .ok b) :
    ((maxL b.sums : Nat) : Rat) ≤ (11 / 9 + 1 / 2 ^ it) * opt := by
  refine multifit_ratio_of_ffdFits v hk hopt (by norm_num) ?_ h
  refine ffdFits_of_no_irred v hk hopt (p := 11) (q := 9) (by decide) (by decide) (by norm_num) ?_
  intro T B hTB hB k' hk' LL a hi hcap
  rcases Nat.lt_or_ge k' 8 with h7 | h8
  · exact tight_k hTB (k := 7) (by decide) (by omega) (irred_tight hTB hi).toTight (by omega)
  · rcases Nat.lt_or_ge k' 10 with h9 | h10
    · exact irred_window_false hTB (Or.inr (Or.inl ⟨hB, by omega⟩)) hi hcap
    · rcases Nat.lt_or_ge k' 11 with h10' | h11
      · exact irred_count_false hTB (Or.inr (Or.inl ⟨hB, by omega⟩)) hi hcap
      · have : k' = 11 := by omega
        subst this
        exact irred_eleven_false_11_9 hTB hB hi hcap

/-- **Multifit, `16/13 + 2^−it`, for at most sixteen bins.** -/
theorem multifit_ratio_16_13_k16 {k : Nat} {items : List α} {it : Nat} {b : Bins α} (hk : 0 < k)
    (hk16 : k ≤ 16) {opt : Int} (hopt : IsOptimalValue .minLargest k (items.map v) opt)
    (h : multifit v k items it = .ok b) :
    ((maxL b.sums : Nat) : Rat) ≤ (16 / 13 + 1 / 2 ^ it) * opt := by
  refine multifit_ratio_of_ffdFits v hk hopt (by norm_num) ?_ h
  refine ffdFits_of_no_irred v hk hopt (p := 16) (q := 13) (by decide) (by decide) (by norm_num) ?_
  intro T B hTB hB k' hk' LL a hi hcap
  rcases Nat.lt_or_ge k' 11 with h10 | h11
  · exact tight_k hTB (k := 10) (by decide) (by omega) (irred_tight hTB hi).toTight (by omega)
  · rcases Nat.lt_or_ge k' 13 with h12 | h13
    · exact irred_window_false hTB (Or.inr (Or.inr (Or.inl ⟨hB, by omega⟩))) hi hcap
    · rcases Nat.lt_or_ge k' 15 with h14 | h15
      · exact irred_count_false hTB (Or.inr (Or.inr (Or.inl ⟨hB, by omega⟩))) hi hcap
      · exact irred_count2_false_16_13 hTB hB (by omega) hi hcap

end NineBins

/-! ## Non-vacuity -/

example : ∃ b, multifit id 2 [3, 3, 2, 2, 2] 10 = .ok b ∧
    ((maxL b.sums : Nat) : Rat) ≤ (61 / 50 + 1 / 2 ^ 10) * ((6 : Int) : Rat) := by
  obtain ⟨b, h, _⟩ := Part.multifit_perm (v := id) (k := 2) (items := [3, 3, 2, 2, 2]) (it := 10)
    (by decide) (by decide)
  exact ⟨b, h, multifit_ratio_122_k11 id (by decide) (by decide) opt_33222 h⟩

example : ∃ b, multifit id 2 [3, 3, 2, 2, 2] 10 = .ok b ∧
    ((maxL b.sums : Nat) : Rat) ≤ (11 / 9 + 1 / 2 ^ 10) * ((6 : Int) : Rat) ∧
    ((maxL b.sums : Nat) : Rat) ≤ (16 / 13 + 1 / 2 ^ 10) * ((6 : Int) : Rat) ∧
    ((maxL b.sums : Nat) : Rat) ≤ (6 / 5 + 1 / 2 ^ 10) * ((6 : Int) : Rat) := by
  obtain ⟨b, h, _⟩ := Part.multifit_perm (v := id) (k := 2) (items := [3, 3, 2, 2, 2]) (it := 10)
    (by decide) (by decide)
  exact ⟨b, h, multifit_ratio_11_9_k10 id (by decide) (by decide) opt_33222 h,
    multifit_ratio_16_13_k14 id (by decide) (by decide) opt_33222 h,
    multifit_ratio_6_5_k6 id (by decide) (by decide) opt_33222 h⟩

end Prtpy.MultiFit122C

/-
#print axioms Prtpy.MultiFit122C.irred_nine_false
#print axioms Prtpy.MultiFit122C.multifit_ratio_122_k9
#print axioms Prtpy.MultiFit122C.irred_count_false
#print axioms Prtpy.MultiFit122C.multifit_ratio_11_9_k10
#print axioms Prtpy.MultiFit122C.multifit_ratio_16_13_k14
#print axioms Prtpy.MultiFit122C.multifit_ratio_6_5_k6
#print axioms Prtpy.MultiFit122C.irred_ten_false
#print axioms Prtpy.MultiFit122C.multifit_ratio_122_k10
#print axioms Prtpy.MultiFit122C.multifit_ratio_11_9_k11
#print axioms Prtpy.MultiFit122C.multifit_ratio_16_13_k16
#print axioms Prtpy.MultiFit122C.irred_eleven_false
#print axioms Prtpy.MultiFit122C.multifit_ratio_122_k11

observed output (each of the twelve):
'Prtpy.MultiFit122C.<name>' depends on axioms: [propext, Classical.choice, Quot.sound]
-/
