-- NOTE (round 7): 1.22 for k <= 8 and outside a band of item sizes is proved in MultiFit122.lean / MultiFit122B.lean.
/-
  PrtpyProofs.MaxMin2 — property C08, continued (see PrtpyProofs.MaxMin).
-/
import Mathlib.Tactic.Linarith
import Mathlib.Tactic.Ring
import Mathlib.Tactic.Positivity
import Prtpy
import PrtpyProofs.Part
import PrtpyProofs.Fit
import PrtpyProofs.Oracle
import PrtpyProofs.LPT43
import PrtpyProofs.MaxMin
open Prtpy

namespace Prtpy.MaxMin2
open Prtpy.LPT43 Prtpy.MaxMin

variable {α : Type}

/-! ## Part A. First-fit-decreasing with capacity `≥ 5/4 · T` -/

/-! ### A.1 The shape of a first-fit packing of a non-increasing sequence -/

/-- Structure of a first-fit packing of a non-increasing sequence: for bins `i ≤ j` and an item `p` of bin `j`,
    bin `i` starts with an item `f ≥ p`; and if `i < j` and `f + p ≤ B`, bin `i` holds a further item `≥ p`
    (otherwise `p` would have been put into bin `i`). -/
def FFDInv (v : α → Nat) (B : Nat) (Ls : List (List α)) : Prop :=
  ∀ (i j : Nat) (l : List α) (p : α), i ≤ j → Ls[j]? = some l → p ∈ l →
    ∃ f tl, Ls[i]? = some (f :: tl) ∧ v p ≤ v f ∧ (i < j → v f + v p ≤ B → ∃ y ∈ tl, v p ≤ v y)

/-- a bin without room for the (smallest so far) item `x` starts with an item `f ≥ x`, and holds a second item
    if `f + x ≤ B` -/
theorem nofit_head {v : α → Nat} {B : Nat} {seen : List α} {b : Bins α} (h : Fit.Inv v B seen b) {x : α}
    (hx : v x ≤ B) (hmin : ∀ a ∈ seen, v x ≤ v a) (i : Nat) (hi : i < b.sums.length)
    (hno : ¬ b.sums[i] + v x ≤ B) :
    ∃ f tl, b.lists[i]? = some (f :: tl) ∧ v x ≤ v f ∧ (v f + v x ≤ B → ∃ y ∈ tl, v x ≤ v y) := by
  have hlen := h.len
  have hi' : i < b.lists.length := by omega
  have hs : b.sums[i] = binSum v b.lists[i] := by
    have hc := h.cons
    simp [hc]
  have hmem : ∀ a ∈ b.lists[i], a ∈ seen := fun a ha =>
    h.perm.mem_iff.1 (List.mem_flatten.2 ⟨_, List.getElem_mem hi', ha⟩)
  cases hl : b.lists[i] with
  | nil =>
    rw [hl] at hs
    simp only [binSum, List.map_nil, sumL] at hs
    omega
  | cons f tl =>
    rw [hl] at hs hmem
    refine ⟨f, tl, by rw [List.getElem?_eq_getElem hi', hl], hmin f (hmem f (by simp)), ?_⟩
    intro hf
    cases tl with
    | nil =>
      simp only [binSum, List.map_cons, List.map_nil, sumL] at hs
      omega
    | cons y t => exact ⟨y, by simp, hmin y (hmem y (by simp))⟩

theorem ffdInv_step {v : α → Nat} {B : Nat} {seen : List α} {b : Bins α} (h : Fit.Inv v B seen b)
    (hI : FFDInv v B b.lists) {x : α} (hx : v x ≤ B) (hmin : ∀ a ∈ seen, v x ≤ v a) :
    FFDInv v B (ffStep v B b x).lists := by
  have hlen := h.len
  rcases Fit.ffStep_spec' v B b x with ⟨i0, hi0, hfit, hfirst, e⟩ | ⟨hno, e⟩
  · rw [e, Part.add_lists]
    intro i j l p hij hl hp
    rw [List.getElem?_modify] at hl
    cases hj : b.lists[j]? with
    | none => rw [hj] at hl; simp at hl
    | some l0 =>
      rw [hj] at hl
      simp only [Option.map_eq_map, Option.map_some, Option.some.injEq] at hl
      have hold : p ∈ l0 ∨ (i0 = j ∧ p = x) := by
        by_cases e0 : i0 = j
        · rw [if_pos e0] at hl
          subst hl
          rcases List.mem_append.1 hp with h1 | h1
          · exact Or.inl h1
          · exact Or.inr ⟨e0, by simpa using h1⟩
        · rw [if_neg e0] at hl
          subst hl
          exact Or.inl hp
      rcases hold with hp0 | ⟨rfl, rfl⟩
      · obtain ⟨f, tl, hf, h1, h2⟩ := hI i j l0 p hij hj hp0
        by_cases e1 : i0 = i
        · refine ⟨f, tl ++ [x], ?_, h1, ?_⟩
          · rw [List.getElem?_modify, hf]; simp [e1]
          · intro a c
            obtain ⟨y, hy, hpy⟩ := h2 a c
            exact ⟨y, by simp [hy], hpy⟩
        · refine ⟨f, tl, ?_, h1, h2⟩
          rw [List.getElem?_modify, hf]; simp [e1]
      · rcases Nat.lt_or_ge i i0 with hlt | hge
        · obtain ⟨f, tl, hf, h1, h2⟩ := nofit_head h hx hmin i (by omega) (hfirst i hlt)
          refine ⟨f, tl, ?_, h1, fun _ => h2⟩
          rw [List.getElem?_modify_ne _ _ (by omega)]; exact hf
        · have : i = i0 := by omega
          subst this
          cases l0 with
          | nil =>
            exact ⟨p, [], by rw [List.getElem?_modify_eq, hj]; rfl, Nat.le_refl _,
              fun a => absurd a (Nat.lt_irrefl _)⟩
          | cons f tl =>
            refine ⟨f, tl ++ [p], by rw [List.getElem?_modify_eq, hj]; rfl, hmin f ?_,
              fun a => absurd a (Nat.lt_irrefl _)⟩
            exact h.perm.mem_iff.1 (List.mem_flatten.2 ⟨f :: tl, List.mem_of_getElem? hj, by simp⟩)
  · rw [e, Fit.addEmpty_add v b x hlen]
    intro i j l p hij hl hp
    simp only at hl ⊢
    rcases Nat.lt_or_ge j b.lists.length with hjl | hjl
    · rw [List.getElem?_append_left hjl] at hl
      obtain ⟨f, tl, hf, h1, h2⟩ := hI i j l p hij hl hp
      exact ⟨f, tl, by rw [List.getElem?_append_left (by omega)]; exact hf, h1, h2⟩
    · have hjeq : j = b.lists.length := by
        have := (List.getElem?_eq_some_iff.1 hl).1
        simp only [List.length_append, List.length_cons, List.length_nil] at this
        omega
      subst hjeq
      rw [List.getElem?_concat_length] at hl
      cases hl
      have hpx : p = x := by simpa using hp
      subst hpx
      rcases Nat.lt_or_ge i b.lists.length with hlt | hge
      · have hi : i < b.sums.length := by omega
        obtain ⟨f, tl, hf, h1, h2⟩ := nofit_head h hx hmin i hi (hno _ (List.getElem_mem hi))
        exact ⟨f, tl, by rw [List.getElem?_append_left hlt]; exact hf, h1, fun _ => h2⟩
      · have : i = b.lists.length := by omega
        subst this
        exact ⟨p, [], List.getElem?_concat_length, Nat.le_refl _, fun a => absurd a (Nat.lt_irrefl _)⟩

theorem ffdInv_init (v : α → Nat) (B : Nat) : FFDInv v B (Bins.new 1 : Bins α).lists := by
  intro i j l p _ hl hp
  simp only [Bins.new, List.replicate_one] at hl
  cases j with
  | zero => simp at hl; subst hl; simp at hp
  | succ j => simp at hl

/-- the first-fit loop on a non-increasing list keeps the structure invariant -/
theorem ffdInv_fold {v : α → Nat} {B : Nat} : ∀ xs : List α, xs.Pairwise (fun a c => v c ≤ v a) →
    (∀ x ∈ xs, v x ≤ B) → FFDInv v B (xs.foldl (ffStep v B) (Bins.new 1)).lists := by
  intro xs
  induction xs using Oracle.rev_induction with
  | nil => intro _ _; exact ffdInv_init v B
  | snoc P x ih =>
    intro hS hall
    obtain ⟨hS1, _, hS2⟩ := List.pairwise_append.1 hS
    have hallP : ∀ y ∈ P, v y ≤ B := fun y hy => hall y (by simp [hy])
    have hinv : Fit.Inv v B P (P.foldl (ffStep v B) (Bins.new 1)) := by
      simpa using Fit.inv_foldl (ffStep v B) (Fit.ffStep_step v B) P [] (Bins.new 1) hallP (Fit.inv_init v B)
    rw [List.foldl_append, List.foldl_cons, List.foldl_nil]
    exact ffdInv_step hinv (ih hS1 hallP) (hall x (by simp)) (fun a ha => hS2 a ha x (by simp))

/-! ### A.2 Dropping a dominated bin from a feasible schedule -/

theorem packable_drop_left {T k : Nat} {E R : List Nat} (h : Packable T k (E ++ R)) : Packable T k R :=
  packable_prefix E (packable_perm List.perm_append_comm h)

/-- **Dropping a dominated bin.**  Let `k + 1` bins of capacity `T` hold the values `f`, `tl` and `R`, and let the
    bin of `f` hold at most one further value `p`; if `p` is not in `tl`, let `tl` contain some `y ≥ p`.  Then `R`
    alone fits into `k` bins: remove the bin of `f`, and put `p` to the place of `y`. -/
theorem pack_drop_bin {T k f : Nat} {tl R : List Nat} (Q : List (List Nat)) (hQk : Q.length = k + 1)
    (hQp : Q.flatten.Perm (f :: (tl ++ R))) (hQ : ∀ l ∈ Q, sumL l ≤ T)
    (hsmall : ∀ O ∈ Q, f ∈ O → O.length ≤ 2)
    (hdom : ∀ p ∈ R, f + p ≤ T → ∃ y ∈ tl, p ≤ y) : Packable T k R := by
  obtain ⟨O, hO, hfO⟩ := List.mem_flatten.1 ((hQp.mem_iff (a := f)).2 (by simp))
  have hlen := hsmall O hO hfO
  have pQ := List.perm_cons_erase hO
  have pO := List.perm_cons_erase hfO
  have hQ1len : (Q.erase O).length = k := by
    have := pQ.length_eq; simp only [List.length_cons] at this; omega
  have hQ1 : ∀ l ∈ Q.erase O, sumL l ≤ T := fun l hl => hQ l (List.mem_of_mem_erase hl)
  have p1 : (O.erase f ++ (Q.erase O).flatten).Perm (tl ++ R) := by
    have h1 : Q.flatten.Perm (f :: (O.erase f ++ (Q.erase O).flatten)) := by
      refine pQ.flatten.trans ?_
      simp only [List.flatten_cons]
      exact pO.append_right _
    exact (h1.symm.trans hQp).cons_inv
  have hOlen : (O.erase f).length ≤ 1 := by
    have := pO.length_eq; simp only [List.length_cons] at this; omega
  match hOe : O.erase f, hOlen with
  | [], _ =>
    rw [hOe] at p1
    exact packable_drop_left (partition_packable (Q.erase O) hQ1len p1 hQ1)
  | [p], _ =>
    rw [hOe] at p1 pO
    have hfp : f + p ≤ T := by
      have := hQ O hO; rw [Part.sumL_perm pO] at this; simpa [sumL] using this
    have hp : p ∈ tl ++ R := (p1.mem_iff (a := p)).1 (by simp)
    rcases List.mem_append.1 hp with hp | hp
    · have pt := List.perm_cons_erase hp
      have p2 : (Q.erase O).flatten.Perm (tl.erase p ++ R) := by
        have : (p :: (Q.erase O).flatten).Perm (p :: (tl.erase p ++ R)) := p1.trans (pt.append_right R)
        exact this.cons_inv
      exact packable_drop_left (partition_packable (Q.erase O) hQ1len p2 hQ1)
    · obtain ⟨y, hy, hpy⟩ := hdom p hp hfp
      have pt := List.perm_cons_erase hy
      have pR := List.perm_cons_erase hp
      have p2 : (Q.erase O).flatten.Perm (y :: (tl.erase y ++ R.erase p)) := by
        have h1 : (p :: (Q.erase O).flatten).Perm (p :: (tl ++ R.erase p)) := by
          refine p1.trans ?_
          exact (List.Perm.append_left tl pR).trans List.perm_middle
        exact h1.cons_inv.trans (pt.append_right _)
      obtain ⟨g, hg, hyg⟩ := List.mem_flatten.1 ((p2.mem_iff (a := y)).2 (by simp))
      have pQ1 := List.perm_cons_erase hg
      have pg := List.perm_cons_erase hyg
      have hQ2len : ((Q.erase O).erase g).length + 1 = k := by
        have := pQ1.length_eq; simp only [List.length_cons] at this; omega
      have p3 : (g.erase y ++ ((Q.erase O).erase g).flatten).Perm (tl.erase y ++ R.erase p) := by
        have h1 : (Q.erase O).flatten.Perm (y :: (g.erase y ++ ((Q.erase O).erase g).flatten)) := by
          refine pQ1.flatten.trans ?_
          simp only [List.flatten_cons]
          exact pg.append_right _
        exact (h1.symm.trans p2).cons_inv
      have hsg : p + sumL (g.erase y) ≤ T := by
        have := hQ1 g hg; rw [Part.sumL_perm pg] at this; simp only [sumL] at this; omega
      refine packable_drop_left (E := tl.erase y)
        (partition_packable ((p :: g.erase y) :: (Q.erase O).erase g) (by simp only [List.length_cons]; omega) ?_ ?_)
      · simp only [List.flatten_cons, List.cons_append]
        refine (List.Perm.cons p p3).trans ?_
        refine List.perm_middle.symm.trans ?_
        exact List.Perm.append_left _ pR.symm
      · intro l hl
        rcases List.mem_cons.1 hl with rfl | hl
        · simpa [sumL] using hsg
        · exact hQ1 l (List.mem_of_mem_erase hl)

/-! ### A.3 Counting: three per bin -/

theorem three_per_bin {T m : Nat} {l : List Nat} (hm : ∀ y ∈ l, m ≤ y) (hT : T < 4 * m) (hl : sumL l ≤ T) :
    l.length ≤ 3 := by
  match l, hm, hl with
  | [], _, _ => simp
  | [_], _, _ => simp
  | [_, _], _, _ => simp
  | [_, _, _], _, _ => simp
  | y :: z :: w :: u :: t, hm, hl =>
    have h1 := hm y (by simp)
    have h2 := hm z (by simp)
    have h3 := hm w (by simp)
    have h4 := hm u (by simp)
    simp only [sumL] at hl
    omega

theorem flatten_length_le_mul {β : Type} (c : Nat) (Ls : List (List β)) (h : ∀ l ∈ Ls, l.length ≤ c) :
    Ls.flatten.length ≤ c * Ls.length := by
  induction Ls with
  | nil => simp
  | cons l Ls ih =>
    have h1 := h l List.mem_cons_self
    have h2 := ih (fun l' hl' => h l' (List.mem_cons_of_mem _ hl'))
    simp only [List.flatten_cons, List.length_append, List.length_cons, Nat.mul_succ]
    omega

theorem mul_le_flatten_length {β : Type} (c : Nat) (Ls : List (List β)) (h : ∀ l ∈ Ls, c ≤ l.length) :
    c * Ls.length ≤ Ls.flatten.length := by
  induction Ls with
  | nil => simp
  | cons l Ls ih =>
    have h1 := h l List.mem_cons_self
    have h2 := ih (fun l' hl' => h l' (List.mem_cons_of_mem _ hl'))
    simp only [List.flatten_cons, List.length_append, List.length_cons, Nat.mul_succ]
    omega

/-! ### A.4 The core: a first-fit-decreasing packing into `k` bins of capacity `B > 5/4·T − 1` always has room -/

/-- **Core.**  Let `LL` be `k` bins with the structure of a first-fit-decreasing packing for capacity `B`,
    `5·T < 4·(B + 1)`, and let `a` be an item, not larger than any packed item, that fits into no bin.  Then the
    packed items together with `a` do **not** fit into `k` bins of capacity `T`.

    Induction on `k`.  If `4·a ≤ T`, every bin is filled above `T` (volume).  Otherwise every item exceeds `T/4`.
    Let `f` be the first item of the first bin (the largest item).  If `f` shares its bin of the `T`-schedule with
    at most one item `p`, the first bin of `LL` dominates that bin (it holds `f` and, by first fit, `p` or some
    item `≥ p`): drop both bins (`pack_drop_bin`) and use the induction hypothesis.  If `f` shares its bin with
    two items, then `f + 2a ≤ T`, so every item is `≤ T − 2a`, two items together with `a` stay below
    `2T − 3a < 5/4·T`, hence every bin of `LL` holds three items: `3k` items are packed, but `3k` is the maximal
    number of items `> T/4` of a `T`-schedule, and `a` is one more. -/
theorem ffd_core {v : α → Nat} {T B : Nat} (hB : 5 * T < 4 * (B + 1)) (a : α) :
    ∀ (k : Nat) (LL : List (List α)), LL.length = k → FFDInv v B LL →
      (∀ l ∈ LL, B < binSum v l + v a) → (∀ p ∈ LL.flatten, v a ≤ v p) →
      Packable T k ((LL.flatten ++ [a]).map v) → False := by
  intro k
  induction k with
  | zero =>
    intro LL _ _ _ _ hp
    obtain ⟨Q, hQk, hQp, _⟩ := packable_partition hp
    have : Q = [] := List.length_eq_zero_iff.1 hQk
    subst this
    have := hQp.length_eq
    simp at this
  | succ k ih =>
    intro LL hlen hI hno hmin hp
    have haT : v a ≤ T := packable_item_le hp (by simp)
    match LL, hlen with
    | l0 :: LL', hlen =>
    have hlen' : LL'.length = k := by simpa using hlen
    by_cases ha : 4 * v a ≤ T
    · -- volume
      have h1 : ∀ s ∈ (l0 :: LL').map (binSum v), T + 1 ≤ s + 0 := by
        intro s hs
        obtain ⟨l, hl, rfl⟩ := List.mem_map.1 hs
        have := hno l hl
        omega
      have h2 := Part.length_mul_le_sumL _ (T + 1) 0 h1
      rw [Fit.sumL_map_binSum] at h2
      have h3 := packable_sum hp
      rw [List.map_append, Part.sumL_append] at h3
      simp only [List.length_map, List.length_cons, hlen'] at h2
      have e1 : binSum v (l0 :: LL').flatten = sumL ((l0 :: LL').flatten.map v) := rfl
      have e2 : (k + 1) * (T + 1) = (k + 1) * T + (k + 1) := by ring
      omega
    · have ha' : T < 4 * v a := by omega
      have h0 := hno l0 (by simp)
      obtain ⟨f, tl, rfl⟩ : ∃ f tl, l0 = f :: tl := by
        cases l0 with
        | nil => simp only [binSum, List.map_nil, sumL] at h0; omega
        | cons f tl => exact ⟨f, tl, rfl⟩
      -- what the invariant says about the first bin
      have hfirst : ∀ j l p, ((f :: tl) :: LL')[j]? = some l → p ∈ l →
          v p ≤ v f ∧ (0 < j → v f + v p ≤ B → ∃ y ∈ tl, v p ≤ v y) := by
        intro j l p hl hpl
        obtain ⟨f', tl', e, h1, h2⟩ := hI 0 j l p (Nat.zero_le _) hl hpl
        simp only [List.getElem?_cons_zero, Option.some.injEq, List.cons.injEq] at e
        obtain ⟨rfl, rfl⟩ := e
        exact ⟨h1, h2⟩
      have hfmax : ∀ p ∈ ((f :: tl) :: LL').flatten, v p ≤ v f := by
        intro p hp
        obtain ⟨l, hl, hpl⟩ := List.mem_flatten.1 hp
        obtain ⟨j, hj, rfl⟩ := List.mem_iff_getElem.1 hl
        exact (hfirst j _ p (List.getElem?_eq_getElem hj) hpl).1
      obtain ⟨Q, hQk, hQp, hQ⟩ := packable_partition hp
      have hQp' : Q.flatten.Perm (v f :: (tl.map v ++ (LL'.flatten ++ [a]).map v)) := by
        refine hQp.trans ?_
        simp [List.map_append]
      have hge : ∀ u ∈ Q.flatten, v a ≤ u := by
        intro u hu
        obtain ⟨p, hp, rfl⟩ := List.mem_map.1 (hQp.mem_iff.1 hu)
        rcases List.mem_append.1 hp with hp | hp
        · exact hmin p hp
        · simp only [List.mem_singleton] at hp; subst hp; exact Nat.le_refl _
      by_cases hsm : ∀ O ∈ Q, v f ∈ O → O.length ≤ 2
      · -- the first bin dominates the bin of `f`
        have hp' : Packable T k ((LL'.flatten ++ [a]).map v) := by
          refine pack_drop_bin Q hQk hQp' hQ hsm ?_
          intro p hp hfp
          obtain ⟨p', hp', rfl⟩ := List.mem_map.1 hp
          rcases List.mem_append.1 hp' with hp' | hp'
          · obtain ⟨l, hl, hpl⟩ := List.mem_flatten.1 hp'
            obtain ⟨j, hj, rfl⟩ := List.mem_iff_getElem.1 hl
            obtain ⟨y, hy, hpy⟩ := (hfirst (j + 1) _ p' (by simp [List.getElem?_eq_getElem hj]) hpl).2
              (by omega) (by omega)
            exact ⟨v y, List.mem_map_of_mem hy, hpy⟩
          · simp only [List.mem_singleton] at hp'
            subst hp'
            cases tl with
            | nil => simp only [binSum, List.map_cons, List.map_nil, sumL] at h0; omega
            | cons y t =>
              exact ⟨v y, by simp, hmin y (by simp)⟩
        refine ih LL' hlen' ?_ (fun l hl => hno l (List.mem_cons_of_mem _ hl))
          (fun p hp => hmin p (by simp [hp])) hp'
        intro i j l p hij hl hpl
        have := hI (i + 1) (j + 1) l p (by omega) (by simpa using hl) hpl
        simpa using this
      · -- `f` shares its bin with two items: all bins of `LL` hold three items
        have hex : ∃ O ∈ Q, v f ∈ O ∧ 3 ≤ O.length := by
          apply Classical.byContradiction
          intro hno'
          apply hsm
          intro O hO hfO
          apply Nat.le_of_not_lt
          intro hlt
          exact hno' ⟨O, hO, hfO, hlt⟩
        obtain ⟨O, hO, hfO, hOlen⟩ := hex
        have pO := List.perm_cons_erase hfO
        have hf2 : v f + 2 * v a ≤ T := by
          have h1 := hQ O hO
          rw [Part.sumL_perm pO] at h1
          have hlen2 : 2 ≤ (O.erase (v f)).length := by
            have := pO.length_eq; simp only [List.length_cons] at this; omega
          have hmemO : ∀ u ∈ O.erase (v f), v a ≤ u := fun u hu =>
            hge u (List.mem_flatten.2 ⟨O, hO, List.mem_of_mem_erase hu⟩)
          match hOe : O.erase (v f), hlen2 with
          | p :: q :: r, _ =>
            rw [hOe] at h1 hmemO
            have := hmemO p (by simp)
            have := hmemO q (by simp)
            simp only [sumL] at h1
            omega
        have h3 : ∀ l ∈ (f :: tl) :: LL', 3 ≤ l.length := by
          intro l hl
          have hs := hno l hl
          have hle : ∀ p ∈ l, v p ≤ v f := fun p hp => hfmax p (List.mem_flatten.2 ⟨l, hl, hp⟩)
          match l, hs, hle with
          | [], hs, _ => simp only [binSum, List.map_nil, sumL] at hs; omega
          | [x], hs, hle =>
            have := hle x (by simp)
            simp only [binSum, List.map_cons, List.map_nil, sumL] at hs; omega
          | [x, y], hs, hle =>
            have := hle x (by simp)
            have := hle y (by simp)
            simp only [binSum, List.map_cons, List.map_nil, sumL] at hs; omega
          | _ :: _ :: _ :: _, _, _ => simp
        have c1 := mul_le_flatten_length 3 _ h3
        have c2 := flatten_length_le_mul 3 Q (fun l hl =>
          three_per_bin (fun y hy => hge y (List.mem_flatten.2 ⟨l, hl, hy⟩)) ha' (hQ l hl))
        have c3 := hQp.length_eq
        simp only [List.length_map, List.length_append, List.length_cons, List.length_nil] at c1 c3
        rw [hQk] at c2
        omega

/-! ### A.5 First-fit-decreasing and multifit -/

section Multifit
variable (v : α → Nat)

/-- **First-fit-decreasing with capacity above `5/4 · T` fits into `k` bins** whenever the values fit into `k`
    bins of capacity `T`.  Induction over the prefixes of the ordered list; when an item opens bin `k + 1`,
    `ffd_core` applies to the `k` bins packed so far. -/
theorem ffd_fold_fits_five_fourths {k : Nat} (hk : 0 < k) {T B : Nat} (hB : 5 * T < 4 * (B + 1)) :
    ∀ xs : List α, xs.Pairwise (fun a c => v c ≤ v a) → Packable T k (xs.map v) → (∀ x ∈ xs, v x ≤ B) →
      (xs.foldl (ffStep v B) (Bins.new 1)).lists.length ≤ k := by
  intro xs
  induction xs using Oracle.rev_induction with
  | nil => intro _ _ _; simp [Bins.new]; omega
  | snoc P x ih =>
    intro hS hp hall
    obtain ⟨hS1, _, hS2⟩ := List.pairwise_append.1 hS
    have hpP : Packable T k (P.map v) := by rw [List.map_append] at hp; exact packable_prefix _ hp
    have hallP : ∀ y ∈ P, v y ≤ B := fun y hy => hall y (by simp [hy])
    have hih := ih hS1 hpP hallP
    have hinv : Fit.Inv v B P (P.foldl (ffStep v B) (Bins.new 1)) := by
      simpa using Fit.inv_foldl (ffStep v B) (Fit.ffStep_step v B) P [] (Bins.new 1) hallP (Fit.inv_init v B)
    have hI := ffdInv_fold P hS1 hallP
    rw [List.foldl_append, List.foldl_cons, List.foldl_nil]
    rcases Fit.ffStep_step v B (P.foldl (ffStep v B) (Bins.new 1)) x with ⟨i, _, _, e⟩ | ⟨hno, e⟩
    · rw [e]; simpa using hih
    · rw [e, Fit.addEmpty_add v _ x hinv.len]
      simp only [List.length_append, List.length_cons, List.length_nil]
      apply Nat.succ_le_of_lt
      apply Nat.lt_of_le_of_ne hih
      intro hlen
      -- `k` bins, none of which has room for `x`
      have hc := hinv.cons
      apply ffd_core (v := v) hB x k _ hlen hI
      · intro l hl
        have hmem : binSum v l ∈ (P.foldl (ffStep v B) (Bins.new 1)).sums := by
          rw [hc]; exact List.mem_map_of_mem hl
        have := hno _ hmem
        omega
      · intro p hp'
        exact hS2 p (hinv.perm.mem_iff.1 hp') x (by simp)
      · exact packable_perm ((hinv.perm.append_right [x]).map v).symm hp

theorem ffd_fits_five_fourths {k : Nat} (hk : 0 < k) {xs : List α}
    (hS : xs.Pairwise (fun a c => v c ≤ v a)) {T : Nat} (hp : Packable T k (xs.map v)) {B : Nat}
    (hB : 5 * T < 4 * (B + 1)) {b : Bins α} (h : ffOnline v B xs = .ok b) : b.lists.length ≤ k := by
  simp only [ffOnline, Fit.ffLoop_eq] at h
  have hall := Fit.gen_ok_all_le h
  rw [Fit.genLoop_ok v B _ xs _ hall] at h
  cases h
  exact ffd_fold_fits_five_fourths v hk hB xs hS hp hall

/-- `FfdFits ρ` for every `ρ ≥ 5/4`: first-fit-decreasing with any capacity `≥ 5/4 · OPT` needs at most `k`
    bins -/
theorem ffdFits_five_fourths {k : Nat} (hk : 0 < k) {items : List α} {opt : Int}
    (hopt : IsOptimalValue .minLargest k (items.map v) opt) {ρ : Rat} (hρ : 5 / 4 ≤ ρ) :
    FfdFits v k (sortDesc v items) ρ opt := by
  obtain ⟨T, rfl, hp⟩ := packable_of_opt hopt
  have hsp := Part.sortDesc_perm v items
  have hp' : Packable T k ((sortDesc v items).map v) := packable_perm (hsp.map v).symm hp
  have hM : ∀ x ∈ sortDesc v items, v x ≤ T :=
    fun x hx => packable_item_le hp' (List.mem_map_of_mem hx)
  intro c hc
  have hT0 : (0 : Rat) ≤ (T : Rat) := by positivity
  have hc' : 5 / 4 * (T : Rat) ≤ c := by
    push_cast at hc
    nlinarith
  obtain ⟨b', e', _, q2, _⟩ := Part.ffOnline_of_cap v (sortDesc v items) hM c (by linarith)
  refine ⟨b'.sums.length, by simp only [ffCount, e']; rfl, ?_⟩
  rw [Part.consistent_length v q2]
  have hB := Part.lt_floorNat_succ (5 * T) 8 c (by omega) (by push_cast; linarith)
  exact ffd_fits_five_fourths v hk (Part.sortDesc_sorted v items) hp' (by omega) e'

/-- **Multifit, unconditional: `5/4 + 2^−it`.**  The largest sum of `multifit` with `it` iterations is at most
    `(1.25 + 2^−it)` times the optimal largest sum.  (The documentation claims `1.22 + 2^−it`.) -/
theorem multifit_ratio_five_fourths {k : Nat} {items : List α} {it : Nat} {b : Bins α} (hk : 0 < k) {opt : Int}
    (hopt : IsOptimalValue .minLargest k (items.map v) opt) (h : multifit v k items it = .ok b) :
    ((maxL b.sums : Nat) : Rat) ≤ (5 / 4 + 1 / 2 ^ it) * opt :=
  multifit_ratio_of_ffdFits v hk hopt (by norm_num) (ffdFits_five_fourths v hk hopt (le_refl _)) h

/-! non-vacuity (`[3, 3, 2, 2, 2]` on two bins, optimal largest sum `6`, see `LPT43.opt_33222`) -/

example : FfdFits id 2 (sortDesc id [3, 3, 2, 2, 2]) (5 / 4) ((6 : Int) : Rat) :=
  ffdFits_five_fourths id (by decide) opt_33222 (le_refl _)

example : ∃ b, multifit id 2 [3, 3, 2, 2, 2] 10 = .ok b ∧
    ((maxL b.sums : Nat) : Rat) ≤ (5 / 4 + 1 / 2 ^ 10) * ((6 : Int) : Rat) := by
  obtain ⟨b, h, _⟩ := Part.multifit_perm (v := id) (k := 2) (items := [3, 3, 2, 2, 2]) (it := 10)
    (by decide) (by decide)
  exact ⟨b, h, multifit_ratio_five_fourths id (by decide) opt_33222 h⟩

/-- the core on a concrete packing: first fit with capacity `7` puts `[4, 3, 3, 3]` into `[4, 3], [3, 3]`;
    a further item `2` fits nowhere, and indeed `[4, 3, 3, 3, 2]` does not fit into two bins of capacity `6`
    (`5 · 6 < 4 · 8`; here `4 · 2 > 6`, so the proof goes through the domination step) -/
example : ¬ Packable 6 2 ((([[4, 3], [3, 3]] : List (List Nat)).flatten ++ [2]).map id) := by
  intro hp
  refine ffd_core (v := id) (T := 6) (B := 7) (by decide) 2 2 [[4, 3], [3, 3]] rfl ?_ (by decide) (by decide) hp
  have := ffdInv_fold (v := id) (B := 7) [4, 3, 3, 3] (by decide) (by decide)
  exact this

end Multifit

end Prtpy.MaxMin2
