/-
  PrtpyProofs.Natural2 — property C07, second part: naturality in the item type of the dynamic program, the
  complete Karmarkar–Karp search and the sequential/recursive number partitioning, and "the sums depend only on
  the values" for DP, complete greedy and CBLDM.
  (Since fix F11 the theorems of B3 about `snp`/`rnp` — `ckk2_natural`, `snp_natural`, `rnp_natural` — are in
  PrtpyProofs/CKKFSwitch.lean, same namespace; the lemmas about the tree, `foldE` and `findDiff` are still here.)
-/
import Prtpy
import PrtpyProofs.Part
import PrtpyProofs.Natural
open Prtpy Prtpy.Natural

namespace Prtpy.Natural2

variable {α β : Type}

/-! ## B1. Dynamic programming -/

section DP
variable (f : α → β) (vα : α → Nat) (vβ : β → Nat) (hf : ∀ a, vβ (f a) = vα a)
include hf

omit hf in
theorem zip_map_left (l : List α) (p : List Nat) :
    (l.map f).zip p = (l.zip p).map (fun q : α × Nat => (f q.1, q.2)) := by
  induction l generalizing p with
  | nil => rfl
  | cons a as ih =>
    cases p with
    | nil => rfl
    | cons b bs => simp only [List.map_cons, List.zip_cons_cons, ih]

/-- replaying a path distributes the renamed items exactly as the original ones -/
theorem dpReplay_natural (k : Nat) (items : List α) (path : List Nat) :
    dpReplay vβ k (items.map f) path = (dpReplay vα k items path).mapItems f := by
  unfold dpReplay
  rw [zip_map_left f, ← mapItems_new f k]
  exact foldl_natural (fun q : α × Nat => (f q.1, q.2)) (Bins.mapItems f)
    (fun b (p : α × Nat) => b.add vα p.1 p.2) (fun b (p : β × Nat) => b.add vβ p.1 p.2)
    (fun s x => (mapItems_add f vα vβ hf s x.1 x.2).symm) _ _

/-- **B1.**  The dynamic program is natural in the item type: it works on the values only, and the replay
    distributes the renamed items along the same path. -/
theorem dp_natural (o : Objective) (k : Nat) (items : List α) :
    dp vβ o k (items.map f) = (dp vα o k items).map (Bins.mapItems f) := by
  simp only [dp, List.map_map, comp_eq f vα vβ hf]
  cases dpBestValue o k (items.map vα) with
  | none => rfl
  | some best =>
    simp only
    cases (dpFinal k (items.map vα)).find? (fun r => o.value r.state false == best) with
    | none => rfl
    | some r => simp only [dpReplay_natural f vα vβ hf]; rfl

omit hf in
example : dp id .minLargest 2 (exItems.map Prod.fst)
    = (dp Prod.fst .minLargest 2 exItems).map (Bins.mapItems Prod.fst) :=
  dp_natural Prod.fst Prod.fst id (fun _ => rfl) .minLargest 2 exItems
omit hf in
example : (dp Prod.fst .minLargest 2 exItems).map (·.sums) = .ok [13, 13] := by rfl

end DP

/-! ## B4. The sums depend only on the values: DP, complete greedy, CBLDM -/

section Values
variable (v : α → Nat)

theorem dp_values (o : Objective) (k : Nat) (items : List α) :
    dp id o k (items.map v) = (dp v o k items).map (Bins.mapItems v) :=
  dp_natural v v id (fun _ => rfl) o k items

/-- **B4 (DP).** -/
theorem dp_sums_values (o : Objective) (k : Nat) (items : List α) :
    (dp v o k items).map (·.sums) = (dp id o k (items.map v)).map (·.sums) := by
  rw [dp_values, except_map_sums]

example : (dp Prod.fst .maxSmallest 3 exItems).map (·.sums)
    = (dp id .maxSmallest 3 [4, 7, 4, 2, 5, 4]).map (·.sums) :=
  dp_sums_values Prod.fst .maxSmallest 3 exItems

theorem cg_values (cfg : CgCfg) (k : Nat) (items : List α) (cut : Option Nat) (fuel : Nat) :
    cg id cfg k (items.map v) cut fuel = (cg v cfg k items cut fuel).map (Option.map (Bins.mapItems v)) :=
  cg_natural v v id (fun _ => rfl) cfg k items cut fuel

/-- **B4 (complete greedy).**  Also under a time limit. -/
theorem cg_sums_values (cfg : CgCfg) (k : Nat) (items : List α) (cut : Option Nat) (fuel : Nat) :
    (cg v cfg k items cut fuel).map (Option.map (·.sums))
      = (cg id cfg k (items.map v) cut fuel).map (Option.map (·.sums)) := by
  rw [cg_values, except_option_map_sums]

example : (cg Prod.fst ⟨.minLargest, true, true, true, true⟩ 3 exItems none 1000).map (Option.map (·.sums))
    = (cg id ⟨.minLargest, true, true, true, true⟩ 3 [4, 7, 4, 2, 5, 4] none 1000).map (Option.map (·.sums)) :=
  cg_sums_values Prod.fst _ 3 exItems none 1000

theorem cbldm_values (items : List α) (d cut : Option Nat) :
    cbldm id (items.map v) d cut = (cbldm v items d cut).map (Bins.mapItems v) :=
  cbldm_natural v v id (fun _ => rfl) items d cut

/-- **B4 (CBLDM).**  Also under a time limit. -/
theorem cbldm_sums_values (items : List α) (d cut : Option Nat) :
    (cbldm v items d cut).map (·.sums) = (cbldm id (items.map v) d cut).map (·.sums) := by
  rw [cbldm_values, option_map_sums]

example : (cbldm Prod.fst exItems (some 1) none).map (·.sums)
    = (cbldm id [4, 7, 4, 2, 5, 4] (some 1) none).map (·.sums) :=
  cbldm_sums_values Prod.fst exItems (some 1) none

end Values

/-! ## B2. Complete Karmarkar–Karp -/

/-- rename the items of a CKK search state -/
def mapCkkState (f : α → β) (s : CkkState α) : CkkState β :=
  ⟨s.stack.map (List.map (mapEntry f)), s.cnt, s.best, s.bestP.map (Bins.mapItems f),
   s.yields.map (Bins.mapItems f), s.done⟩

section CKK
variable (f : α → β)

theorem pairBy_natural (b₁ b₂ : Bins α) (perm : List Nat) :
    pairBy (b₁.mapItems f) (b₂.mapItems f) perm = (pairBy b₁ b₂ perm).mapItems f := by
  simp only [pairBy, Bins.mapItems, getD_map_map]
  congr 1
  generalize b₂.lists = l₂
  induction perm generalizing l₂ with
  | nil => rfl
  | cons p ps ih =>
    cases l₂ with
    | nil => rfl
    | cons l ls => simp only [List.map_cons, List.zipWith_cons_cons, List.map_append, ih]

theorem ckkBound_natural (h : Heap α) (k : Nat) : ckkBound (h.map (mapEntry f)) k = ckkBound h k := by
  have : (h.map (mapEntry f)).flatMap (·.bins.sums) = h.flatMap (·.bins.sums) := by
    rw [List.flatMap_map]; rfl
  simp only [ckkBound, this]

theorem topDiffOf_natural (h : Heap α) : topDiffOf (h.map (mapEntry f)) = topDiffOf h := by
  simp only [topDiffOf, htop_natural]
  cases htop h <;> rfl

/-- pushing a list of combinations on clones of a heap -/
theorem pushClones_natural (h₂ : Heap α) (combs : List (Bins α)) (acc : List (Heap α)) (c : Nat) :
    (combs.map (Bins.mapItems f)).foldl (fun (acc : List (Heap β) × Nat) nb =>
        let p := hpush (h₂.map (mapEntry f)) acc.2 nb; (acc.1 ++ [p.1], p.2))
        (acc.map (List.map (mapEntry f)), c)
      = ((combs.foldl (fun (acc : List (Heap α) × Nat) nb =>
          let p := hpush h₂ acc.2 nb; (acc.1 ++ [p.1], p.2)) (acc, c)).1.map (List.map (mapEntry f)),
         (combs.foldl (fun (acc : List (Heap α) × Nat) nb =>
          let p := hpush h₂ acc.2 nb; (acc.1 ++ [p.1], p.2)) (acc, c)).2) := by
  induction combs generalizing acc c with
  | nil => rfl
  | cons nb combs ih =>
    simp only [List.map_cons, List.foldl_cons, hpush_natural]
    have : acc.map (List.map (mapEntry f)) ++ [(hpush h₂ c nb).1.map (mapEntry f)]
        = (acc ++ [(hpush h₂ c nb).1]).map (List.map (mapEntry f)) := by
      simp only [List.map_append, List.map_cons, List.map_nil]
    rw [this, ih]

variable [BEq α] [LawfulBEq α] [BEq β] [LawfulBEq β] (hinj : ∀ a b, f a = f b → a = b)
include hinj

/-- de-duplication compares contents with `==`: this is where injectivity is needed -/
theorem beq_map_map (l₁ l₂ : List (List α)) :
    (l₁.map (·.map f) == l₂.map (·.map f)) = (l₁ == l₂) := by
  rw [Bool.eq_iff_iff, beq_iff_eq, beq_iff_eq]
  exact List.map_inj_right (fun x y h => (List.map_inj_right hinj).1 h)

variable (nmα : α → Nat) (nmβ : β → Nat) (hnm : ∀ a, nmβ (f a) = nmα a)
include hnm

theorem allCombContentsAux_natural (b₁ b₂ : Bins α) (perms : List (List Nat)) (acc : List (Bins α)) :
    allCombContentsAux nmβ (b₁.mapItems f) (b₂.mapItems f) perms (acc.map (Bins.mapItems f))
      = (allCombContentsAux nmα b₁ b₂ perms acc).map (Bins.mapItems f) := by
  induction perms generalizing acc with
  | nil => simp only [allCombContentsAux, List.map_reverse]
  | cons perm rest ih =>
    have hnb : (Bins.mk (pairBy (b₁.mapItems f) (b₂.mapItems f) perm).sums
          ((pairBy (b₁.mapItems f) (b₂.mapItems f) perm).lists.map (Prtpy.sortAsc nmβ))).sortAsc
        = ((Bins.mk (pairBy b₁ b₂ perm).sums ((pairBy b₁ b₂ perm).lists.map (Prtpy.sortAsc nmα))).sortAsc).mapItems f := by
      rw [mapItems_sortAsc, pairBy_natural]
      congr 1
      simp only [Bins.mapItems, List.map_map]
      congr 1
      apply List.map_congr_left
      intro l _
      simp only [Function.comp, sortAsc_map f nmα nmβ hnm]
    simp only [allCombContentsAux, hnb]
    have hany : ∀ nb : Bins α, (acc.map (Bins.mapItems f)).any (fun o => o.lists == (nb.mapItems f).lists)
        = acc.any (fun o => o.lists == nb.lists) := by
      intro nb
      rw [List.any_map]
      congr 1
      funext o
      simp only [Function.comp, mapItems_lists, beq_map_map f hinj]
    rw [hany]
    split
    · exact ih acc
    · rw [← List.map_cons]; exact ih _

theorem allComb_natural (contents : Bool) (b₁ b₂ : Bins α) :
    allComb nmβ contents (b₁.mapItems f) (b₂.mapItems f)
      = (allComb nmα contents b₁ b₂).map (Bins.mapItems f) := by
  cases contents with
  | true =>
    simp only [allComb, if_true, allCombContents, mapItems_sums]
    have := allCombContentsAux_natural f hinj nmα nmβ hnm b₁ b₂ (lexPerms (List.range b₁.sums.length)) []
    simpa only [List.map_nil] using this
  | false =>
    simp only [allComb, Bool.false_eq_true, if_false, mapItems_sums, List.map_map]
    apply List.map_congr_left
    intro s _
    simp only [Function.comp, Bins.mapItems, List.map_replicate, List.map_nil]

theorem ckkStep_natural (k : Nat) (contents gen isBest : Bool) (s : CkkState α) :
    ckkStep nmβ k contents gen isBest (mapCkkState f s)
      = mapCkkState f (ckkStep nmα k contents gen isBest s) := by
  obtain ⟨stack, cnt, best, bestP, yields, done⟩ := s
  match stack with
  | [] => rfl
  | h :: stack =>
    rw [show mapCkkState f ⟨h :: stack, cnt, best, bestP, yields, done⟩
        = ⟨h.map (mapEntry f) :: stack.map (List.map (mapEntry f)), cnt, best, bestP.map (Bins.mapItems f),
           yields.map (Bins.mapItems f), done⟩ from rfl]
    simp only [ckkStep, ckkBound_natural, List.length_map, topDiffOf_natural, htop_natural, hpop_natural]
    refine ite_map _ rfl (ite_map _ (ite_map _ ?_ rfl) ?_)
    · cases htop h with
      | none => exact ite_map _ rfl rfl
      | some e => exact ite_map _ rfl rfl
    · cases hpop h with
      | none => rfl
      | some p₁ =>
        obtain ⟨e₁, h₁⟩ := p₁
        simp only [Option.map_some, hpop_natural]
        cases hpop h₁ with
        | none => rfl
        | some p₂ =>
          obtain ⟨e₂, h₂⟩ := p₂
          simp only [Option.map_some]
          have e1 : (mapEntry f e₁).bins = e₁.bins.mapItems f := rfl
          have e2 : (mapEntry f e₂).bins = e₂.bins.mapItems f := rfl
          have hpc := pushClones_natural f h₂ (allComb nmα contents e₁.bins e₂.bins) [] cnt
          simp only [List.map_nil] at hpc
          simp only [e1, e2, allComb_natural f hinj nmα nmβ hnm, hpc,
            sortDesc_map (List.map (mapEntry f)) topDiffOf topDiffOf (topDiffOf_natural f)]
          simp only [mapCkkState, List.map_append, List.map_reverse]

theorem ckkRun_natural (k : Nat) (contents gen isBest : Bool) (fuel : Nat) (s : CkkState α) :
    ckkRun nmβ k contents gen isBest fuel (mapCkkState f s)
      = mapCkkState f (ckkRun nmα k contents gen isBest fuel s) := by
  induction fuel generalizing s with
  | zero => rfl
  | succ fuel ih =>
    rw [ckkRun, ckkRun]
    refine ite_map _ rfl ?_
    rw [ckkStep_natural f hinj nmα nmβ hnm, ih]

variable (vα : α → Nat) (vβ : β → Nat) (hf : ∀ a, vβ (f a) = vα a)
include hf

omit hinj hnm [BEq α] [LawfulBEq α] [BEq β] [LawfulBEq β] in
theorem ckkInit_natural (k : Nat) (items : List α) (best : EInt) :
    ckkInit vβ k (items.map f) best = mapCkkState f (ckkInit vα k items best) := by
  have h := pushAll_natural f vα vβ hf k (sortDesc vα items) [] 0
  simp only [List.map_nil] at h
  simp only [ckkInit, sortDesc_map f vα vβ hf, h, mapCkkState, List.map_cons, List.map_nil, Option.map_none]

/-- **B2.**  Complete Karmarkar–Karp is natural for *injective* renamings that preserve values and name keys. -/
theorem ckk_natural (k : Nat) (contents : Bool) (items : List α) (fuel : Nat) :
    ckk vβ nmβ k contents (items.map f) fuel
      = (ckk vα nmα k contents items fuel).map (Bins.mapItems f) := by
  simp only [ckk, ckkInit_natural f vα vβ hf, ckkRun_natural f hinj nmα nmβ hnm]
  generalize ckkRun nmα k contents false true fuel (ckkInit vα k items .negInf) = s
  obtain ⟨stack, cnt, best, bestP, yields, done⟩ := s
  simp only [mapCkkState]
  cases done with
  | false => rfl
  | true =>
    cases bestP with
    | none => rfl
    | some b => simp only [Bool.not_true, Bool.false_eq_true, if_false, Option.map_some, ← mapItems_sortAsc]; rfl

/-- **B2 (generator).** -/
theorem ckkGen_natural (k : Nat) (contents : Bool) (items : List α) (bound : Option Nat) (fuel : Nat) :
    ckkGen vβ nmβ k contents (items.map f) bound fuel
      = (ckkGen vα nmα k contents items bound fuel).map (List.map (Bins.mapItems f)) := by
  simp only [ckkGen, ckkInit_natural f vα vβ hf, ckkRun_natural f hinj nmα nmβ hnm]
  generalize ckkRun nmα k contents true bound.isNone fuel (ckkInit vα k items _) = s
  obtain ⟨stack, cnt, best, bestP, yields, done⟩ := s
  simp only [mapCkkState]
  cases done with
  | false => rfl
  | true =>
    simp only [Bool.not_true, Bool.false_eq_true, if_false]
    show Except.ok _ = Except.ok (List.map (Bins.mapItems f) yields.reverse)
    rw [List.map_reverse]

end CKK

/-- test input: names with a value function … -/
def exNames : List Char := ['a', 'b', 'c', 'd', 'e', 'f']
def exVal (c : Char) : Nat := if c = 'b' then 7 else if c = 'd' then 2 else if c = 'e' then 5 else 4
/-- … and the same items as dict entries `(value, name)`; `entry` is injective -/
def entry (c : Char) : Nat × Char := (exVal c, c)

example : exNames.map entry = exItems := by decide

example : ckk Prod.fst (fun p => p.2.toNat) 3 true (exNames.map entry) 1000
    = (ckk exVal Char.toNat 3 true exNames 1000).map (Bins.mapItems entry) :=
  ckk_natural entry (fun _ _ h => congrArg Prod.snd h) Char.toNat (fun p => p.2.toNat) (fun _ => rfl)
    exVal Prod.fst (fun _ => rfl) 3 true exNames 1000
example : (ckk exVal Char.toNat 3 true exNames 1000).map (·.lists)
    = .ok [['a', 'f'], ['b', 'd'], ['c', 'e']] := by rfl
example : ckkGen Prod.fst (fun p => p.2.toNat) 3 true (exNames.map entry) (some 3) 1000
    = (ckkGen exVal Char.toNat 3 true exNames (some 3) 1000).map (List.map (Bins.mapItems entry)) :=
  ckkGen_natural entry (fun _ _ h => congrArg Prod.snd h) Char.toNat (fun p => p.2.toNat) (fun _ => rfl)
    exVal Prod.fst (fun _ => rfl) 3 true exNames (some 3) 1000

/-- **injectivity is necessary**: replacing the named items `(1,a), (1,b), (2,c), (2,d)` by their bare values
    (values and sort keys are preserved) makes the content de-duplication merge more candidates: the generator
    yields 5 partitions of the values but 7 of the named items -/
example : (ckkGen id id 2 true ([(1, 'a'), (1, 'b'), (2, 'c'), (2, 'd')].map Prod.fst) (some 5) 1000).map List.length
    = .ok 5 := by rfl
example : (ckkGen Prod.fst Prod.fst 2 true [(1, 'a'), (1, 'b'), (2, 'c'), (2, 'd')] (some 5) 1000).map List.length
    = .ok 7 := by rfl

/-! ## B3. Sequential and recursive number partitioning -/

theorem map_ok {ε σ τ : Type} (g : σ → τ) (a : σ) : (Except.ok a : Except ε σ).map g = .ok (g a) := rfl

theorem map_error {ε σ τ : Type} (g : σ → τ) (e : ε) : (Except.error e : Except ε σ).map g = .error e := rfl

section SNP
variable (f : α → β) (vα : α → Nat) (vβ : β → Nat) (hf : ∀ a, vβ (f a) = vα a)

section Trees
include hf

theorem inexPrune_natural (den : Nat) (lb ub : Int) (cur rest : List α) :
    inexPrune vβ den lb ub (cur.map f) (rest.map f) = inexPrune vα den lb ub cur rest := by
  simp only [inexPrune, binSum_map f vα vβ hf]

theorem genTreeAux_natural (den : Nat) (lb ub : Int) (cur rest : List α) :
    genTreeAux vβ den lb ub (cur.map f) (rest.map f)
      = (genTreeAux vα den lb ub cur rest).map (List.map f) := by
  induction rest generalizing cur with
  | nil =>
    have := inexPrune_natural f vα vβ hf den lb ub cur []
    simp only [List.map_nil] at this
    simp only [List.map_nil, genTreeAux, this]
    split <;> rfl
  | cons x xs ih =>
    have := inexPrune_natural f vα vβ hf den lb ub cur (x :: xs)
    simp only [List.map_cons] at this
    simp only [List.map_cons, genTreeAux, this]
    split
    · rfl
    · have happ : cur.map f ++ [f x] = (cur ++ [x]).map f := by
        simp only [List.map_append, List.map_cons, List.map_nil]
      rw [happ, ih, ih, List.map_append]

theorem genTree_natural (den : Nat) (lb ub : Int) (items : List α) :
    genTree vβ den lb ub (items.map f) = (genTree vα den lb ub items).map (List.map f) := by
  unfold genTree
  rw [sortDesc_map f vα vβ hf]
  exact genTreeAux_natural f vα vβ hf den lb ub [] _

/-- the in/ex-tree fold is natural as soon as its lower-bound reader and its body are -/
theorem treeFold_natural {σ τ : Type} (g : σ → τ) (den : Nat) (ub : Int) (lbOf : σ → Int) (lbOf' : τ → Int)
    (body : σ → List α → Except Err σ) (body' : τ → List β → Except Err τ)
    (hlb : ∀ s, lbOf' (g s) = lbOf s)
    (hbody : ∀ s cur, body' (g s) (cur.map f) = (body s cur).map g)
    (st : σ) (cur rest : List α) :
    treeFold vβ den ub lbOf' body' (g st) (cur.map f) (rest.map f)
      = (treeFold vα den ub lbOf body st cur rest).map g := by
  induction rest generalizing st cur with
  | nil =>
    have := inexPrune_natural f vα vβ hf den (lbOf st) ub cur []
    simp only [List.map_nil] at this
    simp only [List.map_nil, treeFold, hlb, this]
    split
    · rfl
    · exact hbody st cur
  | cons x xs ih =>
    have := inexPrune_natural f vα vβ hf den (lbOf st) ub cur (x :: xs)
    simp only [List.map_cons] at this
    simp only [List.map_cons, treeFold, hlb, this]
    split
    · rfl
    · have happ : cur.map f ++ [f x] = (cur ++ [x]).map f := by
        simp only [List.map_append, List.map_cons, List.map_nil]
      rw [happ, ih]
      cases treeFold vα den ub lbOf body st (cur ++ [x]) xs with
      | error e => rfl
      | ok st1 => exact ih st1 cur

end Trees

theorem foldE_natural {σ τ γ δ : Type} (g : σ → τ) (h : γ → δ) (F : σ → γ → Except Err σ)
    (F' : τ → δ → Except Err τ) (hF : ∀ s x, F' (g s) (h x) = (F s x).map g) (s : σ) (l : List γ) :
    foldE F' (g s) (l.map h) = (foldE F s l).map g := by
  induction l generalizing s with
  | nil => rfl
  | cons x xs ih =>
    simp only [List.map_cons, foldE, hF]
    cases F s x with
    | error e => rfl
    | ok s' => exact ih s'

variable [BEq α] [LawfulBEq α] [BEq β] [LawfulBEq β] (hinj : ∀ a b, f a = f b → a = b)

section Erase
include hinj

theorem erase_map (l : List α) (x : α) : (l.map f).erase (f x) = (l.erase x).map f := by
  induction l with
  | nil => rfl
  | cons y ys ih =>
    have : (f y == f x) = (y == x) := by
      rw [Bool.eq_iff_iff, beq_iff_eq, beq_iff_eq]
      exact ⟨hinj _ _, congrArg f⟩
    simp only [List.map_cons, List.erase_cons, this]
    split
    · rfl
    · rw [List.map_cons, ih]

/-- `find_diff` erases by `==`: injectivity again -/
theorem findDiff_natural (items sub : List α) :
    findDiff (items.map f) (sub.map f) = (findDiff items sub).map f := by
  unfold findDiff
  induction sub generalizing items with
  | nil => rfl
  | cons x xs ih => simp only [List.map_cons, List.foldl_cons, erase_map f hinj, ih]

end Erase

/- `ckk2_natural`, `snpRec_natural`, **`snp_natural`**, `rnpRec_natural`, `rnp_natural` (B3) and their examples are
   in PrtpyProofs/CKKFSwitch.lean (same namespace, same names and argument order): since fix F11 `snp` and `rnp`
   call `ckkF`, whose naturality (`CKKF.ckkF_natural`) is proved in PrtpyProofs/CKKF.lean, which imports this file. -/

end SNP

end Prtpy.Natural2

/-
Axiom audit (`#print axioms`, observed):
#print axioms Prtpy.Natural2.dp_natural          -- [propext, Quot.sound]
#print axioms Prtpy.Natural2.dp_sums_values      -- [propext, Quot.sound]
#print axioms Prtpy.Natural2.cg_sums_values      -- [propext, Quot.sound]
#print axioms Prtpy.Natural2.cbldm_sums_values   -- [propext, Quot.sound]
#print axioms Prtpy.Natural2.ckk_natural         -- [propext, Quot.sound]
#print axioms Prtpy.Natural2.ckkGen_natural      -- [propext, Quot.sound]
-/
