/-
  PrtpyProofs.BCNamed — bin completion on named items (after fix F15): `BC.binCompletionNamed v B items fuel` runs the
  search of `BC.binCompletion` on the VALUES `items.map v` and puts the items back into the bins value by value
  (`BC.relabel`).  Proved here, for an arbitrary item type `α` and value function `v : α → Nat`:

  * `relabel_values`, `relabel_perm`  — putting the items back keeps the values of every bin and uses every item once;
  * `bcNamed_values`                  — the values of the named answer are exactly the answer for the bare values;
  * `bcNamed_isPacking`               — C03 (`IsPacking v B`) for the named answer (no hypothesis on `B`);
  * `bcNamed_error_iff`, `bcNamed_error_iff_oversize` — refusal exactly for an oversize item (C19);
  * `bcNamed_list`                    — for list input (`v = id`) nothing changes;
  * `bcNamed_length`, `bcNamed_sums`, `bcNamed_bounds`, `bcNamed_optimal` — transport of C04 / C07 to named items.
-/
import Prtpy
import PrtpyProofs.BCProofs

namespace Prtpy.BCNamed
open Prtpy

/-- decidable equality on results, for the non-vacuity examples (kept local to this file) -/
@[instance_reducible] def decEqResult {β : Type} [DecidableEq β] : DecidableEq (Except Err β)
  | .ok a, .ok b => if h : a = b then isTrue (by rw [h]) else isFalse (fun h' => h (Except.ok.inj h'))
  | .error a, .error b =>
    if h : a = b then isTrue (by rw [h]) else isFalse (fun h' => h (Except.error.inj h'))
  | .ok _, .error _ => isFalse (fun h => by cases h)
  | .error _, .ok _ => isFalse (fun h => by cases h)

attribute [local instance] decEqResult

variable {α : Type}

/-! ### 0. `takeValue` and `relabelBin` -/

/-- `takeValue` finds an item of value `x` whenever there is one, and removes exactly that item -/
theorem takeValue_spec (v : α → Nat) (x : Nat) : ∀ (l : List α), x ∈ l.map v →
    ∃ a l', BC.takeValue v x l = some (a, l') ∧ v a = x ∧ (a :: l').Perm l
  | [], h => by simp at h
  | b :: l, h => by
    by_cases hb : v b = x
    · exact ⟨b, l, by simp [BC.takeValue, hb], hb, List.Perm.refl _⟩
    · have hx : x ∈ l.map v := by
        rw [List.map_cons, List.mem_cons] at h
        rcases h with h | h
        · exact absurd h.symm hb
        · exact h
      obtain ⟨a, l', h1, h2, h3⟩ := takeValue_spec v x l hx
      refine ⟨a, b :: l', by simp [BC.takeValue, hb, h1], h2, ?_⟩
      exact (List.Perm.swap b a l').trans (h3.cons b)

/-- one bin: if the values of the bin are available among the remaining items, the items chosen have exactly these values
    (in this order), and chosen ++ remaining is a rearrangement of what was there -/
theorem relabelBin_spec (v : α → Nat) : ∀ (b : List Nat) (rest : List α), List.Subperm b (rest.map v) →
    (BC.relabelBin v b rest).1.map v = b ∧
      ((BC.relabelBin v b rest).1 ++ (BC.relabelBin v b rest).2).Perm rest
  | [], rest, _ => by simp [BC.relabelBin]
  | x :: xs, rest, h => by
    have hx : x ∈ rest.map v := h.subset (List.mem_cons_self ..)
    obtain ⟨a, rest', h1, h2, h3⟩ := takeValue_spec v x rest hx
    have hsub : List.Subperm xs (rest'.map v) := by
      have hp : (x :: rest'.map v).Perm (rest.map v) := by
        have := h3.map v
        rwa [List.map_cons, h2] at this
      have : List.Subperm (x :: xs) (x :: rest'.map v) := h.trans hp.symm.subperm
      exact (List.subperm_cons x).1 this
    obtain ⟨ih1, ih2⟩ := relabelBin_spec v xs rest' hsub
    simp only [BC.relabelBin, h1]
    refine ⟨by rw [List.map_cons, h2, ih1], ?_⟩
    exact ((ih2.cons a)).trans h3

/-! ### 1. `relabel` keeps the values and uses every item exactly once -/

theorem relabel_spec (v : α → Nat) : ∀ (bins : List (List Nat)) (items : List α),
    bins.flatten.Perm (items.map v) →
    (BC.relabel v bins items).map (fun l => l.map v) = bins ∧ (BC.relabel v bins items).flatten.Perm items
  | [], items, h => by
    have : items = [] := by
      have := h.length_eq
      simpa using this.symm
    subst this
    simp [BC.relabel]
  | b :: bs, items, h => by
    rw [List.flatten_cons] at h
    have hsub : List.Subperm b (items.map v) :=
      (List.sublist_append_left b bs.flatten).subperm.trans h.subperm
    obtain ⟨h1, h2⟩ := relabelBin_spec v b items hsub
    have hrest : bs.flatten.Perm ((BC.relabelBin v b items).2.map v) := by
      have hp := (h2.map v).symm
      rw [List.map_append, h1] at hp
      exact (List.perm_append_left_iff b).1 (h.trans hp)
    obtain ⟨ih1, ih2⟩ := relabel_spec v bs _ hrest
    simp only [BC.relabel, List.map_cons, List.flatten_cons]
    refine ⟨by rw [h1, ih1], ?_⟩
    exact (ih2.append_left _).trans h2

/-- the values in the relabelled bins are exactly the given bins of values -/
theorem relabel_values (v : α → Nat) (bins : List (List Nat)) (items : List α)
    (h : bins.flatten.Perm (items.map v)) :
    (BC.relabel v bins items).map (fun l => l.map v) = bins := (relabel_spec v bins items h).1

/-- every item is used exactly once -/
theorem relabel_perm (v : α → Nat) (bins : List (List Nat)) (items : List α)
    (h : bins.flatten.Perm (items.map v)) :
    (BC.relabel v bins items).flatten.Perm items := (relabel_spec v bins items h).2

/-- same number of bins -/
theorem relabel_length (v : α → Nat) : ∀ (bins : List (List Nat)) (items : List α),
    (BC.relabel v bins items).length = bins.length
  | [], _ => rfl
  | b :: bs, items => by simp [BC.relabel, relabel_length v bs]

example : BC.relabel Prod.snd [[9, 1], [9], [9]] [(0, 9), (1, 9), (2, 9), (3, 1)]
    = [[(0, 9), (3, 1)], [(1, 9)], [(2, 9)]] := by decide
example : (BC.relabel Prod.snd [[9, 1], [9], [9]] [(0, 9), (1, 9), (2, 9), (3, 1)]).map (fun l => l.map Prod.snd)
    = [[9, 1], [9], [9]] :=
  relabel_values Prod.snd _ _ (by decide)
example : (BC.relabel Prod.snd [[9, 1], [9], [9]] [(0, 9), (1, 9), (2, 9), (3, 1)]).flatten.Perm
    [(0, 9), (1, 9), (2, 9), (3, 1)] :=
  relabel_perm Prod.snd _ _ (by decide)

/-! ### 2. the values of the named answer = the answer for the bare values -/

/-- `BCProofs.bc_isPacking` without the (unused) hypothesis `0 < B` -/
theorem bc_isPacking' {B : Nat} {items : List Nat} {fuel : Nat} {bins : List (List Nat)}
    (h : BC.binCompletion B items fuel = .ok bins) :
    bins.flatten.Perm (items.filter (· != 0)) ∧ (∀ bin ∈ bins, sumL bin ≤ B) ∧
      (items.filter (· != 0) ≠ [] → ∀ bin ∈ bins, bin ≠ []) := by
  have hall : ∀ x ∈ items.filter (· != 0), x ≤ B :=
    fun x hx => BCProofs.bc_ok_all_le h x (List.mem_filter.1 hx).1
  obtain ⟨bfd, hbfd, hc⟩ := BCProofs.bc_ok_cases h
  obtain ⟨h1, h2, h3, h4⟩ := Fit.bfDecreasing_ok_isPacking hbfd
  have hbest : BCProofs.IsArrangement B (items.filter (· != 0)) bfd.lists := by
    refine ⟨h1, ?_, h4⟩
    intro bin hbin
    have := h3 (binSum id bin) (by rw [h2]; exact List.mem_map_of_mem hbin)
    rwa [BCProofs.binSum_id] at this
  rcases hc with ⟨_, rfl⟩ | ⟨_, rfl⟩
  · exact hbest
  · exact BCProofs.bc_search_isPacking hall _ fuel _ _
      (by intro b hb; rw [List.mem_singleton] at hb; subst hb; exact BCProofs.inv_init B _) hbest

theorem filter_map_values (v : α → Nat) (items : List α) :
    (items.map v).filter (· != 0) = (items.filter fun a => v a != 0).map v := by
  rw [List.filter_map]; rfl

/-- unfolding of a successful named run -/
theorem bcNamed_ok_cases {v : α → Nat} {B : Nat} {items : List α} {fuel : Nat} {bs : List (List α)}
    (h : BC.binCompletionNamed v B items fuel = .ok bs) :
    ∃ bins, BC.binCompletion B (items.map v) fuel = .ok bins ∧
      bs = BC.relabel v bins (items.filter fun a => v a != 0) ∧
      bins.flatten.Perm ((items.filter fun a => v a != 0).map v) := by
  unfold BC.binCompletionNamed at h
  cases hb : BC.binCompletion B (items.map v) fuel with
  | error e => rw [hb] at h; cases h
  | ok bins =>
    rw [hb] at h
    refine ⟨bins, rfl, (Except.ok.inj h).symm, ?_⟩
    rw [← filter_map_values]
    exact (bc_isPacking' hb).1

/-- the values in the named answer are exactly the answer for the bare values (same sums, same number of bins) -/
theorem bcNamed_values {v : α → Nat} {B : Nat} {items : List α} {fuel : Nat} {bs : List (List α)}
    (h : BC.binCompletionNamed v B items fuel = .ok bs) :
    BC.binCompletion B (items.map v) fuel = .ok (bs.map fun l => l.map v) := by
  obtain ⟨bins, hb, rfl, hp⟩ := bcNamed_ok_cases h
  rw [relabel_values v bins _ hp]; exact hb

/-- conversely: a successful run on the values gives a successful named run with these values -/
theorem bcNamed_of_values {v : α → Nat} {B : Nat} {items : List α} {fuel : Nat} {bins : List (List Nat)}
    (h : BC.binCompletion B (items.map v) fuel = .ok bins) :
    ∃ bs, BC.binCompletionNamed v B items fuel = .ok bs ∧ (bs.map fun l => l.map v) = bins := by
  refine ⟨BC.relabel v bins (items.filter fun a => v a != 0), by simp [BC.binCompletionNamed, h], ?_⟩
  apply relabel_values
  rw [← filter_map_values]
  exact (bc_isPacking' h).1

/-- same number of bins -/
theorem bcNamed_length {v : α → Nat} {B : Nat} {items : List α} {fuel : Nat} {bs : List (List α)}
    (h : BC.binCompletionNamed v B items fuel = .ok bs) :
    ∃ bins, BC.binCompletion B (items.map v) fuel = .ok bins ∧ bins.length = bs.length :=
  ⟨_, bcNamed_values h, by simp⟩

/-- same sums, bin by bin -/
theorem bcNamed_sums {v : α → Nat} {B : Nat} {items : List α} {fuel : Nat} {bs : List (List α)}
    (h : BC.binCompletionNamed v B items fuel = .ok bs) :
    ∃ bins, BC.binCompletion B (items.map v) fuel = .ok bins ∧ bins.map sumL = bs.map (binSum v) :=
  ⟨_, bcNamed_values h, by simp [List.map_map, binSum, Function.comp_def]⟩

example : BC.binCompletionNamed Prod.snd 10 [(0, 9), (1, 9), (2, 9), (3, 1)] 100
    = .ok [[(0, 9), (3, 1)], [(1, 9)], [(2, 9)]] := by decide +kernel
example : BC.binCompletion 10 ([(0, 9), (1, 9), (2, 9), (3, 1)].map Prod.snd) 100
    = .ok ([[(0, 9), (3, 1)], [(1, 9)], [(2, 9)]].map fun l => l.map Prod.snd) :=
  bcNamed_values (by decide +kernel)
example : ∃ bs, BC.binCompletionNamed Prod.snd 10 [(0, 9), (1, 9), (2, 9), (3, 1)] 100 = .ok bs ∧
    (bs.map fun l => l.map Prod.snd) = [[9, 1], [9], [9]] :=
  bcNamed_of_values (by decide +kernel)
example : ∃ bins, BC.binCompletion 10 ([(0, 9), (1, 9), (2, 9), (3, 1)].map Prod.snd) 100 = .ok bins ∧
    bins.length = ([[(0, 9), (3, 1)], [(1, 9)], [(2, 9)]] : List (List (Nat × Nat))).length :=
  bcNamed_length (by decide +kernel)
example : ∃ bins, BC.binCompletion 10 ([(0, 9), (1, 9), (2, 9), (3, 1)].map Prod.snd) 100 = .ok bins ∧
    bins.map sumL = ([[(0, 9), (3, 1)], [(1, 9)], [(2, 9)]] : List (List (Nat × Nat))).map (binSum Prod.snd) :=
  bcNamed_sums (by decide +kernel)

/-! ### 3. C03 for named items -/

/-- C03 for bin completion on named items: the result arranges the items of non-zero value into feasible, non-empty bins
    (`BCProofs.bc_isPacking` with `v` instead of `id`; no hypothesis on `B` is needed) -/
theorem bcNamed_isPacking {v : α → Nat} {B : Nat} {items : List α} {fuel : Nat} {bs : List (List α)}
    (h : BC.binCompletionNamed v B items fuel = .ok bs) :
    IsPacking v B (items.filter fun a => v a != 0) ⟨bs.map (binSum v), bs⟩ := by
  have hv := bcNamed_values h
  obtain ⟨_, hle, hne⟩ := bc_isPacking' hv
  obtain ⟨bins, _, rfl, hp⟩ := bcNamed_ok_cases h
  refine ⟨relabel_perm v bins _ hp, rfl, ?_, ?_⟩
  · intro s hs
    obtain ⟨l, hl, rfl⟩ := List.mem_map.1 hs
    exact hle (l.map v) (List.mem_map_of_mem (f := fun l => l.map v) hl)
  · intro hitems l hl hnil
    subst hnil
    refine hne ?_ _ (List.mem_map_of_mem (f := fun l => l.map v) hl) rfl
    rw [filter_map_values]
    intro hm
    exact hitems (List.map_eq_nil_iff.1 hm)

example : IsPacking Prod.snd 10 ([(0, 9), (1, 9), (4, 0), (2, 9), (3, 1)].filter fun a => a.2 != 0)
    ⟨[[(0, 9), (3, 1)], [(1, 9)], [(2, 9)]].map (binSum Prod.snd), [[(0, 9), (3, 1)], [(1, 9)], [(2, 9)]]⟩ :=
  bcNamed_isPacking (fuel := 100) (by decide +kernel)

/-! ### 4. refusal (C19) for named items -/

/-- the named run fails exactly when the run on the values fails (and with the same error) -/
theorem bcNamed_error_eq_iff {v : α → Nat} {B : Nat} {items : List α} {fuel : Nat} {e : Err} :
    BC.binCompletionNamed v B items fuel = .error e ↔ BC.binCompletion B (items.map v) fuel = .error e := by
  unfold BC.binCompletionNamed
  cases BC.binCompletion B (items.map v) fuel with
  | error e' => simp
  | ok bins => simp

theorem bcNamed_error_iff {v : α → Nat} {B : Nat} {items : List α} {fuel : Nat} :
    (∃ e, BC.binCompletionNamed v B items fuel = .error e) ↔
      (∃ e, BC.binCompletion B (items.map v) fuel = .error e) :=
  exists_congr fun _ => bcNamed_error_eq_iff

/-- bin completion on named items fails exactly when some item is larger than the bin size, and then with `ValueError` -/
theorem bcNamed_error_iff_oversize {v : α → Nat} {B : Nat} {items : List α} {fuel : Nat} {e : Err} :
    BC.binCompletionNamed v B items fuel = .error e ↔ (e = .valueError ∧ ∃ a ∈ items, B < v a) := by
  rw [bcNamed_error_eq_iff, BCProofs.bc_error_iff]
  constructor
  · rintro ⟨he, x, hx, hlt⟩
    obtain ⟨a, ha, rfl⟩ := List.mem_map.1 hx
    exact ⟨he, a, ha, hlt⟩
  · rintro ⟨he, a, ha, hlt⟩
    exact ⟨he, v a, List.mem_map_of_mem ha, hlt⟩

/-- the named run succeeds whenever no item exceeds the bin size -/
theorem bcNamed_ok_of_all_le {v : α → Nat} {B : Nat} {items : List α} (fuel : Nat) (h : ∀ a ∈ items, v a ≤ B) :
    ∃ bs, BC.binCompletionNamed v B items fuel = .ok bs := by
  cases hr : BC.binCompletionNamed v B items fuel with
  | ok bs => exact ⟨bs, rfl⟩
  | error e =>
    obtain ⟨_, a, ha, hlt⟩ := bcNamed_error_iff_oversize.1 hr
    exact absurd (h a ha) (by omega)

example : ∃ e, BC.binCompletion 10 ([(0, 9), (1, 11), (2, 9), (3, 1)].map Prod.snd) 100 = .error e :=
  bcNamed_error_iff.1 ⟨.valueError, by decide +kernel⟩
example : BC.binCompletionNamed Prod.snd 10 [(0, 9), (1, 11), (2, 9), (3, 1)] 100 = .error .valueError :=
  bcNamed_error_iff_oversize.2 ⟨rfl, (1, 11), by decide, by decide⟩
example : ∃ a ∈ [(0, 9), (1, 11), (2, 9), (3, 1)], 10 < a.2 :=
  (bcNamed_error_iff_oversize (v := Prod.snd) (fuel := 7) (e := .valueError)).1 (by decide +kernel) |>.2
example : ∃ bs, BC.binCompletionNamed Prod.snd 10 [(0, 9), (1, 9), (2, 9), (3, 1)] 100 = .ok bs :=
  bcNamed_ok_of_all_le 100 (by decide)

/-! ### 5. list input: nothing changes -/

theorem bcNamed_list {B : Nat} (items : List Nat) {fuel : Nat} :
    BC.binCompletionNamed id B items fuel = BC.binCompletion B items fuel := by
  unfold BC.binCompletionNamed
  rw [List.map_id]
  cases hb : BC.binCompletion B items fuel with
  | error e => rfl
  | ok bins =>
    dsimp only
    congr 1
    have hp : bins.flatten.Perm ((items.filter fun a => id a != 0).map id) := by
      rw [List.map_id]; exact (bc_isPacking' hb).1
    have := relabel_values id bins _ hp
    simpa using this

example : BC.binCompletionNamed id 20 [5, 10, 4, 10, 8, 6, 4, 10, 5, 4, 4, 10] 100
    = .ok [[10, 10], [10, 10], [8, 4, 4, 4], [6, 5, 5, 4]] := by
  rw [bcNamed_list]; decide +kernel

/-! ### 6. C04 / C07 for named items -/

/-- the named result is sandwiched like the result on the values: `⌈total/B⌉ ≤ optimum ≤ result ≤ BFD` -/
theorem bcNamed_bounds {v : α → Nat} {B : Nat} {items : List α} {fuel : Nat} {bs : List (List α)} (hB : 0 < B)
    (h : BC.binCompletionNamed v B items fuel = .ok bs) :
    ∃ m, optBins B ((items.filter fun a => v a != 0).map v) = some m ∧
      BC.lowerBound B (items.map v) ≤ m ∧ m ≤ bs.length ∧
      ∀ bfd, bfDecreasing id B ((items.filter fun a => v a != 0).map v) = .ok bfd → bs.length ≤ bfd.lists.length := by
  have := BCProofs.bc_bounds hB (bcNamed_values h)
  rw [filter_map_values] at this
  simpa using this

/-- **C04 for named items**: with enough fuel the named result has the minimum number of bins among all packings of the
    non-zero values -/
theorem bcNamed_optimal {v : α → Nat} {B : Nat} {items : List α} {fuel : Nat} {bs : List (List α)} (hB : 0 < B)
    (hfuel : BCProofs.enoughFuel (items.filter fun a => v a != 0).length ≤ fuel)
    (h : BC.binCompletionNamed v B items fuel = .ok bs) :
    optBins B ((items.filter fun a => v a != 0).map v) = some bs.length := by
  have := BCProofs.bc_optimal hB (fuel := fuel) (items := items.map v)
    (by rw [filter_map_values, List.length_map]; exact hfuel) (bcNamed_values h)
  rw [filter_map_values] at this
  simpa using this

example : optBins 10 (([(0, 9), (1, 9), (2, 9), (3, 1)].filter fun a => a.2 != 0).map Prod.snd) =
    some ([[(0, 9), (3, 1)], [(1, 9)], [(2, 9)]] : List (List (Nat × Nat))).length :=
  bcNamed_optimal (fuel := BCProofs.enoughFuel 4) (by decide) (by decide +kernel) (by decide +kernel)
example : ∃ m, optBins 10 (([(0, 9), (1, 9), (2, 9), (3, 1)].filter fun a => a.2 != 0).map Prod.snd) = some m ∧
    BC.lowerBound 10 ([(0, 9), (1, 9), (2, 9), (3, 1)].map Prod.snd) ≤ m ∧
    m ≤ ([[(0, 9), (3, 1)], [(1, 9)], [(2, 9)]] : List (List (Nat × Nat))).length := by
  obtain ⟨m, h1, h2, h3, _⟩ := bcNamed_bounds (v := Prod.snd) (B := 10) (items := [(0, 9), (1, 9), (2, 9), (3, 1)])
    (fuel := 100) (bs := [[(0, 9), (3, 1)], [(1, 9)], [(2, 9)]]) (by decide) (by decide +kernel)
  exact ⟨m, h1, h2, h3⟩

end Prtpy.BCNamed

/-
#print axioms (observed with `lake env lean`, Lean 4.33.0):

'Prtpy.BCNamed.relabel_values' depends on axioms: [propext, Quot.sound]
'Prtpy.BCNamed.relabel_perm' depends on axioms: [propext, Quot.sound]
'Prtpy.BCNamed.relabel_length' depends on axioms: [propext]
'Prtpy.BCNamed.bcNamed_values' depends on axioms: [propext, Classical.choice, Quot.sound]
'Prtpy.BCNamed.bcNamed_of_values' depends on axioms: [propext, Classical.choice, Quot.sound]
'Prtpy.BCNamed.bcNamed_length' depends on axioms: [propext, Classical.choice, Quot.sound]
'Prtpy.BCNamed.bcNamed_sums' depends on axioms: [propext, Classical.choice, Quot.sound]
'Prtpy.BCNamed.bcNamed_isPacking' depends on axioms: [propext, Classical.choice, Quot.sound]
'Prtpy.BCNamed.bcNamed_error_eq_iff' depends on axioms: [propext]
'Prtpy.BCNamed.bcNamed_error_iff' depends on axioms: [propext]
'Prtpy.BCNamed.bcNamed_error_iff_oversize' depends on axioms: [propext, Classical.choice, Quot.sound]
'Prtpy.BCNamed.bcNamed_ok_of_all_le' depends on axioms: [propext, Classical.choice, Quot.sound]
'Prtpy.BCNamed.bcNamed_list' depends on axioms: [propext, Classical.choice, Quot.sound]
'Prtpy.BCNamed.bcNamed_bounds' depends on axioms: [propext, Classical.choice, Quot.sound]
'Prtpy.BCNamed.bcNamed_optimal' depends on axioms: [propext, Classical.choice, Quot.sound]
-/
