/-
  PrtpyProofs.CGOptAux — auxiliary notions for the optimality proof of complete greedy (`PrtpyProofs.CGOpt`):
  * `Compl s ws t`: the sum-vector `t` is, up to a permutation, reachable from the bin sums `s` by distributing
    the values `ws` over the bins ("`t` is a completion of `s`");
  * the bounds a completion obeys (largest sum, smallest sum, admissible lower bound, fast lower bound);
  * the order `EInt.le`.
-/
import Prtpy
import PrtpyProofs.CGValid
import PrtpyProofs.Obj
import PrtpyProofs.Oracle
open Prtpy

namespace Prtpy.CGOpt

variable {α : Type}

/-! ## the order on `EInt` -/

theorem ele_refl (a : EInt) : EInt.le a a = true := by
  cases a <;> simp [EInt.le]

theorem ele_trans {a b c : EInt} (h1 : EInt.le a b = true) (h2 : EInt.le b c = true) :
    EInt.le a c = true := by
  cases a <;> cases b <;> cases c <;> simp_all [EInt.le] <;> omega

theorem ele_of_lt {a b : EInt} (h : EInt.lt a b = true) : EInt.le a b = true := by
  cases a <;> cases b <;> simp_all [EInt.le, EInt.lt] <;> omega

theorem ele_of_not_lt {a b : EInt} (h : EInt.lt a b = false) : EInt.le b a = true := by
  simpa [EInt.lt] using h

theorem ele_fin {a b : Int} : EInt.le (.fin a) (.fin b) = true ↔ a ≤ b := by
  simp [EInt.le]

theorem ele_negInf (a : EInt) : EInt.le .negInf a = true := by
  cases a <;> rfl

theorem ele_fin_mono {a : EInt} {x y : Int} (h : EInt.le a (.fin x) = true) (hxy : x ≤ y) :
    EInt.le a (.fin y) = true :=
  ele_trans h (ele_fin.2 hxy)

theorem not_posInf_le_fin (x : Int) : EInt.le .posInf (.fin x) = false := rfl

/-! ## small list facts -/

theorem sumL_modify_add (l : List Nat) (i w : Nat) (hi : i < l.length) :
    sumL (l.modify i (· + w)) = sumL l + w := by
  induction l generalizing i with
  | nil => simp at hi
  | cons a l ih =>
    cases i with
    | zero => simp only [List.modify_zero_cons, Obj.sumL_cons]; omega
    | succ i =>
      have := ih i (by simpa using hi)
      simp only [List.modify_succ_cons, Obj.sumL_cons, this]; omega

theorem zipWith_modify_add (s adds : List Nat) (i w : Nat) :
    List.zipWith (· + ·) (s.modify i (· + w)) adds = List.zipWith (· + ·) s (adds.modify i (· + w)) := by
  apply List.ext_getElem
  · simp
  · intro n h1 h2
    simp only [List.getElem_zipWith, List.getElem_modify]
    split <;> omega

theorem getElem_le_sumL (l : List Nat) (i : Nat) (hi : i < l.length) : l[i] ≤ sumL l := by
  induction l generalizing i with
  | nil => simp at hi
  | cons a l ih =>
    cases i with
    | zero => simp only [List.getElem_cons_zero, Obj.sumL_cons]; omega
    | succ i =>
      have := ih i (by simpa using hi)
      simp only [List.getElem_cons_succ, Obj.sumL_cons]; omega

theorem sumL_replicate_zero (k : Nat) : sumL (List.replicate k 0) = 0 := by
  induction k with
  | zero => rfl
  | succ k ih => simp only [List.replicate_succ, Obj.sumL_cons, ih]

theorem zipWith_add_replicate_zero (s : List Nat) :
    List.zipWith (· + ·) s (List.replicate s.length 0) = s := by
  induction s with
  | nil => rfl
  | cons a s ih => simp only [List.length_cons, List.replicate_succ, List.zipWith_cons_cons, ih, Nat.add_zero]

theorem minL_zipWith_le (s adds : List Nat) (h : adds.length = s.length) :
    minL (List.zipWith (· + ·) s adds) ≤ minL s + sumL adds := by
  by_cases hs : s = []
  · subst hs; simp
  · obtain ⟨j, hj, hje⟩ := List.mem_iff_getElem.1 (Obj.minL_mem hs)
    have hj' : j < (List.zipWith (· + ·) s adds).length := by
      rw [List.length_zipWith, h, Nat.min_self]; exact hj
    have h1 := Obj.minL_le (List.getElem_mem hj')
    rw [List.getElem_zipWith] at h1
    have h2 := getElem_le_sumL adds j (by omega)
    omega

/-! ## completions -/

/-- `Compl s ws t`: distributing the values `ws`, one after the other, over the bins with sums `s` can
    produce the sums `t`, up to the order of the bins. -/
inductive Compl : List Nat → List Nat → List Nat → Prop
  | nil {s t : List Nat} : t.Perm s → Compl s [] t
  | cons {s : List Nat} {w : Nat} {ws t : List Nat} (i : Nat) :
      i < s.length → Compl (s.modify i (· + w)) ws t → Compl s (w :: ws) t

theorem compl_nil_iff {s t : List Nat} : Compl s [] t ↔ t.Perm s :=
  ⟨fun h => by cases h; assumption, Compl.nil⟩

theorem compl_cons_iff {s t ws : List Nat} {w : Nat} :
    Compl s (w :: ws) t ↔ ∃ i, i < s.length ∧ Compl (s.modify i (· + w)) ws t :=
  ⟨fun h => by cases h with | cons i hi h => exact ⟨i, hi, h⟩, fun ⟨i, hi, h⟩ => Compl.cons i hi h⟩

theorem compl_self (s : List Nat) : Compl s [] s := Compl.nil (List.Perm.refl _)

/-- the start vector matters only up to the order of the bins -/
theorem compl_perm_left {s s' ws t : List Nat} (h : Compl s ws t) (hp : s.Perm s') : Compl s' ws t := by
  induction h generalizing s' with
  | nil ht => exact Compl.nil (ht.trans hp)
  | cons i hi _ ih =>
    obtain ⟨j, hj, hq⟩ := Oracle.perm_modify _ hp i hi
    exact Compl.cons j hj (ih hq)

theorem compl_perm_right {s ws t t' : List Nat} (h : Compl s ws t) (hp : t.Perm t') : Compl s ws t' := by
  induction h with
  | nil ht => exact Compl.nil (hp.symm.trans ht)
  | cons i hi _ ih => exact Compl.cons i hi (ih hp)

theorem compl_length {s ws t : List Nat} (h : Compl s ws t) : t.length = s.length := by
  induction h with
  | nil ht => exact ht.length_eq
  | cons i hi _ ih => simpa using ih

/-- a completion adds non-negative amounts, totalling `sumL ws`, to the bins -/
theorem compl_adds {s ws t : List Nat} (h : Compl s ws t) :
    ∃ adds : List Nat, adds.length = s.length ∧ sumL adds = sumL ws ∧
      t.Perm (List.zipWith (· + ·) s adds) := by
  induction h with
  | @nil s t ht =>
    exact ⟨List.replicate s.length 0, by simp, by simp [sumL_replicate_zero],
      by rw [zipWith_add_replicate_zero]; exact ht⟩
  | @cons s w ws t i hi _ ih =>
    obtain ⟨adds, h1, h2, h3⟩ := ih
    rw [List.length_modify] at h1
    refine ⟨adds.modify i (· + w), by simpa using h1, ?_, ?_⟩
    · rw [sumL_modify_add _ _ _ (by omega), h2, Obj.sumL_cons]; omega
    · rw [← zipWith_modify_add]; exact h3

theorem compl_maxL {s ws t : List Nat} (h : Compl s ws t) : maxL s ≤ maxL t := by
  obtain ⟨adds, h1, _, h3⟩ := compl_adds h
  rw [Obj.maxL_perm h3]
  exact Obj.maxL_le_maxL_zipWith h1

theorem compl_minL {s ws t : List Nat} (h : Compl s ws t) : minL t ≤ minL s + sumL ws := by
  obtain ⟨adds, h1, h2, h3⟩ := compl_adds h
  rw [Obj.minL_perm h3, ← h2]
  exact minL_zipWith_le s adds h1

/-- every assignment produces a completion -/
theorem compl_sumsFrom (s ws asg : List Nat) (hl : asg.length = ws.length) (hb : ∀ a ∈ asg, a < s.length) :
    Compl s ws (Oracle.sumsFrom s ws asg) := by
  induction ws generalizing s asg with
  | nil => simpa using compl_self s
  | cons w ws ih =>
    cases asg with
    | nil => simp at hl
    | cons i asg =>
      rw [Oracle.sumsFrom_cons]
      refine Compl.cons i (hb i (by simp)) (ih _ asg (by simpa using hl) ?_)
      intro a ha
      rw [List.length_modify]
      exact hb a (List.mem_cons_of_mem _ ha)

theorem compl_sumsOf {k : Nat} {ws asg : List Nat} (h : IsAssignment k ws.length asg) :
    Compl (List.replicate k 0) ws (sumsOf k ws asg) := by
  rw [Oracle.sumsOf_eq]
  exact compl_sumsFrom _ _ _ h.1 (by simpa using h.2)

/-- admissible lower bounds bound every completion -/
theorem compl_lb (o : Objective) {s ws t : List Nat} (h : Compl s ws t) (hs : s ≠ []) (flag : Bool) :
    EInt.le (o.lowerBound s (sumL ws) flag) (.fin (o.value t false)) = true := by
  obtain ⟨adds, h1, h2, h3⟩ := compl_adds h
  rw [Obj.value_perm h3]
  exact Obj.lb_admissible_gen o h1 h2 hs flag

/-- the fast lower bound, computed before the child `cs.modify b (· + x)` is created, bounds every completion
    of that child (no sortedness of `cs` is needed) -/
theorem cgFast_sound (o : Objective) {k : Nat} {cs rest t : List Nat} {b x : Nat} (hk : cs.length = k)
    (hb : b < k) (h : Compl (cs.modify b (· + x)) rest t) :
    EInt.le (cgFast o k cs b x (sumL rest)) (.fin (o.value t false)) = true := by
  have hb' : b < cs.length := by omega
  have hmemb : cs.getD b 0 + x ∈ cs.modify b (· + x) := by
    refine List.mem_iff_getElem.2 ⟨b, by simpa using hb', ?_⟩
    simp [List.getElem_modify, List.getD_eq_getElem?_getD, hb']
  cases o with
  | maxKSmallest j => rfl
  | minKLargest j => rfl
  | minDiff => rfl
  | minLargest =>
    simp only [cgFast, Objective.value, Bool.false_eq_true, if_false, ele_fin]
    have h1 := compl_maxL (Compl.cons b hb' h)
    have h2 := Obj.lastD_le_maxL cs
    have h3 := compl_maxL h
    have h4 := Obj.le_maxL hmemb
    omega
  | maxSmallest =>
    simp only [cgFast, Objective.value, Bool.false_eq_true, if_false, ele_fin]
    have h1 := compl_minL h
    have h0 : 0 < (cs.modify b (· + x)).length := by simpa using (by omega : 0 < cs.length)
    have hm0 : (cs.modify b (· + x))[0] ∈ cs.modify b (· + x) := List.getElem_mem h0
    have hle0 := Obj.minL_le hm0
    have hleb := Obj.minL_le hmemb
    simp only [List.getElem_modify] at hle0
    have hg0 : cs.getD 0 0 = cs[0] := by simp [List.getD_eq_getElem?_getD, (by omega : 0 < cs.length)]
    by_cases hb0 : b = 0
    · subst hb0
      simp only [if_true] at hle0 ⊢
      by_cases hk1 : k = 1
      · simp only [hk1, if_true]; omega
      · simp only [hk1, if_false]
        have h1' : 1 < (cs.modify 0 (· + x)).length := by simp; omega
        have hle1 := Obj.minL_le (List.getElem_mem h1')
        simp only [List.getElem_modify] at hle1
        have hg1 : cs.getD 1 0 = cs[1]'(by omega) := by
          simp [List.getD_eq_getElem?_getD, (by omega : 1 < cs.length)]
        simp at hle1
        omega
    · have : ¬ (b = 0) := hb0
      simp only [hb0, if_false] at hle0 ⊢
      omega

end Prtpy.CGOpt
